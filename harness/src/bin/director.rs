//! director <script>...   writes <script>.obs (observed views) and <script>.mon (monitor failures)
use rsv_harness::{run_script, script};
fn main() {
    let args: Vec<String> = std::env::args().skip(1).collect();
    for f in args {
        let text = std::fs::read_to_string(&f).expect("read script");
        let acts = script::parse(&text);
        let erased = text.lines().any(|l| l.trim() == "mode erased");
        rsv_harness::ERASED.store(erased, std::sync::atomic::Ordering::Relaxed);
        let realtime = text.lines().any(|l| l.trim() == "mode realtime");
        rsv_harness::REALTIME.store(realtime, std::sync::atomic::Ordering::Relaxed);
        // a crash of the harness itself on one script must not take the others down
        let r = std::panic::catch_unwind(|| run_script(&acts));
        match r {
            Ok((obs, mon)) => {
                std::fs::write(format!("{f}.obs"), obs).unwrap();
                std::fs::write(format!("{f}.mon"), mon.join("\n")).unwrap();
            }
            Err(_) => {
                std::fs::write(format!("{f}.obs"), "R 1\nCRASH the harness or the library panicked outside an actor task\nE\n").unwrap();
                std::fs::write(format!("{f}.mon"), "CRASH director panicked on this script").unwrap();
            }
        }
    }
}
