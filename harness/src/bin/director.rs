//! director <script>...   writes <script>.obs (observed views) and <script>.mon (monitor failures)
use rsv_harness::{run_script, script};
fn main() {
    let args: Vec<String> = std::env::args().skip(1).collect();
    for f in args {
        let text = std::fs::read_to_string(&f).expect("read script");
        let acts = script::parse(&text);
        let (obs, mon) = run_script(&acts);
        std::fs::write(format!("{f}.obs"), obs).unwrap();
        std::fs::write(format!("{f}.mon"), mon.join("\n")).unwrap();
    }
}
