//! metrics_probe <seed> <n>: real-time scenarios for the metrics feature (C20).  Handlers take a
//! measured amount of wall-clock time; afterwards counts are compared exactly and durations by
//! inequality.  Prints one line per scenario: `ok ...` or `FAIL ...`.
#[cfg(feature = "f-metrics")]
mod probe {
    use rsactor::{Actor, ActorRef, ActorWeak, Message};
    use std::sync::{Arc, Mutex};
    use std::time::{Duration, Instant};

    #[derive(Default)]
    pub struct Log {
        pub entered: u64,
        pub own_max: Duration,
    }
    pub struct W {
        log: Arc<Mutex<Log>>,
    }
    pub struct Work {
        pub ms: u64,
        pub panic: bool,
    }
    impl Actor for W {
        type Args = Arc<Mutex<Log>>;
        type Error = String;
        async fn on_start(a: Self::Args, _r: &ActorRef<Self>) -> Result<Self, String> {
            Ok(W { log: a })
        }
        async fn on_stop(&mut self, _w: &ActorWeak<Self>, _k: bool) -> Result<(), String> {
            Ok(())
        }
    }
    impl Message<Work> for W {
        type Reply = u64;
        async fn handle(&mut self, m: Work, _r: &ActorRef<Self>) -> u64 {
            let t0 = Instant::now();
            self.log.lock().unwrap().entered += 1;
            std::thread::sleep(Duration::from_millis(m.ms));
            let el = t0.elapsed();
            {
                let mut l = self.log.lock().unwrap();
                if el > l.own_max {
                    l.own_max = el;
                }
            }
            if m.panic {
                panic!("scripted");
            }
            m.ms
        }
    }

    fn lcg(s: &mut u64) -> u64 {
        *s = s.wrapping_mul(6364136223846793005).wrapping_add(1442695040888963407);
        *s >> 33
    }

    pub fn run(seed: u64, n: usize) {
        std::panic::set_hook(Box::new(|_| {}));
        let mut st = seed;
        for sc in 0..n {
            let rt = tokio::runtime::Builder::new_current_thread().enable_time().build().unwrap();
            let line = rt.block_on(async {
                let log = Arc::new(Mutex::new(Log::default()));
                let cap = 1 + (lcg(&mut st) % 4) as usize;
                let (r, j) = rsactor::spawn_with_mailbox_capacity::<W>(log.clone(), cap);
                let weak = ActorRef::downgrade(&r);
                let k = 1 + lcg(&mut st) % 6;
                let ending = lcg(&mut st) % 4; // 0 stop, 1 kill, 2 panic, 3 drop
                let mut fails = vec![];
                let mut last = 0u64;
                for i in 0..k {
                    // one handler of the first scenario takes more than a second (the collector's
                    // arithmetic must not lose whole seconds)
                    let ms0 = 1 + lcg(&mut st) % 5;
                    let ms = if sc == 0 && i == 0 { 1100 } else { ms0 };
                    let is_last = i == k - 1;
                    let panic = is_last && ending == 2;
                    if lcg(&mut st) % 2 == 0 {
                        let _ = r.tell(Work { ms, panic }).await;
                    } else {
                        let _ = r.ask(Work { ms, panic }).await;
                    }
                    let c = r.message_count();
                    if c < last {
                        fails.push(format!("count decreased {last}->{c}"));
                    }
                    last = c;
                }
                // a queued stop marker / leftovers must not count
                match ending {
                    0 => {
                        let _ = r.stop().await;
                    }
                    1 => {
                        let _ = r.tell(Work { ms: 1, panic: false }).await; // may be left unhandled
                        let _ = r.kill();
                    }
                    _ => {}
                }
                let keep = r.clone();
                if ending == 3 {
                    drop(r);
                } else {
                    drop(r);
                }
                // the actor only ends by refs-gone if no strong ref is left: for endings 2/3 let it end
                let res = if ending == 3 {
                    drop(keep);
                    let res = j.await;
                    // metrics through a weak handle are gone with the last strong ref; re-spawn not needed
                    let l = log.lock().unwrap();
                    return format!("ok sc={sc} ending=drop entered={} (no handle left to read)", l.entered) + if res.is_ok() { "" } else { " joinerr" };
                } else {
                    j.await
                };
                let _ = res;
                let l = log.lock().unwrap();
                let up = weak.upgrade();
                let handles: Vec<(&str, ActorRef<W>)> = match up {
                    Some(u) => vec![("strong", keep.clone()), ("upgraded", u)],
                    None => {
                        fails.push("upgrade failed although a strong handle is held".into());
                        vec![("strong", keep.clone())]
                    }
                };
                for (name, h) in handles.iter() {
                    let c = h.message_count();
                    if c != l.entered {
                        fails.push(format!("{name}: message_count={c} but {} handlers were entered", l.entered));
                    }
                    let mx = h.max_processing_time();
                    let av = h.avg_processing_time();
                    if c > 0 && av > mx {
                        fails.push(format!("{name}: avg {av:?} > max {mx:?}"));
                    }
                    if mx < l.own_max {
                        fails.push(format!("{name}: max {mx:?} < longest handler {:?}", l.own_max));
                    }
                    let s = h.metrics();
                    if s.message_count != c || s.max_processing_time != mx || s.avg_processing_time != av || s.error_count != h.error_count() {
                        fails.push(format!("{name}: snapshot disagrees with accessors"));
                    }
                }
                if fails.is_empty() {
                    format!("ok sc={sc} ending={ending} entered={} count={}", l.entered, keep.message_count())
                } else {
                    format!("FAIL sc={sc} ending={ending} {}", fails.join("; "))
                }
            });
            println!("{line}");
        }
    }
}

fn main() {
    #[cfg(feature = "f-metrics")]
    {
        let a: Vec<String> = std::env::args().collect();
        let seed: u64 = a.get(1).and_then(|s| s.parse().ok()).unwrap_or(1);
        let n: usize = a.get(2).and_then(|s| s.parse().ok()).unwrap_or(20);
        probe::run(seed, n);
    }
    #[cfg(not(feature = "f-metrics"))]
    println!("metrics feature not enabled");
}
