//! Exhaustive enumeration of ActorResult shapes: prints every query method / conversion.
use rsactor::{ActorResult, FailurePhase};
use rsv_harness::{Shared, Tagged, SA};

fn mk(completed: bool, has_actor: bool, phase: FailurePhase, killed: bool) -> ActorResult<SA> {
    let actor = SA { idx: 0, sh: Shared::new(), st: vec!["S".into(), "H1".into()] };
    if completed {
        ActorResult::Completed { actor, killed }
    } else {
        ActorResult::Failed { actor: if has_actor { Some(actor) } else { None }, error: Tagged(7), phase, killed }
    }
}
fn st(a: Option<&SA>) -> String {
    a.map(|a| a.st.join(".")).unwrap_or_else(|| "none".into())
}
fn er(e: Option<&Tagged>) -> String {
    e.map(|e| e.0.to_string()).unwrap_or_else(|| "none".into())
}
fn b(v: bool) -> u8 {
    v as u8
}
fn line(completed: bool, has_actor: bool, phase: FailurePhase, killed: bool) {
    let m = || mk(completed, has_actor, phase, killed);
    let r = m();
    let shape = if completed {
        format!("completed:k{}", b(killed))
    } else {
        format!("failed:{}:{}:k{}", if has_actor { "some" } else { "none" }, phase, b(killed))
    };
    let to_result = match m().to_result() {
        Ok(a) => format!("ok:{}", st(Some(&a))),
        Err(e) => format!("err:{}", e.0),
    };
    let (ta, te): (Option<SA>, Option<Tagged>) = m().into();
    println!(
        "{shape} is_completed={} is_failed={} was_killed={} stopped_normally={} is_startup_failed={} is_runtime_failed={} is_cleanup_failed={} is_stop_failed={} has_actor={} actor={} error={} into_actor={} into_error={} to_result={} tuple={},{}",
        b(r.is_completed()), b(r.is_failed()), b(r.was_killed()), b(r.stopped_normally()),
        b(r.is_startup_failed()), b(r.is_runtime_failed()), b(r.is_cleanup_failed()), b(r.is_stop_failed()),
        b(r.has_actor()), st(r.actor()), er(r.error()), st(m().into_actor().as_ref()), er(m().into_error().as_ref()),
        to_result, st(ta.as_ref()), er(te.as_ref())
    );
}
fn main() {
    line(true, true, FailurePhase::OnStart, false);
    line(true, true, FailurePhase::OnStart, true);
    for ph in [FailurePhase::OnStart, FailurePhase::OnRun, FailurePhase::OnStop, FailurePhase::OnRunThenOnStop] {
        for k in [false, true] {
            line(false, false, ph, k);
            line(false, true, ph, k);
        }
    }
    let id = rsactor::Identity::new(1, "x");
    let errs: Vec<(&str, rsactor::Error)> = vec![
        ("send", rsactor::Error::Send { identity: id, details: String::new() }),
        ("recv", rsactor::Error::Receive { identity: id, details: String::new() }),
        ("timeout", rsactor::Error::Timeout { identity: id, timeout: std::time::Duration::from_secs(1), operation: "ask".into() }),
        ("downcast", rsactor::Error::Downcast { identity: id, expected_type: String::new() }),
        ("runtime", rsactor::Error::Runtime { identity: id, details: String::new() }),
        ("mailbox_capacity", rsactor::Error::MailboxCapacity { message: String::new() }),
    ];
    for (n, e) in errs {
        println!("retryable {n} {}", b(e.is_retryable()));
    }
}
