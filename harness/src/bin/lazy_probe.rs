//! lazy_probe : futures returned by the send paths do nothing until polled, and dropping one that
//! was never polled delivers nothing - through the typed reference and through every type-erased
//! handle alike (C16: erasing is transparent; C01: what was never sent is never handled).  In the
//! model an operation begins at its first poll (LBegin); creating a future is not a step at all.
//! For each route the same three scenarios are run and the actor's log of handled messages printed:
//!   unpolled : create tell(1), yield, drop it, yield                        -> []
//!   deferred : create tell(1), tell(2).await, then await the first           -> [2, 1]
//!   raced    : tell(7) loses a biased select! before being polled, tell(8)   -> [8]
//!   late     : (timeout variants) create x_with_timeout(9, 500 ms), sleep 800 ms, then await it:
//!              the operation - and with it its deadline - begins at the first poll -> Ok
//!   overdue  : (timeout variants) poll x_with_timeout(10, 60 ms) once - the actor answers within
//!              microseconds -, keep the thread busy for 250 ms, then await it: the operation had
//!              completed long before its deadline, so the result is Ok however late it is read
//!              (C10: Timeout if and only if the deadline passed FIRST)
use rsactor::{Actor, ActorRef, ActorWeak, AskHandler, Message, TellHandler};
use std::sync::{Arc, Mutex};

struct L(Arc<Mutex<Vec<u32>>>);
impl Actor for L {
    type Args = Arc<Mutex<Vec<u32>>>;
    type Error = std::convert::Infallible;
    async fn on_start(a: Self::Args, _: &ActorRef<Self>) -> Result<Self, Self::Error> {
        Ok(L(a))
    }
    async fn on_stop(&mut self, _: &ActorWeak<Self>, _: bool) -> Result<(), Self::Error> {
        Ok(())
    }
}
struct N(u32);
impl Message<N> for L {
    type Reply = u32;
    async fn handle(&mut self, m: N, _: &ActorRef<Self>) -> u32 {
        self.0.lock().unwrap().push(m.0);
        m.0
    }
}

async fn settle() {
    for _ in 0..20 {
        tokio::task::yield_now().await;
    }
}

enum Route {
    Typed(ActorRef<L>),
    Tell(Box<dyn TellHandler<N>>),
    Ask(Box<dyn AskHandler<N, u32>>),
}

impl Route {
    // one send through this route, as a boxed future borrowing self
    fn send(&self, v: u32) -> std::pin::Pin<Box<dyn std::future::Future<Output = bool> + Send + '_>> {
        match self {
            Route::Typed(r) => {
                let f = r.tell(N(v));
                Box::pin(async move { f.await.is_ok() })
            }
            Route::Tell(h) => {
                let f = h.tell(N(v));
                Box::pin(async move { f.await.is_ok() })
            }
            Route::Ask(h) => {
                let f = h.ask(N(v));
                Box::pin(async move { f.await.is_ok() })
            }
        }
    }
    fn send_to(&self, v: u32) -> std::pin::Pin<Box<dyn std::future::Future<Output = bool> + Send + '_>> {
        self.send_within(v, std::time::Duration::from_secs(5))
    }
    fn send_within(&self, v: u32, d: std::time::Duration) -> std::pin::Pin<Box<dyn std::future::Future<Output = bool> + Send + '_>> {
        match self {
            Route::Typed(r) => {
                let f = r.tell_with_timeout(N(v), d);
                Box::pin(async move { f.await.is_ok() })
            }
            Route::Tell(h) => {
                let f = h.tell_with_timeout(N(v), d);
                Box::pin(async move { f.await.is_ok() })
            }
            Route::Ask(h) => {
                let f = h.ask_with_timeout(N(v), d);
                Box::pin(async move { f.await.is_ok() })
            }
        }
    }
}

async fn run(name: &str, mk: impl Fn(&ActorRef<L>) -> Route) {
    for timed in [false, true] {
        let log = Arc::new(Mutex::new(vec![]));
        let (r, j) = rsactor::spawn::<L>(log.clone());
        settle().await;
        let route = mk(&r);
        let send = |v: u32| if timed { route.send_to(v) } else { route.send(v) };
        // unpolled
        let f = send(1);
        settle().await;
        drop(f);
        settle().await;
        let unpolled = format!("{:?}", log.lock().unwrap().clone());
        log.lock().unwrap().clear();
        // deferred
        let f1 = send(1);
        let ok2 = send(2).await;
        settle().await;
        let ok1 = f1.await;
        settle().await;
        let deferred = format!("{:?}", log.lock().unwrap().clone());
        log.lock().unwrap().clear();
        // raced
        let f7 = send(7);
        tokio::select! {
            biased;
            _ = std::future::ready(()) => {}
            _ = f7 => {}
        }
        let ok8 = send(8).await;
        settle().await;
        let raced = format!("{:?}", log.lock().unwrap().clone());
        // late
        let late = if timed {
            let f9 = route.send_within(9, std::time::Duration::from_millis(500));
            tokio::time::sleep(std::time::Duration::from_millis(800)).await;
            f9.await
        } else {
            true
        };
        // overdue
        let overdue = if timed {
            let mut f10 = route.send_within(10, std::time::Duration::from_millis(60));
            let first = futures::poll!(f10.as_mut());
            settle().await; // the actor handles and replies
            std::thread::sleep(std::time::Duration::from_millis(250));
            match first {
                std::task::Poll::Ready(ok) => ok,
                std::task::Poll::Pending => f10.await,
            }
        } else {
            true
        };
        println!("{name}{} unpolled={unpolled} deferred={deferred} raced={raced} oks={}{}{} late={} overdue={}",
                 if timed { "_timeout" } else { "" }, ok1 as u8, ok2 as u8, ok8 as u8, late as u8, overdue as u8);
        drop(route);
        let _ = r.kill();
        let _ = j.await;
    }
}

fn main() {
    let rt = tokio::runtime::Builder::new_current_thread().enable_time().build().unwrap();
    rt.block_on(async {
        run("typed", |r| Route::Typed(r.clone())).await;
        run("erased_tell", |r| Route::Tell(Box::new(r.clone()))).await;
        run("erased_tell_from", |r| Route::Tell(r.into())).await;
        run("erased_ask", |r| Route::Ask(Box::new(r.clone()))).await;
    });
}
