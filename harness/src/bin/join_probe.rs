//! join_probe : ask_join against the real crate for every combination the model distinguishes:
//! the underlying ask succeeds and the spawned task returns a value / panics / is aborted; the ask
//! fails with Send (dead actor) / Receive (handler panics before replying).  One line per case.
use rsactor::{Actor, ActorRef, ActorWeak, Message};
use tokio::task::JoinHandle;

struct A;
impl Actor for A {
    type Args = ();
    type Error = std::convert::Infallible;
    async fn on_start(_a: (), _r: &ActorRef<Self>) -> Result<Self, Self::Error> {
        Ok(A)
    }
    async fn on_stop(&mut self, _w: &ActorWeak<Self>, _killed: bool) -> Result<(), Self::Error> {
        Ok(())
    }
}

enum Task {
    Val(u64),
    Panic,
    Aborted,
    HandlerPanics,
    SlowVal(u64, tokio::sync::oneshot::Receiver<()>),
    SlowPanic(tokio::sync::oneshot::Receiver<()>),
}
struct Go(Task);

impl Message<Go> for A {
    type Reply = JoinHandle<u64>;
    async fn handle(&mut self, m: Go, _r: &ActorRef<Self>) -> JoinHandle<u64> {
        match m.0 {
            Task::Val(v) => tokio::spawn(async move {
                tokio::task::yield_now().await;
                v
            }),
            Task::Panic => tokio::spawn(async move {
                tokio::task::yield_now().await;
                panic!("scripted task panic")
            }),
            Task::Aborted => {
                let h = tokio::spawn(async move {
                    std::future::pending::<()>().await;
                    0u64
                });
                h.abort();
                h
            }
            Task::HandlerPanics => panic!("scripted handler panic"),
            Task::SlowVal(v, gate) => tokio::spawn(async move {
                let _ = gate.await;
                v
            }),
            Task::SlowPanic(gate) => tokio::spawn(async move {
                let _ = gate.await;
                panic!("scripted slow task panic")
            }),
        }
    }
}

fn show(r: Result<u64, rsactor::Error>) -> String {
    match r {
        Ok(v) => format!("ok{v}"),
        Err(rsactor::Error::Send { .. }) => "send".into(),
        Err(rsactor::Error::Receive { .. }) => "recv".into(),
        Err(rsactor::Error::Timeout { .. }) => "timeout".into(),
        Err(rsactor::Error::Join { source, .. }) => {
            if source.is_panic() {
                "join:panicked".into()
            } else if source.is_cancelled() {
                "join:cancelled".into()
            } else {
                "join:other".into()
            }
        }
        Err(e) => format!("other:{e}"),
    }
}

fn main() {
    std::panic::set_hook(Box::new(|_| {}));
    let rt = tokio::runtime::Builder::new_current_thread().enable_time().build().unwrap();
    rt.block_on(async {
        // the ask succeeds
        for (name, t) in [("ok:val7", Task::Val(7)), ("ok:panic", Task::Panic), ("ok:aborted", Task::Aborted)] {
            let (r, j) = rsactor::spawn::<A>(());
            let res = r.ask_join(Go(t)).await;
            println!("{} {}", name, show(res));
            let _ = r.kill();
            let _ = j.await;
        }
        // the ask succeeds and the actor ENDS (kill / stop) while the task is still running: the
        // result is still the task's own output or join error - the actor's fate after the reply
        // is not an input of ask_join
        for (name, panics, kill) in [("ok:val7", false, true), ("ok:val7", false, false), ("ok:panic", true, true)] {
            let (tx, rx) = tokio::sync::oneshot::channel();
            let t = if panics { Task::SlowPanic(rx) } else { Task::SlowVal(7, rx) };
            let (r, j) = rsactor::spawn::<A>(());
            let r2 = r.clone();
            let asker = tokio::spawn(async move { r2.ask_join(Go(t)).await });
            // a second request behind it: once it is answered the first handler has returned its handle
            let _ = r.ask(Go(Task::Val(0))).await;
            if kill {
                let _ = r.kill();
            } else {
                let _ = r.stop().await;
            }
            let _ = j.await; // the actor has ended, the task is still gated
            let _ = tx.send(());
            let res = asker.await.unwrap();
            println!("{} {}", name, show(res));
        }
        // the ask fails with Send: the actor has ended
        {
            let (r, j) = rsactor::spawn::<A>(());
            let _ = r.kill();
            let _ = j.await;
            let res = r.ask_join(Go(Task::Val(7))).await;
            println!("send:val7 {}", show(res));
        }
        // the ask fails with Receive: the handler panics, the reply sender is dropped
        {
            let (r, j) = rsactor::spawn::<A>(());
            let res = r.ask_join(Go(Task::HandlerPanics)).await;
            println!("recv:val7 {}", show(res));
            let _ = j.await;
        }
    });
}
