//! dd_probe : the wait-for graph under the ways an in-flight ask of a hook can go away OTHER than
//! returning to a sequential `.await` - which is all the model's hooks do: a panic of the hook while
//! the ask is in flight (join!), a select! that drops the ask, a timeout, an aborted outer task is not
//! possible for a hook, so: panic / select-drop / timeout.  Oracle (theorem C15_no_residue read for
//! dropped futures): once no ask is in flight the graph is empty, and a later ask by the peer towards
//! the (possibly dead) actor does not trip the detector.  Needs the deadlock-detection feature and
//! the --cfg rsactor_verif accessors.  One line per scenario.
#[cfg(not(feature = "f-dd"))]
fn main() {
    println!("dd_probe needs the f-dd feature");
}

#[cfg(feature = "f-dd")]
mod probe {
    use rsactor::{Actor, ActorRef, ActorWeak, Message};
    use tokio::sync::oneshot;

    pub struct Peer;
    impl Actor for Peer {
        type Args = ();
        type Error = std::convert::Infallible;
        async fn on_start(_: (), _: &ActorRef<Self>) -> Result<Self, Self::Error> {
            Ok(Peer)
        }
        async fn on_stop(&mut self, _: &ActorWeak<Self>, _: bool) -> Result<(), Self::Error> {
            Ok(())
        }
    }
    /// blocks until released, then replies 7
    pub struct Work(pub oneshot::Receiver<()>);
    impl Message<Work> for Peer {
        type Reply = u32;
        async fn handle(&mut self, m: Work, _: &ActorRef<Self>) -> u32 {
            let _ = m.0.await;
            7
        }
    }
    /// makes the peer ask the boss back; the reply tells what the ask returned
    pub struct CallBack(pub ActorRef<Boss>);
    impl Message<CallBack> for Peer {
        type Reply = String;
        async fn handle(&mut self, m: CallBack, _: &ActorRef<Self>) -> String {
            match m.0.ask(Ping).await {
                Ok(v) => format!("ok{v}"),
                Err(rsactor::Error::Send { .. }) => "send".into(),
                Err(e) => format!("err:{e}"),
            }
        }
    }

    /// replies at once
    pub struct Quick;
    impl Message<Quick> for Peer {
        type Reply = u32;
        async fn handle(&mut self, _: Quick, _: &ActorRef<Self>) -> u32 {
            5
        }
    }
    /// spawns a task that ends when released and hands its JoinHandle back (for ask_join)
    pub struct SpawnTask(pub oneshot::Receiver<()>, pub oneshot::Sender<()>);
    impl Message<SpawnTask> for Peer {
        type Reply = tokio::task::JoinHandle<u32>;
        async fn handle(&mut self, m: SpawnTask, _: &ActorRef<Self>) -> tokio::task::JoinHandle<u32> {
            let SpawnTask(gate, started) = m;
            let _ = started.send(());
            tokio::spawn(async move {
                let _ = gate.await;
                11
            })
        }
    }

    pub struct Boss;
    impl Actor for Boss {
        type Args = ();
        type Error = std::convert::Infallible;
        async fn on_start(_: (), _: &ActorRef<Self>) -> Result<Self, Self::Error> {
            Ok(Boss)
        }
        async fn on_stop(&mut self, _: &ActorWeak<Self>, _: bool) -> Result<(), Self::Error> {
            Ok(())
        }
    }
    pub struct Ping;
    impl Message<Ping> for Boss {
        type Reply = u32;
        async fn handle(&mut self, _: Ping, _: &ActorRef<Self>) -> u32 {
            1
        }
    }
    pub enum How {
        PanicWhileAsking,
        SelectDrops,
        Timeout,
    }
    pub struct Run(pub ActorRef<Peer>, pub Work, pub How);
    impl Message<Run> for Boss {
        type Reply = u32;
        async fn handle(&mut self, m: Run, _: &ActorRef<Self>) -> u32 {
            let Run(peer, work, how) = m;
            match how {
                How::PanicWhileAsking => {
                    let (r, ()) = tokio::join!(peer.ask(work), async {
                        tokio::task::yield_now().await;
                        panic!("scripted panic while an ask is in flight")
                    });
                    r.unwrap_or(0)
                }
                How::SelectDrops => {
                    tokio::select! {
                        biased;
                        r = peer.ask(work) => r.unwrap_or(0),
                        _ = async { tokio::task::yield_now().await; tokio::task::yield_now().await } => 99,
                    }
                }
                How::Timeout => peer
                    .ask_with_timeout(work, std::time::Duration::from_millis(20))
                    .await
                    .unwrap_or(98),
            }
        }
    }

    /// two asks of one handler in flight at the same time (join!); the one that began first ends
    /// first.  The graph keeps one edge per asking actor, so such asks are outside C14's
    /// "sequential"; C15 still demands that nothing is left behind and nothing false is reported.
    pub struct RunOverlap(pub ActorRef<Peer>, pub ActorRef<Peer>, pub Work);
    impl Message<RunOverlap> for Boss {
        type Reply = u32;
        async fn handle(&mut self, m: RunOverlap, _: &ActorRef<Self>) -> u32 {
            let RunOverlap(first, second, work) = m;
            let (a, b) = tokio::join!(first.ask(Quick), second.ask(work));
            a.unwrap_or(0) + b.unwrap_or(0)
        }
    }
    /// ask_join: the ask part is answered at once, then the handler waits for the spawned task
    pub struct RunJoin(pub ActorRef<Peer>, pub SpawnTask);
    impl Message<RunJoin> for Boss {
        type Reply = u32;
        async fn handle(&mut self, m: RunJoin, _: &ActorRef<Self>) -> u32 {
            m.0.ask_join(m.1).await.unwrap_or(0)
        }
    }

    async fn finish(name: &str, run_res: String, edges_mid: usize, back: String,
                    boss: ActorRef<Boss>, bj: tokio::task::JoinHandle<rsactor::ActorResult<Boss>>,
                    peers: Vec<(ActorRef<Peer>, tokio::task::JoinHandle<rsactor::ActorResult<Peer>>)>) {
        let _ = boss.kill();
        let bres = match bj.await {
            Ok(_) => "ended",
            Err(_) => "panic",
        };
        let mut pres = "ended";
        for (p, j) in peers {
            let _ = p.kill();
            if j.await.is_err() {
                pres = "panic";
            }
        }
        let edges_end = rsactor::__verif_wait_for_edges().len();
        println!(
            "{name} run={run_res} edges_after_hook={edges_mid} callback={back} boss={bres} peer={pres} edges_end={edges_end} poisoned={}",
            rsactor::__verif_wait_for_poisoned()
        );
    }

    pub async fn scenario_overlap() {
        let (first, fj) = rsactor::spawn::<Peer>(());
        let (second, sj) = rsactor::spawn::<Peer>(());
        let (boss, bj) = rsactor::spawn::<Boss>(());
        let (tx, rx) = oneshot::channel();
        let (b2, f2, s2) = (boss.clone(), first.clone(), second.clone());
        let run = tokio::spawn(async move { b2.ask(RunOverlap(f2, s2, Work(rx))).await });
        // the quick ask has long finished when the gated one is released
        tokio::time::sleep(std::time::Duration::from_millis(30)).await;
        let _ = tx.send(());
        let run_res = match run.await.unwrap() {
            Ok(v) => format!("ok{v}"),
            Err(e) => format!("err:{e}"),
        };
        let edges_mid = rsactor::__verif_wait_for_edges().len();
        // the peer asked first now asks the boss: nothing is in flight, the detector must stay quiet
        let back = match first.ask(CallBack(boss.clone())).await {
            Ok(s) => s,
            Err(rsactor::Error::Receive { .. }) => "PEER-PANICKED".into(),
            Err(e) => format!("err:{e}"),
        };
        finish("overlapping_asks_first_ends_first", run_res, edges_mid, back, boss, bj, vec![(first, fj), (second, sj)]).await;
    }

    pub async fn scenario_ask_join() {
        let (peer, pj) = rsactor::spawn::<Peer>(());
        let (boss, bj) = rsactor::spawn::<Boss>(());
        let (tx, rx) = oneshot::channel();
        let (stx, srx) = oneshot::channel();
        let (b2, p2) = (boss.clone(), peer.clone());
        let run = tokio::spawn(async move { b2.ask(RunJoin(p2, SpawnTask(rx, stx))).await });
        // no timing assumption: the peer has handled SpawnTask, so the boss is inside its handler
        let _ = srx.await;
        // the boss is inside ask_join, its ask answered, waiting for the task; the peer is free and
        // asks the boss: that ask waits for the boss's handler, which waits for the task - no cycle
        let (p3, b3) = (peer.clone(), boss.clone());
        let cb = tokio::spawn(async move { p3.ask(CallBack(b3)).await });
        // wait (up to 10 s) until the peer's ask towards the boss is in flight
        let mut edges_mid = 0;
        for _ in 0..1000 {
            edges_mid = rsactor::__verif_wait_for_edges().len();
            if edges_mid >= 1 || cb.is_finished() {
                break;
            }
            tokio::time::sleep(std::time::Duration::from_millis(10)).await;
        }
        let _ = tx.send(());
        let run_res = match run.await.unwrap() {
            Ok(v) => format!("ok{v}"),
            Err(rsactor::Error::Receive { .. }) => "recv".into(),
            Err(e) => format!("err:{e}"),
        };
        let back = match cb.await.unwrap() {
            Ok(s) => s,
            Err(rsactor::Error::Receive { .. }) => "PEER-PANICKED".into(),
            Err(e) => format!("err:{e}"),
        };
        finish("callback_during_ask_join", run_res, edges_mid, back, boss, bj, vec![(peer, pj)]).await;
    }

    pub async fn scenario(name: &str, how: How, boss_dies: bool) {
        let (peer, pj) = rsactor::spawn::<Peer>(());
        let (boss, bj) = rsactor::spawn::<Boss>(());
        let (tx, rx) = oneshot::channel();
        let b2 = boss.clone();
        let p2 = peer.clone();
        let run = tokio::spawn(async move { b2.ask(Run(p2, Work(rx), how)).await });
        let run_res = match run.await.unwrap() {
            Ok(v) => format!("ok{v}"),
            Err(rsactor::Error::Receive { .. }) => "recv".into(),
            Err(e) => format!("err:{e}"),
        };
        let edges_mid = rsactor::__verif_wait_for_edges().len();
        let _ = tx.send(());
        // the peer now asks the boss back: no cycle exists, so the detector must stay quiet
        let back = match peer.ask(CallBack(boss.clone())).await {
            Ok(s) => s,
            Err(rsactor::Error::Receive { .. }) => "PEER-PANICKED".into(),
            Err(e) => format!("err:{e}"),
        };
        let _ = boss.kill();
        let _ = peer.kill();
        let bres = match bj.await {
            Ok(_) => "ended",
            Err(_) => "panic",
        };
        let pres = match pj.await {
            Ok(_) => "ended",
            Err(_) => "panic",
        };
        let edges_end = rsactor::__verif_wait_for_edges().len();
        let _ = boss_dies;
        println!(
            "{name} run={run_res} edges_after_hook={edges_mid} callback={back} boss={bres} peer={pres} edges_end={edges_end} poisoned={}",
            rsactor::__verif_wait_for_poisoned()
        );
    }
}

#[cfg(feature = "f-dd")]
fn main() {
    std::panic::set_hook(Box::new(|_| {}));
    let rt = tokio::runtime::Builder::new_current_thread().enable_time().build().unwrap();
    rt.block_on(async {
        probe::scenario("panic_while_asking", probe::How::PanicWhileAsking, true).await;
        probe::scenario("select_drops_ask", probe::How::SelectDrops, false).await;
        probe::scenario("timeout_drops_ask", probe::How::Timeout, false).await;
        probe::scenario_overlap().await;
        probe::scenario_ask_join().await;
    });
}
