//! late_push_probe <rounds> <askers> : asks racing with the death of their target on a multi-thread
//! runtime.  Property C03: every ask completes - with a reply or an Err - once the target has ended.
//! Each round spawns an actor, lets `askers` tasks ask it concurrently and kills it (or lets its
//! handler panic) at the same moment; afterwards every ask must have returned within a generous
//! bound.  Reports how many did not.
use rsactor::{Actor, ActorRef, ActorWeak, Message};
use std::sync::atomic::{AtomicUsize, Ordering};
use std::sync::Arc;
use std::time::Duration;

struct B;
impl Actor for B {
    type Args = ();
    type Error = std::convert::Infallible;
    async fn on_start(_: (), _: &ActorRef<Self>) -> Result<Self, Self::Error> {
        Ok(B)
    }
    async fn on_stop(&mut self, _: &ActorWeak<Self>, _: bool) -> Result<(), Self::Error> {
        Ok(())
    }
}
struct Ping(bool);
impl Message<Ping> for B {
    type Reply = u32;
    async fn handle(&mut self, m: Ping, _: &ActorRef<Self>) -> u32 {
        if m.0 {
            panic!("scripted");
        }
        7
    }
}

fn main() {
    std::panic::set_hook(Box::new(|_| {}));
    let rounds: usize = std::env::args().nth(1).and_then(|s| s.parse().ok()).unwrap_or(2000);
    let askers: usize = std::env::args().nth(2).and_then(|s| s.parse().ok()).unwrap_or(8);
    let rt = tokio::runtime::Builder::new_multi_thread().worker_threads(8).enable_time().build().unwrap();
    rt.block_on(async move {
        let mut hung = 0usize;
        let mut stuck = 0usize;
        let mut total = 0usize;
        let mut first = String::new();
        for round in 0..rounds {
            let (b, j) = rsactor::spawn_with_mailbox_capacity::<B>((), 1 + round % 3);
            let go = Arc::new(tokio::sync::Barrier::new(askers + 1));
            let done = Arc::new(AtomicUsize::new(0));
            let mut hs = vec![];
            for i in 0..askers {
                let b2 = b.clone();
                let go2 = go.clone();
                let d2 = done.clone();
                hs.push(tokio::spawn(async move {
                    go2.wait().await;
                    for _ in 0..(i % 3) {
                        std::hint::spin_loop();
                    }
                    let _ = b2.ask(Ping(false)).await;
                    d2.fetch_add(1, Ordering::SeqCst);
                }));
            }
            go.wait().await;
            // the target ends while the asks are on their way
            let ending = tokio::time::timeout(Duration::from_secs(3), async {
                match round % 3 {
                    0 => {
                        let _ = b.kill();
                    }
                    1 => {
                        let _ = b.tell(Ping(true)).await;
                    }
                    _ => {
                        let _ = b.stop().await;
                    }
                }
            })
            .await;
            // an actor that does not end at all is not this probe's subject, but must not hang it
            let _ = b.kill();
            drop(b);
            let ended = tokio::time::timeout(Duration::from_secs(3), j).await;
            if ending.is_err() || ended.is_err() {
                stuck += 1;
                if first.is_empty() {
                    first = format!("round {round}: the actor did not end within 3 s of kill / stop / a panicking handler");
                }
                for h in hs {
                    h.abort();
                }
                if stuck >= 5 {
                    break;
                }
                continue;
            }
            total += askers;
            let all = tokio::time::timeout(Duration::from_secs(3), async {
                for h in hs.iter_mut() {
                    let _ = h.await;
                }
            })
            .await;
            if all.is_err() {
                let n = askers - done.load(Ordering::SeqCst);
                hung += n;
                if first.is_empty() {
                    first = format!("round {round}: {n} ask(s) still pending 3 s after the actor ended");
                }
                for h in hs {
                    h.abort();
                }
                if hung >= 40 {
                    break;
                }
            }
        }
        if stuck > 0 {
            println!("asks={total} hung={hung} stuck_actors={stuck} {first}");
        } else {
            println!("asks={total} hung={hung} {first}");
        }
    });
}
