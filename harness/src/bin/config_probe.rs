//! config_probe <n1,n2,...|->  : in a fresh process, call set_default_mailbox_capacity for each n,
//! then observe the capacity spawn() really uses (how many tells complete while the handler is gated).
use rsv_harness::script::{Action, HItem, HOut, Kind};
use rsv_harness::*;

fn main() {
    let arg = std::env::args().nth(1).unwrap_or_else(|| "-".into());
    let mut res = vec![];
    if arg != "-" {
        for w in arg.split(',') {
            if w == "s" {
                // an actor is spawned with the default capacity (and ended) before the next call:
                // spawning only READS the default, it must not fix it
                let rt = tokio::runtime::Builder::new_current_thread().enable_time().build().unwrap();
                rt.block_on(async {
                    let sh = Shared::new();
                    sh.st.lock().unwrap().env.push(ActorEnv { auto: true, ..Default::default() });
                    let (r, j) = rsactor::spawn::<SA>((0usize, sh.clone()));
                    let _ = r.kill();
                    let _ = j.await;
                });
                continue;
            }
            let n: usize = w.parse().unwrap();
            res.push(if rsactor::set_default_mailbox_capacity(n).is_ok() { "ok" } else { "err" });
        }
    }
    // observe the default: a gated handler, then count completed tells
    let rt = tokio::runtime::Builder::new_current_thread().enable_time().start_paused(true).build().unwrap();
    let cap = rt.block_on(async {
        let mut d = Director::new();
        // spawn through rsactor::spawn (default capacity), not spawn_with_mailbox_capacity
        let idx = 0usize;
        d.sh.st.lock().unwrap().env.push(ActorEnv { auto: true, ..Default::default() });
        let (r, j) = rsactor::spawn::<SA>((idx, d.sh.clone()));
        IDS.lock().unwrap().push(r.identity().id);
        d.id_base = Some(r.identity().id - 1);
        d.probes.push(rsactor::ActorRef::downgrade(&r));
        d.joins.push(j);
        d.join_res.push(None);
        d.sh.st.lock().unwrap().slots.insert(idx, Slot::Strong(SRef::Typed(r)));
        d.barrier().await;
        d.act(&Action::Auto { a: 0, v: false }).await;
        let total = 200u64;
        for o in 1..=total {
            d.act(&Action::Op { o, k: Kind::Tell, slot: 0, tmo: None, fl: rsv_harness::script::Flavour::Async }).await;
        }
        let st = d.sh.st.lock().unwrap();
        let done = st.results.values().filter(|v| v.as_str() == "ok0").count();
        drop(st);
        let _ = HItem::Done(HOut::Ok);
        done as i64 - 1
    });
    println!("sets={} capacity={}", res.join(","), cap);
}
