//! mt_stress <rounds> <seed> : random concurrent workloads on a multi-thread runtime, judged by
//! properties that need no model (the model's schedules are those of one thread; this is the
//! supporting test for everything that only real parallelism can break):
//!   C01  no message handled twice; a send that returned Err(Send), or a tell that returned
//!        Err(Timeout), is never handled
//!   C02  each sender's messages are handled in its program order
//!   C03  an ask that returned Ok(v) got the value the handler computed for that very request;
//!        every operation returns (nothing hangs once all actors have ended)
//!   C04  on_start first and once, on_stop last and at most once
//!   C11  identities unique
//! One line: `rounds=.. ops=.. violations=0` or the first violations.
use rsactor::{Actor, ActorRef, ActorWeak, Message};
use std::collections::{HashMap, HashSet};
use std::sync::{Arc, Mutex};
use std::time::Duration;

#[derive(Default)]
struct Log {
    // per actor: events in order
    ev: Vec<Ev>,
}
#[derive(Clone, Debug, PartialEq)]
enum Ev {
    Start,
    Handle { sender: u32, seq: u32 },
    Stop(bool),
}

struct A {
    log: Arc<Mutex<Log>>,
    idx: usize,
    fwd_seq: u32,
    fwd_recs: Arc<Mutex<Vec<OpRec>>>,
    runs: u32,
    run_limit: u32,
}
impl Actor for A {
    type Args = (Arc<Mutex<Log>>, usize, Arc<Mutex<Vec<OpRec>>>, u32);
    type Error = std::convert::Infallible;
    async fn on_start((log, idx, fwd_recs, run_limit): Self::Args, _: &ActorRef<Self>) -> Result<Self, Self::Error> {
        log.lock().unwrap().ev.push(Ev::Start);
        Ok(A { log, idx, fwd_seq: 0, fwd_recs, runs: 0, run_limit })
    }
    // an idle task that stays enabled for run_limit rounds (u32::MAX: for good)
    async fn on_run(&mut self, _: &ActorWeak<Self>) -> Result<bool, Self::Error> {
        if self.run_limit == 0 {
            return Ok(false);
        }
        tokio::time::sleep(Duration::from_micros(150)).await;
        self.runs += 1;
        Ok(self.runs < self.run_limit)
    }
    async fn on_stop(&mut self, _: &ActorWeak<Self>, killed: bool) -> Result<(), Self::Error> {
        self.log.lock().unwrap().ev.push(Ev::Stop(killed));
        Ok(())
    }
}
struct Msg {
    sender: u32,
    seq: u32,
    spin: u32,
}
fn value_of(sender: u32, seq: u32) -> u64 {
    (sender as u64) * 1_000_003 + seq as u64 * 7 + 1
}
impl Message<Msg> for A {
    type Reply = u64;
    async fn handle(&mut self, m: Msg, _: &ActorRef<Self>) -> u64 {
        self.log.lock().unwrap().ev.push(Ev::Handle { sender: m.sender, seq: m.seq });
        for _ in 0..m.spin {
            std::hint::spin_loop();
        }
        if m.spin % 5 == 0 {
            tokio::task::yield_now().await;
        }
        value_of(m.sender, m.seq)
    }
}

/// handled by asking a higher-numbered actor from inside the handler (the asks form no cycle, so
/// with deadlock detection on none of them may be reported)
struct Fwd {
    sender: u32,
    seq: u32,
    to: ActorRef<A>,
    to_idx: usize,
    timeout_us: u64,
}
impl Message<Fwd> for A {
    type Reply = u64;
    async fn handle(&mut self, m: Fwd, _: &ActorRef<Self>) -> u64 {
        self.log.lock().unwrap().ev.push(Ev::Handle { sender: m.sender, seq: m.seq });
        self.fwd_seq += 1;
        let me = 100 + self.idx as u32;
        let inner = Msg { sender: me, seq: self.fwd_seq, spin: 0 };
        let (kind, res): (&'static str, String) = if m.timeout_us == 0 {
            ("ask", match m.to.ask(inner).await {
                Ok(v) => format!("ok{v}"), Err(rsactor::Error::Send { .. }) => "send".into(),
                Err(rsactor::Error::Receive { .. }) => "recv".into(), Err(e) => format!("err:{e}") })
        } else {
            ("ask_to", match m.to.ask_with_timeout(inner, Duration::from_micros(m.timeout_us)).await {
                Ok(v) => format!("ok{v}"), Err(rsactor::Error::Send { .. }) => "send".into(),
                Err(rsactor::Error::Receive { .. }) => "recv".into(),
                Err(rsactor::Error::Timeout { .. }) => "timeout".into(), Err(e) => format!("err:{e}") })
        };
        self.fwd_recs.lock().unwrap().push(OpRec { actor: m.to_idx, sender: me, seq: self.fwd_seq, kind, res });
        value_of(m.sender, m.seq)
    }
}

fn lcg(s: &mut u64) -> u64 {
    *s = s.wrapping_mul(6364136223846793005).wrapping_add(1442695040888963407);
    *s >> 33
}

#[derive(Debug)]
struct OpRec {
    actor: usize,
    sender: u32,
    seq: u32,
    kind: &'static str,
    res: String,
}

fn main() {
    std::panic::set_hook(Box::new(|_| {}));
    let rounds: usize = std::env::args().nth(1).and_then(|s| s.parse().ok()).unwrap_or(300);
    let seed: u64 = std::env::args().nth(2).and_then(|s| s.parse().ok()).unwrap_or(1);
    let rt = tokio::runtime::Builder::new_multi_thread().worker_threads(8).enable_time().build().unwrap();
    rt.block_on(async move {
        let mut st = seed.wrapping_mul(0x9E3779B97F4A7C15) | 1;
        let mut total_ops = 0usize;
        let mut viol: Vec<String> = vec![];
        let mut all_ids: HashSet<u64> = HashSet::new();
        for round in 0..rounds {
            let nact = 1 + (lcg(&mut st) % 4) as usize;
            #[cfg(feature = "f-testutils")]
            let dl_before = rsactor::dead_letter_count();
            let mut refs = vec![];
            let mut joins = vec![];
            let mut logs = vec![];
            let fwd_recs: Arc<Mutex<Vec<OpRec>>> = Arc::new(Mutex::new(vec![]));
            for _ in 0..nact {
                let log = Arc::new(Mutex::new(Log::default()));
                let cap = 1 + (lcg(&mut st) % 4) as usize;
                let run_limit = match lcg(&mut st) % 4 { 0 => 0, 1 => 1 + (lcg(&mut st) % 20) as u32, 2 => u32::MAX, _ => 0 };
                let (r, j) = rsactor::spawn_with_mailbox_capacity::<A>((log.clone(), refs.len(), fwd_recs.clone(), run_limit), cap);
                if !all_ids.insert(r.identity().id) {
                    viol.push(format!("round {round}: identity {} handed out twice", r.identity().id));
                }
                refs.push(r);
                joins.push(j);
                logs.push(log);
            }
            let nsend = 2 + (lcg(&mut st) % 6) as u32;
            // a calm round: no client stops or kills; the actors end after the clients are done,
            // by stop() or by losing every reference - so everything accepted must be handled
            let calm = lcg(&mut st) % 3 == 0;
            let end_by_drop = calm && lcg(&mut st) % 2 == 0;
            let go = Arc::new(tokio::sync::Barrier::new(nsend as usize + 1));
            let mut clients = vec![];
            for sender in 0..nsend {
                let refs2: Vec<ActorRef<A>> = refs.iter().cloned().collect();
                let go2 = go.clone();
                let mut s2 = lcg(&mut st) | 1;
                clients.push(tokio::spawn(async move {
                    go2.wait().await;
                    let mut recs = vec![];
                    let mut seqs = vec![0u32; refs2.len()];
                    let n = 5 + (lcg(&mut s2) % 25) as usize;
                    for _ in 0..n {
                        if recs.last().map(|r: &OpRec| r.res == "HANG").unwrap_or(false) {
                            break;
                        }
                        let a = (lcg(&mut s2) % refs2.len() as u64) as usize;
                        let r = &refs2[a];
                        let mut k = lcg(&mut s2) % 100;
                        if calm && k < 8 {
                            k += 8;
                        }
                        let spin = (lcg(&mut s2) % 200) as u32;
                        if k < 4 {
                            let res = if r.kill().is_ok() { "ok" } else { "err" };
                            recs.push(OpRec { actor: a, sender, seq: 0, kind: "kill", res: res.into() });
                            continue;
                        }
                        if k < 8 {
                            let res = match tokio::time::timeout(Duration::from_secs(5), r.stop()).await {
                                Ok(Ok(())) => "ok".to_string(),
                                Ok(Err(_)) => "err".to_string(),
                                Err(_) => "HANG".to_string(),
                            };
                            recs.push(OpRec { actor: a, sender, seq: 0, kind: "stop", res });
                            continue;
                        }
                        seqs[a] += 1;
                        let seq = seqs[a];
                        if k >= 92 && a + 1 < refs2.len() {
                            let to_idx = a + 1 + (lcg(&mut s2) % (refs2.len() - a - 1) as u64) as usize;
                            let timeout_us = if lcg(&mut s2) % 2 == 0 { 0 } else { 20 + lcg(&mut s2) % 300 };
                            let f = Fwd { sender, seq, to: refs2[to_idx].clone(), to_idx, timeout_us };
                            let res = match tokio::time::timeout(Duration::from_secs(5), r.ask(f)).await {
                                Ok(Ok(v)) => format!("ok{v}"), Ok(Err(rsactor::Error::Send { .. })) => "send".into(),
                                Ok(Err(rsactor::Error::Receive { .. })) => "recv".into(),
                                Ok(Err(e)) => format!("err:{e}"), Err(_) => "HANG".into() };
                            recs.push(OpRec { actor: a, sender, seq, kind: "ask", res });
                            continue;
                        }
                        let m = Msg { sender, seq, spin };
                        let (kind, fut_res): (&'static str, String) = if k < 40 {
                            ("tell", match tokio::time::timeout(Duration::from_secs(5), r.tell(m)).await {
                                Ok(Ok(())) => "ok".into(), Ok(Err(rsactor::Error::Send { .. })) => "send".into(),
                                Ok(Err(e)) => format!("err:{e}"), Err(_) => "HANG".into() })
                        } else if k < 55 {
                            ("tell_to", match tokio::time::timeout(Duration::from_secs(5), r.tell_with_timeout(m, Duration::from_micros(50 + lcg(&mut s2) % 400))).await {
                                Ok(Ok(())) => "ok".into(), Ok(Err(rsactor::Error::Send { .. })) => "send".into(),
                                Ok(Err(rsactor::Error::Timeout { .. })) => "timeout".into(),
                                Ok(Err(e)) => format!("err:{e}"), Err(_) => "HANG".into() })
                        } else if k < 85 {
                            ("ask", match tokio::time::timeout(Duration::from_secs(5), r.ask(m)).await {
                                Ok(Ok(v)) => format!("ok{v}"), Ok(Err(rsactor::Error::Send { .. })) => "send".into(),
                                Ok(Err(rsactor::Error::Receive { .. })) => "recv".into(),
                                Ok(Err(e)) => format!("err:{e}"), Err(_) => "HANG".into() })
                        } else {
                            ("ask_to", match tokio::time::timeout(Duration::from_secs(5), r.ask_with_timeout(m, Duration::from_micros(50 + lcg(&mut s2) % 400))).await {
                                Ok(Ok(v)) => format!("ok{v}"), Ok(Err(rsactor::Error::Send { .. })) => "send".into(),
                                Ok(Err(rsactor::Error::Receive { .. })) => "recv".into(),
                                Ok(Err(rsactor::Error::Timeout { .. })) => "timeout".into(),
                                Ok(Err(e)) => format!("err:{e}"), Err(_) => "HANG".into() })
                        };
                        recs.push(OpRec { actor: a, sender, seq, kind, res: fut_res });
                    }
                    recs
                }));
            }
            go.wait().await;
            let mut recs = vec![];
            for c in clients {
                match tokio::time::timeout(Duration::from_secs(60), c).await {
                    Ok(Ok(r)) => recs.extend(r),
                    Ok(Err(_)) => viol.push(format!("round {round}: a client task panicked")),
                    Err(_) => viol.push(format!("round {round}: a client task did not finish")),
                }
            }
            // end every actor gracefully and join
            let weaks: Vec<ActorWeak<A>> = refs.iter().map(ActorRef::downgrade).collect();
            if !end_by_drop {
                for r in refs.iter() {
                    let _ = tokio::time::timeout(Duration::from_secs(5), r.stop()).await;
                }
            }
            #[cfg(feature = "f-metrics")]
            let keep: Vec<ActorRef<A>> = if end_by_drop { vec![] } else { refs.iter().cloned().collect() };
            drop(refs);
            let mut results: Vec<Option<bool>> = vec![];
            for (i, j) in joins.into_iter().enumerate() {
                results.push(None);
                match tokio::time::timeout(Duration::from_secs(5), j).await {
                    Ok(Ok(rsactor::ActorResult::Completed { killed, .. })) => results[i] = Some(killed),
                    Ok(Ok(_)) => viol.push(format!("round {round}: actor {i} reported Failed although no hook fails")),
                    Ok(Err(_)) => viol.push(format!("round {round}: actor {i} panicked")),
                    Err(_) => viol.push(format!("round {round}: actor {i} never ended")),
                }
            }
            recs.extend(std::mem::take(&mut *fwd_recs.lock().unwrap()));
            total_ops += recs.len();
            // ---- judge
            #[cfg(feature = "f-testutils")]
            {
                // C13: the counter moved by exactly the number of failed deliveries of this round
                let failed = recs.iter().filter(|r| matches!(r.res.as_str(), "send" | "recv" | "timeout")).count() as u64;
                let delta = rsactor::dead_letter_count() - dl_before;
                if delta != failed {
                    viol.push(format!("round {round}: {failed} failed deliveries but the dead-letter counter moved by {delta}"));
                }
            }
            #[cfg(all(feature = "f-dd", rsactor_verif))]
            {
                // C15: nothing in flight, so the wait-for graph is empty
                let edges = rsactor::__verif_wait_for_edges();
                if !edges.is_empty() {
                    viol.push(format!("round {round}: every actor has ended but the wait-for graph still holds {:?}", edges));
                }
            }
            for (i, log) in logs.iter().enumerate() {
                let ev = log.lock().unwrap().ev.clone();
                #[cfg(feature = "f-metrics")]
                if !end_by_drop {
                    // C20: message_count = handlers entered (none panics or is cancelled here);
                    // readable after the end, avg <= max, snapshot = accessors
                    let entered = ev.iter().filter(|e| matches!(e, Ev::Handle { .. })).count() as u64;
                    let m = keep[i].metrics();
                    if m.message_count != entered || keep[i].message_count() != entered {
                        viol.push(format!("round {round} actor {i}: {entered} handlers entered but message_count={}", m.message_count));
                    }
                    if m.avg_processing_time > m.max_processing_time
                        || m.avg_processing_time != keep[i].avg_processing_time()
                        || m.max_processing_time != keep[i].max_processing_time()
                    {
                        viol.push(format!("round {round} actor {i}: metrics snapshot inconsistent {:?}", m));
                    }
                }
                if ev.first() != Some(&Ev::Start) || ev.iter().filter(|e| **e == Ev::Start).count() != 1 {
                    viol.push(format!("round {round} actor {i}: on_start not first / not once"));
                }
                let stops: Vec<bool> = ev.iter().filter_map(|e| if let Ev::Stop(k) = e { Some(*k) } else { None }).collect();
                if stops.len() != 1 || !matches!(ev.last(), Some(Ev::Stop(_))) {
                    viol.push(format!("round {round} actor {i}: on_stop not last / not exactly once"));
                }
                // C05: killed flag = what on_stop was told; true only if some kill() was accepted
                if let (Some(k), Some(s)) = (results[i], stops.first()) {
                    let kill_sent = recs.iter().any(|r| r.actor == i && r.kind == "kill" && r.res == "ok");
                    if k != *s || (k && !kill_sent) {
                        viol.push(format!("round {round} actor {i}: result says killed={k}, on_stop was told {s}, kill accepted={kill_sent}"));
                    }
                }
                let mut seen: HashSet<(u32, u32)> = HashSet::new();
                let mut last: HashMap<u32, u32> = HashMap::new();
                for e in ev.iter() {
                    if let Ev::Handle { sender, seq } = e {
                        if !seen.insert((*sender, *seq)) {
                            viol.push(format!("round {round} actor {i}: message ({sender},{seq}) handled twice"));
                        }
                        let l = last.entry(*sender).or_insert(0);
                        if *seq <= *l {
                            viol.push(format!("round {round} actor {i}: sender {sender} handled {seq} after {}", *l));
                        }
                        *l = *seq;
                    }
                }
                // C11: once the actor has ended and no strong reference is left, upgrade fails
                if end_by_drop && weaks[i].upgrade().is_some() {
                    viol.push(format!("round {round} actor {i}: upgrade succeeded after the actor ended with no strong reference left"));
                }
                // C11: is_alive() of a strong reference is false once the JoinHandle has resolved
                #[cfg(feature = "f-metrics")]
                if !end_by_drop && keep[i].is_alive() {
                    viol.push(format!("round {round} actor {i}: is_alive() on a strong reference after the JoinHandle resolved"));
                }
                if calm {
                    // C01 / C07: nobody stopped or killed this actor while the clients ran, so every
                    // send found it alive and everything accepted is handled before on_stop(false)
                    if stops.first() == Some(&true) || results[i] == Some(true) {
                        viol.push(format!("round {round} actor {i}: ended as killed although nobody killed it"));
                    }
                    for r in recs.iter().filter(|r| r.actor == i) {
                        let handled = seen.contains(&(r.sender, r.seq));
                        let bad = match (r.kind, r.res.as_str()) {
                            ("tell", "ok") | ("tell_to", "ok") => !handled,
                            ("tell", _) | ("ask", "send") | ("ask", "recv") | ("ask_to", "send") | ("ask_to", "recv") | ("tell_to", "send") => true,
                            _ => false,
                        };
                        if bad {
                            viol.push(format!("round {round} actor {i} (calm round, ended by {}): {} ({},{}) returned {} and handled={handled}",
                                              if end_by_drop { "dropping every reference" } else { "stop()" }, r.kind, r.sender, r.seq, r.res));
                        }
                    }
                }
                for r in recs.iter().filter(|r| r.actor == i) {
                    let handled = seen.contains(&(r.sender, r.seq));
                    if r.res == "HANG" {
                        viol.push(format!("round {round} actor {i}: {} ({},{}) did not return within 5 s", r.kind, r.sender, r.seq));
                    }
                    if r.res == "send" && handled {
                        viol.push(format!("round {round} actor {i}: {} ({},{}) returned Err(Send) but was handled", r.kind, r.sender, r.seq));
                    }
                    if r.kind == "tell_to" && r.res == "timeout" && handled {
                        viol.push(format!("round {round} actor {i}: tell_with_timeout ({},{}) returned Err(Timeout) but was handled", r.sender, r.seq));
                    }
                    if r.res.starts_with("ok") && (r.kind == "ask" || r.kind == "ask_to") {
                        let v: u64 = r.res[2..].parse().unwrap_or(0);
                        if v != value_of(r.sender, r.seq) || !handled {
                            viol.push(format!("round {round} actor {i}: {} ({},{}) returned {} (handled={handled}, expected {})", r.kind, r.sender, r.seq, r.res, value_of(r.sender, r.seq)));
                        }
                    }
                    if r.res.starts_with("err:") {
                        viol.push(format!("round {round} actor {i}: unexpected error {}", r.res));
                    }
                }
            }
            if viol.len() >= 5 {
                break;
            }
        }
        if viol.is_empty() {
            println!("rounds={rounds} ops={total_ops} violations=0");
        } else {
            println!("rounds={rounds} ops={total_ops} violations={} | {}", viol.len(), viol.iter().take(3).cloned().collect::<Vec<_>>().join(" | "));
        }
    });
}
