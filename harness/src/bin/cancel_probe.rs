//! cancel_probe : send futures that are cancelled (dropped) or completed at chosen moments while
//! they wait for, or have just been handed, a mailbox slot - schedules that need a future to stay
//! un-polled across other steps, which the director (every task is polled at every quiescent point)
//! cannot produce.  In the permit-granularity model (coq/Model/Chan.v) these are KGiveBack and a
//! late KFail; the theorems say the shutdown loop ends and nothing is stranded.  Rules checked:
//! the actor ends (its JoinHandle resolves) whatever the waiting sender does, the cancelled message
//! is never handled, the others are handled in order, a freed slot is usable (C01, C03, C06, C07, C09).
//! One line per scenario.
use rsactor::{Actor, ActorRef, ActorWeak, Message};
use std::sync::{Arc, Mutex};
use std::time::Duration;
use tokio::sync::Semaphore;

struct A {
    log: Arc<Mutex<Vec<u32>>>,
    gates: Arc<Vec<Semaphore>>,
    stop_killed: Arc<Mutex<Option<bool>>>,
}
impl Actor for A {
    type Args = (Arc<Mutex<Vec<u32>>>, Arc<Vec<Semaphore>>, Arc<Mutex<Option<bool>>>);
    type Error = std::convert::Infallible;
    async fn on_start(a: Self::Args, _: &ActorRef<Self>) -> Result<Self, Self::Error> {
        Ok(A { log: a.0, gates: a.1, stop_killed: a.2 })
    }
    async fn on_stop(&mut self, _: &ActorWeak<Self>, killed: bool) -> Result<(), Self::Error> {
        *self.stop_killed.lock().unwrap() = Some(killed);
        Ok(())
    }
}
struct M(u32);
impl Message<M> for A {
    type Reply = u32;
    async fn handle(&mut self, m: M, _: &ActorRef<Self>) -> u32 {
        self.log.lock().unwrap().push(m.0);
        // handler of message k waits for gate k
        let p = self.gates[m.0 as usize].acquire().await.unwrap();
        p.forget();
        m.0
    }
}

async fn settle() {
    for _ in 0..30 {
        tokio::task::yield_now().await;
    }
}

#[derive(Clone, Copy, PartialEq)]
enum End {
    Kill,
    Stop,
}
#[derive(Clone, Copy, PartialEq)]
enum Third {
    DropBeforeGrant,
    DropAfterGrant,
    DropAfterEndConsumed,
    PollAfterEndConsumed,
}

async fn scenario(name: &str, end: End, third: Third) {
    let log = Arc::new(Mutex::new(vec![]));
    let gates: Arc<Vec<Semaphore>> = Arc::new((0..8).map(|_| Semaphore::new(0)).collect());
    let sk = Arc::new(Mutex::new(None));
    let (r, mut j) = rsactor::spawn_with_mailbox_capacity::<A>((log.clone(), gates.clone(), sk.clone()), 1);
    settle().await;
    r.tell(M(1)).await.unwrap(); // taken, handler 1 waits for gate 1
    settle().await;
    r.tell(M(2)).await.unwrap(); // fills the mailbox
    let mut f3 = Box::pin(r.tell(M(3)));
    let first = futures::poll!(f3.as_mut()); // parks as the first waiter for a slot
    let mut res3 = match first {
        std::task::Poll::Pending => "pending".to_string(),
        std::task::Poll::Ready(x) => format!("ready-at-once:{}", x.is_ok()),
    };
    let mut f3 = Some(f3);
    let mut extra = String::new();
    if third == Third::DropBeforeGrant {
        f3 = None;
        res3 = "dropped".into();
    }
    if third == Third::DropBeforeGrant || third == Third::DropAfterGrant {
        gates[1].add_permits(1); // handler 1 ends, 2 is taken, the slot goes to the waiter (if any)
        settle().await;
        if third == Third::DropAfterGrant {
            f3 = None; // the permit comes back
            res3 = "dropped".into();
        }
        // the freed slot is usable at once
        let t4 = tokio::time::timeout(Duration::from_secs(5), r.tell(M(4))).await;
        extra = format!(" tell4={}", match t4 { Ok(Ok(())) => "ok", Ok(Err(_)) => "err", Err(_) => "HANG" });
        gates[2].add_permits(1);
        gates[4].add_permits(1);
        settle().await;
        match end {
            End::Kill => { let _ = r.kill(); }
            End::Stop => { let _ = tokio::time::timeout(Duration::from_secs(5), r.stop()).await; }
        }
    } else {
        gates[1].add_permits(1); // 2 is taken (handler waits for gate 2); the slot goes to f3's waiter
        settle().await;
        match end {
            End::Kill => { let _ = r.kill(); }
            End::Stop => {
                // the marker needs a slot too: it queues behind f3's waiter, so it is sent from a task
                let r2 = r.clone();
                tokio::spawn(async move { let _ = r2.stop().await; });
                settle().await;
            }
        }
        gates[2].add_permits(1); // handler 2 ends; the loop now sees the kill (or keeps waiting for a message)
        settle().await;
        match third {
            Third::DropAfterEndConsumed => {
                f3 = None;
                res3 = "dropped".into();
            }
            _ => {
                let out = tokio::time::timeout(Duration::from_secs(5), f3.take().unwrap()).await;
                res3 = match out { Ok(Ok(())) => "ok".into(), Ok(Err(_)) => "err".into(), Err(_) => "HANG".into() };
                for g in 3..4 { gates[g].add_permits(1); }
            }
        }
        settle().await;
    }
    drop(f3);
    // a strong reference stays alive: the actor has to end because it was killed / stopped, not
    // because the last sender went away (which would wake a receiver that waits in recv())
    let keep = r.clone();
    drop(r);
    let jr = match tokio::time::timeout(Duration::from_secs(5), &mut j).await {
        Ok(Ok(res)) => format!("ended(killed={})", res.was_killed()),
        Ok(Err(_)) => "panic".to_string(),
        Err(_) => "HANG".to_string(),
    };
    if jr == "HANG" {
        j.abort();
    }
    drop(keep);
    println!("{name} handled={:?} res3={res3}{extra} join={jr} on_stop={:?}", log.lock().unwrap().clone(), *sk.lock().unwrap());
}

/// A tell_with_timeout parked on a full mailbox is handed the slot, and is polled again only after
/// its deadline: the send completes in that poll, so the result is Ok (tokio's timeout polls the
/// operation before the timer) - and in any case Err(Timeout) must mean "never handled" (C01, C10).
async fn timeout_granted_overdue() {
    let log = Arc::new(Mutex::new(vec![]));
    let gates: Arc<Vec<Semaphore>> = Arc::new((0..8).map(|_| Semaphore::new(0)).collect());
    let sk = Arc::new(Mutex::new(None));
    let (r, j) = rsactor::spawn_with_mailbox_capacity::<A>((log.clone(), gates.clone(), sk.clone()), 1);
    settle().await;
    r.tell(M(1)).await.unwrap();
    settle().await;
    r.tell(M(2)).await.unwrap();
    let mut f3 = Box::pin(r.tell_with_timeout(M(3), Duration::from_millis(80)));
    let first = futures::poll!(f3.as_mut());
    gates[1].add_permits(1); // 2 is taken, the slot goes to the parked tell
    settle().await;
    std::thread::sleep(Duration::from_millis(300)); // its deadline passes while nobody polls it
    tokio::time::sleep(Duration::from_millis(1)).await; // the timer driver turns: the deadline has fired
    let res3 = match first {
        std::task::Poll::Ready(x) => format!("ready-at-once:{}", x.is_ok()),
        std::task::Poll::Pending => match f3.await {
            Ok(()) => "ok".to_string(),
            Err(rsactor::Error::Timeout { .. }) => "timeout".to_string(),
            Err(_) => "err".to_string(),
        },
    };
    gates[2].add_permits(1);
    gates[3].add_permits(1);
    settle().await;
    let _ = r.stop().await;
    let jr = match tokio::time::timeout(Duration::from_secs(5), j).await {
        Ok(Ok(_)) => "ended",
        Ok(Err(_)) => "panic",
        Err(_) => "HANG",
    };
    let handled = log.lock().unwrap().clone();
    let consistent = (res3 == "ok") == handled.contains(&3);
    println!("timeout_granted_overdue handled={handled:?} res3={res3} result_matches_delivery={consistent} join={jr}");
}

fn main() {
    std::panic::set_hook(Box::new(|_| {}));
    let rt = tokio::runtime::Builder::new_current_thread().enable_time().build().unwrap();
    rt.block_on(async {
        scenario("kill_drop_before_grant", End::Kill, Third::DropBeforeGrant).await;
        scenario("stop_drop_before_grant", End::Stop, Third::DropBeforeGrant).await;
        scenario("kill_drop_after_grant", End::Kill, Third::DropAfterGrant).await;
        scenario("stop_drop_after_grant", End::Stop, Third::DropAfterGrant).await;
        scenario("kill_drop_after_kill_consumed", End::Kill, Third::DropAfterEndConsumed).await;
        scenario("kill_poll_after_kill_consumed", End::Kill, Third::PollAfterEndConsumed).await;
        scenario("stop_poll_granted_then_stop", End::Stop, Third::PollAfterEndConsumed).await;
        timeout_granted_overdue().await;
    });
}
