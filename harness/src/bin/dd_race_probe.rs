//! dd_race_probe <rounds> : two actors whose handlers ask each other at (almost) the same instant on
//! a multi-thread runtime, under background load on the wait-for graph, many rounds.  Whatever the
//! interleaving, the two asks form the cycle A -> B -> A, so exactly one of them must panic with
//! "Deadlock detected" and nobody may be left waiting (C14_complete_run: in the model, the check and
//! the insertion of the edge are one atomic step - this is the supporting stress test for that
//! atomicity, which only a multi-threaded schedule can violate).
#[cfg(not(feature = "f-dd"))]
fn main() {
    println!("dd_race_probe needs the f-dd feature");
}

#[cfg(feature = "f-dd")]
mod probe {
    use rsactor::{spawn, Actor, ActorRef, ActorWeak, Message};
    use std::sync::atomic::{AtomicBool, AtomicUsize, Ordering};
    use std::sync::Arc;
    use std::time::{Duration, Instant};

    pub struct Node;
    impl Actor for Node {
        type Args = ();
        type Error = std::convert::Infallible;
        async fn on_start(_: (), _: &ActorRef<Self>) -> Result<Self, Self::Error> {
            Ok(Node)
        }
        async fn on_stop(&mut self, _: &ActorWeak<Self>, _: bool) -> Result<(), Self::Error> {
            Ok(())
        }
    }
    pub struct Ping;
    impl Message<Ping> for Node {
        type Reply = u32;
        async fn handle(&mut self, _: Ping, _: &ActorRef<Self>) -> u32 {
            7
        }
    }
    pub struct AskPeer {
        pub peer: ActorRef<Node>,
        pub barrier: Arc<tokio::sync::Barrier>,
        pub gate: Arc<AtomicUsize>,
        pub skew: usize,
    }
    impl Message<AskPeer> for Node {
        type Reply = ();
        async fn handle(&mut self, m: AskPeer, _: &ActorRef<Self>) {
            m.barrier.wait().await; // both handlers have started: the cycle is unavoidable
            m.gate.fetch_add(1, Ordering::SeqCst);
            let t0 = Instant::now();
            while m.gate.load(Ordering::SeqCst) < 2 && t0.elapsed() < Duration::from_micros(500) {
                std::hint::spin_loop();
            }
            for _ in 0..m.skew {
                std::hint::spin_loop();
            }
            let _ = m.peer.ask(Ping).await;
        }
    }
    pub struct Churn {
        pub sink: ActorRef<Node>,
        pub stop: Arc<AtomicBool>,
    }
    impl Message<Churn> for Node {
        type Reply = u64;
        async fn handle(&mut self, m: Churn, _: &ActorRef<Self>) -> u64 {
            let mut n = 0;
            while !m.stop.load(Ordering::Relaxed) {
                if m.sink.ask(Ping).await.is_err() {
                    break;
                }
                n += 1;
            }
            n
        }
    }

    pub async fn run(rounds: usize) {
        let stop = Arc::new(AtomicBool::new(false));
        let mut load = vec![];
        for _ in 0..4 {
            let (asker, aj) = spawn::<Node>(());
            let (sink, sj) = spawn::<Node>(());
            let _ = asker.tell(Churn { sink: sink.clone(), stop: stop.clone() }).await;
            load.push((asker, aj, sink, sj));
        }
        let (mut detected, mut hung, mut other, mut survivor_hung) = (0usize, 0usize, 0usize, 0usize);
        let mut first_bad = String::new();
        for round in 0..rounds {
            if hung + other >= 2 || survivor_hung >= 20 {
                break; // enough evidence; every undetected round costs a 5 s wait
            }
            let (a, mut aj) = spawn::<Node>(());
            let (b, mut bj) = spawn::<Node>(());
            let barrier = Arc::new(tokio::sync::Barrier::new(2));
            let gate = Arc::new(AtomicUsize::new(0));
            let _ = a.tell(AskPeer { peer: b.clone(), barrier: barrier.clone(), gate: gate.clone(), skew: round % 8 }).await;
            let _ = b.tell(AskPeer { peer: a.clone(), barrier, gate, skew: (round / 8) % 8 }).await;
            let first = tokio::time::timeout(Duration::from_secs(5), async {
                tokio::select! {
                    r = &mut aj => (r, true),
                    r = &mut bj => (r, false),
                }
            })
            .await;
            match first {
                Err(_) => {
                    hung += 1;
                    if first_bad.is_empty() {
                        first_bad = format!("round {round}: cycle not detected, both actors wait");
                    }
                    // both handlers are blocked in their asks: kill() cannot interrupt a handler,
                    // so the two tasks are aborted rather than joined
                    aj.abort();
                    bj.abort();
                    continue;
                }
                Ok((Err(e), a_ended)) if e.is_panic() => {
                    let p = e.into_panic();
                    let text = p.downcast_ref::<String>().cloned().or_else(|| p.downcast_ref::<&str>().map(|s| s.to_string())).unwrap_or_default();
                    if text.contains("Deadlock detected") {
                        detected += 1;
                    } else {
                        other += 1;
                    }
                    drop(a);
                    drop(b);
                    let survivor = if a_ended { bj } else { aj };
                    match tokio::time::timeout(Duration::from_secs(5), survivor).await {
                        Ok(Ok(_)) => {}
                        Ok(Err(_)) => {
                            // both panicked: two detections for one cycle is still "detected", not a hang
                        }
                        Err(_) => {
                            // the cycle WAS detected; the survivor's own ask to the dying peer never
                            // returned (C03's late-push finding), counted separately
                            survivor_hung += 1;
                        }
                    }
                }
                Ok(_) => {
                    other += 1;
                    if first_bad.is_empty() {
                        first_bad = format!("round {round}: an actor of the cycle ended without a panic");
                    }
                    let _ = a.kill();
                    let _ = b.kill();
                }
            }
        }
        stop.store(true, Ordering::Relaxed);
        for (asker, aj, sink, sj) in load {
            let _ = asker.kill();
            let _ = sink.kill();
            let _ = aj.await;
            let _ = sj.await;
        }
        // an edge left at the end belongs to a survivor that hangs (its ask future is still alive)
        let edges = rsactor::__verif_wait_for_edges().len();
        println!("rounds={rounds} detected={detected} hung={hung} other={other} survivor_hung={survivor_hung} edges_end_minus_hung={} {}", edges.saturating_sub(survivor_hung), first_bad);
    }
}

#[cfg(feature = "f-dd")]
fn main() {
    std::panic::set_hook(Box::new(|_| {}));
    let rounds: usize = std::env::args().nth(1).and_then(|s| s.parse().ok()).unwrap_or(500);
    let rt = tokio::runtime::Builder::new_multi_thread().worker_threads(8).enable_time().build().unwrap();
    rt.block_on(probe::run(rounds));
}
