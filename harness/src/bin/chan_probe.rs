//! chan_probe <file> : runs label scripts of the permit-granularity mailbox model (coq/Model/Chan.v)
//! against the real tokio::sync::mpsc channel and prints, per script, what can be observed after
//! every step - the same text `driver --chan <file>` prints from the model.  This is the tie for
//! the tokio facts Chan.v assumes: a permit is obtained only while open and free; a holder's push
//! always lands (also after close, also after the receiver is gone); pop and give-back return the
//! permit; close() keeps queued values readable; capacity()/max_capacity() are the free permits
//! and the bound; a value pushed after the receiver was dropped stays alive while a Sender lives.
//!
//! line format:  `<waits 0|1> <cap> <senders> : a0 p0 r c d x g1 f0 ...`
use std::sync::atomic::{AtomicIsize, Ordering};
use tokio::sync::mpsc;

static LIVE: AtomicIsize = AtomicIsize::new(0);
struct Msg(usize, usize);
impl Msg {
    fn new(i: usize, k: usize) -> Msg {
        LIVE.fetch_add(1, Ordering::SeqCst);
        Msg(i, k)
    }
}
impl Drop for Msg {
    fn drop(&mut self) {
        LIVE.fetch_sub(1, Ordering::SeqCst);
    }
}

#[derive(PartialEq)]
enum Phase {
    Running,
    Draining,
    Exited,
}

fn main() {
    let file = std::env::args().nth(1).expect("file");
    let text = std::fs::read_to_string(file).unwrap();
    for line in text.lines() {
        let mut parts = line.splitn(2, ':');
        let (hd, body) = match (parts.next(), parts.next()) {
            (Some(h), Some(b)) => (h, b),
            _ => continue,
        };
        let h: Vec<usize> = hd.split_whitespace().map(|x| x.parse().unwrap()).collect();
        let (waits, cap, n) = (h[0] == 1, h[1], h[2]);
        LIVE.store(0, Ordering::SeqCst);
        let (tx, rx) = mpsc::channel::<Msg>(cap);
        let mut rx = Some(rx);
        let mut phase = Phase::Running;
        let mut held: Vec<Option<mpsc::OwnedPermit<Msg>>> = (0..n).map(|_| None).collect();
        let mut next = vec![0usize; n];
        let mut ok: Vec<Vec<usize>> = vec![vec![]; n];
        let mut err: Vec<Vec<usize>> = vec![vec![]; n];
        let mut handled: Vec<(usize, usize)> = vec![];
        let mut dropped: Vec<(usize, usize)> = vec![];
        let mut out = String::new();
        for t in body.split_whitespace() {
            let c = t.as_bytes()[0] as char;
            let arg = || t[1..].parse::<usize>().unwrap();
            match c {
                'a' => {
                    let i = arg();
                    if i < n && held[i].is_none() {
                        // a permit is only obtained while the channel is open and a permit is free
                        if let Ok(p) = tx.clone().try_reserve_owned() {
                            held[i] = Some(p);
                        }
                    }
                }
                'f' => {
                    let i = arg();
                    if i < n && held[i].is_none() {
                        if let Err(mpsc::error::TrySendError::Closed(_)) = tx.clone().try_reserve_owned() {
                            err[i].push(next[i]);
                            next[i] += 1;
                        }
                    }
                }
                'p' => {
                    let i = arg();
                    if i < n {
                        if let Some(p) = held[i].take() {
                            let _ = p.send(Msg::new(i, next[i]));
                            ok[i].push(next[i]);
                            next[i] += 1;
                        }
                    }
                }
                'g' => {
                    let i = arg();
                    if i < n {
                        if let Some(p) = held[i].take() {
                            drop(p);
                            err[i].push(next[i]);
                            next[i] += 1;
                        }
                    }
                }
                'r' => {
                    if phase == Phase::Running {
                        if let Ok(m) = rx.as_mut().unwrap().try_recv() {
                            handled.push((m.0, m.1));
                        }
                    }
                }
                'c' => {
                    if phase == Phase::Running {
                        rx.as_mut().unwrap().close();
                        phase = Phase::Draining;
                    }
                }
                'd' => {
                    if phase == Phase::Draining {
                        if let Ok(m) = rx.as_mut().unwrap().try_recv() {
                            dropped.push((m.0, m.1));
                        }
                    }
                }
                'x' => {
                    if phase == Phase::Draining {
                        let r = rx.as_mut().unwrap();
                        // the exit test of rsactor's shutdown loop (with / without the permit test)
                        if r.is_empty() && (!waits || r.capacity() == r.max_capacity()) {
                            rx = None; // the receiver is dropped
                            phase = Phase::Exited;
                        }
                    }
                }
                _ => panic!("label {t}"),
            }
            let free = tx.capacity();
            let ql = match rx.as_ref() {
                Some(r) => r.len().to_string(),
                None => "-".to_string(),
            };
            out.push_str(&format!("{}/{}/{}/{} ", free, ql, tx.is_closed() as u8, LIVE.load(Ordering::SeqCst)));
        }
        let ms = |l: &Vec<(usize, usize)>| l.iter().map(|(i, k)| format!("{i}.{k}")).collect::<Vec<_>>().join(",");
        let ns = |l: &Vec<usize>| l.iter().map(|k| k.to_string()).collect::<Vec<_>>().join(",");
        out.push_str(&format!("H=[{}] D=[{}]", ms(&handled), ms(&dropped)));
        for i in 0..n {
            out.push_str(&format!(" s{}:ok=[{}],err=[{}]", i, ns(&ok[i]), ns(&err[i])));
        }
        println!("{out}");
        drop(held);
        drop(rx);
        drop(tx);
    }
}
