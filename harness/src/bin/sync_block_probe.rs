//! sync_block_probe : the blocking API while the runtime's only thread is busy in a synchronous
//! handler - a schedule the director (one action per quiescent round) cannot produce.
//! Per scenario: a current-thread runtime, an actor with capacity 1 or 2 whose first handler
//! sleeps synchronously (blocking the runtime), and a spawn_blocking thread that issues three
//! sends one after the other through a chosen sequence of blocking routes:
//!   n = blocking_tell(None)   t = blocking_tell(Some(60 s))   d = tell_blocking(None) (deprecated)
//!   e = Box<dyn TellHandler>::blocking_tell(None)              a = blocking_ask(None)
//! Rules (C02 per-sender order across routes, C09 waiting not failing, C17): every send returns Ok,
//! and the handled order is the program order 0,1,2,3.  One line per scenario.
use rsactor::{Actor, ActorRef, ActorWeak, Message, TellHandler};
use std::sync::{Arc, Mutex};
use std::time::Duration;

struct A {
    log: Arc<Mutex<Vec<u32>>>,
}
impl Actor for A {
    type Args = Arc<Mutex<Vec<u32>>>;
    type Error = std::convert::Infallible;
    async fn on_start(log: Self::Args, _: &ActorRef<Self>) -> Result<Self, Self::Error> {
        Ok(A { log })
    }
    async fn on_stop(&mut self, _: &ActorWeak<Self>, _: bool) -> Result<(), Self::Error> {
        Ok(())
    }
}
struct Msg(u32);
impl Message<Msg> for A {
    type Reply = u32;
    async fn handle(&mut self, m: Msg, _: &ActorRef<Self>) -> u32 {
        self.log.lock().unwrap().push(m.0);
        if m.0 == 0 {
            // synchronous: the runtime's only thread is stuck here
            std::thread::sleep(Duration::from_millis(350));
        }
        m.0
    }
}

fn scenario(cap: usize, routes: &[char]) -> String {
    let rt = tokio::runtime::Builder::new_current_thread().enable_time().build().unwrap();
    let routes_v: Vec<char> = routes.to_vec();
    let (log, results) = rt.block_on(async move {
        let log = Arc::new(Mutex::new(vec![]));
        let (r, j) = rsactor::spawn_with_mailbox_capacity::<A>(log.clone(), cap);
        r.tell(Msg(0)).await.unwrap();
        let r2 = r.clone();
        let sender = tokio::task::spawn_blocking(move || {
            std::thread::sleep(Duration::from_millis(80)); // handler 0 has begun
            let mut res = vec![];
            for (k, c) in routes_v.iter().enumerate() {
                let id = k as u32 + 1;
                let out = match c {
                    'n' => r2.blocking_tell(Msg(id), None).map(|_| ()),
                    't' => r2.blocking_tell(Msg(id), Some(Duration::from_secs(60))).map(|_| ()),
                    #[allow(deprecated)]
                    'd' => r2.tell_blocking(Msg(id), None).map(|_| ()),
                    'e' => {
                        let h: Box<dyn TellHandler<Msg>> = Box::new(r2.clone());
                        h.blocking_tell(Msg(id), None)
                    }
                    'a' => r2.blocking_ask(Msg(id), None).map(|_| ()),
                    _ => unreachable!(),
                };
                res.push(match out {
                    Ok(()) => "ok".to_string(),
                    Err(rsactor::Error::Send { .. }) => "send".to_string(),
                    Err(rsactor::Error::Timeout { .. }) => "timeout".to_string(),
                    Err(e) => format!("err:{e}"),
                });
            }
            res
        });
        let results = match tokio::time::timeout(Duration::from_secs(20), sender).await {
            Ok(Ok(v)) => v,
            Ok(Err(_)) => vec!["sender-panicked".to_string()],
            Err(_) => vec!["sender-hung".to_string()],
        };
        // everything accepted so far is handled before on_stop
        let _ = tokio::time::timeout(Duration::from_secs(10), r.stop()).await;
        drop(r);
        let _ = tokio::time::timeout(Duration::from_secs(10), j).await;
        let l = log.lock().unwrap().clone();
        (l, results)
    });
    format!("cap={} routes={} results={} handled={:?}", cap, routes.iter().collect::<String>(), results.join(","), log)
}

fn main() {
    std::panic::set_hook(Box::new(|_| {}));
    let alphabet = ['n', 't', 'd', 'e', 'a'];
    let mut scen: Vec<(usize, Vec<char>)> = vec![];
    for cap in [1usize, 2] {
        for a in alphabet {
            for b in alphabet {
                for c in alphabet {
                    scen.push((cap, vec![a, b, c]));
                }
            }
        }
    }
    // run in parallel: every scenario has its own runtime and threads
    let scen = Arc::new(scen);
    let out: Arc<Mutex<Vec<(usize, String)>>> = Arc::new(Mutex::new(vec![]));
    let next = Arc::new(std::sync::atomic::AtomicUsize::new(0));
    let mut ths = vec![];
    for _ in 0..12 {
        let (scen, out, next) = (scen.clone(), out.clone(), next.clone());
        ths.push(std::thread::spawn(move || loop {
            let i = next.fetch_add(1, std::sync::atomic::Ordering::SeqCst);
            if i >= scen.len() {
                break;
            }
            let line = scenario(scen[i].0, &scen[i].1);
            out.lock().unwrap().push((i, line));
        }));
    }
    for t in ths {
        let _ = t.join();
    }
    let mut v = out.lock().unwrap().clone();
    v.sort();
    for (_, l) in v {
        println!("{l}");
    }
}
