//! id_stress <threads> <per_thread> : in a fresh process, spawn actors concurrently from many OS
//! threads on a multi-thread runtime and report the set of identities handed out.  Supporting test
//! for the one thing the model assumes about the id counter: that allocation is a single atomic
//! step (the model's LSpawn), so the ids of n spawns are exactly first..first+n-1, all distinct,
//! and every handle derived from a reference carries the id it was created with.
//! id_stress <threads> <per_thread> <failing_threads> : the same while <failing_threads> further
//! threads keep calling spawn_with_mailbox_capacity(usize::MAX), which panics inside tokio after
//! the id has been taken (C12: a failing spawn must not disturb the ids of the others; the ids are
//! then distinct but need not be contiguous).
use rsactor::{Actor, ActorRef, ActorWeak};
use std::collections::BTreeSet;

struct A;
impl Actor for A {
    type Args = ();
    type Error = std::convert::Infallible;
    async fn on_start(_a: (), _r: &ActorRef<Self>) -> Result<Self, Self::Error> {
        Ok(A)
    }
    async fn on_stop(&mut self, _w: &ActorWeak<Self>, _killed: bool) -> Result<(), Self::Error> {
        Ok(())
    }
}

fn main() {
    let threads: usize = std::env::args().nth(1).and_then(|s| s.parse().ok()).unwrap_or(16);
    let per: usize = std::env::args().nth(2).and_then(|s| s.parse().ok()).unwrap_or(500);
    let failing: usize = std::env::args().nth(3).and_then(|s| s.parse().ok()).unwrap_or(0);
    std::panic::set_hook(Box::new(|_| {}));
    let rt = tokio::runtime::Builder::new_multi_thread().worker_threads(8).enable_time().build().unwrap();
    let handle = rt.handle().clone();
    let barrier = std::sync::Arc::new(std::sync::Barrier::new(threads));
    let mut ths = vec![];
    for _ in 0..threads {
        let h = handle.clone();
        let b = barrier.clone();
        ths.push(std::thread::spawn(move || {
            let _g = h.enter();
            b.wait();
            let mut out = Vec::with_capacity(per);
            for _ in 0..per {
                let (r, j) = rsactor::spawn::<A>(());
                let id = r.identity().id;
                let w = ActorRef::downgrade(&r);
                let stable = w.identity().id == id && r.clone().identity().id == id
                    && w.upgrade().map(|u| u.identity().id == id).unwrap_or(false);
                out.push((id, stable, r, j));
            }
            out
        }));
    }
    let done = std::sync::Arc::new(std::sync::atomic::AtomicBool::new(false));
    let mut fths = vec![];
    for _ in 0..failing {
        let h = handle.clone();
        let d = done.clone();
        fths.push(std::thread::spawn(move || {
            let _g = h.enter();
            let mut n = 0usize;
            while !d.load(std::sync::atomic::Ordering::SeqCst) {
                let r = std::panic::catch_unwind(|| rsactor::spawn_with_mailbox_capacity::<A>((), usize::MAX));
                if r.is_err() {
                    n += 1;
                }
            }
            n
        }));
    }
    let mut all = vec![];
    for t in ths {
        all.extend(t.join().unwrap());
    }
    done.store(true, std::sync::atomic::Ordering::SeqCst);
    let failed: usize = fths.into_iter().map(|t| t.join().unwrap()).sum();
    let ids: Vec<u64> = all.iter().map(|x| x.0).collect();
    let set: BTreeSet<u64> = ids.iter().cloned().collect();
    let unstable = all.iter().filter(|x| !x.1).count();
    let min = *set.iter().next().unwrap();
    let max = *set.iter().next_back().unwrap();
    // end them all
    rt.block_on(async {
        for (_, _, r, _) in all.iter() {
            let _ = r.kill();
        }
        for (_, _, _, j) in all.drain(..) {
            let _ = j.await;
        }
    });
    if failing > 0 {
        println!("spawned={} distinct={} unstable={} failing_spawns_panicked={}", ids.len(), set.len(), unstable, failed > 0);
        return;
    }
    println!(
        "spawned={} distinct={} min={} max={} contiguous={} unstable={}",
        ids.len(),
        set.len(),
        min,
        max,
        (max - min + 1) as usize == set.len(),
        unstable
    );
}
