//! Director script language (same text format as ocaml/driver.ml parses).

#[derive(Debug, Clone, Copy, PartialEq)]
pub enum Kind {
    Tell,
    Ask,
    Stop,
}
/// how a client calls: async method; blocking_* on a std thread (b), in spawn_blocking (s), directly
/// inside an async task (i, timeout variants only); deprecated *_blocking alias on a std thread (d)
#[derive(Debug, Clone, Copy, PartialEq)]
pub enum Flavour {
    Async,
    BlockThread,
    BlockSpawnBlocking,
    BlockInside,
    Deprecated,
}
#[derive(Debug, Clone, PartialEq)]
pub enum HOut {
    Ok,
    Err(u64),
    Panic,
    Reply(u64),
}
#[derive(Debug, Clone, PartialEq)]
pub enum ROut {
    True,
    False,
    Err(u64),
    Panic,
}
#[derive(Debug, Clone, PartialEq)]
pub enum HItem {
    Done(HOut),
    Do { o: u64, k: Kind, slot: usize, tmo: Option<u64> },
    Kill(usize),
}
#[derive(Debug, Clone, PartialEq)]
pub enum Action {
    Spawn { cap: usize, auto: bool },
    Op { o: u64, k: Kind, slot: usize, tmo: Option<u64>, fl: Flavour },
    Kill { slot: usize },
    Clone { src: usize, dst: usize },
    Drop { slot: usize },
    Downgrade { src: usize, dst: usize },
    Upgrade { src: usize, dst: usize },
    Hook { a: usize, its: Vec<HItem> },
    Run { a: usize, r: ROut },
    Auto { a: usize, v: bool },
    Advance { k: u64 },
    Abort { o: u64 },
}

fn kind(s: &str) -> Kind {
    match s {
        "tell" => Kind::Tell,
        "ask" => Kind::Ask,
        "stop" => Kind::Stop,
        _ => panic!("kind {s}"),
    }
}
fn tmo(s: &str) -> Option<u64> {
    if s == "-" {
        None
    } else {
        Some(s.parse().unwrap())
    }
}
fn hout(s: &str) -> HOut {
    if s == "ok" {
        HOut::Ok
    } else if s == "panic" {
        HOut::Panic
    } else if let Some(e) = s.strip_prefix("err:") {
        HOut::Err(e.parse().unwrap())
    } else if let Some(v) = s.strip_prefix("reply:") {
        HOut::Reply(v.parse().unwrap())
    } else {
        panic!("hout {s}")
    }
}
fn hitem(s: &str) -> HItem {
    let p: Vec<&str> = s.split(':').collect();
    match p.as_slice() {
        ["do", o, k, sl, t] => HItem::Do { o: o.parse().unwrap(), k: kind(k), slot: sl.parse().unwrap(), tmo: tmo(t) },
        ["kill", sl] => HItem::Kill(sl.parse().unwrap()),
        _ => HItem::Done(hout(s)),
    }
}
fn rout(s: &str) -> ROut {
    if s == "true" {
        ROut::True
    } else if s == "false" {
        ROut::False
    } else if s == "panic" {
        ROut::Panic
    } else if let Some(e) = s.strip_prefix("err:") {
        ROut::Err(e.parse().unwrap())
    } else {
        panic!("rout {s}")
    }
}

pub fn parse(text: &str) -> Vec<Action> {
    let mut v = vec![];
    for l in text.lines() {
        let l = l.trim();
        if l.is_empty() || l.starts_with('#') {
            continue;
        }
        let w: Vec<&str> = l.split_whitespace().collect();
        let n = |i: usize| -> usize { w[i].parse().unwrap() };
        match w[0] {
            "feat" | "mode" => {}
            "spawn" => v.push(Action::Spawn { cap: n(1), auto: w[2] == "1" }),
            "op" => {
                let fl = match w.get(5).copied() {
                    Some("b") => Flavour::BlockThread,
                    Some("s") => Flavour::BlockSpawnBlocking,
                    Some("i") => Flavour::BlockInside,
                    Some("d") => Flavour::Deprecated,
                    _ => Flavour::Async,
                };
                v.push(Action::Op { o: n(1) as u64, k: kind(w[2]), slot: n(3), tmo: tmo(w[4]), fl })
            }
            "kill" => v.push(Action::Kill { slot: n(1) }),
            "clone" => v.push(Action::Clone { src: n(1), dst: n(2) }),
            "drop" => v.push(Action::Drop { slot: n(1) }),
            "downgrade" => v.push(Action::Downgrade { src: n(1), dst: n(2) }),
            "upgrade" => v.push(Action::Upgrade { src: n(1), dst: n(2) }),
            "hook" => v.push(Action::Hook { a: n(1), its: w[2].split('+').map(hitem).collect() }),
            "run" => {
                if w[2] != "pending" {
                    v.push(Action::Run { a: n(1), r: rout(w[2]) })
                }
            }
            "auto" => v.push(Action::Auto { a: n(1), v: w[2] == "1" }),
            "advance" => v.push(Action::Advance { k: n(1) as u64 }),
            "abort" => v.push(Action::Abort { o: n(1) as u64 }),
            _ => panic!("bad action {l}"),
        }
    }
    v
}
