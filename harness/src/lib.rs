//! Director harness: drives the real rsactor on a paused-clock current_thread tokio runtime,
//! one scripted action per round, and prints what is observable after every round in the same
//! text format as the model driver (ocaml/driver.ml).

pub mod script;
pub mod sub;

use rsactor::{Actor, ActorControl, ActorRef, ActorWeak, AskHandler, Message, TellHandler, WeakActorControl, WeakAskHandler, WeakTellHandler};
use script::{Action, Flavour, HItem, HOut, Kind, ROut};
use std::collections::BTreeMap;
use std::fmt::Write as _;
use std::future::Future;
use std::pin::Pin;
use std::sync::{Arc, Mutex};
use std::task::{Context, Poll, Waker};
use std::time::Duration;
use tokio::sync::Notify;
use tokio::task::JoinHandle;

/// virtual mode: one tick = one hour of paused clock, barrier 1 ms; real-time mode (blocking API):
/// one tick = 800 ms of wall clock, barrier 40 ms
pub static REALTIME: std::sync::atomic::AtomicBool = std::sync::atomic::AtomicBool::new(false);
pub fn tick() -> Duration {
    if REALTIME.load(std::sync::atomic::Ordering::Relaxed) { Duration::from_millis(800) } else { Duration::from_secs(3600) }
}
pub fn barrier_len() -> Duration {
    if REALTIME.load(std::sync::atomic::Ordering::Relaxed) { Duration::from_millis(40) } else { Duration::from_millis(1) }
}

#[derive(Debug)]
pub struct Tagged(pub u64);

/// Reply of every scripted handler: which actor, which request, which value.
#[derive(Debug, Clone, PartialEq)]
pub struct Rep {
    pub a: usize,
    pub o: u64,
    pub v: u64,
}

/// Message family: the const parameter makes four distinct message types.
pub struct M<const K: u8> {
    pub o: u64,
}

#[derive(Default)]
pub struct ActorEnv {
    pub hookq: std::collections::VecDeque<HItem>,
    pub runq: std::collections::VecDeque<ROut>,
    pub auto: bool,
    pub events: Vec<String>,
    pub run_waker: Option<Waker>,
    pub tells_ok: Vec<u64>,   // tells to this actor that returned Ok
    pub handled: Vec<u64>,    // handler entries
}

/// Every type-erased strong handle kind, all obtained from one ActorRef through the various
/// conversion paths (From<&ActorRef>, From<ActorRef>, Box::new, clone_boxed, as_control).
pub struct EStrong {
    pub t0: Box<dyn TellHandler<M<0>>>,
    pub t1: Box<dyn TellHandler<M<1>>>,
    pub t2: Box<dyn TellHandler<M<2>>>,
    pub t3: Box<dyn TellHandler<M<3>>>,
    pub a0: Box<dyn AskHandler<M<0>, Rep>>,
    pub a1: Box<dyn AskHandler<M<1>, Rep>>,
    pub a2: Box<dyn AskHandler<M<2>, Rep>>,
    pub a3: Box<dyn AskHandler<M<3>, Rep>>,
    pub c: Box<dyn ActorControl>,
}
pub struct EWeak {
    pub t0: Box<dyn WeakTellHandler<M<0>>>,
    pub t1: Box<dyn WeakTellHandler<M<1>>>,
    pub t2: Box<dyn WeakTellHandler<M<2>>>,
    pub t3: Box<dyn WeakTellHandler<M<3>>>,
    pub a0: Box<dyn WeakAskHandler<M<0>, Rep>>,
    pub a1: Box<dyn WeakAskHandler<M<1>, Rep>>,
    pub a2: Box<dyn WeakAskHandler<M<2>, Rep>>,
    pub a3: Box<dyn WeakAskHandler<M<3>, Rep>>,
    pub c: Box<dyn WeakActorControl>,
}
impl EStrong {
    pub fn from_ref(r: &ActorRef<SA>) -> Self {
        let t0: Box<dyn TellHandler<M<0>>> = r.into();
        let t1: Box<dyn TellHandler<M<1>>> = r.clone().into();
        let t2: Box<dyn TellHandler<M<2>>> = Box::new(r.clone());
        let t3: Box<dyn TellHandler<M<3>>> = TellHandler::<M<3>>::clone_boxed(r);
        let a0: Box<dyn AskHandler<M<0>, Rep>> = r.into();
        let a1: Box<dyn AskHandler<M<1>, Rep>> = r.clone().into();
        let a2: Box<dyn AskHandler<M<2>, Rep>> = Box::new(r.clone());
        let a3: Box<dyn AskHandler<M<3>, Rep>> = AskHandler::<M<3>, Rep>::clone_boxed(r);
        let c: Box<dyn ActorControl> = t0.as_control().clone_boxed();
        EStrong { t0, t1, t2, t3, a0, a1, a2, a3, c }
    }
    pub fn dup(&self) -> Self {
        EStrong {
            t0: self.t0.clone(), t1: self.t1.clone_boxed(), t2: self.t2.clone(), t3: self.t3.clone_boxed(),
            a0: self.a0.clone(), a1: self.a1.clone_boxed(), a2: self.a2.clone(), a3: self.a3.clone_boxed(),
            c: self.c.clone(),
        }
    }
    pub fn downgrade(&self) -> EWeak {
        EWeak {
            t0: self.t0.downgrade(), t1: self.t1.downgrade(), t2: self.t2.downgrade(), t3: self.t3.downgrade(),
            a0: self.a0.downgrade(), a1: self.a1.downgrade(), a2: self.a2.downgrade(), a3: self.a3.downgrade(),
            c: self.c.downgrade(),
        }
    }
}
impl EWeak {
    pub fn dup(&self) -> Self {
        EWeak {
            t0: self.t0.clone(), t1: self.t1.clone_boxed(), t2: self.t2.clone(), t3: self.t3.clone_boxed(),
            a0: self.a0.clone(), a1: self.a1.clone_boxed(), a2: self.a2.clone(), a3: self.a3.clone_boxed(),
            c: self.c.clone(),
        }
    }
    /// upgrade every handle; they must agree
    pub fn upgrade(&self, fails: &mut Vec<String>) -> Option<EStrong> {
        let (t0, t1, t2, t3) = (self.t0.upgrade(), self.t1.upgrade(), self.t2.upgrade(), self.t3.upgrade());
        let (a0, a1, a2, a3) = (self.a0.upgrade(), self.a1.upgrade(), self.a2.upgrade(), self.a3.upgrade());
        let c = self.c.upgrade();
        let via = self.t0.as_weak_control().upgrade().is_some();
        let n = [t0.is_some(), t1.is_some(), t2.is_some(), t3.is_some(), a0.is_some(), a1.is_some(), a2.is_some(), a3.is_some(), c.is_some(), via];
        if n.iter().any(|x| *x != n[0]) {
            fails.push(format!("C16 weak handles of one actor disagree on upgrade: {n:?}"));
        }
        if self.c.is_alive() != c.is_some() {
            fails.push(format!("C16 WeakActorControl::is_alive()={} but upgrade()={}", self.c.is_alive(), c.is_some()));
        }
        match (t0, t1, t2, t3, a0, a1, a2, a3, c) {
            (Some(t0), Some(t1), Some(t2), Some(t3), Some(a0), Some(a1), Some(a2), Some(a3), Some(c)) =>
                Some(EStrong { t0, t1, t2, t3, a0, a1, a2, a3, c }),
            _ => None,
        }
    }
}

pub enum SRef {
    Typed(ActorRef<SA>),
    Erased(EStrong),
}
pub enum WRef {
    Typed(ActorWeak<SA>),
    Erased(EWeak),
}
impl SRef {
    pub fn dup(&self) -> SRef {
        match self { SRef::Typed(r) => SRef::Typed(r.clone()), SRef::Erased(e) => SRef::Erased(e.dup()) }
    }
    pub fn identity(&self) -> rsactor::Identity {
        match self { SRef::Typed(r) => r.identity(), SRef::Erased(e) => e.c.identity() }
    }
    pub fn kill(&self) -> rsactor::Result<()> {
        match self { SRef::Typed(r) => r.kill(), SRef::Erased(e) => e.c.kill() }
    }
    pub fn downgrade(&self) -> WRef {
        match self { SRef::Typed(r) => WRef::Typed(ActorRef::downgrade(r)), SRef::Erased(e) => WRef::Erased(e.downgrade()) }
    }
}
impl WRef {
    pub fn dup(&self) -> WRef {
        match self { WRef::Typed(w) => WRef::Typed(w.clone()), WRef::Erased(e) => WRef::Erased(e.dup()) }
    }
    pub fn upgrade(&self, fails: &mut Vec<String>) -> Option<SRef> {
        match self { WRef::Typed(w) => w.upgrade().map(SRef::Typed), WRef::Erased(e) => e.upgrade(fails).map(SRef::Erased) }
    }
}

pub enum Slot {
    Strong(SRef),
    Weak(WRef),
}

/// whether slots hold type-erased handles (script header `mode erased`)
pub static ERASED: std::sync::atomic::AtomicBool = std::sync::atomic::AtomicBool::new(false);

#[derive(Default)]
pub struct State {
    pub env: Vec<ActorEnv>,
    pub slots: BTreeMap<usize, Slot>,
    pub results: BTreeMap<u64, String>,
    pub monitor_failures: Vec<String>,
    /// global sequence numbers of begin (b), handler exit (x), done (d), refused-by-panic (p) per op
    pub seq: u64,
    pub qlog: Vec<String>,
}

impl State {
    pub fn stamp(&mut self, tag: char, o: u64) {
        self.seq += 1;
        let q = format!("{tag}{o}={}", self.seq);
        self.qlog.push(q);
    }
}

pub struct Shared {
    pub st: Mutex<State>,
    pub notify: Vec<Notify>, // one per possible actor index
}

pub const MAX_ACTORS: usize = 8;

impl Shared {
    pub fn new() -> Arc<Self> {
        Arc::new(Shared {
            st: Mutex::new(State::default()),
            notify: (0..MAX_ACTORS).map(|_| Notify::new()).collect(),
        })
    }
    fn log(&self, a: usize, e: String) {
        self.st.lock().unwrap().env[a].events.push(e);
    }
}

static CURRENT: Mutex<Option<Arc<Shared>>> = Mutex::new(None);

pub struct SA {
    pub idx: usize,
    pub sh: Arc<Shared>,
    pub st: Vec<String>,
}

fn s_hout(o: &HOut) -> String {
    match o {
        HOut::Ok => "ok".into(),
        HOut::Err(e) => format!("err{e}"),
        HOut::Panic => "panic".into(),
        HOut::Reply(v) => format!("reply{v}"),
    }
}

pub fn s_result<T>(r: &rsactor::Result<T>, okv: impl Fn(&T) -> u64) -> String {
    match r {
        Ok(v) => format!("ok{}", okv(v)),
        Err(rsactor::Error::Send { .. }) => "send".into(),
        Err(rsactor::Error::Receive { .. }) => "recv".into(),
        Err(rsactor::Error::Timeout { .. }) => "timeout".into(),
        Err(e) => format!("other:{e:?}").replace(' ', "_"),
    }
}

fn rep_val(o: u64) -> impl Fn(&Rep) -> u64 {
    move |rep: &Rep| if rep.o == o { rep.v } else { 999_000 + rep.o }
}

/// Perform one tell/ask/stop on a strong reference and return the result token.
pub async fn do_op(h: &SRef, o: u64, k: Kind, tmo: Option<u64>) -> String {
    match h {
        SRef::Typed(r) => do_op_typed(r, o, k, tmo).await,
        SRef::Erased(e) => do_op_erased(e, o, k, tmo).await,
    }
}

pub async fn do_op_erased(e: &EStrong, o: u64, k: Kind, tmo: Option<u64>) -> String {
    let d = |t: u64| tick() * t as u32;
    match (k, tmo, o % 4) {
        (Kind::Tell, None, 0) => s_result(&e.t0.tell(M::<0> { o }).await, |_| 0),
        (Kind::Tell, None, 1) => s_result(&e.t1.tell(M::<1> { o }).await, |_| 0),
        (Kind::Tell, None, 2) => s_result(&e.t2.tell(M::<2> { o }).await, |_| 0),
        (Kind::Tell, None, _) => s_result(&e.t3.tell(M::<3> { o }).await, |_| 0),
        (Kind::Tell, Some(t), 0) => s_result(&e.t0.tell_with_timeout(M::<0> { o }, d(t)).await, |_| 0),
        (Kind::Tell, Some(t), 1) => s_result(&e.t1.tell_with_timeout(M::<1> { o }, d(t)).await, |_| 0),
        (Kind::Tell, Some(t), 2) => s_result(&e.t2.tell_with_timeout(M::<2> { o }, d(t)).await, |_| 0),
        (Kind::Tell, Some(t), _) => s_result(&e.t3.tell_with_timeout(M::<3> { o }, d(t)).await, |_| 0),
        (Kind::Ask, None, 0) => s_result(&e.a0.ask(M::<0> { o }).await, rep_val(o)),
        (Kind::Ask, None, 1) => s_result(&e.a1.ask(M::<1> { o }).await, rep_val(o)),
        (Kind::Ask, None, 2) => s_result(&e.a2.ask(M::<2> { o }).await, rep_val(o)),
        (Kind::Ask, None, _) => s_result(&e.a3.ask(M::<3> { o }).await, rep_val(o)),
        (Kind::Ask, Some(t), 0) => s_result(&e.a0.ask_with_timeout(M::<0> { o }, d(t)).await, rep_val(o)),
        (Kind::Ask, Some(t), 1) => s_result(&e.a1.ask_with_timeout(M::<1> { o }, d(t)).await, rep_val(o)),
        (Kind::Ask, Some(t), 2) => s_result(&e.a2.ask_with_timeout(M::<2> { o }, d(t)).await, rep_val(o)),
        (Kind::Ask, Some(t), _) => s_result(&e.a3.ask_with_timeout(M::<3> { o }, d(t)).await, rep_val(o)),
        (Kind::Stop, _, m) => {
            // alternate between the control object and the control view of a handler
            if m % 2 == 0 { s_result(&e.c.stop().await, |_| 0) } else { s_result(&e.a1.as_control().stop().await, |_| 0) }
        }
    }
}

pub async fn do_op_typed(r: &ActorRef<SA>, o: u64, k: Kind, tmo: Option<u64>) -> String {
    macro_rules! by_type {
        ($m:ident) => {
            match o % 4 {
                0 => $m!(0),
                1 => $m!(1),
                2 => $m!(2),
                _ => $m!(3),
            }
        };
    }
    match (k, tmo) {
        (Kind::Tell, None) => {
            macro_rules! go { ($k:literal) => { s_result(&r.tell(M::<$k> { o }).await, |_| 0) }; }
            by_type!(go)
        }
        (Kind::Tell, Some(t)) => {
            macro_rules! go { ($k:literal) => { s_result(&r.tell_with_timeout(M::<$k> { o }, tick() * t as u32).await, |_| 0) }; }
            by_type!(go)
        }
        (Kind::Ask, None) => {
            macro_rules! go { ($k:literal) => { s_result(&r.ask(M::<$k> { o }).await, rep_val(o)) }; }
            by_type!(go)
        }
        (Kind::Ask, Some(t)) => {
            macro_rules! go { ($k:literal) => { s_result(&r.ask_with_timeout(M::<$k> { o }, tick() * t as u32).await, rep_val(o)) }; }
            by_type!(go)
        }
        (Kind::Stop, _) => s_result(&r.stop().await, |_| 0),
    }
}

/// blocking_tell / blocking_ask / the deprecated aliases, from whatever thread this runs on
#[allow(deprecated)]
pub fn blocking_op(r: &ActorRef<SA>, o: u64, k: Kind, tmo: Option<u64>, fl: Flavour) -> String {
    let d = tmo.map(|t| tick() * t as u32);
    // the deprecated aliases must IGNORE their timeout: give them a very short one
    let dshort = Some(Duration::from_millis(5));
    macro_rules! by_type {
        ($m:ident) => {
            match o % 4 { 0 => $m!(0), 1 => $m!(1), 2 => $m!(2), _ => $m!(3) }
        };
    }
    match (k, fl) {
        (Kind::Tell, Flavour::Deprecated) => {
            macro_rules! go { ($k:literal) => { s_result(&r.tell_blocking(M::<$k> { o }, dshort), |_| 0) }; }
            by_type!(go)
        }
        (Kind::Ask, Flavour::Deprecated) => {
            macro_rules! go { ($k:literal) => { s_result(&r.ask_blocking(M::<$k> { o }, dshort), rep_val(o)) }; }
            by_type!(go)
        }
        (Kind::Tell, _) => {
            macro_rules! go { ($k:literal) => { s_result(&r.blocking_tell(M::<$k> { o }, d), |_| 0) }; }
            by_type!(go)
        }
        (Kind::Ask, _) => {
            macro_rules! go { ($k:literal) => { s_result(&r.blocking_ask(M::<$k> { o }, d), rep_val(o)) }; }
            by_type!(go)
        }
        (Kind::Stop, _) => "skipped".into(),
    }
}

fn strong_slot(sh: &Shared, sl: usize) -> Option<SRef> {
    match sh.st.lock().unwrap().slots.get(&sl) {
        Some(Slot::Strong(r)) => Some(r.dup()),
        _ => None,
    }
}

fn op_fresh(sh: &Shared, o: u64) -> bool {
    !sh.st.lock().unwrap().results.contains_key(&o)
}

fn record_result(sh: &Shared, o: u64, k: Kind, target: Option<usize>, res: String) {
    let mut st = sh.st.lock().unwrap();
    if k == Kind::Tell && res == "ok0" {
        if let Some(t) = target {
            st.env[t].tells_ok.push(o);
        }
    }
    st.stamp('d', o);
    st.results.insert(o, res);
}

/// The body of every hook: perform scripted items until an outcome is available.
async fn run_hook(idx: usize, sh: &Arc<Shared>) -> HOut {
    loop {
        let notified = sh.notify[idx].notified();
        tokio::pin!(notified);
        notified.as_mut().enable();
        let item = {
            let mut st = sh.st.lock().unwrap();
            match st.env[idx].hookq.pop_front() {
                Some(it) => Some(it),
                None => {
                    if st.env[idx].auto {
                        return HOut::Ok;
                    }
                    None
                }
            }
        };
        match item {
            None => notified.await,
            Some(HItem::Done(out)) => return out,
            Some(HItem::Kill(sl)) => {
                if let Some(r) = strong_slot(sh, sl) {
                    let _ = r.kill();
                }
            }
            Some(HItem::Do { o, k, slot, tmo }) => {
                if op_fresh(sh, o) {
                    match strong_slot(sh, slot) {
                        Some(r) => {
                            {
                                let mut st = sh.st.lock().unwrap();
                                st.results.insert(o, "pending".into());
                                st.stamp('b', o);
                            }
                            let t = target_of(sh, &r);
                            // if the operation itself panics (cycle detector) it never existed
                            struct Unrecord<'a>(&'a Shared, u64);
                            impl Drop for Unrecord<'_> {
                                fn drop(&mut self) {
                                    if std::thread::panicking() {
                                        if let Ok(mut st) = self.0.st.lock() {
                                            st.results.remove(&self.1);
                                            st.stamp('p', self.1);
                                        }
                                    }
                                }
                            }
                            let g = Unrecord(sh, o);
                            let res = do_op(&r, o, k, tmo).await;
                            drop(g);
                            drop(r);
                            record_result(sh, o, k, t, res);
                        }
                        None => {
                            sh.st.lock().unwrap().results.insert(o, "skipped".into());
                        }
                    }
                }
            }
        }
    }
}

pub fn target_of(sh: &Shared, r: &SRef) -> Option<usize> {
    let id = r.identity().id;
    IDS.lock().unwrap().iter().position(|x| *x == id).filter(|i| *i < sh.notify.len())
}

/// real ids of the actors of the current script, by actor index
pub static IDS: Mutex<Vec<u64>> = Mutex::new(Vec::new());

impl Actor for SA {
    type Args = (usize, Arc<Shared>);
    type Error = Tagged;

    async fn on_start(args: Self::Args, _r: &ActorRef<Self>) -> Result<Self, Tagged> {
        let (idx, sh) = args;
        sh.log(idx, "SE".into());
        let out = run_hook(idx, &sh).await;
        sh.log(idx, format!("SX:{}", s_hout(&out)));
        match out {
            HOut::Panic => panic!("scripted panic in on_start"),
            HOut::Err(e) => Err(Tagged(e)),
            _ => Ok(SA { idx, sh, st: vec!["S".into()] }),
        }
    }

    fn on_run(&mut self, _w: &ActorWeak<Self>) -> impl Future<Output = Result<bool, Tagged>> + Send {
        RunFut { a: self }
    }

    async fn on_stop(&mut self, _w: &ActorWeak<Self>, killed: bool) -> Result<(), Tagged> {
        let k = if killed { 1 } else { 0 };
        self.st.push(format!("T{k}"));
        self.sh.log(self.idx, format!("ST{k}"));
        let out = run_hook(self.idx, &self.sh).await;
        self.sh.log(self.idx, format!("SP:{}", s_hout(&out)));
        match out {
            HOut::Panic => panic!("scripted panic in on_stop"),
            HOut::Err(e) => Err(Tagged(e)),
            _ => Ok(()),
        }
    }
}

struct RunFut<'a> {
    a: &'a mut SA,
}

impl Future for RunFut<'_> {
    type Output = Result<bool, Tagged>;
    fn poll(self: Pin<&mut Self>, cx: &mut Context<'_>) -> Poll<Self::Output> {
        let this = self.get_mut();
        let idx = this.a.idx;
        let sh = this.a.sh.clone();
        let mut st = sh.st.lock().unwrap();
        // C08 monitor: a tell that already returned Ok but has not been handled is a waiting message
        let waiting: Vec<u64> = {
            let e = &st.env[idx];
            e.tells_ok.iter().filter(|o| !e.handled.contains(o)).cloned().collect()
        };
        if !waiting.is_empty() {
            st.monitor_failures
                .push(format!("C08 on_run of actor {idx} polled while tells {waiting:?} were waiting"));
        }
        match st.env[idx].runq.pop_front() {
            None => {
                st.env[idx].run_waker = Some(cx.waker().clone());
                Poll::Pending
            }
            Some(out) => {
                let tok = match &out {
                    ROut::True => "true".to_string(),
                    ROut::False => "false".to_string(),
                    ROut::Err(e) => format!("err{e}"),
                    ROut::Panic => "panic".to_string(),
                };
                st.env[idx].events.push(format!("RD:{tok}"));
                drop(st);
                this.a.st.push("R".into());
                match out {
                    ROut::True => Poll::Ready(Ok(true)),
                    ROut::False => Poll::Ready(Ok(false)),
                    ROut::Err(e) => Poll::Ready(Err(Tagged(e))),
                    ROut::Panic => panic!("scripted panic in on_run"),
                }
            }
        }
    }
}

impl<const K: u8> Message<M<K>> for SA {
    type Reply = Rep;
    async fn handle(&mut self, m: M<K>, _r: &ActorRef<Self>) -> Rep {
        let o = m.o;
        self.st.push(format!("H{o}"));
        {
            let mut st = self.sh.st.lock().unwrap();
            st.env[self.idx].events.push(format!("HE{o}"));
            st.env[self.idx].handled.push(o);
        }
        let out = run_hook(self.idx, &self.sh).await;
        let out = match out {
            HOut::Ok => HOut::Reply(1000 + o),
            x => x,
        };
        {
            let mut st = self.sh.st.lock().unwrap();
            st.stamp('x', o);
            st.env[self.idx].events.push(format!("HX{o}:{}", s_hout(&out)));
        }
        match out {
            HOut::Panic => panic!("scripted panic in handler"),
            HOut::Err(e) => Rep { a: self.idx, o, v: e },
            HOut::Reply(v) => Rep { a: self.idx, o, v },
            HOut::Ok => unreachable!(),
        }
    }
    fn on_tell_result(result: &Rep, _r: &ActorRef<Self>) {
        if let Some(sh) = CURRENT.lock().unwrap().as_ref() {
            sh.log(result.a, format!("TR{}", result.o));
        }
    }
}

// ------------------------------------------------------------------------------------------
// Director
// ------------------------------------------------------------------------------------------

pub struct Director {
    pub sh: Arc<Shared>,
    pub joins: Vec<JoinHandle<rsactor::ActorResult<SA>>>,
    pub join_res: Vec<Option<String>>,
    pub probes: Vec<ActorWeak<SA>>,
    pub clients: BTreeMap<u64, JoinHandle<()>>,
    pub id_base: Option<u64>,
    pub dl_base: u64,
    pub out: String,
    pub round: usize,
}

fn quiet_panics() {
    static ONCE: std::sync::Once = std::sync::Once::new();
    ONCE.call_once(|| std::panic::set_hook(Box::new(|_| {})));
}

impl Director {
    pub fn new() -> Self {
        quiet_panics();
        sub::install();
        sub::take();
        let sh = Shared::new();
        *CURRENT.lock().unwrap() = Some(sh.clone());
        IDS.lock().unwrap().clear();
        Director {
            sh,
            joins: vec![],
            join_res: vec![],
            probes: vec![],
            clients: BTreeMap::new(),
            id_base: None,
            dl_base: dl_count_now(),
            out: String::new(),
            round: 0,
        }
    }

    pub async fn barrier(&self) {
        tokio::time::sleep(barrier_len()).await;
    }

    pub async fn act(&mut self, act: &Action) {
        match act {
            Action::Spawn { cap, auto } => {
                if *cap == 0 {
                    // rejected by an assertion in the spawner; nothing is created
                    let sh = self.sh.clone();
                    let r = std::panic::catch_unwind(std::panic::AssertUnwindSafe(|| {
                        rsactor::spawn_with_mailbox_capacity::<SA>((0, sh), 0)
                    }));
                    if r.is_ok() {
                        self.sh.st.lock().unwrap().monitor_failures.push("C09 capacity 0 accepted".into());
                    }
                } else {
                    let idx = self.joins.len();
                    assert!(idx < MAX_ACTORS);
                    {
                        let mut st = self.sh.st.lock().unwrap();
                        st.env.push(ActorEnv { auto: *auto, ..Default::default() });
                    }
                    let (r, j) = rsactor::spawn_with_mailbox_capacity::<SA>((idx, self.sh.clone()), *cap);
                    let id = r.identity().id;
                    if self.id_base.is_none() {
                        self.id_base = Some(id - 1);
                    }
                    IDS.lock().unwrap().push(id);
                    self.probes.push(ActorRef::downgrade(&r));
                    self.joins.push(j);
                    self.join_res.push(None);
                    let h = if ERASED.load(std::sync::atomic::Ordering::Relaxed) {
                        let e = EStrong::from_ref(&r);
                        if e.c.identity() != r.identity() || e.t0.as_control().identity() != r.identity() {
                            self.sh.st.lock().unwrap().monitor_failures.push("C16 erased handle reports another identity".into());
                        }
                        drop(r);
                        SRef::Erased(e)
                    } else {
                        SRef::Typed(r)
                    };
                    self.sh.st.lock().unwrap().slots.insert(idx, Slot::Strong(h));
                }
            }
            Action::Op { o, k, slot, tmo, fl } if *fl != Flavour::Async && *k != Kind::Stop => {
                if op_fresh(&self.sh, *o) {
                    match strong_slot(&self.sh, *slot) {
                        Some(SRef::Typed(r)) => {
                            {
                                let mut st = self.sh.st.lock().unwrap();
                                st.results.insert(*o, "pending".into());
                                st.stamp('b', *o);
                            }
                            let sh = self.sh.clone();
                            let (o, k, tmo, fl) = (*o, *k, *tmo, *fl);
                            let t = target_of(&sh, &SRef::Typed(r.clone()));
                            let job = move || {
                                let res = blocking_op(&r, o, k, tmo, fl);
                                drop(r);
                                record_result(&sh, o, k, t, res);
                            };
                            match fl {
                                Flavour::BlockSpawnBlocking => {
                                    tokio::task::spawn_blocking(job);
                                }
                                Flavour::BlockInside => {
                                    // directly inside an async task: must not panic (timeout variants)
                                    let sh2 = self.sh.clone();
                                    let h = tokio::spawn(async move { job() });
                                    tokio::spawn(async move {
                                        if let Err(e) = h.await {
                                            if e.is_panic() {
                                                sh2.st.lock().unwrap().monitor_failures.push(
                                                    "C17 blocking call with timeout panicked inside the runtime".into());
                                            }
                                        }
                                    });
                                }
                                _ => {
                                    std::thread::spawn(job);
                                }
                            }
                        }
                        _ => {
                            self.sh.st.lock().unwrap().results.insert(*o, "skipped".into());
                        }
                    }
                }
            }
            Action::Op { o, k, slot, tmo, .. } => {
                if op_fresh(&self.sh, *o) {
                    match strong_slot(&self.sh, *slot) {
                        None => {
                            self.sh.st.lock().unwrap().results.insert(*o, "skipped".into());
                        }
                        Some(r) => {
                            {
                                let mut st = self.sh.st.lock().unwrap();
                                st.results.insert(*o, "pending".into());
                                st.stamp('b', *o);
                            }
                            let sh = self.sh.clone();
                            let (o, k, tmo) = (*o, *k, *tmo);
                            let h = tokio::spawn(async move {
                                let t = target_of(&sh, &r);
                                let res = do_op(&r, o, k, tmo).await;
                                drop(r);
                                record_result(&sh, o, k, t, res);
                            });
                            self.clients.insert(o, h);
                        }
                    }
                }
            }
            Action::Kill { slot } => {
                if let Some(r) = strong_slot(&self.sh, *slot) {
                    if r.kill().is_err() {
                        self.sh.st.lock().unwrap().monitor_failures.push("C06 kill returned Err".into());
                    }
                }
            }
            Action::Clone { src, dst } => {
                let mut st = self.sh.st.lock().unwrap();
                if !st.slots.contains_key(dst) {
                    let v = match st.slots.get(src) {
                        Some(Slot::Strong(r)) => Some(Slot::Strong(r.dup())),
                        Some(Slot::Weak(w)) => Some(Slot::Weak(w.dup())),
                        None => None,
                    };
                    if let Some(v) = v {
                        st.slots.insert(*dst, v);
                    }
                }
            }
            Action::Drop { slot } => {
                let v = self.sh.st.lock().unwrap().slots.remove(slot);
                drop(v);
            }
            Action::Downgrade { src, dst } => {
                let mut st = self.sh.st.lock().unwrap();
                if !st.slots.contains_key(dst) {
                    let v = match st.slots.get(src) {
                        Some(Slot::Strong(r)) => Some(Slot::Weak(r.downgrade())),
                        _ => None,
                    };
                    if let Some(v) = v {
                        st.slots.insert(*dst, v);
                    }
                }
            }
            Action::Upgrade { src, dst } => {
                let mut st = self.sh.st.lock().unwrap();
                if !st.slots.contains_key(dst) {
                    let mut fails = vec![];
                    let v = match st.slots.get(src) {
                        Some(Slot::Weak(w)) => w.upgrade(&mut fails).map(Slot::Strong),
                        _ => None,
                    };
                    st.monitor_failures.extend(fails);
                    if let Some(v) = v {
                        st.slots.insert(*dst, v);
                    }
                }
            }
            Action::Hook { a, its } => {
                let ok = {
                    let mut st = self.sh.st.lock().unwrap();
                    if *a < st.env.len() {
                        for it in its {
                            st.env[*a].hookq.push_back(it.clone());
                        }
                        true
                    } else {
                        false
                    }
                };
                if ok {
                    self.sh.notify[*a].notify_one();
                }
            }
            Action::Run { a, r } => {
                let w = {
                    let mut st = self.sh.st.lock().unwrap();
                    if *a < st.env.len() {
                        st.env[*a].runq.push_back(r.clone());
                        st.env[*a].run_waker.take()
                    } else {
                        None
                    }
                };
                if let Some(w) = w {
                    w.wake();
                }
            }
            Action::Auto { a, v } => {
                let ok = {
                    let mut st = self.sh.st.lock().unwrap();
                    if *a < st.env.len() {
                        st.env[*a].auto = *v;
                        true
                    } else {
                        false
                    }
                };
                if ok {
                    self.sh.notify[*a].notify_one();
                }
            }
            Action::Advance { k } => {
                if *k > 0 {
                    tokio::time::sleep(tick() * (*k as u32)).await;
                }
            }
            Action::Abort { o } => {
                if let Some(h) = self.clients.get(o) {
                    h.abort();
                }
            }
        }
        self.barrier().await;
        // collect aborted clients
        let mut cancelled = vec![];
        for (o, h) in self.clients.iter() {
            if h.is_finished() {
                let st = self.sh.st.lock().unwrap();
                if st.results.get(o).map(|s| s == "pending").unwrap_or(false) {
                    cancelled.push(*o);
                }
            }
        }
        for o in cancelled {
            self.sh.st.lock().unwrap().results.insert(o, "cancelled".into());
        }
        self.round += 1;
        self.observe().await;
    }

    pub async fn observe(&mut self) {
        use futures::FutureExt;
        let mut s = String::new();
        writeln!(s, "R {}", self.round).unwrap();
        let n = self.joins.len();
        for a in 0..n {
            if self.join_res[a].is_none() && self.joins[a].is_finished() {
                let r = (&mut self.joins[a]).now_or_never();
                self.join_res[a] = Some(match r {
                    None => "join=running".to_string(),
                    Some(Err(e)) => {
                        if e.is_panic() {
                            // a deliberate panic of the cycle detector is a hook event of this actor
                            let payload = e.into_panic();
                            let msg = payload
                                .downcast_ref::<String>()
                                .cloned()
                                .or_else(|| payload.downcast_ref::<&str>().map(|s| s.to_string()))
                                .unwrap_or_default();
                            if let Some(rest) = msg.strip_prefix("Deadlock detected: ask cycle ") {
                                let line = rest.lines().next().unwrap_or("");
                                let base = self.id_base.unwrap_or(0);
                                let ids: Vec<String> = line
                                    .split("(#")
                                    .skip(1)
                                    .filter_map(|p| p.split(')').next())
                                    .filter_map(|n| n.parse::<u64>().ok())
                                    .map(|n| (n - base).to_string())
                                    .collect();
                                self.sh.st.lock().unwrap().env[a].events.push(format!("DLK:{}", ids.join(">")));
                            }
                            "join=panic".to_string()
                        } else {
                            "join=cancelled".to_string()
                        }
                    }
                    Some(Ok(res)) => fmt_result(&res),
                });
            }
            let id = self.probes[a].identity().id - self.id_base.unwrap_or(0);
            let up = self.probes[a].upgrade();
            let weak_alive = self.probes[a].is_alive();
            if weak_alive != up.is_some() {
                self.sh.st.lock().unwrap().monitor_failures
                    .push(format!("C11 weak is_alive={weak_alive} but upgrade={}", up.is_some()));
            }
            let alive = match &up {
                Some(r) => {
                    if r.identity() != self.probes[a].identity() {
                        self.sh.st.lock().unwrap().monitor_failures.push("C11 identity differs after upgrade".into());
                    }
                    if r.is_alive() { "1" } else { "0" }
                }
                None => "-",
            };
            #[cfg(feature = "f-metrics")]
            let mc = match &up {
                Some(r) => r.message_count().to_string(),
                None => match self.sh.st.lock().unwrap().slots.values().find_map(|s| match s {
                    Slot::Strong(SRef::Typed(r)) if r.identity() == self.probes[a].identity() => Some(r.message_count()),
                    _ => None,
                }) {
                    Some(c) => c.to_string(),
                    None => "-".to_string(),
                },
            };
            #[cfg(not(feature = "f-metrics"))]
            let mc = "-".to_string();
            let upb = if up.is_some() { 1 } else { 0 };
            drop(up);
            let st = self.sh.st.lock().unwrap();
            let evs: Vec<String> = st.env[a].events.iter().map(|e| format!("e:{e}")).collect();
            let join = self.join_res[a].clone().unwrap_or_else(|| "join=running".into());
            writeln!(s, "A{a} id={id} up={upb} alive={alive} {join} mc={mc} {}", evs.join(" ")).unwrap();
        }
        {
            let st = self.sh.st.lock().unwrap();
            for (o, r) in st.results.iter() {
                writeln!(s, "O{o} r={r}").unwrap();
            }
        }
        let mut dls: Vec<String> = sub::peek()
            .into_iter()
            .map(|d| {
                let a = IDS.lock().unwrap().iter().position(|x| *x == d.actor_id).map(|i| i.to_string()).unwrap_or_else(|| "?".into());
                format!("d:{a}:{}:{}:{}", d.msg, d.reason, d.operation)
            })
            .collect();
        dls.sort();
        writeln!(s, "D {}", dls.join(" ")).unwrap();
        #[cfg(feature = "f-testutils")]
        writeln!(s, "DC n={}", rsactor::dead_letter_count() - self.dl_base).unwrap();
        #[cfg(not(feature = "f-testutils"))]
        writeln!(s, "DC n=-").unwrap();
        writeln!(s, "G {}", graph_tokens(self.id_base.unwrap_or(0))).unwrap();
        writeln!(s, "Q {}", self.sh.st.lock().unwrap().qlog.join(" ")).unwrap();
        writeln!(s, "E").unwrap();
        self.out.push_str(&s);
    }

    pub fn monitor_failures(&self) -> Vec<String> {
        self.sh.st.lock().unwrap().monitor_failures.clone()
    }
}

fn dl_count_now() -> u64 {
    #[cfg(feature = "f-testutils")]
    {
        rsactor::dead_letter_count()
    }
    #[cfg(not(feature = "f-testutils"))]
    {
        0
    }
}

#[allow(unused_variables)]
fn graph_tokens(base: u64) -> String {
    #[cfg(all(feature = "f-dd", rsactor_verif))]
    {
        let mut v: Vec<String> = rsactor::__verif_wait_for_edges()
            .into_iter()
            .map(|(k, w)| format!("g:{}>{}", k - base, w - base))
            .collect();
        v.sort();
        if rsactor::__verif_wait_for_poisoned() {
            v.push("g:POISONED".into());
        }
        v.join(" ")
    }
    #[cfg(not(all(feature = "f-dd", rsactor_verif)))]
    {
        "g:-".to_string()
    }
}

fn fmt_result(r: &rsactor::ActorResult<SA>) -> String {
    let st = |a: Option<&SA>| match a {
        None => "none".to_string(),
        Some(a) => {
            if a.st.is_empty() {
                "empty".to_string()
            } else {
                a.st.join(".")
            }
        }
    };
    match r {
        rsactor::ActorResult::Completed { actor, killed } => {
            format!("join=completed jk={} jst={}", *killed as u8, st(Some(actor)))
        }
        rsactor::ActorResult::Failed { actor, error, phase, killed } => {
            format!("join=failed jk={} jph={} jerr={} jst={}", *killed as u8, phase, error.0, st(actor.as_ref()))
        }
    }
}

/// Run one script on a fresh paused-clock current_thread runtime; returns (observations, monitor failures).
pub fn run_script(actions: &[Action]) -> (String, Vec<String>) {
    let rt = if REALTIME.load(std::sync::atomic::Ordering::Relaxed) {
        tokio::runtime::Builder::new_multi_thread().worker_threads(4).enable_time().build().unwrap()
    } else {
        tokio::runtime::Builder::new_current_thread().enable_time().start_paused(true).build().unwrap()
    };
    let res = rt.block_on(async {
        let mut d = Director::new();
        for a in actions {
            d.act(a).await;
        }
        let mf = d.monitor_failures();
        (std::mem::take(&mut d.out), mf)
    });
    drop(rt);
    *CURRENT.lock().unwrap() = None;
    res
}
