//! Minimal tracing subscriber that captures rsactor's dead-letter warnings (and the macro's
//! error logs) in process.

use std::sync::Mutex;
use tracing::field::{Field, Visit};
use tracing::span::{Attributes, Id, Record};
use tracing::{Event, Metadata, Subscriber};

#[derive(Debug, Clone, Default)]
pub struct DeadLetter {
    pub actor_id: u64,
    pub msg: String,
    pub reason: String,
    pub operation: String,
}

static DLS: Mutex<Vec<DeadLetter>> = Mutex::new(Vec::new());
static ERRORS: Mutex<Vec<String>> = Mutex::new(Vec::new());

struct Cap;

#[derive(Default)]
struct V {
    message: String,
    actor_id: u64,
    msg_type: String,
    reason: String,
    operation: String,
}
impl Visit for V {
    fn record_u64(&mut self, f: &Field, v: u64) {
        if f.name() == "actor.id" {
            self.actor_id = v;
        }
    }
    fn record_str(&mut self, f: &Field, v: &str) {
        match f.name() {
            "message.type_name" => self.msg_type = v.to_string(),
            "dead_letter.operation" => self.operation = v.to_string(),
            _ => {}
        }
    }
    fn record_debug(&mut self, f: &Field, v: &dyn std::fmt::Debug) {
        let s = format!("{v:?}");
        match f.name() {
            "message" => self.message = s,
            "dead_letter.reason" => self.reason = s,
            "message.type_name" => self.msg_type = s,
            "dead_letter.operation" => self.operation = s,
            _ => {}
        }
    }
}

impl Subscriber for Cap {
    fn enabled(&self, m: &Metadata<'_>) -> bool {
        *m.level() <= tracing::Level::WARN
    }
    fn new_span(&self, _: &Attributes<'_>) -> Id {
        Id::from_u64(1)
    }
    fn record(&self, _: &Id, _: &Record<'_>) {}
    fn record_follows_from(&self, _: &Id, _: &Id) {}
    fn event(&self, e: &Event<'_>) {
        let mut v = V::default();
        e.record(&mut v);
        if v.message.starts_with("Dead letter") {
            // message type: "rsv_harness::M<2>" -> "m2"
            let msg = match v.msg_type.rfind('<') {
                Some(i) => format!("m{}", v.msg_type[i + 1..].trim_end_matches('>')),
                None => v.msg_type.clone(),
            };
            let reason = match v.reason.as_str() {
                "actor stopped" => "stopped",
                "timeout" => "timeout",
                "reply dropped" => "dropped",
                x => x,
            }
            .to_string();
            DLS.lock().unwrap().push(DeadLetter { actor_id: v.actor_id, msg, reason, operation: v.operation });
        } else if *e.metadata().level() == tracing::Level::ERROR {
            ERRORS.lock().unwrap().push(v.message);
        }
    }
    fn enter(&self, _: &Id) {}
    fn exit(&self, _: &Id) {}
}

pub fn install() {
    static ONCE: std::sync::Once = std::sync::Once::new();
    ONCE.call_once(|| {
        let _ = tracing::subscriber::set_global_default(Cap);
    });
}
pub fn take() -> Vec<DeadLetter> {
    ERRORS.lock().unwrap().clear();
    std::mem::take(&mut *DLS.lock().unwrap())
}
pub fn peek() -> Vec<DeadLetter> {
    DLS.lock().unwrap().clone()
}
pub fn errors() -> Vec<String> {
    ERRORS.lock().unwrap().clone()
}
