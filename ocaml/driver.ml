(* Correspondence driver.  Reads a director script and (optionally) the views observed on the
   real implementation, runs the extracted model ([Model.apply_action], [Model.succs]) and
   checks that every observed round is one of the model's quiescent behaviours.
   Only the extracted step functions are used to move between states. *)
type str = string
open Model

let rec nat_of_int n = if n <= 0 then O else S (nat_of_int (n - 1))
let rec int_of_nat = function O -> 0 | S m -> 1 + int_of_nat m
let rec pos_of_int n =
  if n <= 1 then XH else if n land 1 = 0 then XO (pos_of_int (n lsr 1)) else XI (pos_of_int (n lsr 1))
let n_of_int n = if n <= 0 then N0 else Npos (pos_of_int n)
let rec int_of_pos = function XH -> 1 | XO p -> 2 * int_of_pos p | XI p -> 2 * int_of_pos p + 1
let int_of_n = function N0 -> 0 | Npos p -> int_of_pos p
(* ids can exceed OCaml ints only in the wrap-around tests; print those in decimal via strings *)
let string_of_n v = string_of_int (int_of_n v)

let split_on c s = String.split_on_char c s
let words s = List.filter (fun w -> w <> "") (split_on ' ' (String.trim s))

(* ---------- script parsing ---------- *)
let kind_of = function "tell" -> KTell | "ask" -> KAsk | "stop" -> KStop
  | s -> failwith ("kind " ^ s)
let tmo_of = function "-" -> None | s -> Some (n_of_int (int_of_string s))
let nat s = nat_of_int (int_of_string s)
let hout_of s =
  if s = "ok" then HOk else if s = "panic" then HPanic
  else if String.length s > 4 && String.sub s 0 4 = "err:" then HErr (n_of_int (int_of_string (String.sub s 4 (String.length s - 4))))
  else if String.length s > 6 && String.sub s 0 6 = "reply:" then HReply (n_of_int (int_of_string (String.sub s 6 (String.length s - 6))))
  else failwith ("hout " ^ s)
let hitem_of s =
  match split_on ':' s with
  | ["do"; o; k; sl; t] -> HDo (nat o, kind_of k, nat sl, tmo_of t)
  | ["kill"; sl] -> HKill (nat sl)
  | _ -> HDone (hout_of s)
let rout_of s =
  if s = "true" then RTrue else if s = "false" then RFalse else if s = "panic" then RPanicO
  else if String.length s > 4 && String.sub s 0 4 = "err:" then RErrO (n_of_int (int_of_string (String.sub s 4 (String.length s - 4))))
  else failwith ("rout " ^ s)
let b s = s = "1"

type script = { feats : feats; actions : action list }

let parse_action l =
  match words l with
  | ["spawn"; cap; auto] -> DSpawn (nat cap, b auto)
  | ["op"; o; k; sl; t] -> DOp (nat o, kind_of k, nat sl, tmo_of t, FlAsync)
  | ["op"; o; k; sl; t; fl] ->
      DOp (nat o, kind_of k, nat sl, tmo_of t,
           (match fl with "b" | "s" | "i" -> FlBlocking | "d" -> FlDeprecated | _ -> FlAsync))
  | ["kill"; sl] -> DKill (nat sl)
  | ["clone"; s; d] -> DClone (nat s, nat d)
  | ["drop"; s] -> DDrop (nat s)
  | ["downgrade"; s; d] -> DDowngrade (nat s, nat d)
  | ["upgrade"; s; d] -> DUpgrade (nat s, nat d)
  | ["hook"; a; it] -> DHook (nat a, List.map hitem_of (split_on '+' it))
  | ["run"; a; r] -> DRun (nat a, rout_of r)
  | ["auto"; a; v] -> DAuto (nat a, b v)
  | ["advance"; k] -> DAdvance (nat k)
  | ["abort"; o] -> DAbort (nat o)
  | _ -> failwith ("bad action: " ^ l)

let read_lines f =
  let ic = open_in f in
  let rec go acc = match input_line ic with l -> go (l :: acc) | exception End_of_file -> close_in ic; List.rev acc in
  go []

let parse_script f =
  let ls = List.filter (fun l -> let l = String.trim l in l <> "" && l.[0] <> '#') (read_lines f) in
  let feats = ref { f_dd = false; f_metrics = false; f_testutils = false; f_tracing = false } in
  let acts = ref [] in
  List.iter (fun l ->
      match words l with
      | "feat" :: kv ->
          let get k = List.exists (fun w -> w = k ^ "=1") kv in
          feats := { f_dd = get "dd"; f_metrics = get "metrics"; f_testutils = get "testutils"; f_tracing = get "tracing" }
      | "mode" :: _ -> ()
      | _ -> acts := parse_action l :: !acts) ls;
  { feats = !feats; actions = List.rev !acts }

(* ---------- view printing ---------- *)
let s_hout = function HOk -> "ok" | HErr e -> "err" ^ string_of_n e | HPanic -> "panic" | HReply v -> "reply" ^ string_of_n v
let s_rout = function RPending -> "pending" | RTrue -> "true" | RFalse -> "false" | RErrO e -> "err" ^ string_of_n e | RPanicO -> "panic"
let s_bool v = if v then "1" else "0"
let s_event = function
  | EvStartEnter _ -> "SE" | EvStartExit (_, o) -> "SX:" ^ s_hout o
  | EvHandleEnter (_, o, _) -> "HE" ^ string_of_int (int_of_nat o)
  | EvHandleExit (_, o, out) -> "HX" ^ string_of_int (int_of_nat o) ^ ":" ^ s_hout out
  | EvTellResult (_, o) -> "TR" ^ string_of_int (int_of_nat o)
  | EvRunDone (_, r) -> "RD:" ^ s_rout r
  | EvStopEnter (_, k) -> "ST" ^ s_bool k | EvStopExit (_, o) -> "SP:" ^ s_hout o
  | EvDeadlock (_, cyc) -> "DLK:" ^ String.concat ">" (List.map string_of_n cyc)
  | _ -> "?"
let s_hookev = function HvStart -> "S" | HvHandle o -> "H" ^ string_of_int (int_of_nat o) | HvRun -> "R" | HvStop k -> "T" ^ s_bool k
let s_ustate st = if st = [] then "empty" else String.concat "." (List.map s_hookev (List.rev st))
let s_phase = function OnStart -> "OnStart" | OnRun -> "OnRun" | OnStop -> "OnStop" | OnRunThenOnStop -> "OnRunThenOnStop"
let join_tokens = function
  | JRunning -> ["join=running"] | JPanic -> ["join=panic"]
  | JDone (Completed (st, k)) -> ["join=completed"; "jk=" ^ s_bool k; "jst=" ^ s_ustate st]
  | JDone (Failed (st, e, ph, k)) ->
      ["join=failed"; "jk=" ^ s_bool k; "jph=" ^ s_phase ph; "jerr=" ^ string_of_n e;
       "jst=" ^ (match st with None -> "none" | Some st -> s_ustate st)]
let s_reason = function DActorStopped -> "stopped" | DTimeout -> "timeout" | DReplyDropped -> "dropped"
let s_label = function LbTell -> "tell" | LbAsk -> "ask" | LbBlockingTell -> "blocking_tell" | LbBlockingAsk -> "blocking_ask" | LbOther -> "other"
let s_result = function ROk v -> "ok" ^ string_of_n v | RErr ESend -> "send" | RErr EReceive -> "recv"
  | RErr ETimeout -> "timeout" | RCancelled -> "cancelled"

(* a view is a list of lines; a line is a key and a list of tokens *)
type vline = str * str list

let render (fe : feats) (v : view) : vline list =
  let alines = List.mapi (fun a (av : aview) ->
      ("A" ^ string_of_int a,
       ["id=" ^ string_of_n av.av_id; "up=" ^ s_bool av.av_up;
        "alive=" ^ (if av.av_up then s_bool av.av_alive else "-")]
       @ join_tokens av.av_join
       @ ["mc=" ^ (if fe.f_metrics then string_of_n av.av_mcount else "-")]
       @ List.map (fun e -> "e:" ^ s_event e) av.av_events)) v.v_actors in
  let olines = List.map (fun (o, ph) ->
      ("O" ^ string_of_int (int_of_nat o),
       ["r=" ^ (match ph with ODone r -> s_result r | _ -> "pending")])) v.v_ops
    @ List.map (fun o -> ("O" ^ string_of_int (int_of_nat o), ["r=skipped"])) v.v_skipped in
  let olines = List.sort compare olines in
  let dl = List.sort compare (List.map (function
      | EvDeadLetter (a, o, rs, lb) ->
          Printf.sprintf "d:%d:m%d:%s:%s" (int_of_nat a) (int_of_nat o mod 4) (s_reason rs) (s_label lb)
      | _ -> "d:?") v.v_dl) in
  let g = List.sort compare (List.map (fun (k, w) -> "g:" ^ string_of_n k ^ ">" ^ string_of_n w) v.v_graph) in
  alines @ olines
  @ [("D", dl); ("DC", ["n=" ^ (if fe.f_testutils then string_of_n v.v_dlcount else "-")]);
     ("G", if fe.f_dd then g else ["g:-"])]

(* ---------- projections ---------- *)
let starts p s = String.length s >= String.length p && String.sub s 0 (String.length p) = p
let proj_table = [
  "full", [""];
  "base", ["id="; "up="; "alive="; "join="; "jk="; "jph="; "jerr="; "jst="; "e:"; "r="; "d:"];
  "C01", ["e:HE"; "e:ST"; "r="];
  "C02", ["e:HE"; "e:ST"; "r="];
  "C03", ["r="; "e:HE"; "e:HX"; "join="];
  "C04", ["e:"; "join="];
  "C05", ["e:"; "join="; "jk="; "jph="; "jerr="; "jst="];
  "C06", ["e:HE"; "e:ST"; "e:SP"; "join="; "jk="; "r="];
  "C07", ["join="; "jk="; "e:ST"; "e:HE"; "r="; "up="];
  "C08", ["e:RD"; "e:HE"; "e:ST"; "join="; "jph="];
  "C09", ["r="];
  "C10", ["r="];
  "C11", ["id="; "up="; "alive="; "join="; "r="];
  "C12", [""];
  "C13", ["d:"; "n="; "r="];
  "C14", ["e:DLK"; "r="; "join="];
  "C15", ["g:"; "e:DLK"; "join="];
  "C16", ["id="; "up="; "alive="; "join="; "jk="; "jph="; "jerr="; "jst="; "e:"; "r="; "d:"];
  "C18", ["id="; "up="; "alive="; "join="; "jk="; "jph="; "jerr="; "jst="; "e:"; "r="; "d:"];
  "C20", ["mc="; "e:HE"; "join="];
]
let project (prefixes : str list) (v : vline list) : vline list =
  List.sort (fun (a, _) (b, _) -> compare a b) @@
  List.map (fun (k, toks) -> (k, List.filter (fun t -> List.exists (fun p -> starts p t) prefixes) toks)) v

(* the harness cannot always read the metrics (no handle left): observed `mc=-` matches anything *)
let tok_match o m = o = m || (o = "mc=-" && starts "mc=" m)
let line_match (ko, to_) (km, tm) =
  ko = km && List.length to_ = List.length tm && List.for_all2 tok_match to_ tm
let views_match (o : vline list) (m : vline list) =
  List.length o = List.length m && List.for_all2 line_match o m

let s_vline (k, toks) = k ^ " " ^ String.concat " " toks
let print_view oc v = List.iter (fun l -> output_string oc (s_vline l ^ "\n")) v

(* ---------- observed views ---------- *)
let parse_observed f : vline list list =
  let rounds = ref [] and cur = ref [] in
  List.iter (fun l ->
      match words l with
      | "R" :: _ -> cur := []
      | ["E"] -> rounds := List.rev !cur :: !rounds
      | "Q" :: _ -> ()          (* sequence stamps: for the monitors only *)
      | k :: toks -> cur := (k, toks) :: !cur
      | [] -> ()) (read_lines f);
  List.rev !rounds

(* ---------- BFS to the quiescent states ---------- *)
let cur_feats = ref { f_dd = false; f_metrics = false; f_testutils = false; f_tracing = false }
(* the key is order-insensitive where the view is: rendered lines (dead letters sorted) *)
let key (x : xstate) = (strip x, render !cur_feats (view_of x))
let hkey k = Hashtbl.hash_param 256 1024 k

let states_seen = ref 0 and transitions = ref 0

(* all quiescent states reachable from the given states by internal steps *)
let closure (starts : xstate list) : xstate list =
  let seen = Hashtbl.create 97 in
  let quiet = ref [] in
  let q = Queue.create () in
  let add x =
    let k = key x in
    let h = hkey k in
    if not (List.exists (fun k' -> k' = k) (Hashtbl.find_all seen h)) then begin
      Hashtbl.add seen h k; incr states_seen; Queue.add (x, k) q end in
  List.iter add starts;
  while not (Queue.is_empty q) do
    let (x, k) = Queue.pop q in
    let nexts = List.filter (fun y -> key y <> k) (succs x) in
    transitions := !transitions + List.length nexts;
    if nexts = [] then quiet := x :: !quiet else List.iter add nexts;
    if !states_seen > 2_000_000 then failwith "state explosion"
  done;
  List.rev !quiet

(* ---------- exhaustive table of ActorResult accessors (C05) ---------- *)
let result_table () =
  let st = [HvHandle (nat_of_int 1); HvStart] in
  let sst = function None -> "none" | Some st -> s_ustate st in
  let ser = function None -> "none" | Some e -> string_of_n e in
  List.iter (fun r ->
      let shape = match r with
        | Completed (_, k) -> "completed:k" ^ s_bool k
        | Failed (a, _, ph, k) -> Printf.sprintf "failed:%s:%s:k%s" (match a with None -> "none" | Some _ -> "some") (s_phase ph) (s_bool k) in
      let (ta, te) = to_tuple r in
      Printf.printf "%s is_completed=%s is_failed=%s was_killed=%s stopped_normally=%s is_startup_failed=%s is_runtime_failed=%s is_cleanup_failed=%s is_stop_failed=%s has_actor=%s actor=%s error=%s into_actor=%s into_error=%s to_result=%s tuple=%s,%s\n"
        shape (s_bool (is_completed r)) (s_bool (is_failed r)) (s_bool (was_killed r)) (s_bool (stopped_normally r))
        (s_bool (is_startup_failed r)) (s_bool (is_runtime_failed r)) (s_bool (is_cleanup_failed r)) (s_bool (is_stop_failed r))
        (s_bool (has_actor r)) (sst (r_actor r)) (ser (r_error r)) (sst (r_actor r)) (ser (r_error r))
        (match to_result r with Inl st -> "ok:" ^ s_ustate st | Inr e -> "err:" ^ string_of_n e)
        (sst ta) (ser te))
    (all_shapes st (n_of_int 7));
  List.iter (fun (n, e) -> Printf.printf "retryable %s %s\n" n (s_bool (is_retryable e)))
    ["send", ESend; "recv", EReceive; "timeout", ETimeout]

(* ---------- ask_join (C03) ---------- *)
let join_table () =
  List.iter (fun (ask, t) ->
      let name =
        (match ask with ROk _ -> "ok" | RErr ESend -> "send" | RErr EReceive -> "recv" | RErr ETimeout -> "timeout" | RCancelled -> "cancelled")
        ^ ":" ^ (match t with TVal v -> "val" ^ string_of_n v | TPanic -> "panic" | TAborted -> "aborted") in
      let res = match ask_join ask t with
        | None -> "none"
        | Some (JOk v) -> "ok" ^ string_of_n v
        | Some (JErr ESend) -> "send" | Some (JErr EReceive) -> "recv" | Some (JErr ETimeout) -> "timeout"
        | Some (JJoin JPanicked) -> "join:panicked" | Some (JJoin JCancelled) -> "join:cancelled" in
      Printf.printf "%s %s\n" name res)
    all_join_cases

(* ---------- macro decision table (C19) ---------- *)
let coq_string (t : str) : Model.string =
  let ascii_of c =
    let n = Char.code c in let b i = (n lsr i) land 1 = 1 in
    Ascii (b 0, b 1, b 2, b 3, b 4, b 5, b 6, b 7) in
  let rec go i = if i >= String.length t then EmptyString else String (ascii_of t.[i], go (i + 1)) in
  go 0

let split_str sep s =
  (* split on a multi-character separator *)
  let n = String.length sep in
  let rec go acc i j =
    if j + n > String.length s then List.rev (String.sub s i (String.length s - i) :: acc)
    else if String.sub s j n = sep then go (String.sub s i (j - i) :: acc) (j + n) (j + n)
    else go acc i (j + 1) in
  go [] 0 0

let macro_decide file =
  List.iter (fun l ->
      match words l with
      | [id; attr; ret] ->
          let a =
            if attr = "path" then Some AfPath
            else if attr = "namevalue" then Some AfNameValue
            else if starts "list:" attr then
              let body = String.sub attr 5 (String.length attr - 5) in
              let opts = List.filter (fun w -> w <> "") (split_on ',' body) in
              Some (AfList (List.map (function "result" -> OResult | "no_log" -> ONoLog | _ -> OUnknown) opts))
            else None in
          let r =
            if ret = "none" then RtNone else if ret = "ref" then RtRef else if ret = "tuple" then RtTuple
            else if ret = "other" then RtOther
            else if starts "path:" ret then
              RtPath (List.map coq_string (split_str "::" (String.sub ret 5 (String.length ret - 5))))
            else RtOther in
          (match a with
           | None -> Printf.printf "%s skip\n" id
           | Some a ->
               (match decide a r with
                | CompileError -> Printf.printf "%s error\n" id
                | Impl (r', logs) ->
                    Printf.printf "%s impl reply_unit=%d logs_err=%d\n" id
                      (match r' with RtNone -> 1 | _ -> 0) (if logs then 1 else 0)))
      | _ -> ()) (read_lines file)

let config_model arg =
  (* "s" = an actor was spawned with the default capacity: no effect on the configuration *)
  let ns = if arg = "-" then [] else List.map (fun w -> nat_of_int (int_of_string w)) (List.filter (fun w -> w <> "s") (split_on ',' arg)) in
  let (c, rs) = run_sets ns None in
  Printf.printf "sets=%s capacity=%d\n" (String.concat "," (List.map (fun b -> if b then "ok" else "err") rs))
    (int_of_nat (default_cap c))

(* ---- the mailbox at permit granularity (Model/Chan.v) run on label scripts; one result line per
   script, the same text harness/src/bin/chan_probe.rs prints for the real tokio channel *)
let chan_run file =
  let ic = open_in file in
  (try
    while true do
      let line = input_line ic in
      match String.split_on_char ':' line with
      | [hd; body] ->
          let h = List.filter (fun x -> x <> "") (String.split_on_char ' ' hd) in
          let waits, cap, n = (match h with [w; c; n] -> (w = "1", int_of_string c, int_of_string n) | _ -> failwith "chan header") in
          let toks = List.filter (fun x -> x <> "") (String.split_on_char ' ' body) in
          let lab t =
            let arg () = nat_of_int (int_of_string (String.sub t 1 (String.length t - 1))) in
            match t.[0] with
            | 'a' -> KAcquire (arg ()) | 'f' -> KFail (arg ()) | 'p' -> KPush (arg ()) | 'g' -> KGiveBack (arg ())
            | 'r' -> KRecv | 'c' -> KClose | 'd' -> KDrain | 'x' -> KExit
            | _ -> failwith ("chan label " ^ t) in
          let buf = Buffer.create 256 in
          let c = ref (init_chan (nat_of_int cap) (nat_of_int n)) in
          List.iter (fun t ->
              c := cstep waits !c (lab t);
              let ql = List.length !c.c_queue in
              let live = ql + List.length !c.c_stranded in
              Buffer.add_string buf
                (Printf.sprintf "%d/%s/%d/%d " (int_of_nat !c.c_free)
                   (match !c.c_phase with RExited -> "-" | _ -> string_of_int ql)
                   (if !c.c_closed then 1 else 0) live)) toks;
          let ms l = String.concat "," (List.map (fun (i, k) -> Printf.sprintf "%d.%d" (int_of_nat i) (int_of_nat k)) l) in
          let ns l = String.concat "," (List.map (fun k -> string_of_int (int_of_nat k)) (List.rev l)) in
          Buffer.add_string buf (Printf.sprintf "H=[%s] D=[%s]" (ms !c.c_handled) (ms !c.c_dropped));
          List.iteri (fun i s -> Buffer.add_string buf (Printf.sprintf " s%d:ok=[%s],err=[%s]" i (ns s.sn_ok) (ns s.sn_err))) !c.c_senders;
          print_endline (Buffer.contents buf)
      | _ -> ()
    done
  with End_of_file -> close_in ic)


let () =
  if Array.length Sys.argv > 1 && Sys.argv.(1) = "--result-table" then (result_table (); exit 0);
  if Array.length Sys.argv > 1 && Sys.argv.(1) = "--join-table" then (join_table (); exit 0);
  if Array.length Sys.argv > 2 && Sys.argv.(1) = "--config" then (config_model Sys.argv.(2); exit 0);
  if Array.length Sys.argv > 2 && Sys.argv.(1) = "--macro" then (macro_decide Sys.argv.(2); exit 0);
  if Array.length Sys.argv > 2 && Sys.argv.(1) = "--chan" then (chan_run Sys.argv.(2); exit 0);
  let script = ref "" and observed = ref "" and proj = ref "full" and dump = ref false in
  Arg.parse [ "--script", Arg.Set_string script, "script file";
              "--observed", Arg.Set_string observed, "observed views";
              "--proj", Arg.Set_string proj, "projection";
              "--dump", Arg.Set dump, "print the model's candidate views for every round" ]
    (fun _ -> ()) "driver";
  let sc = parse_script !script in
  cur_feats := sc.feats;
  let prefixes = try List.assoc !proj proj_table with Not_found -> failwith "unknown projection" in
  let obs = if !observed = "" then None else Some (parse_observed !observed) in
  let cands = ref [xinit sc.feats] in
  let round = ref 0 in
  let maxc = ref 1 in
  (try
    List.iter (fun act ->
        incr round;
        (* time passes one tick at a time, and the system runs to quiescence after each tick: an
           operation begun by a hook when another one times out inside "advance 2" starts its own
           timeout at the intermediate tick *)
        let after =
          match act with
          | DAdvance k when int_of_nat k > 1 ->
              let rec go i c = if i = 0 then c else go (i - 1) (closure (List.map (apply_action (DAdvance (nat_of_int 1))) c)) in
              go (int_of_nat k) !cands
          | _ -> closure (List.map (apply_action act) !cands) in
        let after =
          match obs with
          | None -> after
          | Some rounds ->
              let o = try project prefixes (List.nth rounds (!round - 1))
                      with _ -> failwith (Printf.sprintf "observed file has no round %d" !round) in
              let ok = List.filter (fun x -> views_match o (project prefixes (render sc.feats (view_of x)))) after in
              if ok = [] then begin
                Printf.printf "DIVERGE round=%d candidates=%d\n" !round (List.length after);
                Printf.printf "--- observed (projected %s)\n" !proj; print_view stdout o;
                List.iteri (fun i x ->
                    if i < 6 then begin
                      Printf.printf "--- candidate %d\n" i;
                      print_view stdout (project prefixes (render sc.feats (view_of x))) end) after;
                raise Exit end;
              ok in
        if !dump then begin
          Printf.printf "R %d candidates=%d\n" !round (List.length after);
          List.iter (fun x -> print_view stdout (project prefixes (render sc.feats (view_of x))); print_string "E\n") after end;
        maxc := max !maxc (List.length after);
        cands := after) sc.actions;
    Printf.printf "ACCEPT rounds=%d states=%d transitions=%d maxcand=%d\n" !round !states_seen !transitions !maxc
  with Exit -> exit 3)
