#!/usr/bin/env python3
"""Generate, build and run the C19 macro corpus against the real rsactor proc macros.

usage: run_corpus.py <outdir> [--tier quick|thorough] [--seed N] [--repo /repo] [--selfcheck]

Writes <outdir>/real.txt (see README.md for the line formats) and prints a one-line JSON
summary.  Exit status: 0 ok, 2 the main corpus crate did not build (compiler output is
printed), 3 the runner binary failed, 1 --selfcheck found a difference.
Only the python3 standard library is used.
"""
import argparse
import json
import os
import re
import subprocess
import sys
import time

HERE = os.path.dirname(os.path.abspath(__file__))
sys.path.insert(0, HERE)
import gen_corpus  # noqa: E402

ERR_RE = re.compile(r"^error(\[E\d+\])?: (.*)$")


def cargo_env(target_dir):
    env = dict(os.environ)
    env["CARGO_NET_OFFLINE"] = "true"
    env["CARGO_TARGET_DIR"] = target_dir
    env["CARGO_TERM_COLOR"] = "never"
    env.pop("RUSTFLAGS", None)
    env.pop("CARGO_ENCODED_RUSTFLAGS", None)
    return env


def cargo_build(crate_dir, env):
    return subprocess.run(["cargo", "build", "--offline", "--quiet"], cwd=crate_dir, env=env,
                          stdout=subprocess.PIPE, stderr=subprocess.PIPE, text=True)


def classify_negative(cid, proc):
    """-> (verdict, first macro error message or '')"""
    if proc.returncode == 0:
        return "impl-compiles", ""
    macro_msgs = []
    coded = []
    for line in proc.stderr.splitlines():
        m = ERR_RE.match(line.strip())
        if not m:
            continue
        code, msg = m.group(1), m.group(2)
        if msg.startswith("could not compile") or msg.startswith("aborting due to"):
            continue
        if code:
            coded.append(msg)
        else:
            macro_msgs.append(msg)
    if ("could not compile `neg_%s`" % cid) not in proc.stderr:
        # the failure is not in the negative crate itself (dependency / resolution problem)
        return "build-failed-other", ""
    if macro_msgs:
        # errors produced with compile_error!/syn::Error carry no error code
        return "error", macro_msgs[0]
    return "error-not-macro", (coded[0] if coded else "")


# ----------------------------------------------------------------------------------------
# optional self check: an independent re-statement of the expected results
# ----------------------------------------------------------------------------------------
def expected_line(cid, attr, ret, meta):
    kind = meta.get("kind")
    if kind == "derive":
        return f"{cid} derive on_start_identity=1"
    if kind == "negative":
        return f"{cid} error"
    unit = 1 if ret == "none" else 0
    if kind == "manual":
        return (f"{cid} impl reply_unit={unit} logs_ok=0 logs_err=0 tell_calls=1 ask_calls=0 "
                f"handled=2 ask_ok=1")
    last_is_result = ret.startswith("path:") and ret[len("path:"):].split("::")[-1] == "Result"
    if attr in ("path", "list:"):
        logs = last_is_result
    elif attr == "list:no_log":
        logs = False
    elif attr == "list:result":
        logs = True
    else:
        raise ValueError(attr)
    logs_err = 1 if (logs and meta.get("result_like") == "1") else 0
    return (f"{cid} impl reply_unit={unit} logs_ok=0 logs_err={logs_err} tell_calls=-1 ask_calls=-1 "
            f"handled=4 ask_ok=1")


def parse_meta(path):
    out = {}
    with open(path) as f:
        for line in f:
            parts = line.split()
            if not parts:
                continue
            d = {}
            for tok in parts[1:]:
                if "=" in tok:
                    k, _, v = tok.partition("=")
                    d.setdefault(k, v)
            out[parts[0]] = d
    return out


def selfcheck(outdir, real_lines):
    meta = parse_meta(os.path.join(outdir, "meta.txt"))
    real = {l.split()[0]: l for l in real_lines}
    bad = 0
    with open(os.path.join(outdir, "cases.txt")) as f:
        for line in f:
            cid, attr, ret = line.split()
            exp = expected_line(cid, attr, ret, meta.get(cid, {}))
            got = real.get(cid)
            if got != exp:
                bad += 1
                sys.stderr.write(f"selfcheck: {cid} ({attr} {ret})\n  expected: {exp}\n  real:     {got}\n")
    return bad


# ----------------------------------------------------------------------------------------
def main(argv=None):
    ap = argparse.ArgumentParser(description=__doc__)
    ap.add_argument("outdir")
    ap.add_argument("--tier", choices=["quick", "thorough"], default="quick")
    ap.add_argument("--seed", type=int, default=0)
    ap.add_argument("--repo", default=os.environ.get("RSACTOR_REPO", "/repo"))
    ap.add_argument("--selfcheck", action="store_true",
                    help="compare real.txt with the expectations restated in this script")
    ap.add_argument("--run-timeout", type=int, default=600)
    args = ap.parse_args(argv)

    t0 = time.time()
    outdir = os.path.abspath(args.outdir)
    repo = os.path.abspath(args.repo)
    os.makedirs(outdir, exist_ok=True)
    info = gen_corpus.generate(outdir, args.tier, args.seed, repo)
    t_gen = time.time()

    target = os.path.join(outdir, "target")
    env = cargo_env(target)
    corpus = os.path.join(outdir, "corpus")
    real_path = os.path.join(outdir, "real.txt")
    if os.path.exists(real_path):
        os.remove(real_path)

    proc = cargo_build(corpus, env)
    t_build = time.time()
    if proc.returncode != 0:
        sys.stdout.write(proc.stdout)
        sys.stdout.write(proc.stderr)
        sys.stdout.write("run_corpus: the main corpus crate failed to build\n")
        sys.stdout.flush()
        return 2

    exe = os.path.join(target, "debug", "macro_corpus")
    try:
        run = subprocess.run([exe], stdout=subprocess.PIPE, stderr=subprocess.PIPE, text=True,
                             timeout=args.run_timeout)
    except subprocess.TimeoutExpired:
        sys.stdout.write("run_corpus: the runner timed out\n")
        return 3
    lines = [l for l in run.stdout.splitlines() if l.strip()]
    if run.returncode != 0:
        sys.stdout.write(run.stdout)
        sys.stdout.write(run.stderr)
        sys.stdout.write("run_corpus: the runner exited with status %d\n" % run.returncode)
        return 3
    t_run = time.time()

    # negative crates, sequentially (they share the target directory, cargo locks it anyway)
    negdir = os.path.join(outdir, "neg")
    logdir = os.path.join(outdir, "neglogs")
    os.makedirs(logdir, exist_ok=True)
    neg_ids = sorted(os.listdir(negdir)) if os.path.isdir(negdir) else []
    neg_msgs = []
    for cid in neg_ids:
        p = cargo_build(os.path.join(negdir, cid), env)
        verdict, msg = classify_negative(cid, p)
        with open(os.path.join(logdir, cid + ".log"), "w") as f:
            f.write(p.stdout)
            f.write(p.stderr)
        lines.append(f"{cid} {verdict}")
        neg_msgs.append(f"{cid} {verdict} {msg}")
    t_neg = time.time()

    with open(real_path, "w") as f:
        f.write("".join(l + "\n" for l in lines))
    with open(os.path.join(outdir, "neg_messages.txt"), "w") as f:
        f.write("".join(l + "\n" for l in neg_msgs))

    sys.stderr.write("run_corpus: gen %.1fs build %.1fs run %.1fs negatives %.1fs\n"
                     % (t_gen - t0, t_build - t_gen, t_run - t_build, t_neg - t_run))
    rc = 0
    if args.selfcheck:
        bad = selfcheck(outdir, lines)
        sys.stderr.write("selfcheck: %d difference(s)\n" % bad)
        rc = 1 if bad else 0
    print(json.dumps({"cases": info["positive"], "negatives": len(neg_ids), "real_file": real_path}))
    return rc


if __name__ == "__main__":
    sys.exit(main())
