#!/usr/bin/env python3
"""Generate the C19 macro corpus: cases.txt, meta.txt, corpus/ (one cargo crate with a runner)
and neg/<id>/ (one tiny cargo crate per case that the macro is expected to reject).

usage: gen_corpus.py <outdir> [--tier quick|thorough] [--seed N] [--repo /repo]

Only the python3 standard library is used.  Generation is deterministic for a given
(tier, seed); files are only rewritten when their content changes so that cargo's
fingerprints stay valid for a warm target directory.
"""
import argparse
import os
import random
import shutil
import sys

# --------------------------------------------------------------------------------------
# return type variants
# --------------------------------------------------------------------------------------
# key     : the <ret> column of cases.txt
# ty      : the return type exactly as written after `->` (None = no return type)
# uses    : extra `use` lines needed by the case module
# mk      : rust expression of type `ty` built from `x: u32` and `fail: bool`
# chk     : rust bool expression over `r: &ty`, `x: u32`, `fail: bool` (None => `*r == {mk}`)
# rl      : "result-like": `if let Err(ref e) = result` type-checks for `&ty` in the case
#           module (so `#[handler(result)]` is acceptable Rust) and fail=true gives an Err
# shadow  : the module shadows the prelude's `Err` (and maybe `Result`) with a user type
# quick   : part of the quick tier


def V(key, ty, mk, chk=None, uses=(), rl=False, shadow=False, quick=True, note=""):
    return dict(key=key, ty=ty, mk=mk, chk=chk, uses=list(uses), rl=rl, shadow=shadow,
                quick=quick, note=note)


STD_RES = 'if fail { Err(format!("e{}", x)) } else { Ok(x) }'

RET_VARIANTS = [
    V("none", None, "()", chk="{ let _ = (r, x, fail); true }"),
    V("path:u32", "u32", "if fail { x + 1000 } else { x }"),
    V("path:String", "String", 'format!("{}:{}", x, fail)'),
    V("path:Option", "Option<u32>", "if fail { None } else { Some(x) }"),
    V("path:Vec", "Vec<u32>", "vec![x, fail as u32]", quick=False),
    V("path:Pair", "Pair", "Pair { a: x, b: fail }"),
    V("path:crate::support::Pair", "crate::support::Pair", "Pair { a: x, b: fail }"),
    V("path:Result", "Result<u32, String>", STD_RES, rl=True),
    V("path:Result", "Result<(), MyErr>", "if fail { Err(MyErr(x)) } else { Ok(()) }", rl=True,
      note="custom Display error"),
    V("path:Result", "Result", "if fail { Result::Err(MyErr(x)) } else { Result::Ok(x) }",
      uses=["use crate::support::my_mod::Result;", "use crate::support::my_mod::Result::Err;"],
      rl=True, shadow=True, note="user enum my_mod::Result imported under the bare name Result"),
    V("path:std::result::Result", "std::result::Result<u32, String>", STD_RES, rl=True),
    V("path:core::result::Result", "::core::result::Result<u32, String>", STD_RES, rl=True,
      quick=False),
    V("path:MyAlias", "MyAlias<u32>", STD_RES, rl=True,
      note="type MyAlias<T> = Result<T, String>"),
    V("path:my_mod::Result", "my_mod::Result",
      "if fail { my_mod::Result::Err(MyErr(x)) } else { my_mod::Result::Ok(x) }",
      uses=["use crate::support::my_mod;", "use crate::support::my_mod::Result::Err;"],
      rl=True, shadow=True, note="user enum named Result (not std's), its Err variant in scope"),
    V("path:my_mod::Outcome", "my_mod::Outcome<u32>",
      'if fail { my_mod::Outcome::Err(format!("e{}", x)) } else { my_mod::Outcome::Ok(x) }',
      uses=["use crate::support::my_mod;", "use crate::support::my_mod::Outcome::Err;"],
      rl=True, shadow=True, note="user enum with an Err variant, not named Result"),
    V("path:io::Result", "io::Result<u32>",
      'if fail { Err(io::Error::new(io::ErrorKind::Other, format!("e{}", x))) } else { Ok(x) }',
      chk='match r { Ok(y) => !fail && *y == x, Err(e) => fail && e.to_string() == format!("e{}", x) }',
      uses=["use std::io;"], rl=True),
    V("path:fmt::Result", "fmt::Result",
      "{ let _ = x; if fail { Err(fmt::Error) } else { Ok(()) } }",
      uses=["use std::fmt;"], rl=True),
    V("path:HasResult::Result", "<Foo as HasResult>::Result", STD_RES, rl=True, quick=False,
      note="qualified path to an associated type named Result (= std Result<u32, String>)"),
    V("ref", "&'static str", 'if fail { "bad" } else { "good" }',
      chk='{ let _ = x; *r == if fail { "bad" } else { "good" } }'),
    V("ref", "&'static Result<u32, String>",
      "{ let b: &'static Result<u32, String> = Box::leak(Box::new(" + STD_RES + ")); b }",
      chk="**r == (" + STD_RES + ")", rl=True, note="reference to a std Result"),
    V("tuple", "(u32, bool)", "(x, fail)"),
    V("tuple", "(Result<u32, String>, u32)", "(" + STD_RES + ", x)", quick=False),
    V("other", "[u8; 2]", "[x as u8, fail as u8]"),
    V("other", "fn(u32) -> u32", "if fail { dbl as fn(u32) -> u32 } else { inc as fn(u32) -> u32 }",
      chk="(*r)(x) == if fail { x * 2 } else { x + 1 }", quick=False),
    V("other", "(Result<u32, String>)", STD_RES, rl=True,
      note="parenthesised type: syn::Type::Paren, not a path"),
]

# attribute forms: key -> list of concrete spellings (cycled)
ATTR_TEXT = {
    "path": ["#[handler]"],
    "list:": ["#[handler()]"],
    "list:result": ["#[handler(result)]", "#[handler(result,)]"],
    "list:no_log": ["#[handler(no_log)]", "#[handler(no_log,)]"],
    "list:result,no_log": ["#[handler(result, no_log)]"],
    "list:no_log,result": ["#[handler(no_log, result)]"],
    "list:unknown": ["#[handler(foo)]", "#[handler(log)]"],
    "list:result,unknown": ["#[handler(result, foo)]"],
    "namevalue": ['#[handler = "x"]', '#[handler = "result"]'],
}

POSITIVE_ATTRS = ["path", "list:", "list:no_log", "list:result"]

FLAVORS = ["struct", "generic_actor", "generic_where", "generic_msg", "concrete_gmsg",
           "methods", "multi", "multi_after", "enum", "manual_actor"]

# --------------------------------------------------------------------------------------
# support.rs : shared runtime pieces of the corpus crate
# --------------------------------------------------------------------------------------
SUPPORT_RS = r'''// generated by gen_corpus.py - shared pieces of the macro corpus runner
use std::any::type_name;
use std::fmt;
pub use std::sync::atomic::{AtomicUsize, Ordering};

use rsactor::{Actor, ActorRef, ActorResult, Message};
use tokio::task::JoinHandle;

// ---------------------------------------------------------------- tracing capture
/// number of ERROR events whose message starts with "tell handler returned error"
pub static TELL_ERR_LOGS: AtomicUsize = AtomicUsize::new(0);

pub fn log_count() -> usize {
    TELL_ERR_LOGS.load(Ordering::SeqCst)
}

pub struct CountingSubscriber;

struct MsgVisitor(String);

impl tracing::field::Visit for MsgVisitor {
    fn record_debug(&mut self, field: &tracing::field::Field, value: &dyn fmt::Debug) {
        if field.name() == "message" {
            use fmt::Write;
            let _ = write!(self.0, "{:?}", value);
        }
    }
}

impl tracing::Subscriber for CountingSubscriber {
    fn enabled(&self, _m: &tracing::Metadata<'_>) -> bool {
        true
    }
    fn new_span(&self, _a: &tracing::span::Attributes<'_>) -> tracing::span::Id {
        tracing::span::Id::from_u64(1)
    }
    fn record(&self, _s: &tracing::span::Id, _v: &tracing::span::Record<'_>) {}
    fn record_follows_from(&self, _s: &tracing::span::Id, _f: &tracing::span::Id) {}
    fn event(&self, event: &tracing::Event<'_>) {
        if *event.metadata().level() == tracing::Level::ERROR {
            let mut v = MsgVisitor(String::new());
            event.record(&mut v);
            if v.0.starts_with("tell handler returned error") {
                TELL_ERR_LOGS.fetch_add(1, Ordering::SeqCst);
            }
        }
    }
    fn enter(&self, _s: &tracing::span::Id) {}
    fn exit(&self, _s: &tracing::span::Id) {}
}

// ---------------------------------------------------------------- shared user types
#[derive(Debug, Clone, PartialEq)]
pub struct MyErr(pub u32);

impl fmt::Display for MyErr {
    fn fmt(&self, f: &mut fmt::Formatter<'_>) -> fmt::Result {
        write!(f, "MyErr({})", self.0)
    }
}

/// the alias hides the name `Result` from the macro
pub type MyAlias<T> = std::result::Result<T, String>;

pub mod my_mod {
    use super::MyErr;
    use std::fmt;

    /// a USER type named `Result` that is not std's Result
    #[derive(Debug, Clone, PartialEq)]
    pub enum Result {
        Ok(u32),
        Err(MyErr),
    }

    impl fmt::Display for Result {
        fn fmt(&self, f: &mut fmt::Formatter<'_>) -> fmt::Result {
            match self {
                Result::Ok(v) => write!(f, "my_mod::Result::Ok({})", v),
                Result::Err(e) => write!(f, "my_mod::Result::Err({})", e),
            }
        }
    }

    /// a user enum with an `Err` variant that is NOT named Result
    #[derive(Debug, Clone, PartialEq)]
    pub enum Outcome<T> {
        Ok(T),
        Err(String),
    }
}

#[derive(Debug, Clone, PartialEq)]
pub struct Pair {
    pub a: u32,
    pub b: bool,
}

pub trait HasResult {
    type Result;
}
pub struct Foo;
impl HasResult for Foo {
    type Result = std::result::Result<u32, String>;
}

pub fn inc(v: u32) -> u32 {
    v + 1
}
pub fn dbl(v: u32) -> u32 {
    v * 2
}

// ---------------------------------------------------------------- shared message types
pub struct Msg {
    pub v: u32,
    pub fail: bool,
}

pub struct GMsg<P> {
    pub v: u32,
    pub fail: bool,
    pub extra: P,
}

/// cheap message used to make sure an earlier tell has been handled
pub struct SyncMsg;
pub struct Other {
    pub v: u32,
}
pub struct Third;
/// used by the derive cases: reply is a clone of the actor state
pub struct GetState;

// ---------------------------------------------------------------- drivers
async fn sync_ok<A>(ar: &ActorRef<A>, base: u32) -> bool
where
    A: Actor + Message<SyncMsg, Reply = u32> + 'static,
{
    matches!(ar.ask(SyncMsg).await, Ok(b) if b == base)
}

/// 2 tells (fail=false, fail=true) and 2 asks (fail=false, fail=true) of the case message
#[allow(clippy::too_many_arguments)]
pub async fn drive_macro<A, M>(
    id: &'static str,
    ar: ActorRef<A>,
    jh: JoinHandle<ActorResult<A>>,
    mk: fn(u32, bool) -> M,
    chk: fn(&<A as Message<M>>::Reply, u32, bool) -> bool,
    base: u32,
    vals: [u32; 4],
    handled: &'static AtomicUsize,
) -> String
where
    A: Actor + Message<M> + Message<SyncMsg, Reply = u32> + 'static,
    M: Send + 'static,
{
    let reply_unit = (type_name::<<A as Message<M>>::Reply>() == "()") as u8;
    let mut sends_ok = true;

    let l0 = log_count();
    sends_ok &= ar.tell(mk(vals[0], false)).await.is_ok();
    sends_ok &= sync_ok(&ar, base).await;
    let logs_ok = log_count() - l0;

    let l1 = log_count();
    sends_ok &= ar.tell(mk(vals[1], true)).await.is_ok();
    sends_ok &= sync_ok(&ar, base).await;
    let logs_err = log_count() - l1;

    let l2 = log_count();
    let r1 = ar.ask(mk(vals[2], false)).await;
    let r2 = ar.ask(mk(vals[3], true)).await;
    let mut ask_ok = matches!(&r1, Ok(r) if chk(r, base + vals[2], false))
        && matches!(&r2, Ok(r) if chk(r, base + vals[3], true));
    sends_ok &= sync_ok(&ar, base).await;
    if log_count() != l2 {
        // an ask must never reach on_tell_result
        ask_ok = false;
    }
    if !sends_ok {
        ask_ok = false;
    }
    let _ = ar.stop().await;
    let _ = jh.await;
    format!(
        "{} impl reply_unit={} logs_ok={} logs_err={} tell_calls=-1 ask_calls=-1 handled={} ask_ok={}",
        id,
        reply_unit,
        logs_ok,
        logs_err,
        handled.load(Ordering::SeqCst),
        ask_ok as u8
    )
}

/// hand-written Message impl: 1 tell (fail=true) and 1 ask (fail=false)
#[allow(clippy::too_many_arguments)]
pub async fn drive_manual<A, M>(
    id: &'static str,
    ar: ActorRef<A>,
    jh: JoinHandle<ActorResult<A>>,
    mk: fn(u32, bool) -> M,
    chk: fn(&<A as Message<M>>::Reply, u32, bool) -> bool,
    base: u32,
    vals: [u32; 2],
    handled: &'static AtomicUsize,
    otr_calls: &'static AtomicUsize,
) -> String
where
    A: Actor + Message<M> + Message<SyncMsg, Reply = u32> + 'static,
    M: Send + 'static,
{
    let reply_unit = (type_name::<<A as Message<M>>::Reply>() == "()") as u8;
    let mut sends_ok = true;

    let l0 = log_count();
    let c0 = otr_calls.load(Ordering::SeqCst);
    sends_ok &= ar.tell(mk(vals[0], true)).await.is_ok();
    sends_ok &= sync_ok(&ar, base).await;
    let tell_calls = otr_calls.load(Ordering::SeqCst) - c0;
    let logs_err = log_count() - l0;

    let l1 = log_count();
    let c1 = otr_calls.load(Ordering::SeqCst);
    let r1 = ar.ask(mk(vals[1], false)).await;
    let mut ask_ok = matches!(&r1, Ok(r) if chk(r, base + vals[1], false));
    sends_ok &= sync_ok(&ar, base).await;
    let ask_calls = otr_calls.load(Ordering::SeqCst) - c1;
    if log_count() != l1 {
        ask_ok = false;
    }
    if !sends_ok {
        ask_ok = false;
    }
    let _ = ar.stop().await;
    let _ = jh.await;
    format!(
        "{} impl reply_unit={} logs_ok=0 logs_err={} tell_calls={} ask_calls={} handled={} ask_ok={}",
        id,
        reply_unit,
        logs_err,
        tell_calls,
        ask_calls,
        handled.load(Ordering::SeqCst),
        ask_ok as u8
    )
}

/// #[derive(Actor)]: Args = Self, Error = Infallible, on_start returns its argument
pub async fn drive_derive<A>(id: &'static str, args: A) -> String
where
    A: Actor<Args = A> + Message<GetState, Reply = A> + Clone + PartialEq + 'static,
{
    let (ar, jh) = rsactor::spawn::<A>(args.clone());
    let got = ar.ask(GetState).await;
    let mut ok = matches!(&got, Ok(s) if *s == args);
    ok &= type_name::<<A as Actor>::Error>() == type_name::<std::convert::Infallible>();
    ok &= type_name::<<A as Actor>::Args>() == type_name::<A>();
    let _ = ar.stop().await;
    match jh.await {
        Ok(ActorResult::Completed { actor, killed }) => {
            ok &= actor == args && !killed;
        }
        _ => ok = false,
    }
    format!("{} derive on_start_identity={}", id, ok as u8)
}
'''

CARGO_TOML = '''[package]
name = "{name}"
version = "0.0.0"
edition = "2021"
publish = false

[workspace]

[dependencies]
rsactor = {{ path = "{repo}" }}
tokio = {{ version = "1", features = ["rt", "macros", "sync", "time"] }}
tracing = "0.1"

[profile.dev]
debug = false
'''

MOD_HEADER = '''// generated by gen_corpus.py
// {comment}
#![allow(dead_code, unused_imports, unused_variables, unused_parens, unused_mut)]
use crate::support::*;
use rsactor::{{message_handlers, Actor, ActorRef, Message}};
{uses}
pub static HANDLED: AtomicUsize = AtomicUsize::new(0);
'''

SYNC_HANDLER = '''    #[handler]
    async fn on_sync(&mut self, _m: SyncMsg, _: &ActorRef<Self>) -> u32 {{
        {base}
    }}
'''


def ret_arrow(v):
    return "" if v["ty"] is None else " -> " + v["ty"]


def reply_ty(v):
    return "()" if v["ty"] is None else v["ty"]


def body_tail(v):
    """statements + final expression of a handler body; `x` and `fail` are in scope"""
    if v["ty"] is None:
        return "let _ = (x, fail);"
    return v["mk"]


def chk_expr(v):
    if v["chk"] is not None:
        return v["chk"]
    return "*r == (" + v["mk"] + ")"


def handler_fn(attr_text, name, msg_pat, msg_ty, ar_param, v, xexpr, failexpr, pre="", extra_attrs_before="",
               extra_attrs_after=""):
    return (
        f"{extra_attrs_before}    {attr_text}\n{extra_attrs_after}"
        f"    async fn {name}(&mut self, {msg_pat}: {msg_ty}, {ar_param}){ret_arrow(v)} {{\n"
        f"        HANDLED.fetch_add(1, Ordering::SeqCst);\n"
        f"{pre}"
        f"        let x: u32 = {xexpr};\n"
        f"        let fail: bool = {failexpr};\n"
        f"        {body_tail(v)}\n"
        f"    }}\n"
    )


def flavor_code(flavor, attr_text, v, base):
    """returns (items_code, actor_ty, msg_ty, mk_msg_expr, spawn_expr)"""
    sync = lambda b: SYNC_HANDLER.format(base=b)
    if flavor == "struct":
        h = handler_fn(attr_text, "on_msg", "msg", "Msg", "_: &ActorRef<Self>", v,
                       "self.base + msg.v", "msg.fail")
        code = f'''
#[derive(Actor)]
pub struct A {{
    base: u32,
}}

#[message_handlers]
impl A {{
{h}}}

// a second #[message_handlers] block for the same actor
#[message_handlers]
impl A {{
{sync("self.base")}}}
'''
        return code, "A", "Msg", "Msg { v, fail }", f"rsactor::spawn::<A>(A {{ base: {base} }})"

    if flavor == "generic_actor":
        h = handler_fn(attr_text, "on_msg", "msg", "Msg", "_ar: &rsactor::ActorRef<Self>", v,
                       "self.base + msg.v", "msg.fail")
        code = f'''
#[derive(Actor)]
pub struct A<T: Send + 'static> {{
    base: u32,
    tag: T,
}}

#[message_handlers]
impl<T: Send + 'static> A<T> {{
{h}
{sync("self.base")}}}
'''
        return (code, "A<u8>", "Msg", "Msg { v, fail }",
                f"rsactor::spawn::<A<u8>>(A {{ base: {base}, tag: 7u8 }})")

    if flavor == "generic_where":
        h = handler_fn(attr_text, "on_msg", "msg", "crate::support::Msg", "_: &ActorRef<Self>", v,
                       "Into::<u32>::into(self.tag) + msg.v", "msg.fail")
        code = f'''
#[derive(Actor)]
pub struct A<T>
where
    T: Copy + Into<u32> + Send + 'static,
{{
    tag: T,
}}

#[message_handlers]
impl<T> A<T>
where
    T: Copy + Into<u32> + Send + 'static,
{{
{h}
{sync("self.tag.into()")}}}
'''
        return (code, "A<u16>", "Msg", "Msg { v, fail }",
                f"rsactor::spawn::<A<u16>>(A {{ tag: {base}u16 }})")

    if flavor == "generic_msg":
        h = handler_fn(attr_text, "on_msg", "msg", "GMsg<P>", "_: &ActorRef<Self>", v,
                       "self.base + msg.v", "msg.fail",
                       pre="        self.last = Some(msg.extra);\n")
        code = f'''
#[derive(Actor)]
pub struct A<P: Send + 'static> {{
    base: u32,
    last: Option<P>,
}}

#[message_handlers]
impl<P: Send + 'static> A<P> {{
{sync("self.base")}
{h}}}
'''
        return (code, "A<u64>", "GMsg<u64>", "GMsg { v, fail, extra: 9u64 }",
                f"rsactor::spawn::<A<u64>>(A {{ base: {base}, last: None }})")

    if flavor == "concrete_gmsg":
        h = handler_fn(attr_text, "on_msg", "GMsg { v, fail, extra: _ }", "GMsg<(u8, char)>",
                       "ar: &ActorRef<A>", v, "self.base + v", "fail",
                       pre="        let _ = ar.identity();\n")
        code = f'''
#[derive(Actor)]
pub struct A {{
    base: u32,
}}

#[message_handlers]
impl A {{
{h}
{sync("self.base")}}}
'''
        return (code, "A", "GMsg<(u8, char)>", "GMsg { v, fail, extra: (1u8, 'e') }",
                f"rsactor::spawn::<A>(A {{ base: {base} }})")

    if flavor == "methods":
        h = handler_fn(attr_text, "on_msg", "msg", "Msg", "_: &ActorRef<Self>", v,
                       "self.helper(msg.v) - Self::K", "msg.fail",
                       pre="        self.ahelper().await;\n",
                       extra_attrs_before="    /// the handler of this case (doc comment and other attributes around #[handler])\n"
                                          "    #[allow(unused_variables)]\n",
                       extra_attrs_after="    #[allow(clippy::needless_return)]\n")
        code = f'''
#[derive(Actor)]
pub struct A {{
    base: u32,
    calls: u32,
}}

#[message_handlers]
impl A {{
    pub const K: u32 = 3;

    pub fn new(base: u32) -> Self {{
        A {{ base, calls: 0 }}
    }}

    fn helper(&self, v: u32) -> u32 {{
        self.base + v + Self::K
    }}

    async fn ahelper(&mut self) {{
        self.calls += 1;
    }}

{h}
    /// not a handler although it has the shape of one
    async fn not_a_handler(&mut self, _msg: Other, _: &ActorRef<Self>) -> u32 {{
        self.calls
    }}

{sync("self.base")}
    pub fn describe() -> &'static str {{
        "methods"
    }}
}}
'''
        return code, "A", "Msg", "Msg { v, fail }", f"rsactor::spawn::<A>(A::new({base}))"

    if flavor == "multi":
        h = handler_fn(attr_text, "on_msg", "msg", "Msg", "_: &ActorRef<Self>", v,
                       "self.base + msg.v", "msg.fail")
        # in modules that shadow the prelude's `Err`, the neighbour handlers stay away from
        # Result types so that a macro that wrongly logs them still yields compilable code
        if v["shadow"]:
            third_ty, third_val = "Option<u32>", "None"
        else:
            third_ty, third_val = "std::result::Result<(), String>", 'std::result::Result::Err("third".to_string())'
        code = f'''
#[derive(Actor)]
pub struct A {{
    base: u32,
}}

#[message_handlers]
impl A {{
    #[handler]
    async fn on_other(&mut self, m: Other, _: &ActorRef<Self>) -> u32 {{
        self.base + m.v
    }}

{h}
    #[handler(no_log)]
    async fn on_third(&mut self, _m: Third, _: &ActorRef<Self>) -> {third_ty} {{
        {third_val}
    }}

{sync("self.base")}}}

fn _assert_other()
where
    A: rsactor::Message<Other, Reply = u32>,
    A: rsactor::Message<Third, Reply = {third_ty}>,
{{
}}
'''
        return code, "A", "Msg", "Msg { v, fail }", f"rsactor::spawn::<A>(A {{ base: {base} }})"

    if flavor == "multi_after":
        # as "multi", but the handler under test comes after neighbours that carry options: its own
        # attribute alone must decide (no state may leak from one method to the next)
        h = handler_fn(attr_text, "on_msg", "msg", "Msg", "_: &ActorRef<Self>", v,
                       "self.base + msg.v", "msg.fail")
        if v["shadow"]:
            third_ty, third_val = "Option<u32>", "None"
        else:
            third_ty, third_val = "std::result::Result<(), String>", 'std::result::Result::Err("third".to_string())'
        code = f'''
#[derive(Actor)]
pub struct A {{
    base: u32,
}}

#[message_handlers]
impl A {{
    #[handler(no_log)]
    async fn on_third(&mut self, _m: Third, _: &ActorRef<Self>) -> {third_ty} {{
        {third_val}
    }}

{h}
    #[handler]
    async fn on_other(&mut self, m: Other, _: &ActorRef<Self>) -> u32 {{
        self.base + m.v
    }}

{sync("self.base")}}}

fn _assert_other()
where
    A: rsactor::Message<Other, Reply = u32>,
    A: rsactor::Message<Third, Reply = {third_ty}>,
{{
}}
'''
        return code, "A", "Msg", "Msg { v, fail }", f"rsactor::spawn::<A>(A {{ base: {base} }})"

    if flavor == "enum":
        h = handler_fn(attr_text, "on_msg", "msg", "Msg", "_: &ActorRef<Self>", v,
                       "self.base() + msg.v", "msg.fail")
        code = f'''
#[derive(Actor)]
pub enum A {{
    Idle,
    Busy(u32),
}}

impl A {{
    fn base(&self) -> u32 {{
        match self {{
            A::Busy(b) => *b,
            A::Idle => 0,
        }}
    }}
}}

#[message_handlers]
impl A {{
{h}
{sync("self.base()")}}}
'''
        return code, "A", "Msg", "Msg { v, fail }", f"rsactor::spawn::<A>(A::Busy({base}))"

    if flavor == "manual_actor":
        h = handler_fn(attr_text, "on_msg", "msg", "Msg", "_: &ActorRef<Self>", v,
                       "self.base + msg.v", "msg.fail")
        code = f'''
pub struct A {{
    base: u32,
}}

// hand-written Actor impl (no derive)
impl Actor for A {{
    type Args = u32;
    type Error = String;

    async fn on_start(args: Self::Args, _ar: &ActorRef<Self>) -> std::result::Result<Self, Self::Error> {{
        std::result::Result::Ok(A {{ base: args }})
    }}
}}

#[message_handlers]
impl A {{
{h}
{sync("self.base")}}}
'''
        return code, "A", "Msg", "Msg { v, fail }", f"rsactor::spawn::<A>({base}u32)"

    raise ValueError(flavor)


def macro_case_module(cid, attr_key, attr_text, v, flavor, base, vals):
    items, actor_ty, msg_ty, mk_msg, spawn = flavor_code(flavor, attr_text, v, base)
    comment = f"{cid}: attr={attr_key} ({attr_text}) ret={v['key']} type=`{reply_ty(v)}` flavor={flavor}"
    uses = "\n".join(v["uses"])
    out = MOD_HEADER.format(comment=comment, uses=uses)
    out += items
    out += f'''
// a wrong Reply type is a compile error
fn _assert_{cid}()
where
    {actor_ty}: rsactor::Message<{msg_ty}, Reply = {reply_ty(v)}>,
{{
}}

fn mk_msg(v: u32, fail: bool) -> {msg_ty} {{
    {mk_msg}
}}

fn check(r: &{reply_ty(v)}, x: u32, fail: bool) -> bool {{
    {chk_expr(v)}
}}

pub async fn run() -> String {{
    let (ar, jh) = {spawn};
    drive_macro::<{actor_ty}, {msg_ty}>("{cid}", ar, jh, mk_msg, check, {base}, {list(vals)}, &HANDLED).await
}}
'''
    return out


# --------------------------------------------------------------------------------------
# hand-written Message impls (on_tell_result call counting)
# --------------------------------------------------------------------------------------
MANUAL_VARIANTS = [
    # (variant selector (key, ty), generic actor?)
    ("none", None, False),
    ("path:u32", "u32", False),
    ("path:Result", "Result<u32, String>", False),
    ("path:MyAlias", "MyAlias<u32>", True),
    ("path:Option", "Option<u32>", False),
    ("path:my_mod::Result", "my_mod::Result", False),
    ("tuple", "(u32, bool)", True),
    ("ref", "&'static str", False),
]


def find_variant(key, ty):
    for v in RET_VARIANTS:
        if v["key"] == key and v["ty"] == ty:
            return v
    raise KeyError((key, ty))


def manual_case_module(cid, v, generic, base, vals):
    comment = f"{cid}: attr=manual ret={v['key']} type=`{reply_ty(v)}` generic_actor={int(generic)}"
    uses = "\n".join(v["uses"])
    out = MOD_HEADER.format(comment=comment, uses=uses)
    out += "pub static OTR_CALLS: AtomicUsize = AtomicUsize::new(0);\n"
    if generic:
        decl = "#[derive(Actor)]\npub struct A<T: Send + 'static> {\n    base: u32,\n    tag: T,\n}\n"
        impl_hdr = "impl<T: Send + 'static> Message<Msg> for A<T>"
        mh_hdr = "impl<T: Send + 'static> A<T>"
        actor_ty = "A<i64>"
        spawn = f"rsactor::spawn::<A<i64>>(A {{ base: {base}, tag: -1i64 }})"
    else:
        decl = "#[derive(Actor)]\npub struct A {\n    base: u32,\n}\n"
        impl_hdr = "impl Message<Msg> for A"
        mh_hdr = "impl A"
        actor_ty = "A"
        spawn = f"rsactor::spawn::<A>(A {{ base: {base} }})"
    out += f'''
{decl}
// hand-written Message impl with a counting on_tell_result
{impl_hdr} {{
    type Reply = {reply_ty(v)};

    async fn handle(&mut self, msg: Msg, _: &ActorRef<Self>) -> Self::Reply {{
        HANDLED.fetch_add(1, Ordering::SeqCst);
        let x: u32 = self.base + msg.v;
        let fail: bool = msg.fail;
        {body_tail(v)}
    }}

    fn on_tell_result(_result: &Self::Reply, _ar: &ActorRef<Self>) {{
        OTR_CALLS.fetch_add(1, Ordering::SeqCst);
    }}
}}

#[message_handlers]
{mh_hdr} {{
{SYNC_HANDLER.format(base="self.base")}}}

fn mk_msg(v: u32, fail: bool) -> Msg {{
    Msg {{ v, fail }}
}}

fn check(r: &{reply_ty(v)}, x: u32, fail: bool) -> bool {{
    {chk_expr(v)}
}}

pub async fn run() -> String {{
    let (ar, jh) = {spawn};
    drive_manual::<{actor_ty}, Msg>("{cid}", ar, jh, mk_msg, check, {base}, {list(vals)}, &HANDLED, &OTR_CALLS).await
}}
'''
    return out


# --------------------------------------------------------------------------------------
# #[derive(Actor)] cases
# --------------------------------------------------------------------------------------
DERIVE_CASES = [
    # (description, declaration, impl header, reply type text in the handler, concrete type, args expr)
    ("struct with named fields",
     "#[derive(Actor, Clone, PartialEq, Debug)]\npub struct A {\n    name: String,\n    count: u32,\n}\n",
     "impl A", "A", "A", 'A { name: "n".to_string(), count: SEED }'),
    ("tuple struct",
     "#[derive(Actor, Clone, PartialEq, Debug)]\npub struct A(u32, String);\n",
     "impl A", "Self", "A", 'A(SEED, "t".to_string())'),
    ("unit struct",
     "#[derive(Actor, Clone, PartialEq, Debug)]\npub struct A;\n",
     "impl A", "Self", "A", "A"),
    ("enum",
     "#[derive(Actor, Clone, PartialEq, Debug)]\npub enum A {\n    Idle,\n    Processing(String),\n    Completed(i32),\n}\n",
     "impl A", "A", "A", 'A::Processing(format!("p{}", SEED))'),
    ("generic struct",
     "#[derive(Actor, Clone, PartialEq, Debug)]\npub struct A<T: Clone + PartialEq + Send + 'static> {\n    v: T,\n    n: u32,\n}\n",
     "impl<T: Clone + PartialEq + Send + 'static> A<T>", "Self", "A<Vec<u8>>",
     "A { v: vec![1u8, 2, SEED as u8], n: SEED }"),
    ("generic enum with a where clause",
     "#[derive(Actor, Clone, PartialEq, Debug)]\npub enum A<T, U>\nwhere\n    T: Clone + PartialEq + Send + 'static,\n    U: Clone + PartialEq + Send + 'static,\n{\n    Left(T),\n    Right(U),\n    Neither,\n}\n",
     "impl<T, U> A<T, U>\nwhere\n    T: Clone + PartialEq + Send + 'static,\n    U: Clone + PartialEq + Send + 'static,\n",
     "A<T, U>", "A<u32, String>", "A::<u32, String>::Left(SEED)"),
    ("const generic struct",
     "#[derive(Actor, Clone, PartialEq, Debug)]\npub struct A<const N: usize> {\n    arr: [u8; N],\n}\n",
     "impl<const N: usize> A<N>", "Self", "A<3>", "A::<3> { arr: [1, 2, SEED as u8] }"),
]


def derive_case_module(cid, idx, seedval):
    desc, decl, impl_hdr, rty, conc, args = DERIVE_CASES[idx]
    args = args.replace("SEED", str(seedval))
    comment = f"{cid}: attr=derive ret=none ({desc})"
    out = MOD_HEADER.format(comment=comment, uses="")
    out += f'''
{decl}
#[message_handlers]
{impl_hdr} {{
    #[handler]
    async fn on_get(&mut self, _m: GetState, _: &ActorRef<Self>) -> {rty} {{
        self.clone()
    }}
}}

// #[derive(Actor)]: Args = Self, Error = Infallible
fn _assert_{cid}()
where
    {conc}: rsactor::Actor<Args = {conc}, Error = std::convert::Infallible>,
    {conc}: rsactor::Message<GetState, Reply = {conc}>,
{{
}}

pub async fn run() -> String {{
    drive_derive::<{conc}>("{cid}", {args}).await
}}
'''
    return out


# --------------------------------------------------------------------------------------
# negative crates
# --------------------------------------------------------------------------------------
NEG_RETS = {
    "none": (None, "let _ = (x, fail);"),
    "path:u32": ("u32", "if fail { x + 1000 } else { x }"),
    "path:Result": ("Result<u32, String>", STD_RES),
    "path:MyAlias": ("MyAlias<u32>", STD_RES),
}

NEG_MAIN = '''// generated by gen_corpus.py
// {comment}
#![allow(dead_code, unused)]
use rsactor::{{message_handlers, Actor, ActorRef}};

type MyAlias<T> = Result<T, String>;

#[derive(Actor)]
struct A {{
    base: u32,
}}

struct Msg {{
    v: u32,
    fail: bool,
}}

#[message_handlers]
impl A {{
{handler}}}

fn main() {{}}
'''


def neg_handler(attr_text, ret_key, sig_kind=None):
    ty, tail = NEG_RETS[ret_key]
    arrow = "" if ty is None else " -> " + ty
    asyncness = "async "
    params = "&mut self, msg: Msg, _: &ActorRef<Self>"
    if sig_kind == "not_async":
        asyncness = ""
    elif sig_kind == "two_params":
        params = "&mut self, msg: Msg"
    elif sig_kind == "ref_self":
        params = "&self, msg: Msg, _: &ActorRef<Self>"
    return (f"    {attr_text}\n"
            f"    {asyncness}fn on_msg({params}){arrow} {{\n"
            f"        let x: u32 = self.base + msg.v;\n"
            f"        let fail: bool = msg.fail;\n"
            f"        {tail}\n"
            f"    }}\n")


# (attr, ret) pairs of the negative set; quick keeps the ones marked True
NEG_ATTR_CASES = [
    ("list:unknown", "path:u32", True),
    ("list:unknown", "path:Result", True),
    ("list:unknown", "none", False),
    ("list:result,unknown", "path:Result", True),
    ("list:result,unknown", "path:u32", False),
    ("list:result,no_log", "path:Result", True),
    ("list:result,no_log", "path:MyAlias", False),
    ("list:result,no_log", "none", False),
    ("list:no_log,result", "path:Result", True),
    ("list:no_log,result", "path:u32", True),
    ("namevalue", "path:u32", True),
    ("namevalue", "none", True),
    ("namevalue", "path:Result", False),
    ("list:result", "none", True),
]

NEG_SIG_CASES = [
    ("sig:not_async", "not_async", "path:u32"),
    ("sig:two_params", "two_params", "path:u32"),
    ("sig:ref_self", "ref_self", "path:u32"),
]


# --------------------------------------------------------------------------------------
# file helpers
# --------------------------------------------------------------------------------------
def write_if_changed(path, content):
    os.makedirs(os.path.dirname(path), exist_ok=True)
    try:
        with open(path, "r") as f:
            if f.read() == content:
                return False
    except (FileNotFoundError, UnicodeDecodeError):
        pass
    with open(path, "w") as f:
        f.write(content)
    return True


def copy_lock(repo, dst_dir):
    src = os.path.join(repo, "Cargo.lock")
    dst = os.path.join(dst_dir, "Cargo.lock")
    if os.path.exists(src) and not os.path.exists(dst):
        shutil.copyfile(src, dst)


def prune(directory, keep):
    """delete entries of `directory` that are not in `keep`"""
    if not os.path.isdir(directory):
        return
    for name in os.listdir(directory):
        if name not in keep:
            p = os.path.join(directory, name)
            if os.path.isdir(p):
                shutil.rmtree(p)
            else:
                os.remove(p)


# --------------------------------------------------------------------------------------
# main
# --------------------------------------------------------------------------------------
def positive_pairs(tier):
    """list of (attr_key, variant) for the positive macro cases"""
    pairs = []
    for v in RET_VARIANTS:
        if tier == "quick" and not v["quick"]:
            continue
        for a in POSITIVE_ATTRS:
            if a == "list:result":
                # `if let Err(ref e) = result` must type-check, and a return type must exist
                if not v["rl"]:
                    continue
            pairs.append((a, v))
    return pairs


def flavors_for(v, flavor):
    """can this (variant, flavor) combination be written?"""
    return True


def generate(outdir, tier, seed, repo):
    rng = random.Random(seed)
    outdir = os.path.abspath(outdir)
    corpus = os.path.join(outdir, "corpus")
    src = os.path.join(corpus, "src")
    negdir = os.path.join(outdir, "neg")
    os.makedirs(src, exist_ok=True)
    os.makedirs(negdir, exist_ok=True)

    cases = []   # (id, attr, ret)
    meta = []    # free-form per-case information
    modules = []  # module names of the main crate, in run order
    files = {}

    attr_counter = {}

    def attr_text_for(a):
        n = attr_counter.get(a, 0)
        attr_counter[a] = n + 1
        lst = ATTR_TEXT[a]
        return lst[n % len(lst)]

    def fresh_vals(n):
        vals = rng.sample(range(1, 90), n)
        return vals

    # ---- positive macro cases
    pairs = positive_pairs(tier)
    combos = []
    if tier == "quick":
        order = FLAVORS[:]
        rng.shuffle(order)
        for i, (a, v) in enumerate(pairs):
            combos.append((a, v, order[i % len(order)]))
        # every bare / empty-list attribute also in the position where a neighbour's options could leak
        for (a, v) in pairs:
            if a in ("path", "list:") and (a, v, "multi_after") not in combos:
                combos.append((a, v, "multi_after"))
    else:
        for (a, v) in pairs:
            for fl in FLAVORS:
                combos.append((a, v, fl))
    n = 0
    for (a, v, fl) in combos:
        n += 1
        cid = "c%04d" % n
        base = rng.randrange(100, 900)
        vals = fresh_vals(4)
        atext = attr_text_for(a)
        files[cid + ".rs"] = macro_case_module(cid, a, atext, v, fl, base, vals)
        modules.append(cid)
        cases.append((cid, a, v["key"]))
        meta.append(f"{cid} kind=macro attr_text=`{atext}` type=`{reply_ty(v)}` result_like={int(v['rl'])} "
                    f"flavor={fl} tells=2 asks=2 base={base} vals={','.join(map(str, vals))}"
                    + (f" note=`{v['note']}`" if v["note"] else ""))

    # ---- negative macro cases (own crates)
    negatives = []
    for (a, rk, quick) in NEG_ATTR_CASES:
        if tier == "quick" and not quick:
            continue
        n += 1
        cid = "c%04d" % n
        atext = attr_text_for(a)
        handler = neg_handler(atext, rk)
        negatives.append((cid, a, rk, atext, handler))
    sn = 0
    for (a, kind, rk) in NEG_SIG_CASES:
        sn += 1
        cid = "s%04d" % sn
        handler = neg_handler("#[handler]", rk, sig_kind=kind)
        negatives.append((cid, a, rk, "#[handler]", handler))
    for (cid, a, rk, atext, handler) in negatives:
        cases.append((cid, a, rk))
        meta.append(f"{cid} kind=negative attr_text=`{atext}` type=`{NEG_RETS[rk][0] or '()'}` crate=neg/{cid}")
        d = os.path.join(negdir, cid)
        write_if_changed(os.path.join(d, "Cargo.toml"), CARGO_TOML.format(name="neg_" + cid, repo=repo))
        write_if_changed(os.path.join(d, "src", "main.rs"),
                         NEG_MAIN.format(comment=f"{cid}: attr={a} ({atext}) ret={rk} - expected to be rejected by the macro",
                                         handler=handler))
        copy_lock(repo, d)
    prune(negdir, {c[0] for c in negatives})

    # ---- hand-written Message impls
    for i, (key, ty, generic) in enumerate(MANUAL_VARIANTS):
        cid = "h%04d" % (i + 1)
        v = find_variant(key, ty)
        base = rng.randrange(100, 900)
        vals = fresh_vals(2)
        files[cid + ".rs"] = manual_case_module(cid, v, generic, base, vals)
        modules.append(cid)
        cases.append((cid, "manual", key))
        meta.append(f"{cid} kind=manual type=`{reply_ty(v)}` result_like={int(v['rl'])} generic_actor={int(generic)} "
                    f"tells=1 asks=1 base={base} vals={','.join(map(str, vals))}")

    # ---- derive cases
    for i in range(len(DERIVE_CASES)):
        cid = "d%04d" % (i + 1)
        sv = rng.randrange(1, 200)
        files[cid + ".rs"] = derive_case_module(cid, i, sv)
        modules.append(cid)
        cases.append((cid, "derive", "none"))
        meta.append(f"{cid} kind=derive shape=`{DERIVE_CASES[i][0]}`")

    # ---- main.rs
    main_rs = ["// generated by gen_corpus.py - runner of the macro corpus",
               "#![allow(dead_code, unused_imports, unused_parens)]",
               "mod support;"]
    for m in modules:
        main_rs.append(f"mod {m};")
    main_rs.append('''
use std::time::Duration;

/// every case runs in its own task so that a panic or a hang still yields one line
async fn guarded<F>(id: &'static str, fut: F) -> String
where
    F: std::future::Future<Output = String> + Send + 'static,
{
    let h = tokio::spawn(fut);
    match tokio::time::timeout(Duration::from_secs(10), h).await {
        Ok(Ok(line)) => line,
        Ok(Err(_)) => format!("{} panic", id),
        Err(_) => format!("{} timeout", id),
    }
}

fn main() {
    tracing::subscriber::set_global_default(support::CountingSubscriber)
        .expect("install subscriber");
    // silence panic messages of individual cases; the line `<id> panic` reports them
    std::panic::set_hook(Box::new(|_| {}));
    let rt = tokio::runtime::Builder::new_current_thread()
        .enable_all()
        .build()
        .expect("runtime");
    rt.block_on(async {''')
    for m in modules:
        main_rs.append(f'        println!("{{}}", guarded("{m}", {m}::run()).await);')
    main_rs.append("    });\n}\n")
    files["main.rs"] = "\n".join(main_rs)
    files["support.rs"] = SUPPORT_RS

    for name, content in files.items():
        write_if_changed(os.path.join(src, name), content)
    prune(src, set(files))
    write_if_changed(os.path.join(corpus, "Cargo.toml"), CARGO_TOML.format(name="macro_corpus", repo=repo))
    copy_lock(repo, corpus)

    write_if_changed(os.path.join(outdir, "cases.txt"),
                     "".join(f"{c} {a} {r}\n" for (c, a, r) in cases))
    write_if_changed(os.path.join(outdir, "meta.txt"), "".join(m + "\n" for m in meta))
    return dict(positive=len(modules), macro=len(combos), negatives=len(negatives),
                manual=len(MANUAL_VARIANTS), derive=len(DERIVE_CASES))


def main(argv=None):
    ap = argparse.ArgumentParser(description=__doc__)
    ap.add_argument("outdir")
    ap.add_argument("--tier", choices=["quick", "thorough"], default="quick")
    ap.add_argument("--seed", type=int, default=0)
    ap.add_argument("--repo", default=os.environ.get("RSACTOR_REPO", "/repo"),
                    help="path of the rsactor checkout (default /repo)")
    args = ap.parse_args(argv)
    info = generate(args.outdir, args.tier, args.seed, os.path.abspath(args.repo))
    sys.stderr.write("gen_corpus: %r\n" % (info,))
    return 0


if __name__ == "__main__":
    sys.exit(main())
