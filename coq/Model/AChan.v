(* The mailbox with atomic sends - the granularity of Sys.v, where the first poll of a send obtains
   the permit and pushes in one step.  Proofs/ChanRefine.v shows that every execution of the
   permit-granularity model (Chan.v) under the exit protocol that waits for the permits is, as far as
   anybody can observe, an execution of this one: which is what justifies treating a send as one
   step everywhere else in the development. *)
From Coq Require Import List Arith Bool.
From RS Require Import Chan.
Import ListNotations.

Record asender := mkA { an_next : nat; an_ok : list nat; an_err : list nat }.

Record achan := mkAChan {
  ac_cap : nat;
  ac_closed : bool;
  ac_queue : list cmsg;
  ac_senders : list asender;
  ac_phase : rphase;
  ac_handled : list cmsg;
  ac_dropped : list cmsg
}.

Inductive alabel :=
| ASend (i : nat)      (* open and not full: the message is queued, the send returns Ok *)
| AFail (i : nat)      (* closed: Err *)
| AAbandon (i : nat)   (* the caller gives up waiting (timeout, cancellation): Err *)
| ARecv | AClose | ADrain | AExit.

Definition set_asender (a : achan) (i : nat) (s : asender) : achan :=
  mkAChan (ac_cap a) (ac_closed a) (ac_queue a)
          (firstn i (ac_senders a) ++ s :: skipn (S i) (ac_senders a))
          (ac_phase a) (ac_handled a) (ac_dropped a).

Definition with_queue (a : achan) (q : list cmsg) : achan :=
  mkAChan (ac_cap a) (ac_closed a) q (ac_senders a) (ac_phase a) (ac_handled a) (ac_dropped a).

Definition init_achan (cap n : nat) : achan :=
  mkAChan cap false [] (repeat (mkA 0 [] []) n) RRunning [] [].

Definition astep (a : achan) (l : alabel) : achan :=
  match l with
  | ASend i =>
      match nth_error (ac_senders a) i with
      | Some s =>
          if negb (ac_closed a) && Nat.ltb (length (ac_queue a)) (ac_cap a)
          then set_asender (with_queue a (ac_queue a ++ [(i, an_next s)])) i
                           (mkA (S (an_next s)) (an_next s :: an_ok s) (an_err s))
          else a
      | None => a
      end
  | AFail i =>
      match nth_error (ac_senders a) i with
      | Some s => if ac_closed a then set_asender a i (mkA (S (an_next s)) (an_ok s) (an_next s :: an_err s)) else a
      | None => a
      end
  | AAbandon i =>
      match nth_error (ac_senders a) i with
      | Some s => set_asender a i (mkA (S (an_next s)) (an_ok s) (an_next s :: an_err s))
      | None => a
      end
  | ARecv =>
      match ac_phase a, ac_queue a with
      | RRunning, m :: q => mkAChan (ac_cap a) (ac_closed a) q (ac_senders a) RRunning (ac_handled a ++ [m]) (ac_dropped a)
      | _, _ => a
      end
  | AClose =>
      match ac_phase a with
      | RRunning => mkAChan (ac_cap a) true (ac_queue a) (ac_senders a) RDraining (ac_handled a) (ac_dropped a)
      | _ => a
      end
  | ADrain =>
      match ac_phase a, ac_queue a with
      | RDraining, m :: q => mkAChan (ac_cap a) (ac_closed a) q (ac_senders a) RDraining (ac_handled a) (ac_dropped a ++ [m])
      | _, _ => a
      end
  | AExit =>
      match ac_phase a, ac_queue a with
      | RDraining, [] => mkAChan (ac_cap a) (ac_closed a) [] (ac_senders a) RExited (ac_handled a) (ac_dropped a)
      | _, _ => a
      end
  end.

Definition asteps (ls : list alabel) (a : achan) : achan := fold_left astep ls a.
Definition arun (cap n : nat) (ls : list alabel) : achan := asteps ls (init_achan cap n).

(* what both models let anybody see: what was handled, what was dropped, what is queued, whether the
   channel is closed / the receiver gone, and every sender's program counter with the answers it got *)
Definition cview (c : chan) :=
  (c_handled c, c_dropped c, c_queue c, (c_closed c, c_phase c),
   map (fun s => (sn_next s, sn_ok s, sn_err s)) (c_senders c)).
Definition aview (a : achan) :=
  (ac_handled a, ac_dropped a, ac_queue a, (ac_closed a, ac_phase a),
   map (fun s => (an_next s, an_ok s, an_err s)) (ac_senders a)).
