(* The process-wide default mailbox capacity (src/lib.rs: OnceLock + DEFAULT_MAILBOX_CAPACITY). *)
From RS Require Import Base Shape.

Definition cfg := option nat.
(* set_default_mailbox_capacity: rejects 0; succeeds only while nothing is configured *)
Definition set_default (n : nat) (c : cfg) : cfg * bool :=
  if n =? 0 then (c, false)
  else match c with None => (Some n, true) | Some _ => (c, false) end.
(* the capacity spawn() uses *)
Definition default_cap (c : cfg) : nat := match c with Some n => n | None => default_capacity end.

Fixpoint run_sets (ns : list nat) (c : cfg) : cfg * list bool :=
  match ns with
  | [] => (c, [])
  | n :: t => let (c1, r) := set_default n c in let (c2, rs) := run_sets t c1 in (c2, r :: rs)
  end.
