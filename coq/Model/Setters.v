(* Record field setters (generated once by a script; committed). No proofs here. *)
From RS Require Import Base.

Definition set_a_id (v : _) (x : actor) : actor := mkActor v (a_cap x) (a_mbox x) (a_waiters x) (a_granted x) (a_closed x) (a_term x) (a_ext x) (a_idle x) (a_pc x) (a_hop x) (a_ustate x) (a_mcount x) (a_accepted x) (a_taken x).
Definition set_a_cap (v : _) (x : actor) : actor := mkActor (a_id x) v (a_mbox x) (a_waiters x) (a_granted x) (a_closed x) (a_term x) (a_ext x) (a_idle x) (a_pc x) (a_hop x) (a_ustate x) (a_mcount x) (a_accepted x) (a_taken x).
Definition set_a_mbox (v : _) (x : actor) : actor := mkActor (a_id x) (a_cap x) v (a_waiters x) (a_granted x) (a_closed x) (a_term x) (a_ext x) (a_idle x) (a_pc x) (a_hop x) (a_ustate x) (a_mcount x) (a_accepted x) (a_taken x).
Definition set_a_waiters (v : _) (x : actor) : actor := mkActor (a_id x) (a_cap x) (a_mbox x) v (a_granted x) (a_closed x) (a_term x) (a_ext x) (a_idle x) (a_pc x) (a_hop x) (a_ustate x) (a_mcount x) (a_accepted x) (a_taken x).
Definition set_a_granted (v : _) (x : actor) : actor := mkActor (a_id x) (a_cap x) (a_mbox x) (a_waiters x) v (a_closed x) (a_term x) (a_ext x) (a_idle x) (a_pc x) (a_hop x) (a_ustate x) (a_mcount x) (a_accepted x) (a_taken x).
Definition set_a_closed (v : _) (x : actor) : actor := mkActor (a_id x) (a_cap x) (a_mbox x) (a_waiters x) (a_granted x) v (a_term x) (a_ext x) (a_idle x) (a_pc x) (a_hop x) (a_ustate x) (a_mcount x) (a_accepted x) (a_taken x).
Definition set_a_term (v : _) (x : actor) : actor := mkActor (a_id x) (a_cap x) (a_mbox x) (a_waiters x) (a_granted x) (a_closed x) v (a_ext x) (a_idle x) (a_pc x) (a_hop x) (a_ustate x) (a_mcount x) (a_accepted x) (a_taken x).
Definition set_a_ext (v : _) (x : actor) : actor := mkActor (a_id x) (a_cap x) (a_mbox x) (a_waiters x) (a_granted x) (a_closed x) (a_term x) v (a_idle x) (a_pc x) (a_hop x) (a_ustate x) (a_mcount x) (a_accepted x) (a_taken x).
Definition set_a_idle (v : _) (x : actor) : actor := mkActor (a_id x) (a_cap x) (a_mbox x) (a_waiters x) (a_granted x) (a_closed x) (a_term x) (a_ext x) v (a_pc x) (a_hop x) (a_ustate x) (a_mcount x) (a_accepted x) (a_taken x).
Definition set_a_pc (v : _) (x : actor) : actor := mkActor (a_id x) (a_cap x) (a_mbox x) (a_waiters x) (a_granted x) (a_closed x) (a_term x) (a_ext x) (a_idle x) v (a_hop x) (a_ustate x) (a_mcount x) (a_accepted x) (a_taken x).
Definition set_a_hop (v : _) (x : actor) : actor := mkActor (a_id x) (a_cap x) (a_mbox x) (a_waiters x) (a_granted x) (a_closed x) (a_term x) (a_ext x) (a_idle x) (a_pc x) v (a_ustate x) (a_mcount x) (a_accepted x) (a_taken x).
Definition set_a_ustate (v : _) (x : actor) : actor := mkActor (a_id x) (a_cap x) (a_mbox x) (a_waiters x) (a_granted x) (a_closed x) (a_term x) (a_ext x) (a_idle x) (a_pc x) (a_hop x) v (a_mcount x) (a_accepted x) (a_taken x).
Definition set_a_mcount (v : _) (x : actor) : actor := mkActor (a_id x) (a_cap x) (a_mbox x) (a_waiters x) (a_granted x) (a_closed x) (a_term x) (a_ext x) (a_idle x) (a_pc x) (a_hop x) (a_ustate x) v (a_accepted x) (a_taken x).
Definition set_a_accepted (v : _) (x : actor) : actor := mkActor (a_id x) (a_cap x) (a_mbox x) (a_waiters x) (a_granted x) (a_closed x) (a_term x) (a_ext x) (a_idle x) (a_pc x) (a_hop x) (a_ustate x) (a_mcount x) v (a_taken x).
Definition set_a_taken (v : _) (x : actor) : actor := mkActor (a_id x) (a_cap x) (a_mbox x) (a_waiters x) (a_granted x) (a_closed x) (a_term x) (a_ext x) (a_idle x) (a_pc x) (a_hop x) (a_ustate x) (a_mcount x) (a_accepted x) v.

Definition set_o_id (v : _) (p : op) : op := mkOp v (o_kind p) (o_tgt p) (o_fn p) (o_caller p) (o_deadline p) (o_ph p) (o_slot p) (o_tracked p).
Definition set_o_kind (v : _) (p : op) : op := mkOp (o_id p) v (o_tgt p) (o_fn p) (o_caller p) (o_deadline p) (o_ph p) (o_slot p) (o_tracked p).
Definition set_o_tgt (v : _) (p : op) : op := mkOp (o_id p) (o_kind p) v (o_fn p) (o_caller p) (o_deadline p) (o_ph p) (o_slot p) (o_tracked p).
Definition set_o_fn (v : _) (p : op) : op := mkOp (o_id p) (o_kind p) (o_tgt p) v (o_caller p) (o_deadline p) (o_ph p) (o_slot p) (o_tracked p).
Definition set_o_caller (v : _) (p : op) : op := mkOp (o_id p) (o_kind p) (o_tgt p) (o_fn p) v (o_deadline p) (o_ph p) (o_slot p) (o_tracked p).
Definition set_o_deadline (v : _) (p : op) : op := mkOp (o_id p) (o_kind p) (o_tgt p) (o_fn p) (o_caller p) v (o_ph p) (o_slot p) (o_tracked p).
Definition set_o_ph (v : _) (p : op) : op := mkOp (o_id p) (o_kind p) (o_tgt p) (o_fn p) (o_caller p) (o_deadline p) v (o_slot p) (o_tracked p).
Definition set_o_slot (v : _) (p : op) : op := mkOp (o_id p) (o_kind p) (o_tgt p) (o_fn p) (o_caller p) (o_deadline p) (o_ph p) v (o_tracked p).
Definition set_o_tracked (v : _) (p : op) : op := mkOp (o_id p) (o_kind p) (o_tgt p) (o_fn p) (o_caller p) (o_deadline p) (o_ph p) (o_slot p) v.

Definition set_s_actors (v : _) (s : sys) : sys := mkSys v (s_ops s) (s_next s) (s_graph s) (s_now s) (s_dlcount s) (s_feat s) (s_trace s).
Definition set_s_ops (v : _) (s : sys) : sys := mkSys (s_actors s) v (s_next s) (s_graph s) (s_now s) (s_dlcount s) (s_feat s) (s_trace s).
Definition set_s_next (v : _) (s : sys) : sys := mkSys (s_actors s) (s_ops s) v (s_graph s) (s_now s) (s_dlcount s) (s_feat s) (s_trace s).
Definition set_s_graph (v : _) (s : sys) : sys := mkSys (s_actors s) (s_ops s) (s_next s) v (s_now s) (s_dlcount s) (s_feat s) (s_trace s).
Definition set_s_now (v : _) (s : sys) : sys := mkSys (s_actors s) (s_ops s) (s_next s) (s_graph s) v (s_dlcount s) (s_feat s) (s_trace s).
Definition set_s_dlcount (v : _) (s : sys) : sys := mkSys (s_actors s) (s_ops s) (s_next s) (s_graph s) (s_now s) v (s_feat s) (s_trace s).
Definition set_s_feat (v : _) (s : sys) : sys := mkSys (s_actors s) (s_ops s) (s_next s) (s_graph s) (s_now s) (s_dlcount s) v (s_trace s).
Definition set_s_trace (v : _) (s : sys) : sys := mkSys (s_actors s) (s_ops s) (s_next s) (s_graph s) (s_now s) (s_dlcount s) (s_feat s) v.
