(* Type-erased handles (src/handler.rs, src/actor_control.rs): what "forwards verbatim" means for
   the generated table of forwarders and conversions.  No proofs here. *)
From RS Require Import Base Shape.

(* the inherent method a trait method must call *)
Definition expected_target (m : meth) : meth := match m with MCloneBoxed => MClone | _ => m end.
(* and the only wrapping it may add *)
Definition expected_wrap (m : meth) : wrapk :=
  match m with
  | MTell | MTellTo | MAsk | MAskTo | MStop => WFutBoxed
  | MBlockingTell | MBlockingAsk | MIdentity | MIsAlive | MKill => WPlain
  | MCloneBoxed | MDowngrade => WBoxNew
  | MUpgrade => WMapBox
  | MAsControl | MAsWeakControl => WSelf
  | _ => WUnknown end.
Definition trait_recv (t : trait) : recvk :=
  match t with TTell | TAsk | TControl => OnRef | _ => OnWeak end.

Definition verbatim (f : fwd) : bool :=
  meth_eqb (fw_target f) (expected_target (fw_meth f)) && fw_args_verbatim f
  && wrapk_eqb (fw_wrap f) (expected_wrap (fw_meth f)) && recvk_eqb (fw_recv f) (trait_recv (fw_trait f)).

(* every method each trait has to forward *)
Definition required : list (trait * meth) :=
  [ (TTell, MTell); (TTell, MTellTo); (TTell, MBlockingTell); (TTell, MCloneBoxed); (TTell, MDowngrade); (TTell, MAsControl);
    (TAsk, MAsk); (TAsk, MAskTo); (TAsk, MBlockingAsk); (TAsk, MCloneBoxed); (TAsk, MDowngrade); (TAsk, MAsControl);
    (TWeakTell, MUpgrade); (TWeakTell, MCloneBoxed); (TWeakTell, MAsWeakControl);
    (TWeakAsk, MUpgrade); (TWeakAsk, MCloneBoxed); (TWeakAsk, MAsWeakControl);
    (TControl, MIdentity); (TControl, MIsAlive); (TControl, MStop); (TControl, MKill); (TControl, MDowngrade); (TControl, MCloneBoxed);
    (TWeakControl, MIdentity); (TWeakControl, MIsAlive); (TWeakControl, MUpgrade); (TWeakControl, MCloneBoxed) ].

Definition count_fwd (t : trait) (m : meth) : nat :=
  length (filter (fun f => trait_eqb (fw_trait f) t && meth_eqb (fw_meth f) m) forwarders).

(* a From conversion moves an owned reference and clones a borrowed one; its source is strong for
   strong traits and weak for weak ones *)
Definition conv_ok (c : conv) : bool :=
  convmode_eqb (cv_mode c) (if cv_borrowed c then CvClone else CvMove) && recvk_eqb (cv_from c) (trait_recv (cv_to c)).
(* how many strong references the conversion adds *)
Definition conv_strong_delta (c : conv) : nat :=
  match cv_from c, cv_mode c with OnRef, CvClone => 1 | _, _ => 0 end.
Definition required_conv : list (trait * bool) :=
  [ (TTell, false); (TTell, true); (TAsk, false); (TAsk, true); (TWeakTell, false); (TWeakTell, true);
    (TWeakAsk, false); (TWeakAsk, true); (TControl, false); (TControl, true); (TWeakControl, false); (TWeakControl, true) ].
Definition count_conv (t : trait) (b : bool) : nat :=
  length (filter (fun c => trait_eqb (cv_to c) t && Bool.eqb (cv_borrowed c) b) conversions).
