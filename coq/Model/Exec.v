(* Executable reading of the model for the correspondence check: director actions, the
   scripted environment (posted hook / on_run outcomes), internal successor states, views.
   Everything here only ever applies [sys_step]; no proofs. *)
From RS Require Import Base Setters Shape Sys.

Local Open Scope nat_scope.

Inductive hitem :=
| HDone (out : hout)
| HDo (o : oid) (k : okind) (slot : nat) (tmo : option N)
| HKill (slot : nat).

Record aenv := mkEnv { e_hookq : list hitem; e_runq : list rout; e_auto : bool }.
Inductive refv := RStrong (a : aid) | RWeak (a : aid).

Record xstate := mkX {
  x_sys : sys;
  x_env : list aenv;              (* per actor *)
  x_slots : list (nat * refv);    (* the director's reference table *)
  x_skipped : list oid            (* operations that named an unusable slot *)
}.

(* how a client calls: the async method, a blocking_* method from a thread (with or without
   timeout), or a deprecated *_blocking alias (whose timeout argument is ignored) *)
Inductive flavour := FlAsync | FlBlocking | FlDeprecated.

Inductive action :=
| DSpawn (cap : nat) (auto : bool)
| DOp (o : oid) (k : okind) (slot : nat) (tmo : option N) (fl : flavour)
| DKill (slot : nat)
| DClone (src dst : nat) | DDrop (slot : nat)
| DDowngrade (src dst : nat) | DUpgrade (src dst : nat)
| DHook (a : aid) (its : list hitem)
| DRun (a : aid) (r : rout)
| DAuto (a : aid) (b : bool)
| DAdvance (k : nat)
| DAbort (o : oid).

Definition fn_of (k : okind) (tmo : option N) : fnname :=
  match k, tmo with
  | KTell, None => FTell | KTell, Some _ => FTellTo
  | KAsk, None => FAsk | KAsk, Some _ => FAskTo
  | KStop, _ => FStop end.

(* desugaring of the blocking API: which core operation (function, timeout) a call amounts to *)
Definition desugar (fl : flavour) (k : okind) (tmo : option N) : fnname * option N :=
  match fl, k, tmo with
  | FlAsync, _, _ => (fn_of k tmo, tmo)
  | _, KStop, _ => (FStop, None)
  | FlBlocking, KTell, None => (FBTell, None)
  | FlBlocking, KTell, Some d => (FBTellTo, Some d)
  | FlBlocking, KAsk, None => (FBAsk, None)
  | FlBlocking, KAsk, Some d => (FBAskTo, Some d)
  | FlDeprecated, KTell, _ => (FBTell, None)        (* tell_blocking(msg, t) = blocking_tell(msg, None) *)
  | FlDeprecated, KAsk, _ => (FBAsk, None)
  end.

Fixpoint slot_get (sl : list (nat * refv)) (n : nat) : option refv :=
  match sl with [] => None | (m, v) :: t => if m =? n then Some v else slot_get t n end.
Definition slot_del (n : nat) (sl : list (nat * refv)) := filter (fun e => negb (fst e =? n)) sl.

Definition set_x_sys (v : sys) (x : xstate) := mkX v (x_env x) (x_slots x) (x_skipped x).
Definition set_x_env (v : list aenv) (x : xstate) := mkX (x_sys x) v (x_slots x) (x_skipped x).
Definition set_x_slots (v : list (nat * refv)) (x : xstate) := mkX (x_sys x) (x_env x) v (x_skipped x).
Definition skip (o : oid) (x : xstate) := mkX (x_sys x) (x_env x) (x_slots x) (x_skipped x ++ [o]).
Definition xstep (l : label) (x : xstate) : xstate := set_x_sys (sys_step (x_sys x) l) x.
Definition upd_env (a : aid) (f : aenv -> aenv) (x : xstate) := set_x_env (upd_nth a f (x_env x)) x.

Fixpoint iter {A} (n : nat) (f : A -> A) (x : A) : A :=
  match n with 0 => x | S m => iter m f (f x) end.

Definition usable (x : xstate) (a : aid) : bool :=
  match get_actor (x_sys x) a with Some y => 0 <? a_ext y | None => false end.
Definition op_fresh (x : xstate) (o : oid) : bool :=
  match get_op (x_sys x) o with None => negb (existsb (Nat.eqb o) (x_skipped x)) | Some _ => false end.

Definition apply_action (act : action) (x : xstate) : xstate :=
  match act with
  | DSpawn cap auto =>
      if cap =? 0 then x else
      let a := length (s_actors (x_sys x)) in
      set_x_slots (x_slots x ++ [(a, RStrong a)])
        (set_x_env (x_env x ++ [mkEnv [] [] auto]) (xstep (LSpawn cap) x))
  | DOp o k sl tmo fl =>
      if op_fresh x o then
        match slot_get (x_slots x) sl with
        | Some (RStrong a) => xstep (LBegin o k a None (snd (desugar fl k tmo)) (fst (desugar fl k tmo))) x
        | _ => skip o x end
      else x
  | DKill sl =>
      match slot_get (x_slots x) sl with
      | Some (RStrong a) => xstep (LKill a) x
      | _ => x end
  | DClone src dst =>
      match slot_get (x_slots x) src, slot_get (x_slots x) dst with
      | Some (RStrong a), None => set_x_slots (x_slots x ++ [(dst, RStrong a)]) (xstep (LClone a) x)
      | Some (RWeak a), None => set_x_slots (x_slots x ++ [(dst, RWeak a)]) x
      | _, _ => x end
  | DDrop sl =>
      match slot_get (x_slots x) sl with
      | Some (RStrong a) => set_x_slots (slot_del sl (x_slots x)) (xstep (LDrop a) x)
      | Some (RWeak a) => set_x_slots (slot_del sl (x_slots x)) x
      | None => x end
  | DDowngrade src dst =>
      match slot_get (x_slots x) src, slot_get (x_slots x) dst with
      | Some (RStrong a), None => set_x_slots (x_slots x ++ [(dst, RWeak a)]) x
      | _, _ => x end
  | DUpgrade src dst =>
      match slot_get (x_slots x) src, slot_get (x_slots x) dst with
      | Some (RWeak a), None =>
          if can_upgrade (x_sys x) a
          then set_x_slots (x_slots x ++ [(dst, RStrong a)]) (xstep (LUpgrade a) x)
          else x
      | _, _ => x end
  | DHook a its => upd_env a (fun e => mkEnv (e_hookq e ++ its) (e_runq e) (e_auto e)) x
  | DRun a r =>
      match r with
      | RPending => x
      | _ => upd_env a (fun e => mkEnv (e_hookq e) (e_runq e ++ [r]) (e_auto e)) x end
  | DAuto a b => upd_env a (fun e => mkEnv (e_hookq e) (e_runq e) b) x
  | DAdvance k => iter k (xstep LTick) x
  | DAbort o => xstep (LCancel o) x
  end.

(* ---- internal steps ---- *)
Definition auto_reply (o : oid) : N := (1000 + N.of_nat o)%N.

Definition hook_done_label (a : aid) (y : actor) (out : hout) : option label :=
  match a_pc y with
  | PStart => Some (AStartDone a out)
  | PHandle o _ => Some (AHandleDone a (match out with HOk => HReply (auto_reply o) | _ => out end))
  | PStop _ _ => Some (AStopDone a out)
  | _ => None end.

Definition pop_hook (a : aid) (x : xstate) : xstate :=
  upd_env a (fun e => mkEnv (tl (e_hookq e)) (e_runq e) (e_auto e)) x.
Definition pop_run (a : aid) (x : xstate) : xstate :=
  upd_env a (fun e => mkEnv (e_hookq e) (tl (e_runq e)) (e_auto e)) x.

(* the running hook of a performs its next scripted item *)
Definition hook_step (a : aid) (x : xstate) : option xstate :=
  match get_actor (x_sys x) a, nth_error (x_env x) a with
  | Some y, Some e =>
      if in_hook y && hop_free y then
        match e_hookq e with
        | HDone out :: _ =>
            match hook_done_label a y out with
            | Some l => Some (xstep l (pop_hook a x)) | None => None end
        | HDo o k sl tmo :: _ =>
            let x1 := pop_hook a x in
            Some (if op_fresh x1 o then
                    match slot_get (x_slots x1) sl with
                    | Some (RStrong t) =>
                        if usable x1 t then xstep (LBegin o k t (Some a) tmo (fn_of k tmo)) x1
                        else skip o x1
                    | _ => skip o x1 end
                  else x1)
        | HKill sl :: _ =>
            let x1 := pop_hook a x in
            Some (match slot_get (x_slots x1) sl with
                  | Some (RStrong t) => xstep (LKill t) x1
                  | _ => x1 end)
        | [] =>
            if e_auto e then
              match hook_done_label a y HOk with
              | Some l => Some (xstep l x) | None => None end
            else None
        end
      else None
  | _, _ => None end.

(* poll branches until the pass is over (at most one branch per unit of fuel) *)
Fixpoint pass_loop (fuel : nat) (a : aid) (x : xstate) : xstate :=
  match fuel with
  | 0 => x
  | S f =>
      match get_actor (x_sys x) a, nth_error (x_env x) a with
      | Some y, Some e =>
          match a_pc y with
          | PSel (b :: _) =>
              let polls_run := branch_eqb b BRun && negb (run_guarded && negb (a_idle y)) in
              let ro := if polls_run then match e_runq e with r :: _ => r | [] => RPending end
                        else RPending in
              let x1 := xstep (APoll a ro) x in
              let x2 := if polls_run then match e_runq e with _ :: _ => pop_run a x1 | [] => x1 end
                        else x1 in
              pass_loop f a x2
          | _ => x end
      | _, _ => x end
  end.

(* one whole poll of the select, started with rotation k *)
Definition pass (a : aid) (k : nat) (x : xstate) : option xstate :=
  match get_actor (x_sys x) a with
  | Some y => match a_pc y with
              | PIdle => Some (pass_loop (S (length select_order)) a (xstep (APassBegin a k) x))
              | _ => None end
  | None => None end.

Definition opt_list {A} (o : option A) : list A := match o with Some v => [v] | None => [] end.

Definition rotations : list nat := if select_biased then [0] else seq 0 (length select_order).

Definition succs (x : xstate) : list xstate :=
  let n := length (s_actors (x_sys x)) in
  flat_map (fun a => opt_list (hook_step a x) ++ flat_map (fun k => opt_list (pass a k x)) rotations)
           (seq 0 n)
  ++ flat_map (fun p => if is_done (o_ph p) then [] else [xstep (LPoll (o_id p)) x]) (s_ops (x_sys x)).

(* ---- views ---- *)
Definition ev_actor (e : event) : option aid :=
  match e with
  | EvStartEnter a | EvStartExit a _ | EvHandleEnter a _ _ | EvHandleExit a _ _ | EvTellResult a _
  | EvRunDone a _ | EvStopEnter a _ | EvStopExit a _ | EvDeadlock a _ => Some a
  | _ => None end.
Definition actor_events (s : sys) (a : aid) : list event :=
  filter (fun e => match ev_actor e with Some b => b =? a | None => false end) (rev (s_trace s)).
Definition dead_letters (s : sys) : list event :=
  filter (fun e => match e with EvDeadLetter _ _ _ _ => true | _ => false end) (rev (s_trace s)).

Inductive jstat := JRunning | JDone (r : aresult) | JPanic.
Definition join_status (y : actor) : jstat :=
  match a_pc y with PDone r => JDone r | PPanicked => JPanic | _ => JRunning end.

Record aview := mkAV { av_events : list event; av_id : N; av_up : bool; av_alive : bool;
                       av_join : jstat; av_mcount : N }.
Record view := mkView { v_actors : list aview; v_ops : list (oid * ophase); v_skipped : list oid;
                        v_dl : list event; v_dlcount : N; v_graph : list (N * N); v_now : N }.

Definition mk_aview (s : sys) (a : aid) (y : actor) : aview :=
  mkAV (actor_events s a) (a_id y) (can_upgrade s a) (is_alive s a) (join_status y) (a_mcount y).
Fixpoint mk_aviews (s : sys) (a : aid) (l : list actor) : list aview :=
  match l with [] => [] | y :: t => mk_aview s a y :: mk_aviews s (S a) t end.
Definition view_of (x : xstate) : view :=
  let s := x_sys x in
  mkView (mk_aviews s 0 (s_actors s)) (map (fun p => (o_id p, o_ph p)) (s_ops s)) (x_skipped x)
         (dead_letters s) (s_dlcount s) (s_graph s) (s_now s).

(* state with the global trace replaced by what the view can see of it: the BFS key *)
Definition strip (x : xstate) : xstate := set_x_sys (set_s_trace [] (x_sys x)) x.

Definition xinit (f : feats) : xstate := mkX (init f) [] [] [].
