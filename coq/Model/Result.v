(* ActorResult's query methods and conversions (src/actor_result.rs), as functions on the model's
   result type, and Error::is_retryable.  No proofs here. *)
From RS Require Import Base Shape.

Definition is_completed (r : aresult) : bool := match r with Completed _ _ => true | _ => false end.
Definition is_failed (r : aresult) : bool := negb (is_completed r).
Definition was_killed (r : aresult) : bool :=
  match r with Completed _ k => k | Failed _ _ _ k => k end.
Definition stopped_normally (r : aresult) : bool :=
  match r with Completed _ false => true | _ => false end.
Definition is_startup_failed (r : aresult) : bool :=
  match r with Failed _ _ OnStart _ => true | _ => false end.
Definition is_runtime_failed (r : aresult) : bool :=
  match r with Failed _ _ OnRun _ | Failed _ _ OnRunThenOnStop _ => true | _ => false end.
Definition is_cleanup_failed (r : aresult) : bool :=
  match r with Failed _ _ OnRunThenOnStop _ => true | _ => false end.
Definition is_stop_failed (r : aresult) : bool :=
  match r with Failed _ _ OnStop _ => true | _ => false end.
Definition r_actor (r : aresult) : option (list hookev) :=
  match r with Completed st _ => Some st | Failed st _ _ _ => st end.
Definition r_error (r : aresult) : option N :=
  match r with Completed _ _ => None | Failed _ e _ _ => Some e end.
Definition has_actor (r : aresult) : bool := match r_actor r with Some _ => true | None => false end.
Definition to_result (r : aresult) : (list hookev) + N :=
  match r with Completed st _ => inl st | Failed _ e _ _ => inr e end.
Definition to_tuple (r : aresult) : option (list hookev) * option N := (r_actor r, r_error r).
Definition r_phase (r : aresult) : option phase :=
  match r with Completed _ _ => None | Failed _ _ ph _ => Some ph end.

(* Error::is_retryable, driven by the generated list of matched variants *)
Definition is_retryable (e : err) : bool := existsb (err_eqb e) retryable.

(* all 18 shapes of an ActorResult over a fixed payload, for the exhaustive correspondence *)
Definition all_shapes (st : list hookev) (e : N) : list aresult :=
  [Completed st false; Completed st true]
  ++ flat_map (fun ph => flat_map (fun k => [Failed None e ph k; Failed (Some st) e ph k]) [false; true])
              [OnStart; OnRun; OnStop; OnRunThenOnStop].
