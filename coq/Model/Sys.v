(* The labelled transition system of rsactor: one step function over the whole system.
   Definitions only; proofs live in Proofs/.  The structural facts read from the source
   (select bias / order / guard, dead-letter call sites) come from the generated Gen/Shape.v. *)
From RS Require Import Base Setters Shape.

Local Open Scope nat_scope.

(* ---------- small list helpers ---------- *)
Fixpoint upd_nth {A} (n : nat) (f : A -> A) (l : list A) : list A :=
  match l, n with
  | [], _ => []
  | x :: t, 0 => f x :: t
  | x :: t, S m => x :: upd_nth m f t
  end.
Definition remove_nat (x : nat) (l : list nat) : list nat := filter (fun y => negb (y =? x)) l.
Definition rotate {A} (k : nat) (l : list A) : list A :=
  skipn (k mod length l) l ++ firstn (k mod length l) l.

Definition two64 : N := 18446744073709551616%N.
Definition wrap64 (n : N) : N := N.modulo n two64.

(* ---------- accessors / updaters ---------- *)
Definition get_actor (s : sys) (a : aid) : option actor := nth_error (s_actors s) a.
Definition upd_actor (a : aid) (f : actor -> actor) (s : sys) : sys :=
  set_s_actors (upd_nth a f (s_actors s)) s.
Definition get_op (s : sys) (o : oid) : option op := find (fun p => o_id p =? o) (s_ops s).
Definition upd_op (o : oid) (f : op -> op) (s : sys) : sys :=
  set_s_ops (map (fun p => if o_id p =? o then f p else p) (s_ops s)) s.
Definition emit (e : event) (s : sys) : sys := set_s_trace (e :: s_trace s) s.

(* ---------- wait-for graph (feature deadlock-detection) ---------- *)
Fixpoint g_get (g : list (N * N)) (k : N) : option N :=
  match g with [] => None | (k', v) :: t => if N.eqb k' k then Some v else g_get t k end.
Definition g_remove (k : N) (g : list (N * N)) : list (N * N) :=
  filter (fun e => negb (N.eqb (fst e) k)) g.
Definition g_insert (k v : N) (g : list (N * N)) : list (N * N) := (k, v) :: g_remove k g.
Fixpoint walk (fuel : nat) (g : list (N * N)) (cur to : N) : bool :=
  match fuel with
  | 0 => false
  | S f => match g_get g cur with
           | Some n => if N.eqb n to then true else walk f g n to
           | None => false end
  end.
(* src/lib.rs has_path: at most |graph| hops *)
Definition has_path (g : list (N * N)) (from to : N) : bool := walk (length g) g from to.
Fixpoint cycle_tail (fuel : nat) (g : list (N * N)) (cur caller : N) : list N :=
  match fuel with
  | 0 => []
  | S f => match g_get g cur with
           | Some n => n :: (if N.eqb n caller then [] else cycle_tail f g n caller)
           | None => [] end
  end.
Definition format_cycle (g : list (N * N)) (caller callee : N) : list N :=
  if N.eqb caller callee then [caller; caller]
  else caller :: callee :: cycle_tail (length g) g callee caller.

(* ---------- dead letters ---------- *)
Definition inner_fn (f : fnname) : fnname :=
  match find (fun t => fn_eqb (fst t) f) wrapper_inner with Some t => snd t | None => f end.
(* the function whose body contains the failing branch *)
Definition site_fn (f : fnname) (c : dlctx) : fnname :=
  match c with CxElapsed => f | _ => inner_fn f end.
Definition dl_sites (f : fnname) (c : dlctx) : list (dlreason * dllabel) :=
  map (fun t => (snd (fst t), snd t))
      (filter (fun t => fn_eqb (fst (fst (fst t))) f && ctx_eqb (snd (fst (fst t))) c)
              dead_letter_sites).
Definition record_one (a : aid) (o : oid) (rl : dlreason * dllabel) (s : sys) : sys :=
  emit (EvDeadLetter a o (fst rl) (snd rl))
       (if f_testutils (s_feat s) then set_s_dlcount (wrap64 (s_dlcount s + 1)) s else s).
Definition record_dl (a : aid) (o : oid) (f : fnname) (c : dlctx) (s : sys) : sys :=
  fold_left (fun s' rl => record_one a o rl s') (dl_sites (site_fn f c) c) s.

(* ---------- operations (client side) ---------- *)
Definition drop_guard (p : op) (s : sys) : sys :=
  if o_tracked p then
    match o_caller p with
    | Some b => match get_actor s b with
                | Some y => set_s_graph (g_remove (a_id y) (s_graph s)) s
                | None => s end
    | None => s end
  else s.
Definition clear_hop (p : op) (s : sys) : sys :=
  match o_caller p with
  | Some b => upd_actor b (fun y => match a_hop y with
                                    | Some o' => if o' =? o_id p then set_a_hop None y else y
                                    | None => y end) s
  | None => s end.
Definition finish (o : oid) (r : result) (s : sys) : sys :=
  match get_op s o with
  | Some p =>
      emit (EvDone o r)
        (clear_hop p (drop_guard p
           (upd_op o (fun q => set_o_tracked false (set_o_ph (ODone r) q)) s)))
  | None => s end.

Definition push (a : aid) (o : oid) (k : okind) (s : sys) : sys :=
  emit (EvAccept a o k)
    (upd_actor a (fun x => set_a_accepted (a_accepted x ++ [(o, k)])
                             (set_a_mbox (a_mbox x ++ [(o, k)]) x)) s).
Definition after_push (o : oid) (k : okind) (s : sys) : sys :=
  match k with KAsk => upd_op o (set_o_ph OWaitReply) s | _ => finish o (ROk 0) s end.
(* the mailbox send failed: tell/ask report Send and record a dead letter, stop() maps it to Ok *)
Definition send_failed (p : op) (s : sys) : sys :=
  match o_kind p with
  | KStop => finish (o_id p) (ROk 0) s
  | _ => finish (o_id p) (RErr ESend) (record_dl (o_tgt p) (o_id p) (o_fn p) CxSend s)
  end.

Definition free_slot (x : actor) : bool := length (a_mbox x) + length (a_granted x) <? a_cap x.

(* a released permit goes to the head waiter, if any *)
Definition regrant (a : aid) (s : sys) : sys :=
  upd_actor a (fun x =>
    match a_waiters x with
    | w :: ws => if free_slot x && negb (a_closed x)
                 then set_a_granted (a_granted x ++ [w]) (set_a_waiters ws x) else x
    | [] => x end) s.

Definition unwait (a : aid) (o : oid) (s : sys) : sys :=
  upd_actor a (fun y => set_a_waiters (remove_nat o (a_waiters y)) y) s.
Definition ungrant (a : aid) (o : oid) (s : sys) : sys :=
  upd_actor a (fun y => set_a_granted (remove_nat o (a_granted y)) y) s.

(* first poll of mpsc::Sender::send for the envelope of p *)
Definition try_send (p : op) (s : sys) : sys :=
  let a := o_tgt p in
  match get_actor s a with
  | Some x =>
      if a_closed x then send_failed p s
      else if free_slot x then after_push (o_id p) (o_kind p) (push a (o_id p) (o_kind p) s)
      else upd_actor a (fun y => set_a_waiters (a_waiters y ++ [o_id p]) y) s
  | None => s end.

Definition is_granted (x : actor) (o : oid) : bool := existsb (Nat.eqb o) (a_granted x).

(* any later poll of the un-wrapped operation *)
Definition poll_inner (p : op) (s : sys) : sys :=
  let a := o_tgt p in let o := o_id p in
  match get_actor s a with
  | None => s
  | Some x =>
      match o_ph p with
      | OPre =>
          if a_closed x then send_failed p (unwait a o (ungrant a o s))
          else if is_granted x o
               then after_push o (o_kind p) (push a o (o_kind p) (ungrant a o s))
               else s
      | OWaitReply =>
          match o_slot p with
          | SlVal v => finish o (ROk v) s
          | SlClosed => finish o (RErr EReceive) (record_dl a o (o_fn p) CxReply s)
          | SlEmpty => s end
      | ODone _ => s
      end
  end.

(* dropping the un-wrapped future: leave the wait queue / give the permit back *)
Definition cancel_inner (p : op) (s : sys) : sys :=
  let a := o_tgt p in let o := o_id p in
  match o_ph p, get_actor s a with
  | OPre, Some x => if is_granted x o then regrant a (ungrant a o s) else unwait a o s
  | _, _ => s end.

Definition expired (p : op) (s : sys) : bool :=
  match o_deadline p with Some d => N.leb d (s_now s) | None => false end.

(* tokio::time::timeout: the inner future was polled first; only if it is still pending is the
   deadline looked at *)
Definition post_inner (o : oid) (s1 : sys) : sys :=
  match get_op s1 o with
  | Some p1 =>
      if is_done (o_ph p1) then s1
      else if expired p1 s1
           then finish o (RErr ETimeout)
                  (record_dl (o_tgt p1) o (o_fn p1) CxElapsed (cancel_inner p1 s1))
           else s1
  | None => s1 end.

Definition poll (o : oid) (s : sys) : sys :=
  match get_op s o with
  | None => s
  | Some p => if is_done (o_ph p) then s else post_inner o (poll_inner p s)
  end.

(* the future is dropped from outside (task aborted) *)
Definition cancel (o : oid) (s : sys) : sys :=
  match get_op s o with
  | None => s
  | Some p => if is_done (o_ph p) then s
              else match o_caller p with
                   | Some _ => s      (* hooks are never aborted from outside *)
                   | None => finish o RCancelled (cancel_inner p s) end
  end.

(* ---------- actor task ---------- *)
Definition close_slots (os : list oid) (s : sys) : sys :=
  set_s_ops (map (fun p => if existsb (Nat.eqb (o_id p)) os
                           then match o_slot p with SlEmpty => set_o_slot SlClosed p | _ => p end
                           else p) (s_ops s)) s.

(* both receivers are dropped: queued envelopes die, and with them their reply senders *)
Definition end_actor (a : aid) (s : sys) : sys :=
  match get_actor s a with
  | Some x =>
      let asks := map fst (filter (fun i => okind_eqb (snd i) KAsk) (a_mbox x)) in
      close_slots asks
        (upd_actor a (fun y => set_a_closed true (set_a_term false (set_a_mbox [] y))) s)
  | None => s end.

Definition metrics_record (a : aid) (s : sys) : sys :=
  if f_metrics (s_feat s)
  then upd_actor a (fun y => set_a_mcount (wrap64 (a_mcount y + 1)) y) s else s.

Definition finish_task (a : aid) (r : option aresult) (s : sys) : sys :=
  emit (EvEnd a r)
    (end_actor a
       (upd_actor a (set_a_pc (match r with Some r' => PDone r' | None => PPanicked end)) s)).

(* a hook of a unwinds *)
Definition panic_actor (a : aid) (s : sys) : sys :=
  match get_actor s a with
  | Some x =>
      let s1 := match a_pc x with
                | PHandle o k =>
                    metrics_record a (match k with KAsk => close_slots [o] s | _ => s end)
                | _ => s end in
      finish_task a None s1
  | None => s end.

Definition in_hook (x : actor) : bool :=
  match a_pc x with PStart | PHandle _ _ | PStop _ _ => true | _ => false end.
Definition hop_free (x : actor) : bool := match a_hop x with None => true | Some _ => false end.

Definition caller_ok (s : sys) (caller : option aid) : bool :=
  match caller with
  | None => true
  | Some b => match get_actor s b with
              | Some y => in_hook y && hop_free y
              | None => false end
  end.

Inductive ddres := DDNone | DDTrack (b : aid) (bid : N) | DDPanic (b : aid) (cyc : list N).
Definition dd_check (s : sys) (k : okind) (caller : option aid) (callee : actor) : ddres :=
  match k, caller with
  | KAsk, Some b =>
      if f_dd (s_feat s) then
        match get_actor s b with
        | Some y =>
            if N.eqb (a_id y) (a_id callee) || has_path (s_graph s) (a_id callee) (a_id y)
            then DDPanic b (format_cycle (s_graph s) (a_id y) (a_id callee))
            else DDTrack b (a_id y)
        | None => DDNone end
      else DDNone
  | _, _ => DDNone end.

Definition set_hop (caller : option aid) (o : oid) (s : sys) : sys :=
  match caller with Some b => upd_actor b (set_a_hop (Some o)) s | None => s end.

(* first poll of an operation future *)
Definition begin (o : oid) (k : okind) (a : aid) (caller : option aid) (tmo : option N)
           (fn : fnname) (s : sys) : sys :=
  match get_op s o, get_actor s a with
  | None, Some x =>
      if caller_ok s caller && (0 <? a_ext x) then
        let dl := match tmo with Some d => Some (s_now s + d)%N | None => None end in
        let s0 := emit (EvBegin o k a) s in
        match dd_check s k caller x with
        | DDPanic b cyc => panic_actor b (emit (EvDeadlock b cyc) s0)
        | DDTrack b bid =>
            let p := mkOp o k a fn caller dl OPre SlEmpty true in
            post_inner o (try_send p
              (set_hop caller o
                 (set_s_graph (g_insert bid (a_id x) (s_graph s0))
                    (set_s_ops (s_ops s0 ++ [p]) s0))))
        | DDNone =>
            let p := mkOp o k a fn caller dl OPre SlEmpty false in
            post_inner o (try_send p (set_hop caller o (set_s_ops (s_ops s0 ++ [p]) s0)))
        end
      else s
  | _, _ => s end.

Definition kill (a : aid) (s : sys) : sys :=
  match get_actor s a with
  | Some x => if 0 <? a_ext x
              then emit (EvKill a) (upd_actor a (fun y => if a_closed y then y else set_a_term true y) s)
              else s
  | None => s end.

Definition spawn (cap : nat) (s : sys) : sys :=
  if cap =? 0 then s else
  let a := length (s_actors s) in
  let id := s_next s in
  let x := mkActor id cap [] [] [] false false 1 true PStart None [] 0%N [] [] in
  emit (EvStartEnter a) (emit (EvSpawn a id cap)
    (set_s_next (wrap64 (id + 1)) (set_s_actors (s_actors s ++ [x]) s))).

Definition ops_idle (s : sys) (a : aid) : bool :=
  forallb (fun p => negb (o_tgt p =? a) || is_done (o_ph p)) (s_ops s).

(* no strong reference anywhere: agents, queued envelopes, unfinished operations, the running
   hook (on_start holds the task's own reference, a handler holds its envelope's, and on_stop
   entered through a stop marker still holds the marker's: `StopGracefully(_)` does not move it
   out of the matched message, which lives until the arm ends) *)
Definition refs_gone (s : sys) (a : aid) (x : actor) : bool :=
  (a_ext x =? 0) && (length (a_mbox x) =? 0) && ops_idle s a
  && match a_pc x with PStart | PHandle _ _ | PStop _ CStopMark => false | _ => true end.

Definition enter_stop (a : aid) (killed : bool) (c : cause) (s : sys) : sys :=
  emit (EvStopEnter a killed)
    (upd_actor a (fun y => set_a_pc (PStop killed c) (set_a_ustate (HvStop killed :: a_ustate y) y)) s).

Definition take (a : aid) (i : item) (tl : list item) (s : sys) : sys :=
  regrant a (upd_actor a (fun y => set_a_taken (a_taken y ++ [i]) (set_a_mbox tl y)) s).

Definition start_done (a : aid) (out : hout) (s : sys) : sys :=
  match get_actor s a with
  | Some x =>
      match a_pc x with
      | PStart =>
          if hop_free x then
            let s1 := emit (EvStartExit a out) s in
            match out with
            | HPanic => panic_actor a s1
            | HErr e => finish_task a (Some (Failed None e OnStart false)) s1
            | _ => upd_actor a (fun y => set_a_pc PIdle (set_a_ustate [HvStart] y)) s1
            end
          else s
      | _ => s end
  | None => s end.

Definition pass_begin (a : aid) (k : nat) (s : sys) : sys :=
  match get_actor s a with
  | Some x =>
      match a_pc x with
      | PIdle => upd_actor a (set_a_pc (PSel (if select_biased then select_order
                                              else rotate k select_order))) s
      | _ => s end
  | None => s end.

Definition after_branch (rest : list branch) : pc :=
  match rest with [] => PIdle | _ => PSel rest end.

(* one branch poll of the select *)
Definition poll_branch (a : aid) (ro : rout) (s : sys) : sys :=
  match get_actor s a with
  | Some x =>
      match a_pc x with
      | PSel (b :: rest) =>
          let next := upd_actor a (set_a_pc (after_branch rest)) s in
          match b with
          | BTerm =>
              if a_term x then enter_stop a true CKill (upd_actor a (set_a_term false) s)
              else if refs_gone s a x then enter_stop a false CRefsGone s
              else next
          | BMail =>
              match a_mbox x with
              | (o, KStop) :: tl => enter_stop a false CStopMark (take a (o, KStop) tl s)
              | (o, k) :: tl =>
                  emit (EvHandleEnter a o k)
                    (upd_actor a (fun y => set_a_pc (PHandle o k)
                                             (set_a_ustate (HvHandle o :: a_ustate y) y))
                       (take a (o, k) tl s))
              | [] => if refs_gone s a x then enter_stop a false CMailNone s else next
              end
          | BRun =>
              if run_guarded && negb (a_idle x) then next
              else
                let s1 := emit (EvRunPoll a) s in
                match ro with
                | RPending => upd_actor a (set_a_pc (after_branch rest)) s1
                | RTrue => emit (EvRunDone a ro)
                             (upd_actor a (fun y => set_a_pc PIdle (set_a_ustate (HvRun :: a_ustate y) y)) s1)
                | RFalse => emit (EvRunDone a ro)
                              (upd_actor a (fun y => set_a_pc PIdle (set_a_idle false
                                                       (set_a_ustate (HvRun :: a_ustate y) y))) s1)
                | RErrO e => enter_stop a false (CRunErr e)
                               (emit (EvRunDone a ro)
                                  (upd_actor a (fun y => set_a_ustate (HvRun :: a_ustate y) y) s1))
                | RPanicO => panic_actor a (emit (EvRunDone a ro) s1)
                end
          end
      | _ => s end
  | None => s end.

Definition hval (out : hout) : N :=
  match out with HReply v => v | HErr e => e | _ => 0%N end.

Definition handle_done (a : aid) (out : hout) (s : sys) : sys :=
  match get_actor s a with
  | Some x =>
      match a_pc x with
      | PHandle o k =>
          if hop_free x then
            let s1 := emit (EvHandleExit a o out) s in
            match out with
            | HPanic => panic_actor a s1
            | _ =>
                let s2 := match k with
                          | KAsk => upd_op o (fun p => match o_slot p with
                                                       | SlEmpty => set_o_slot (SlVal (hval out)) p
                                                       | _ => p end) s1
                          | KTell => emit (EvTellResult a o) s1
                          | KStop => s1 end in
                upd_actor a (set_a_pc PIdle) (metrics_record a s2)
            end
          else s
      | _ => s end
  | None => s end.

Definition stop_result (st : list hookev) (killed : bool) (c : cause) (out : hout) : aresult :=
  match out, c with
  | HErr e2, CRunErr e => Failed (Some st) e OnRunThenOnStop false
  | HErr e2, _ => Failed (Some st) e2 OnStop killed
  | _, CRunErr e => Failed (Some st) e OnRun false
  | _, _ => Completed st killed
  end.

Definition stop_done (a : aid) (out : hout) (s : sys) : sys :=
  match get_actor s a with
  | Some x =>
      match a_pc x with
      | PStop killed c =>
          if hop_free x then
            let s1 := emit (EvStopExit a out) s in
            match out with
            | HPanic => panic_actor a s1
            | _ => finish_task a (Some (stop_result (a_ustate x) killed c out)) s1
            end
          else s
      | _ => s end
  | None => s end.

(* ---------- references ---------- *)
Definition ref_clone (a : aid) (s : sys) : sys :=
  match get_actor s a with
  | Some x => if 0 <? a_ext x then upd_actor a (set_a_ext (S (a_ext x))) s else s
  | None => s end.
Definition ref_drop (a : aid) (s : sys) : sys :=
  match get_actor s a with
  | Some x => upd_actor a (set_a_ext (pred (a_ext x))) s
  | None => s end.
(* ActorWeak::upgrade: Some iff a strong reference still exists *)
Definition can_upgrade (s : sys) (a : aid) : bool :=
  match get_actor s a with Some x => negb (refs_gone s a x) | None => false end.
Definition ref_upgrade (a : aid) (s : sys) : sys :=
  if can_upgrade s a then upd_actor a (fun x => set_a_ext (S (a_ext x)) x) s else s.
Definition is_alive (s : sys) (a : aid) : bool :=
  match get_actor s a with Some x => negb (a_closed x) | None => false end.

(* ---------- labels and the step function ---------- *)
Inductive label :=
| LSpawn (cap : nat)
| LBegin (o : oid) (k : okind) (a : aid) (caller : option aid) (tmo : option N) (fn : fnname)
| LPoll (o : oid)
| LCancel (o : oid)
| LKill (a : aid)
| LClone (a : aid) | LDrop (a : aid) | LUpgrade (a : aid)
| LTick
| AStartDone (a : aid) (out : hout)
| APassBegin (a : aid) (k : nat)
| APoll (a : aid) (ro : rout)
| AHandleDone (a : aid) (out : hout)
| AStopDone (a : aid) (out : hout).

Definition sys_step (s : sys) (l : label) : sys :=
  match l with
  | LSpawn cap => spawn cap s
  | LBegin o k a caller tmo fn => begin o k a caller tmo fn s
  | LPoll o => poll o s
  | LCancel o => cancel o s
  | LKill a => kill a s
  | LClone a => ref_clone a s
  | LDrop a => ref_drop a s
  | LUpgrade a => ref_upgrade a s
  | LTick => set_s_now (s_now s + 1)%N s
  | AStartDone a out => start_done a out s
  | APassBegin a k => pass_begin a k s
  | APoll a ro => poll_branch a ro s
  | AHandleDone a out => handle_done a out s
  | AStopDone a out => stop_done a out s
  end.

Definition init (f : feats) : sys := mkSys [] [] 1%N [] 0%N 0%N f [].
Definition run (f : feats) (ls : list label) : sys := fold_left sys_step ls (init f).
Definition no_feats : feats := mkFeats false false false false.
