(* Specification-side definitions: oracles and recognisers the property theorems are stated with.
   They are written independently of the step function.  No proofs here. *)
From RS Require Import Base Setters Shape Sys.

Local Open Scope nat_scope.

(* ---------- the hook events of one actor, oldest first ---------- *)
Definition hook_ev_of (a : aid) (e : event) : bool :=
  match e with
  | EvStartEnter b | EvStartExit b _ | EvHandleEnter b _ _ | EvHandleExit b _ _
  | EvTellResult b _ | EvRunDone b _ | EvStopEnter b _ | EvStopExit b _ | EvDeadlock b _ => b =? a
  | _ => false end.
Definition is_hook_ev (e : event) : bool :=
  match e with
  | EvStartEnter _ | EvStartExit _ _ | EvHandleEnter _ _ _ | EvHandleExit _ _ _
  | EvTellResult _ _ | EvRunDone _ _ | EvStopEnter _ _ | EvStopExit _ _ | EvDeadlock _ _ => true
  | _ => false end.
Definition hook_events (s : sys) (a : aid) : list event := filter (hook_ev_of a) (rev (s_trace s)).

(* ---------- lifecycle recogniser = the oracle for the JoinHandle's value (C04, C05) ---------- *)
Inductive lcstate :=
| LcInit
| LcStart
| LcRun (ust : list hookev)
| LcHandle (o : oid) (k : okind) (ust : list hookev)
| LcTold (o : oid) (ust : list hookev)           (* a tell's handler returned: on_tell_result is due *)
| LcRunErr (e : N) (ust : list hookev)           (* on_run returned Err: on_stop(false) is due *)
| LcStop (killed : bool) (rerr : option N) (ust : list hookev)
| LcDone (r : aresult)
| LcPanicked.

(* what the task returns once on_stop has returned [out] *)
Definition res_of (ust : list hookev) (killed : bool) (rerr : option N) (out : hout) : aresult :=
  match out, rerr with
  | HErr _, Some e => Failed (Some ust) e OnRunThenOnStop false
  | HErr e2, None => Failed (Some ust) e2 OnStop killed
  | _, Some e => Failed (Some ust) e OnRun false
  | _, None => Completed ust killed
  end.

Definition lc_step (st : lcstate) (e : event) : option lcstate :=
  match st, e with
  | LcInit, EvStartEnter _ => Some LcStart
  | LcStart, EvStartExit _ out =>
      Some (match out with
            | HPanic => LcPanicked
            | HErr e => LcDone (Failed None e OnStart false)
            | _ => LcRun [HvStart] end)
  | LcStart, EvDeadlock _ _ => Some LcPanicked
  | LcRun ust, EvHandleEnter _ o k =>
      match k with KStop => None | _ => Some (LcHandle o k (HvHandle o :: ust)) end
  | LcRun ust, EvRunDone _ r =>
      match r with
      | RTrue | RFalse => Some (LcRun (HvRun :: ust))
      | RErrO e => Some (LcRunErr e (HvRun :: ust))
      | RPanicO => Some LcPanicked
      | RPending => None end
  | LcRun ust, EvStopEnter _ k => Some (LcStop k None (HvStop k :: ust))
  | LcRunErr e ust, EvStopEnter _ false => Some (LcStop false (Some e) (HvStop false :: ust))
  | LcHandle o k ust, EvHandleExit _ o' out =>
      if o' =? o then
        Some (match out with
              | HPanic => LcPanicked
              | _ => match k with KTell => LcTold o ust | _ => LcRun ust end end)
      else None
  | LcHandle _ _ _, EvDeadlock _ _ => Some LcPanicked
  | LcTold o ust, EvTellResult _ o' => if o' =? o then Some (LcRun ust) else None
  | LcStop k re ust, EvStopExit _ out =>
      Some (match out with HPanic => LcPanicked | _ => LcDone (res_of ust k re out) end)
  | LcStop _ _ _, EvDeadlock _ _ => Some LcPanicked
  | _, _ => None
  end.

Fixpoint lc_run (st : lcstate) (es : list event) : option lcstate :=
  match es with
  | [] => Some st
  | e :: t => match lc_step st e with Some st' => lc_run st' t | None => None end
  end.

(* the recogniser state a model actor claims to be in *)
Definition lc_of_actor (x : actor) : lcstate :=
  match a_pc x with
  | PStart => LcStart
  | PIdle | PSel _ => LcRun (a_ustate x)
  | PHandle o k => LcHandle o k (a_ustate x)
  | PStop k c => LcStop k (match c with CRunErr e => Some e | _ => None end) (a_ustate x)
  | PDone r => LcDone r
  | PPanicked => LcPanicked
  end.
