(* Base types of the rsactor model.  No proofs here. *)
From Coq Require Export List Arith NArith Bool.
Export ListNotations.

Definition aid := nat.   (* actor index in the system (position in s_actors) *)
Definition oid := nat.   (* operation / message id, chosen by the environment, unique *)

(* tell / ask / graceful stop: the three things that travel through the mailbox *)
Inductive okind := KTell | KAsk | KStop.
Inductive err := ESend | EReceive | ETimeout.
(* what an operation returns to its caller.  tell/stop return ROk 0. *)
Inductive result := ROk (v : N) | RErr (e : err) | RCancelled.

(* outcome of a user hook, chosen by the environment *)
Inductive hout := HOk | HErr (e : N) | HPanic | HReply (v : N).
(* outcome of one poll of the on_run future *)
Inductive rout := RPending | RTrue | RFalse | RErrO (e : N) | RPanicO.

Inductive phase := OnStart | OnRun | OnStop | OnRunThenOnStop.
(* the user state of a scripted actor: which hooks have run *)
Inductive hookev := HvStart | HvHandle (o : oid) | HvRun | HvStop (killed : bool).
Inductive aresult :=
| Completed (st : list hookev) (killed : bool)
| Failed (st : option (list hookev)) (e : N) (ph : phase) (killed : bool).

Inductive branch := BTerm | BMail | BRun.
Inductive cause := CKill | CRefsGone | CStopMark | CMailNone | CRunErr (e : N).

Inductive pc :=
| PStart                              (* on_start running; the task holds one strong ref *)
| PIdle                               (* between two polls of the select (loop top or parked) *)
| PSel (rest : list branch)           (* inside one poll of the select: branches still to poll *)
| PHandle (o : oid) (k : okind)       (* handler for o running; it holds the envelope's ref *)
| PStop (killed : bool) (c : cause)   (* on_stop running *)
| PDone (r : aresult)                 (* task returned r; both receivers dropped *)
| PPanicked.                          (* task unwound; both receivers dropped *)

(* API functions that can record a dead letter, and where in them *)
Inductive fnname := FTell | FTellTo | FAsk | FAskTo | FStop
                  | FBTell | FBTellTo | FBAsk | FBAskTo.
Inductive dlreason := DActorStopped | DTimeout | DReplyDropped.
Inductive dllabel := LbTell | LbAsk | LbBlockingTell | LbBlockingAsk | LbOther.
Inductive dlctx := CxSend | CxReply | CxElapsed.

Definition item := (oid * okind)%type.

(* OPre: the envelope is built but not yet in the mailbox (the sender is being polled for the
   first time, or sits in the wait queue, or holds a granted permit) *)
Inductive ophase := OPre | OWaitReply | ODone (r : result).
Inductive slot := SlEmpty | SlVal (v : N) | SlClosed.

Record op := mkOp {
  o_id : oid; o_kind : okind; o_tgt : aid; o_fn : fnname;
  o_caller : option aid;        (* Some b: issued from inside a hook of actor b *)
  o_deadline : option N;
  o_ph : ophase;
  o_slot : slot;                (* the per-request oneshot (asks only) *)
  o_tracked : bool              (* holds a wait-for guard *)
}.

Record actor := mkActor {
  a_id : N; a_cap : nat;
  a_mbox : list item;           (* head = oldest *)
  a_waiters : list oid;         (* FIFO of senders waiting for a permit *)
  a_granted : list oid;         (* permit assigned, value not yet pushed *)
  a_closed : bool;              (* both receivers closed/dropped *)
  a_term : bool;                (* a Terminate signal is buffered *)
  a_ext : nat;                  (* strong references held by agents *)
  a_idle : bool;                (* idle_enabled *)
  a_pc : pc;
  a_hop : option oid;           (* operation the running hook is awaiting *)
  a_ustate : list hookev;       (* newest first *)
  a_mcount : N;                 (* metrics feature: messages recorded *)
  a_accepted : list item;       (* ghost, append-only: everything the mailbox ever accepted *)
  a_taken : list item           (* ghost, append-only: everything the loop ever dequeued *)
}.

Inductive event :=
| EvSpawn (a : aid) (id : N) (cap : nat)
| EvBegin (o : oid) (k : okind) (a : aid)
| EvDone (o : oid) (r : result)
| EvAccept (a : aid) (o : oid) (k : okind)
| EvStartEnter (a : aid) | EvStartExit (a : aid) (out : hout)
| EvHandleEnter (a : aid) (o : oid) (k : okind) | EvHandleExit (a : aid) (o : oid) (out : hout)
| EvTellResult (a : aid) (o : oid)
| EvRunPoll (a : aid)
| EvRunDone (a : aid) (r : rout)
| EvStopEnter (a : aid) (killed : bool) | EvStopExit (a : aid) (out : hout)
| EvDeadLetter (a : aid) (o : oid) (rs : dlreason) (lb : dllabel)
| EvKill (a : aid)
| EvDeadlock (a : aid) (cycle : list N)
| EvEnd (a : aid) (r : option aresult).      (* None: the task panicked *)

Record feats := mkFeats { f_dd : bool; f_metrics : bool; f_testutils : bool; f_tracing : bool }.

Record sys := mkSys {
  s_actors : list actor;
  s_ops : list op;
  s_next : N;                   (* the process-wide id counter *)
  s_graph : list (N * N);       (* wait-for graph: caller id -> callee id *)
  s_now : N;
  s_dlcount : N;                (* test-utils dead-letter counter *)
  s_feat : feats;
  s_trace : list event          (* ghost, newest first *)
}.

(* decidable equalities used by the executable parts *)
Definition okind_eqb (a b : okind) : bool :=
  match a, b with KTell, KTell | KAsk, KAsk | KStop, KStop => true | _, _ => false end.
Definition branch_eqb (a b : branch) : bool :=
  match a, b with BTerm, BTerm | BMail, BMail | BRun, BRun => true | _, _ => false end.
Definition fn_eqb (a b : fnname) : bool :=
  match a, b with
  | FTell, FTell | FTellTo, FTellTo | FAsk, FAsk | FAskTo, FAskTo | FStop, FStop
  | FBTell, FBTell | FBTellTo, FBTellTo | FBAsk, FBAsk | FBAskTo, FBAskTo => true
  | _, _ => false end.
Definition ctx_eqb (a b : dlctx) : bool :=
  match a, b with CxSend, CxSend | CxReply, CxReply | CxElapsed, CxElapsed => true | _, _ => false end.

Definition is_done (p : ophase) : bool := match p with ODone _ => true | _ => false end.
Definition is_env (i : item) : bool := match snd i with KStop => false | _ => true end.

(* ---- vocabulary of the generated structural facts (Gen/Shape.v) ---- *)
Inductive trait := TTell | TAsk | TWeakTell | TWeakAsk | TControl | TWeakControl.
Inductive meth := MTell | MTellTo | MBlockingTell | MAsk | MAskTo | MBlockingAsk
                | MCloneBoxed | MDowngrade | MUpgrade | MAsControl | MAsWeakControl
                | MIdentity | MIsAlive | MStop | MKill | MClone | MOther.
Inductive recvk := OnRef | OnWeak.
(* how the forwarder wraps the inherent call's value *)
Inductive wrapk := WFutBoxed      (* <call>.boxed()                       *)
                 | WPlain         (* <call>                               *)
                 | WBoxNew        (* Box::new(<call>)                     *)
                 | WMapBox        (* <call>.map(|r| Box::new(r) as _)     *)
                 | WSelf          (* self  (as_control / as_weak_control) *)
                 | WUnknown.
Record fwd := mkFwd { fw_trait : trait; fw_meth : meth; fw_recv : recvk;
                      fw_target : meth; fw_args_verbatim : bool; fw_wrap : wrapk }.
Inductive convmode := CvMove | CvClone | CvOther.
Record conv := mkConv { cv_from : recvk; cv_borrowed : bool; cv_to : trait; cv_mode : convmode }.

Definition trait_eqb (a b : trait) : bool :=
  match a, b with TTell, TTell | TAsk, TAsk | TWeakTell, TWeakTell | TWeakAsk, TWeakAsk
                | TControl, TControl | TWeakControl, TWeakControl => true | _, _ => false end.
Definition meth_eqb (a b : meth) : bool :=
  match a, b with
  | MTell, MTell | MTellTo, MTellTo | MBlockingTell, MBlockingTell | MAsk, MAsk | MAskTo, MAskTo
  | MBlockingAsk, MBlockingAsk | MCloneBoxed, MCloneBoxed | MDowngrade, MDowngrade
  | MUpgrade, MUpgrade | MAsControl, MAsControl | MAsWeakControl, MAsWeakControl
  | MIdentity, MIdentity | MIsAlive, MIsAlive | MStop, MStop | MKill, MKill | MClone, MClone
  | MOther, MOther => true
  | _, _ => false end.
Definition recvk_eqb (a b : recvk) : bool :=
  match a, b with OnRef, OnRef | OnWeak, OnWeak => true | _, _ => false end.
Definition wrapk_eqb (a b : wrapk) : bool :=
  match a, b with WFutBoxed, WFutBoxed | WPlain, WPlain | WBoxNew, WBoxNew | WMapBox, WMapBox
                | WSelf, WSelf | WUnknown, WUnknown => true | _, _ => false end.
Definition convmode_eqb (a b : convmode) : bool :=
  match a, b with CvMove, CvMove | CvClone, CvClone | CvOther, CvOther => true | _, _ => false end.
Definition reason_eqb (a b : dlreason) : bool :=
  match a, b with DActorStopped, DActorStopped | DTimeout, DTimeout | DReplyDropped, DReplyDropped => true
                | _, _ => false end.
Definition label_eqb (a b : dllabel) : bool :=
  match a, b with LbTell, LbTell | LbAsk, LbAsk | LbBlockingTell, LbBlockingTell
                | LbBlockingAsk, LbBlockingAsk | LbOther, LbOther => true | _, _ => false end.
Definition err_eqb (a b : err) : bool :=
  match a, b with ESend, ESend | EReceive, EReceive | ETimeout, ETimeout => true | _, _ => false end.
