(* The per-actor metrics collector (src/metrics/collector.rs): u64 atomics, wrapping count,
   saturating total, running max.  No proofs here. *)
From RS Require Import Base.
Local Open Scope N_scope.

Definition u64max : N := 18446744073709551615.
Record coll := mkColl { m_count : N; m_total : N; m_max : N }.
Definition coll0 : coll := mkColl 0 0 0.
Definition clamp (d : N) : N := N.min d u64max.
(* record_message(duration) *)
Definition record (d : N) (c : coll) : coll :=
  mkColl (N.modulo (m_count c + 1) (u64max + 1))
         (N.min (m_total c + clamp d) u64max)
         (N.max (m_max c) (clamp d)).
Definition avg (c : coll) : N := if N.eqb (m_count c) 0 then 0 else m_total c / m_count c.
(* snapshot() reads the same atomics as the accessors *)
Definition snapshot (c : coll) : N * N * N := (m_count c, avg c, m_max c).
Definition records (ds : list N) : coll := fold_left (fun c d => record d c) ds coll0.
