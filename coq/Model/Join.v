(* ask_join (src/actor_ref.rs): an ask whose reply is the JoinHandle of a task the handler spawned;
   the handle is awaited and a JoinError is mapped to Error::Join.  Pure model; no proofs here. *)
From RS Require Import Base.

(* how the spawned task ended *)
Inductive task_out := TVal (v : N) | TPanic | TAborted.
Inductive join_kind := JPanicked | JCancelled.
(* what ask_join returns *)
Inductive jres := JOk (v : N) | JErr (e : err) | JJoin (j : join_kind).

(* [ask] is the result of the underlying ask (its value is the handle, not looked at) *)
Definition ask_join (ask : result) (t : task_out) : option jres :=
  match ask with
  | ROk _ => Some (match t with TVal v => JOk v | TPanic => JJoin JPanicked | TAborted => JJoin JCancelled end)
  | RErr e => Some (JErr e)
  | RCancelled => None
  end.

Definition all_join_cases : list (result * task_out) :=
  [(ROk 0, TVal 7); (ROk 0, TPanic); (ROk 0, TAborted);
   (RErr ESend, TVal 7); (RErr EReceive, TVal 7)]%N.
(* ask_join is built on the plain ask, which has no deadline: Timeout cannot arise there *)
