(* The decision logic of #[message_handlers] / #[handler(...)] (rsactor-derive/src/lib.rs):
   which Reply type the generated Message impl has and whether an error-logging on_tell_result
   is generated, as a function of the handler's syntax.  No proofs here. *)
From RS Require Import Base.
From Coq Require Import String.
Open Scope string_scope.

(* the syntactic shape of the return type, as syn sees it *)
Inductive rettype :=
| RtNone                                   (* no `-> T` *)
| RtPath (segs : list string)              (* a path type; the identifiers of its segments *)
| RtRef | RtTuple | RtOther.               (* &T, (A, B), anything else (arrays, fn pointers, impl ...) *)

(* one entry of #[handler(...)] *)
Inductive hopt := OResult | ONoLog | OUnknown.

Inductive attr_form := AfPath | AfList (opts : list hopt) | AfNameValue.

Inductive decision :=
| CompileError
| Impl (reply : rettype) (logs_err : bool).   (* reply: RtNone stands for `()` *)

Fixpoint last_seg (l : list string) : option string :=
  match l with [] => None | [x] => Some x | _ :: t => last_seg t end.

(* is_result_type: a path type whose LAST segment is the identifier `Result` *)
Definition is_result_type (r : rettype) : bool :=
  match r with
  | RtPath segs => match last_seg segs with Some s => String.eqb s "Result" | None => false end
  | _ => false end.

Definition has_opt (o : hopt) (l : list hopt) : bool :=
  existsb (fun x => match o, x with OResult, OResult | ONoLog, ONoLog | OUnknown, OUnknown => true | _, _ => false end) l.

Definition decide (a : attr_form) (r : rettype) : decision :=
  match a with
  | AfNameValue => CompileError
  | AfPath => Impl r (is_result_type r)
  | AfList opts =>
      if has_opt OUnknown opts then CompileError
      else if has_opt OResult opts && has_opt ONoLog opts then CompileError
      else if has_opt ONoLog opts then Impl r false
      else if has_opt OResult opts
           then match r with RtNone => CompileError | _ => Impl r true end
           else Impl r (is_result_type r)
  end.

(* what happens at run time for one envelope (src/lib.rs PayloadHandler::handle_message):
   the handler runs once; an ask gets the value on its reply channel and on_tell_result is not
   called; a tell gets on_tell_result called exactly once with the value *)
Inductive delivery := DTell | DAsk.
Definition on_tell_result_calls (d : delivery) : nat := match d with DTell => 1 | DAsk => 0 end.
(* the generated on_tell_result logs exactly the Err values *)
Definition logs (logs_err : bool) (d : delivery) (value_is_err : bool) : bool :=
  match d with DTell => logs_err && value_is_err | DAsk => false end.

(* #[derive(Actor)]: Args = Self, Error = Infallible, on_start returns its argument *)
Definition derive_on_start {A : Type} (args : A) : A + Empty_set := inl args.
