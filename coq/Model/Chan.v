(* The mailbox at permit granularity.

   In Sys.v a send is one step: the message is accepted and queued at once.  The real tokio mpsc
   channel does it in two: the sender first obtains a permit of the channel's semaphore (directly,
   or by being handed one while it waits) and only then pushes the value; the two can be separated
   by any number of steps of other threads, including the receiver closing, draining and leaving.
   The defect repaired in /repo (DESIGN.md 7b) lived exactly in that gap, so the gap is modelled
   here and the exit protocol of the actor task ([Shape.exit_protocol]) is a parameter of the
   step function.

   tokio facts assumed (modelled, not verified; compared with the real tokio::sync::mpsc on every
   run by harness/src/bin/chan_probe.rs):
     - a permit is obtained only while the channel is not closed and a permit is free;
     - a holder pushes unconditionally - also after close, also after the receiver has gone;
     - a holder may instead give the permit back (a waiter that was handed a permit and then finds
       the channel closed, or a send future dropped by a timeout);
     - the receiver's pop returns the permit; close() stops new permits, queued values stay
       readable; capacity() is the number of free permits, max_capacity() the bound;
     - a value pushed after the receiver has been dropped is freed only when every Sender is gone -
       and every rsactor envelope holds an ActorRef, i.e. a Sender of the same channel: such a
       value is stranded for ever (its reply channel is never dropped, the asker never wakes). *)
From Coq Require Import List Arith Bool.
Import ListNotations.

Definition cmsg := (nat * nat)%type.       (* (sender, sequence number in that sender's program) *)

Inductive sst := SIdle | SHeld.

Record csender := mkSender {
  sn_next : nat;          (* sequence number of the message of the current / next send *)
  sn_st : sst;            (* SHeld: holds a permit for message (me, sn_next) *)
  sn_ok : list nat;       (* sequence numbers whose send returned Ok *)
  sn_err : list nat       (* sequence numbers whose send returned Err (closed or abandoned) *)
}.

Inductive rphase := RRunning | RDraining | RExited.

Record chan := mkChan {
  c_cap : nat;
  c_free : nat;                (* free permits = Receiver::capacity() *)
  c_closed : bool;
  c_queue : list cmsg;         (* oldest first *)
  c_senders : list csender;
  c_phase : rphase;
  c_handled : list cmsg;       (* taken by the running actor, oldest first *)
  c_dropped : list cmsg;       (* taken and dropped by the shutdown drain, oldest first *)
  c_stranded : list cmsg       (* pushed after the receiver had gone *)
}.

Inductive clabel :=
| KAcquire (s : nat)     (* sender s obtains a permit *)
| KFail (s : nat)        (* sender s finds the channel closed: its send returns Err *)
| KPush (s : nat)        (* the holder pushes its message: its send returns Ok *)
| KGiveBack (s : nat)    (* the holder returns the permit without sending: Err *)
| KRecv                  (* the running actor takes the oldest message *)
| KClose                 (* receiver.close() *)
| KDrain                 (* try_recv() of the shutdown loop *)
| KExit.                 (* the shutdown loop's exit test succeeds; the receiver is dropped *)

Definition set_sender (c : chan) (i : nat) (s : csender) : chan :=
  mkChan (c_cap c) (c_free c) (c_closed c) (c_queue c)
         (firstn i (c_senders c) ++ s :: skipn (S i) (c_senders c))
         (c_phase c) (c_handled c) (c_dropped c) (c_stranded c).

Definition with_free (c : chan) (n : nat) : chan :=
  mkChan (c_cap c) n (c_closed c) (c_queue c) (c_senders c) (c_phase c) (c_handled c) (c_dropped c) (c_stranded c).

Definition init_chan (cap nsenders : nat) : chan :=
  mkChan cap cap false [] (repeat (mkSender 0 SIdle [] []) nsenders) RRunning [] [] [].

(* [waits]: the exit test of the shutdown loop also requires every permit to be back *)
Definition cstep (waits : bool) (c : chan) (l : clabel) : chan :=
  match l with
  | KAcquire i =>
      match nth_error (c_senders c) i with
      | Some s =>
          match sn_st s, c_closed c, c_free c with
          | SIdle, false, S n => set_sender (with_free c n) i (mkSender (sn_next s) SHeld (sn_ok s) (sn_err s))
          | _, _, _ => c
          end
      | None => c
      end
  | KFail i =>
      match nth_error (c_senders c) i with
      | Some s =>
          match sn_st s, c_closed c with
          | SIdle, true => set_sender c i (mkSender (S (sn_next s)) SIdle (sn_ok s) (sn_next s :: sn_err s))
          | _, _ => c
          end
      | None => c
      end
  | KPush i =>
      match nth_error (c_senders c) i with
      | Some s =>
          match sn_st s with
          | SHeld =>
              let s' := mkSender (S (sn_next s)) SIdle (sn_next s :: sn_ok s) (sn_err s) in
              let c' := set_sender c i s' in
              match c_phase c with
              | RExited => mkChan (c_cap c') (c_free c') (c_closed c') (c_queue c') (c_senders c') (c_phase c')
                                  (c_handled c') (c_dropped c') (c_stranded c' ++ [(i, sn_next s)])
              | _ => mkChan (c_cap c') (c_free c') (c_closed c') (c_queue c' ++ [(i, sn_next s)]) (c_senders c') (c_phase c')
                            (c_handled c') (c_dropped c') (c_stranded c')
              end
          | SIdle => c
          end
      | None => c
      end
  | KGiveBack i =>
      match nth_error (c_senders c) i with
      | Some s =>
          match sn_st s with
          | SHeld => set_sender (with_free c (S (c_free c))) i (mkSender (S (sn_next s)) SIdle (sn_ok s) (sn_next s :: sn_err s))
          | SIdle => c
          end
      | None => c
      end
  | KRecv =>
      match c_phase c, c_queue c with
      | RRunning, m :: q => mkChan (c_cap c) (S (c_free c)) (c_closed c) q (c_senders c) RRunning
                                   (c_handled c ++ [m]) (c_dropped c) (c_stranded c)
      | _, _ => c
      end
  | KClose =>
      match c_phase c with
      | RRunning => mkChan (c_cap c) (c_free c) true (c_queue c) (c_senders c) RDraining
                           (c_handled c) (c_dropped c) (c_stranded c)
      | _ => c
      end
  | KDrain =>
      match c_phase c, c_queue c with
      | RDraining, m :: q => mkChan (c_cap c) (S (c_free c)) (c_closed c) q (c_senders c) RDraining
                                    (c_handled c) (c_dropped c ++ [m]) (c_stranded c)
      | _, _ => c
      end
  | KExit =>
      match c_phase c, c_queue c with
      | RDraining, [] =>
          if negb waits || Nat.eqb (c_free c) (c_cap c)
          then mkChan (c_cap c) (c_free c) (c_closed c) [] (c_senders c) RExited
                      (c_handled c) (c_dropped c) (c_stranded c)
          else c
      | _, _ => c
      end
  end.

Definition crun (waits : bool) (cap n : nat) (ls : list clabel) : chan :=
  fold_left (cstep waits) ls (init_chan cap n).

(* number of senders holding a permit *)
Definition held (c : chan) : nat :=
  length (filter (fun s => match sn_st s with SHeld => true | SIdle => false end) (c_senders c)).

(* what the probe of the real channel can see after each step *)
Definition cobs (c : chan) : (nat * nat) * (bool * nat) :=
  ((c_free c, length (c_queue c)), (c_closed c, length (c_stranded c))).
