(* What the client-side functions do to operation records and to the trace. *)
From RS Require Import Tactics Frame ListFacts.

Definition op_static (p : op) := (o_id p, o_kind p, o_tgt p, o_fn p, o_caller p, o_deadline p).
Definition done_f (r : result) (q : op) : op := set_o_tracked false (set_o_ph (ODone r) q).

Definition dl_events (a : aid) (o : oid) (f : fnname) (c : dlctx) : list event :=
  rev (map (fun rl => EvDeadLetter a o (fst rl) (snd rl)) (dl_sites (site_fn f c) c)).

Lemma record_dl_trace s a o f c : s_trace (record_dl a o f c s) = dl_events a o f c ++ s_trace s.
Proof.
  unfold record_dl, dl_events. generalize (dl_sites (site_fn f c) c). intros l. revert s.
  induction l as [|rl l IH]; intros s; cbn [fold_left map rev]; [reflexivity|].
  rewrite IH. unfold record_one. rewrite <- app_assoc. cbn.
  destruct (f_testutils (s_feat s)); reflexivity.
Qed.
Lemma record_dl_get_op s a o f c o' : get_op (record_dl a o f c s) o' = get_op s o'.
Proof.
  unfold record_dl. generalize (dl_sites (site_fn f c) c). intros l. revert s.
  induction l as [|rl l IH]; intros s; cbn [fold_left]; [reflexivity|].
  rewrite IH. unfold record_one. destruct (f_testutils (s_feat s)); reflexivity.
Qed.
Lemma record_dl_get_actor s a o f c b : get_actor (record_dl a o f c s) b = get_actor s b.
Proof.
  unfold record_dl. generalize (dl_sites (site_fn f c) c). intros l. revert s.
  induction l as [|rl l IH]; intros s; cbn [fold_left]; [reflexivity|].
  rewrite IH. unfold record_one. destruct (f_testutils (s_feat s)); reflexivity.
Qed.
Lemma record_dl_now s a o f c : s_now (record_dl a o f c s) = s_now s.
Proof.
  unfold record_dl. generalize (dl_sites (site_fn f c) c). intros l. revert s.
  induction l as [|rl l IH]; intros s; cbn [fold_left]; [reflexivity|].
  rewrite IH. unfold record_one. destruct (f_testutils (s_feat s)); reflexivity.
Qed.

Lemma get_op_through_guards s p o' :
  get_op (clear_hop p (drop_guard p s)) o' = get_op s o'.
Proof. unfold clear_hop, drop_guard. repeat case_match; reflexivity. Qed.
Lemma trace_through_guards s p : s_trace (clear_hop p (drop_guard p s)) = s_trace s.
Proof. unfold clear_hop, drop_guard. repeat case_match; reflexivity. Qed.
Lemma now_through_guards s p : s_now (clear_hop p (drop_guard p s)) = s_now s.
Proof. unfold clear_hop, drop_guard. repeat case_match; reflexivity. Qed.

Lemma finish_get_op s o r o' :
  get_op (finish o r s) o' = if o' =? o then option_map (done_f r) (get_op s o') else get_op s o'.
Proof.
  unfold finish. destruct (get_op s o) as [p|] eqn:Hp.
  - change (get_op (emit ?e ?st) o') with (get_op st o'). rewrite get_op_through_guards.
    rewrite get_op_upd_op by reflexivity. reflexivity.
  - destruct (Nat.eqb_spec o' o) as [->|]; [rewrite Hp|]; reflexivity.
Qed.
Lemma finish_trace s o r p :
  get_op s o = Some p -> s_trace (finish o r s) = EvDone o r :: s_trace s.
Proof. intros Hp. unfold finish. rewrite Hp. cbn [s_trace emit set_s_trace]. rewrite trace_through_guards. reflexivity. Qed.
Lemma finish_now s o r : s_now (finish o r s) = s_now s.
Proof. unfold finish. destruct (get_op s o); [|reflexivity]. cbn [s_now emit set_s_trace]. rewrite now_through_guards. reflexivity. Qed.

Lemma push_get_op s a o k o' : get_op (push a o k s) o' = get_op s o'.
Proof. reflexivity. Qed.
Lemma push_trace s a o k : s_trace (push a o k s) = EvAccept a o k :: s_trace s.
Proof. reflexivity. Qed.

Lemma after_push_get_op s o k o' :
  get_op (after_push o k s) o' =
  if o' =? o then option_map (match k with KAsk => set_o_ph OWaitReply | _ => done_f (ROk 0) end) (get_op s o')
  else get_op s o'.
Proof.
  unfold after_push. destruct k; try apply finish_get_op.
  rewrite get_op_upd_op by reflexivity. reflexivity.
Qed.
Lemma after_push_trace s o k p :
  get_op s o = Some p ->
  s_trace (after_push o k s) = match k with KAsk => s_trace s | _ => EvDone o (ROk 0) :: s_trace s end.
Proof. intros Hp. unfold after_push. destruct k; try (apply (finish_trace s o _ p Hp)). reflexivity. Qed.

(* ---------- one poll of an operation that is not finished ---------- *)
Inductive PollCase (s : sys) (p p' : op) : list event -> Prop :=
| PC_pending :
    o_ph p' = o_ph p -> expired p s = false ->
    (* why it is still pending: the send is waiting for a permit of an open channel, or the reply
       slot of an accepted ask is untouched *)
    (o_ph p = OWaitReply -> get_actor s (o_tgt p) <> None -> o_slot p = SlEmpty) ->
    (o_ph p = OPre -> forall x, get_actor s (o_tgt p) = Some x -> a_closed x = false) ->
    PollCase s p p' []
| PC_accept_ask x :
    o_ph p = OPre -> o_kind p = KAsk -> get_actor s (o_tgt p) = Some x -> a_closed x = false ->
    o_ph p' = OWaitReply -> expired p s = false ->
    PollCase s p p' [EvAccept (o_tgt p) (o_id p) KAsk]
| PC_accept_done x :
    o_ph p = OPre -> o_kind p <> KAsk -> get_actor s (o_tgt p) = Some x -> a_closed x = false ->
    o_ph p' = ODone (ROk 0) ->
    PollCase s p p' [EvDone (o_id p) (ROk 0); EvAccept (o_tgt p) (o_id p) (o_kind p)]
| PC_send_failed x :
    o_ph p = OPre -> o_kind p <> KStop -> get_actor s (o_tgt p) = Some x -> a_closed x = true ->
    o_ph p' = ODone (RErr ESend) ->
    PollCase s p p' (EvDone (o_id p) (RErr ESend) :: dl_events (o_tgt p) (o_id p) (o_fn p) CxSend)
| PC_stop_closed x :
    o_ph p = OPre -> o_kind p = KStop -> get_actor s (o_tgt p) = Some x -> a_closed x = true ->
    o_ph p' = ODone (ROk 0) -> PollCase s p p' [EvDone (o_id p) (ROk 0)]
| PC_reply v :
    o_ph p = OWaitReply -> o_slot p = SlVal v -> o_ph p' = ODone (ROk v) ->
    PollCase s p p' [EvDone (o_id p) (ROk v)]
| PC_reply_dropped :
    o_ph p = OWaitReply -> o_slot p = SlClosed -> o_ph p' = ODone (RErr EReceive) ->
    PollCase s p p' (EvDone (o_id p) (RErr EReceive) :: dl_events (o_tgt p) (o_id p) (o_fn p) CxReply)
| PC_timeout inner :
    expired p s = true -> o_ph p' = ODone (RErr ETimeout) ->
    (* the inner future was polled first and was still pending: either nothing happened, or the
       ask's envelope went into the mailbox in this very poll *)
    (inner = [] \/ (o_ph p = OPre /\ o_kind p = KAsk /\ inner = [EvAccept (o_tgt p) (o_id p) KAsk])) ->
    (o_ph p = OWaitReply -> get_actor s (o_tgt p) <> None -> o_slot p = SlEmpty) ->
    PollCase s p p' (EvDone (o_id p) (RErr ETimeout) :: dl_events (o_tgt p) (o_id p) (o_fn p) CxElapsed ++ inner).

Inductive InnerCase (s : sys) (p p1 : op) : list event -> Prop :=
| IC_pending :
    o_ph p1 = o_ph p -> (o_ph p = OWaitReply -> get_actor s (o_tgt p) <> None -> o_slot p = SlEmpty) ->
    (o_ph p = OPre -> forall x, get_actor s (o_tgt p) = Some x -> a_closed x = false) -> InnerCase s p p1 []
| IC_accept_ask x :
    o_ph p = OPre -> o_kind p = KAsk -> get_actor s (o_tgt p) = Some x -> a_closed x = false ->
    o_ph p1 = OWaitReply -> InnerCase s p p1 [EvAccept (o_tgt p) (o_id p) KAsk]
| IC_accept_done x :
    o_ph p = OPre -> o_kind p <> KAsk -> get_actor s (o_tgt p) = Some x -> a_closed x = false ->
    o_ph p1 = ODone (ROk 0) ->
    InnerCase s p p1 [EvDone (o_id p) (ROk 0); EvAccept (o_tgt p) (o_id p) (o_kind p)]
| IC_send_failed x :
    o_ph p = OPre -> o_kind p <> KStop -> get_actor s (o_tgt p) = Some x -> a_closed x = true ->
    o_ph p1 = ODone (RErr ESend) ->
    InnerCase s p p1 (EvDone (o_id p) (RErr ESend) :: dl_events (o_tgt p) (o_id p) (o_fn p) CxSend)
| IC_stop_closed x :
    o_ph p = OPre -> o_kind p = KStop -> get_actor s (o_tgt p) = Some x -> a_closed x = true ->
    o_ph p1 = ODone (ROk 0) -> InnerCase s p p1 [EvDone (o_id p) (ROk 0)]
| IC_reply v :
    o_ph p = OWaitReply -> o_slot p = SlVal v -> o_ph p1 = ODone (ROk v) ->
    InnerCase s p p1 [EvDone (o_id p) (ROk v)]
| IC_reply_dropped :
    o_ph p = OWaitReply -> o_slot p = SlClosed -> o_ph p1 = ODone (RErr EReceive) ->
    InnerCase s p p1 (EvDone (o_id p) (RErr EReceive) :: dl_events (o_tgt p) (o_id p) (o_fn p) CxReply).

Record OpStep (s s' : sys) (o : oid) (p p' : op) (evs : list event) : Prop := mkOpStep {
  os_get : get_op s' o = Some p';
  os_trace : s_trace s' = evs ++ s_trace s;
  os_static : op_static p' = op_static p;
  os_slot : o_slot p' = o_slot p;
  os_now : s_now s' = s_now s;
  os_others : forall o', o' <> o -> get_op s' o' = get_op s o';
  (* the wait-for guard is dropped exactly when the operation finishes *)
  os_tracked : is_done (o_ph p') = false -> o_tracked p' = o_tracked p
}.

Lemma send_failed_step s s0 p :
  get_op s0 (o_id p) = Some p -> (forall o', get_op s o' = get_op s0 o') -> s_trace s = s_trace s0 -> s_now s = s_now s0 ->
  exists p1, OpStep s0 (send_failed p s) (o_id p) p p1
    (match o_kind p with KStop => [EvDone (o_id p) (ROk 0)]
                       | _ => EvDone (o_id p) (RErr ESend) :: dl_events (o_tgt p) (o_id p) (o_fn p) CxSend end) /\
    o_ph p1 = match o_kind p with KStop => ODone (ROk 0) | _ => ODone (RErr ESend) end.
Proof.
  intros Hp Hops Htr Hnow. unfold send_failed.
  assert (Hgen : forall r (w : sys -> sys) dls,
            (forall st o', get_op (w st) o' = get_op st o') -> (forall st, s_trace (w st) = dls ++ s_trace st) ->
            (forall st, s_now (w st) = s_now st) ->
            exists p1, OpStep s0 (finish (o_id p) r (w s)) (o_id p) p p1 (EvDone (o_id p) r :: dls) /\ o_ph p1 = ODone r).
  { intros r w dls W1 W2 W3. exists (done_f r p). split; [|reflexivity]. constructor.
    - rewrite finish_get_op, Nat.eqb_refl, W1, Hops, Hp. reflexivity.
    - rewrite (finish_trace _ _ _ p) by (rewrite W1, Hops; exact Hp). rewrite W2, Htr. reflexivity.
    - reflexivity.
    - reflexivity.
    - rewrite finish_now, W3. exact Hnow.
    - intros o' Hne. rewrite finish_get_op. apply Nat.eqb_neq in Hne. rewrite Hne, W1. apply Hops.
    - cbn. discriminate. }
  destruct (o_kind p).
  - apply (Hgen (RErr ESend) (record_dl (o_tgt p) (o_id p) (o_fn p) CxSend)).
    + intros; apply record_dl_get_op. + intros; apply record_dl_trace. + intros; apply record_dl_now.
  - apply (Hgen (RErr ESend) (record_dl (o_tgt p) (o_id p) (o_fn p) CxSend)).
    + intros; apply record_dl_get_op. + intros; apply record_dl_trace. + intros; apply record_dl_now.
  - apply (Hgen (ROk 0) (fun st => st) []); reflexivity.
Qed.

Lemma accept_step s s0 p :
  get_op s0 (o_id p) = Some p -> (forall o', get_op s o' = get_op s0 o') -> s_trace s = s_trace s0 -> s_now s = s_now s0 ->
  exists p1, OpStep s0 (after_push (o_id p) (o_kind p) (push (o_tgt p) (o_id p) (o_kind p) s)) (o_id p) p p1
    (match o_kind p with KAsk => [EvAccept (o_tgt p) (o_id p) KAsk]
                       | k => [EvDone (o_id p) (ROk 0); EvAccept (o_tgt p) (o_id p) k] end) /\
    o_ph p1 = match o_kind p with KAsk => OWaitReply | _ => ODone (ROk 0) end.
Proof.
  intros Hp Hops Htr Hnow.
  assert (Hp' : get_op (push (o_tgt p) (o_id p) (o_kind p) s) (o_id p) = Some p) by (rewrite push_get_op, Hops; exact Hp).
  eexists. split.
  - constructor.
    + rewrite after_push_get_op, Nat.eqb_refl, Hp'. reflexivity.
    + rewrite (after_push_trace _ _ _ p Hp'), push_trace, Htr. destruct (o_kind p); reflexivity.
    + destruct (o_kind p); reflexivity.
    + destruct (o_kind p); reflexivity.
    + unfold after_push. destruct (o_kind p); rewrite ?finish_now; exact Hnow.
    + intros o' Hne. rewrite after_push_get_op. apply Nat.eqb_neq in Hne. rewrite Hne, push_get_op. apply Hops.
    + destruct (o_kind p); cbn; try discriminate. reflexivity.
  - destruct (o_kind p); reflexivity.
Qed.

Lemma poll_inner_spec s o p :
  get_op s o = Some p -> is_done (o_ph p) = false ->
  exists p1 ev1, OpStep s (poll_inner p s) o p p1 ev1 /\ InnerCase s p p1 ev1.
Proof.
  intros Hp Hnd. pose proof (get_op_id s o p Hp) as Hid. subst o.
  assert (Hstay : forall st, st = s -> OpStep s st (o_id p) p p []).
  { intros st ->. constructor; try reflexivity. exact Hp. }
  unfold poll_inner.
  destruct (get_actor s (o_tgt p)) as [x|] eqn:Hx.
  2: { exists p, []. split; [apply Hstay; reflexivity|]. apply IC_pending; [reflexivity| |]; [intros _ Hn; congruence|intros _ x' Hx'; congruence]. }
  destruct (o_ph p) eqn:Hph; [| |discriminate].
  - destruct (a_closed x) eqn:Hc.
    + destruct (send_failed_step (unwait (o_tgt p) (o_id p) (ungrant (o_tgt p) (o_id p) s)) s p) as (p1 & H1 & Eph);
        try reflexivity; [exact Hp|].
      eexists _, _. split; [exact H1|].
      destruct (o_kind p) eqn:Hk.
      * eapply IC_send_failed; try eassumption; congruence.
      * eapply IC_send_failed; try eassumption; congruence.
      * eapply IC_stop_closed; try eassumption.
    + destruct (is_granted x (o_id p)) eqn:Hg.
      * destruct (accept_step (ungrant (o_tgt p) (o_id p) s) s p) as (p1 & H1 & Eph); try reflexivity; [exact Hp|].
        eexists _, _. split; [exact H1|].
        destruct (o_kind p) eqn:Hk.
        -- rewrite <- Hk. eapply IC_accept_done; try eassumption; congruence.
        -- eapply IC_accept_ask; try eassumption.
        -- rewrite <- Hk. eapply IC_accept_done; try eassumption; congruence.
      * exists p, []. split; [apply Hstay; reflexivity|]. apply IC_pending; [reflexivity|congruence|]. intros _ x' Hx'. congruence.
  - destruct (o_slot p) eqn:Hs.
    + exists p, []. split; [apply Hstay; reflexivity|]. apply IC_pending; [reflexivity|intros _ _; exact Hs|congruence].
    + exists (done_f (ROk v) p), [EvDone (o_id p) (ROk v)]. split.
      * constructor; try reflexivity.
        -- rewrite finish_get_op, Nat.eqb_refl, Hp. reflexivity.
        -- apply (finish_trace s _ _ p Hp).
        -- apply finish_now.
        -- intros o' Hne. rewrite finish_get_op. apply Nat.eqb_neq in Hne. rewrite Hne. reflexivity.
        -- cbn. discriminate.
      * eapply IC_reply; [exact Hph|exact Hs|reflexivity].
    + exists (done_f (RErr EReceive) p), (EvDone (o_id p) (RErr EReceive) :: dl_events (o_tgt p) (o_id p) (o_fn p) CxReply). split.
      * constructor; try reflexivity.
        -- rewrite finish_get_op, Nat.eqb_refl, record_dl_get_op, Hp. reflexivity.
        -- rewrite (finish_trace _ _ _ p) by (rewrite record_dl_get_op; exact Hp). rewrite record_dl_trace. reflexivity.
        -- rewrite finish_now. apply record_dl_now.
        -- intros o' Hne. rewrite finish_get_op. apply Nat.eqb_neq in Hne. rewrite Hne. apply record_dl_get_op.
        -- cbn. discriminate.
      * eapply IC_reply_dropped; [exact Hph|exact Hs|reflexivity].
Qed.

Lemma expired_static s s' p p' :
  op_static p' = op_static p -> s_now s' = s_now s -> expired p' s' = expired p s.
Proof. intros E N. unfold expired. unfold op_static in E. injection E as _ _ _ _ _ ->. rewrite N. reflexivity. Qed.

Lemma cancel_inner_get_op p s o' : get_op (cancel_inner p s) o' = get_op s o'.
Proof. unfold cancel_inner. repeat case_match; reflexivity. Qed.
Lemma cancel_inner_trace p s : s_trace (cancel_inner p s) = s_trace s.
Proof. unfold cancel_inner. repeat case_match; reflexivity. Qed.
Lemma cancel_inner_now p s : s_now (cancel_inner p s) = s_now s.
Proof. unfold cancel_inner. repeat case_match; reflexivity. Qed.

Theorem poll_spec s o p :
  get_op s o = Some p -> is_done (o_ph p) = false ->
  exists p' evs, OpStep s (poll o s) o p p' evs /\ PollCase s p p' evs.
Proof.
  intros Hp Hnd. unfold poll. rewrite Hp, Hnd.
  destruct (poll_inner_spec s o p Hp Hnd) as (p1 & ev1 & [G T St Sl Nw Ot Tk] & HI).
  pose proof (get_op_id s o p Hp) as Hid. subst o.
  unfold post_inner. rewrite G.
  pose proof (expired_static s (poll_inner p s) p p1 St Nw) as Hexp.
  assert (Hid1 : o_id p1 = o_id p) by (unfold op_static in St; congruence).
  assert (Htg1 : o_tgt p1 = o_tgt p) by (unfold op_static in St; congruence).
  assert (Hfn1 : o_fn p1 = o_fn p) by (unfold op_static in St; congruence).
  destruct (is_done (o_ph p1)) eqn:Hd1.
  - (* the inner poll finished the operation *)
    exists p1, ev1. split; [constructor; try assumption; intros Hc; first [congruence | apply Tk; reflexivity]|].
    inversion HI; subst; try (rewrite H in Hd1; rewrite Hnd in Hd1; discriminate);
      try (rewrite H3 in Hd1; discriminate).
    + eapply PC_accept_done; eassumption.
    + eapply PC_send_failed; eassumption.
    + eapply PC_stop_closed; eassumption.
    + eapply PC_reply; eassumption.
    + eapply PC_reply_dropped; eassumption.
  - rewrite Hexp. destruct (expired p s) eqn:He.
    + (* deadline passed while the inner future is still pending *)
      exists (done_f (RErr ETimeout) p1),
             (EvDone (o_id p) (RErr ETimeout) :: dl_events (o_tgt p) (o_id p) (o_fn p) CxElapsed ++ ev1).
      split.
      * constructor.
        -- rewrite finish_get_op, Nat.eqb_refl, record_dl_get_op, cancel_inner_get_op, G. reflexivity.
        -- rewrite (finish_trace _ _ _ p1) by (rewrite record_dl_get_op, cancel_inner_get_op; exact G).
           rewrite record_dl_trace, cancel_inner_trace, T, Htg1, Hfn1. cbn [app]. rewrite app_assoc. reflexivity.
        -- exact St.
        -- exact Sl.
        -- rewrite finish_now, record_dl_now, cancel_inner_now. exact Nw.
        -- intros o' Hne. rewrite finish_get_op. apply Nat.eqb_neq in Hne. rewrite Hne, record_dl_get_op, cancel_inner_get_op.
           apply Ot. apply Nat.eqb_neq. exact Hne.
        -- cbn. discriminate.
      * inversion HI; subst; try (rewrite H3 in Hd1; discriminate); try (rewrite H1 in Hd1; discriminate).
        -- eapply PC_timeout; [exact He|reflexivity|left; reflexivity|assumption].
        -- eapply PC_timeout; [exact He|reflexivity|right; repeat split; assumption|]. intros E. congruence.
    + exists p1, ev1. split; [constructor; try assumption; intros Hc; first [congruence | apply Tk; reflexivity]|].
      inversion HI; subst; try (rewrite H3 in Hd1; discriminate); try (rewrite H1 in Hd1; discriminate).
      * apply PC_pending; assumption.
      * eapply PC_accept_ask; eassumption.
Qed.

(* ---------- cancel ---------- *)
Lemma cancel_spec s o p :
  get_op s o = Some p -> is_done (o_ph p) = false -> o_caller p = None ->
  OpStep s (cancel o s) o p (done_f RCancelled p) [EvDone o RCancelled].
Proof.
  intros Hp Hnd Hc. unfold cancel. rewrite Hp, Hnd, Hc. constructor.
  - rewrite finish_get_op, Nat.eqb_refl, cancel_inner_get_op, Hp. reflexivity.
  - rewrite (finish_trace _ _ _ p) by (rewrite cancel_inner_get_op; exact Hp). rewrite cancel_inner_trace. reflexivity.
  - reflexivity.
  - reflexivity.
  - rewrite finish_now. apply cancel_inner_now.
  - intros o' Hne. rewrite finish_get_op. apply Nat.eqb_neq in Hne. rewrite Hne. apply cancel_inner_get_op.
  - cbn. discriminate.
Qed.

Lemma cancel_noop s o :
  (match get_op s o with Some p => is_done (o_ph p) = true \/ o_caller p <> None | None => True end) ->
  cancel o s = s.
Proof.
  unfold cancel. destruct (get_op s o) as [p|]; [|reflexivity].
  intros [H|H]; [rewrite H; reflexivity|]. destruct (is_done (o_ph p)); [reflexivity|].
  destruct (o_caller p); [reflexivity|congruence].
Qed.

(* ---------- the first poll (begin), when no ask cycle is detected ---------- *)
Inductive BeginCase (s : sys) (p p' : op) : list event -> Prop :=
| BC_accept_ask x :
    o_kind p = KAsk -> get_actor s (o_tgt p) = Some x -> a_closed x = false -> free_slot x = true ->
    o_ph p' = OWaitReply -> expired p s = false ->
    BeginCase s p p' [EvAccept (o_tgt p) (o_id p) KAsk]
| BC_accept_done x :
    o_kind p <> KAsk -> get_actor s (o_tgt p) = Some x -> a_closed x = false -> free_slot x = true ->
    o_ph p' = ODone (ROk 0) ->
    BeginCase s p p' [EvDone (o_id p) (ROk 0); EvAccept (o_tgt p) (o_id p) (o_kind p)]
| BC_wait x :
    get_actor s (o_tgt p) = Some x -> a_closed x = false -> free_slot x = false ->
    o_ph p' = OPre -> expired p s = false -> BeginCase s p p' []
| BC_send_failed x :
    o_kind p <> KStop -> get_actor s (o_tgt p) = Some x -> a_closed x = true ->
    o_ph p' = ODone (RErr ESend) ->
    BeginCase s p p' (EvDone (o_id p) (RErr ESend) :: dl_events (o_tgt p) (o_id p) (o_fn p) CxSend)
| BC_stop_closed x :
    o_kind p = KStop -> get_actor s (o_tgt p) = Some x -> a_closed x = true ->
    o_ph p' = ODone (ROk 0) -> BeginCase s p p' [EvDone (o_id p) (ROk 0)]
| BC_timeout inner x :
    get_actor s (o_tgt p) = Some x -> a_closed x = false ->
    expired p s = true -> o_ph p' = ODone (RErr ETimeout) ->
    (inner = [] \/ (o_kind p = KAsk /\ inner = [EvAccept (o_tgt p) (o_id p) KAsk])) ->
    BeginCase s p p' (EvDone (o_id p) (RErr ETimeout) :: dl_events (o_tgt p) (o_id p) (o_fn p) CxElapsed ++ inner).

(* s1: the state in which the record p (phase OPre) has just been appended *)
Lemma first_poll_spec s1 p :
  get_op s1 (o_id p) = Some p -> o_ph p = OPre -> (exists x, get_actor s1 (o_tgt p) = Some x) ->
  exists p' evs, OpStep s1 (post_inner (o_id p) (try_send p s1)) (o_id p) p p' evs /\ BeginCase s1 p p' evs.
Proof.
  intros Hp Hph [x Hx].
  assert (Hinner : exists p1 ev1, OpStep s1 (try_send p s1) (o_id p) p p1 ev1 /\
            ((is_done (o_ph p1) = true /\ BeginCase s1 p p1 ev1) \/
             (o_ph p1 = OWaitReply /\ o_kind p = KAsk /\ a_closed x = false /\ free_slot x = true /\ ev1 = [EvAccept (o_tgt p) (o_id p) KAsk]) \/
             (o_ph p1 = OPre /\ a_closed x = false /\ free_slot x = false /\ ev1 = []))).
  { unfold try_send. rewrite Hx. destruct (a_closed x) eqn:Hc.
    - destruct (send_failed_step s1 s1 p Hp) as (p1 & H1 & Eph); try reflexivity.
      eexists _, _. split; [exact H1|]. left. rewrite Eph. destruct (o_kind p) eqn:Hk; (split; [reflexivity|]).
      + eapply BC_send_failed; try eassumption; congruence.
      + eapply BC_send_failed; try eassumption; congruence.
      + eapply BC_stop_closed; try eassumption.
    - destruct (free_slot x) eqn:Hf.
      + destruct (accept_step s1 s1 p Hp) as (p1 & H1 & Eph); try reflexivity.
        eexists _, _. split; [exact H1|]. destruct (o_kind p) eqn:Hk.
        * left. rewrite Eph. split; [reflexivity|]. rewrite <- Hk. eapply BC_accept_done; try eassumption; congruence.
        * right. left. repeat split; assumption.
        * left. rewrite Eph. split; [reflexivity|]. rewrite <- Hk. eapply BC_accept_done; try eassumption; congruence.
      + exists p, []. split; [constructor; try reflexivity; exact Hp|]. right. right. repeat split; assumption. }
  destruct Hinner as (p1 & ev1 & [G T St Sl Nw Ot Tk] & Hcase).
  unfold post_inner. rewrite G.
  pose proof (expired_static s1 (try_send p s1) p p1 St Nw) as Hexp.
  assert (Htg1 : o_tgt p1 = o_tgt p) by (unfold op_static in St; congruence).
  assert (Hfn1 : o_fn p1 = o_fn p) by (unfold op_static in St; congruence).
  destruct Hcase as [[Hd HB]|[(Eph & Hk & Hc & Hf & ->)|(Eph & Hc & Hf & ->)]].
  - rewrite Hd. exists p1, ev1. split; [constructor; try assumption; intros Hc; first [congruence | apply Tk; reflexivity]|exact HB].
  - rewrite Eph. cbn [is_done]. rewrite Hexp. destruct (expired p s1) eqn:He.
    + exists (done_f (RErr ETimeout) p1), (EvDone (o_id p) (RErr ETimeout) :: dl_events (o_tgt p) (o_id p) (o_fn p) CxElapsed ++ [EvAccept (o_tgt p) (o_id p) KAsk]).
      split.
      * constructor; try assumption.
        -- rewrite finish_get_op, Nat.eqb_refl, record_dl_get_op, cancel_inner_get_op, G. reflexivity.
        -- rewrite (finish_trace _ _ _ p1) by (rewrite record_dl_get_op, cancel_inner_get_op; exact G).
           rewrite record_dl_trace, cancel_inner_trace, T, Htg1, Hfn1. cbn [app]. rewrite <- ?app_assoc. cbn [app]. reflexivity.
        -- rewrite finish_now, record_dl_now, cancel_inner_now. exact Nw.
        -- intros o' Hne. rewrite finish_get_op. apply Nat.eqb_neq in Hne. rewrite Hne, record_dl_get_op, cancel_inner_get_op.
           apply Ot. apply Nat.eqb_neq. exact Hne.
        -- cbn. discriminate.
      * eapply BC_timeout; [exact Hx|exact Hc|exact He|reflexivity|right; split; [exact Hk|reflexivity]].
    + exists p1, [EvAccept (o_tgt p) (o_id p) KAsk]. split; [constructor; try assumption; intros Hc; first [congruence | apply Tk; reflexivity]|].
      eapply BC_accept_ask; eassumption.
  - rewrite Eph. cbn [is_done]. rewrite Hexp. destruct (expired p s1) eqn:He.
    + exists (done_f (RErr ETimeout) p1), (EvDone (o_id p) (RErr ETimeout) :: dl_events (o_tgt p) (o_id p) (o_fn p) CxElapsed ++ []).
      split.
      * constructor; try assumption.
        -- rewrite finish_get_op, Nat.eqb_refl, record_dl_get_op, cancel_inner_get_op, G. reflexivity.
        -- rewrite (finish_trace _ _ _ p1) by (rewrite record_dl_get_op, cancel_inner_get_op; exact G).
           rewrite record_dl_trace, cancel_inner_trace, T, Htg1, Hfn1. cbn [app]. rewrite <- ?app_assoc. cbn [app]. reflexivity.
        -- rewrite finish_now, record_dl_now, cancel_inner_now. exact Nw.
        -- intros o' Hne. rewrite finish_get_op. apply Nat.eqb_neq in Hne. rewrite Hne, record_dl_get_op, cancel_inner_get_op.
           apply Ot. apply Nat.eqb_neq. exact Hne.
        -- cbn. discriminate.
      * eapply BC_timeout; [exact Hx|exact Hc|exact He|reflexivity|left; reflexivity].
    + exists p1, []. split; [constructor; try assumption; intros Hc; first [congruence | apply Tk; reflexivity]|]. eapply BC_wait; eassumption.
Qed.
