(* Frame for whole-system fields the client-side machinery never touches (id counter, features). *)
From RS Require Import Tactics Frame.

Section SysFrame.
  Context {T : Type} (Q : sys -> T).
  Hypothesis Q_actors : forall v s, Q (set_s_actors v s) = Q s.
  Hypothesis Q_ops : forall v s, Q (set_s_ops v s) = Q s.
  Hypothesis Q_graph : forall v s, Q (set_s_graph v s) = Q s.
  Hypothesis Q_dlcount : forall v s, Q (set_s_dlcount v s) = Q s.
  Hypothesis Q_trace : forall v s, Q (set_s_trace v s) = Q s.

  Lemma Q_emit e s : Q (emit e s) = Q s. Proof. apply Q_trace. Qed.
  Lemma Q_upd_actor a f s : Q (upd_actor a f s) = Q s. Proof. apply Q_actors. Qed.
  Lemma Q_upd_op o f s : Q (upd_op o f s) = Q s. Proof. apply Q_ops. Qed.
  Lemma Q_close_slots os s : Q (close_slots os s) = Q s. Proof. apply Q_ops. Qed.

  Lemma Q_record_dl a o f c s : Q (record_dl a o f c s) = Q s.
  Proof.
    unfold record_dl. generalize (dl_sites (site_fn f c) c). intros l. revert s.
    induction l as [|rl l IH]; intros s; cbn [fold_left]; [reflexivity|].
    rewrite IH. unfold record_one. rewrite Q_emit. destruct (f_testutils (s_feat s)); [apply Q_dlcount|reflexivity].
  Qed.
  Lemma Q_finish o r s : Q (finish o r s) = Q s.
  Proof.
    unfold finish. destruct (get_op s o); [|reflexivity]. rewrite Q_emit.
    unfold clear_hop, drop_guard. repeat case_match; rewrite ?Q_upd_actor, ?Q_graph, ?Q_upd_op; reflexivity.
  Qed.
  Lemma Q_push a o k s : Q (push a o k s) = Q s.
  Proof. unfold push. rewrite Q_emit, Q_upd_actor. reflexivity. Qed.
  Lemma Q_after_push o k s : Q (after_push o k s) = Q s.
  Proof. unfold after_push. destruct k; rewrite ?Q_finish, ?Q_upd_op; reflexivity. Qed.
  Lemma Q_send_failed p s : Q (send_failed p s) = Q s.
  Proof. unfold send_failed. destruct (o_kind p); rewrite Q_finish, ?Q_record_dl; reflexivity. Qed.
  Lemma Q_regrant a s : Q (regrant a s) = Q s. Proof. apply Q_upd_actor. Qed.
  Lemma Q_unwait a o s : Q (unwait a o s) = Q s. Proof. apply Q_upd_actor. Qed.
  Lemma Q_ungrant a o s : Q (ungrant a o s) = Q s. Proof. apply Q_upd_actor. Qed.
  Lemma Q_try_send p s : Q (try_send p s) = Q s.
  Proof.
    unfold try_send. repeat case_match; rewrite ?Q_send_failed, ?Q_after_push, ?Q_push, ?Q_upd_actor; reflexivity.
  Qed.
  Lemma Q_poll_inner p s : Q (poll_inner p s) = Q s.
  Proof.
    unfold poll_inner. repeat case_match;
      rewrite ?Q_send_failed, ?Q_after_push, ?Q_push, ?Q_unwait, ?Q_ungrant, ?Q_finish, ?Q_record_dl; reflexivity.
  Qed.
  Lemma Q_cancel_inner p s : Q (cancel_inner p s) = Q s.
  Proof. unfold cancel_inner. repeat case_match; rewrite ?Q_regrant, ?Q_ungrant, ?Q_unwait; reflexivity. Qed.
  Lemma Q_post_inner o s : Q (post_inner o s) = Q s.
  Proof. unfold post_inner. repeat case_match; rewrite ?Q_finish, ?Q_record_dl, ?Q_cancel_inner; reflexivity. Qed.
  Lemma Q_poll o s : Q (poll o s) = Q s.
  Proof. unfold poll. repeat case_match; rewrite ?Q_post_inner, ?Q_poll_inner; reflexivity. Qed.
  Lemma Q_cancel o s : Q (cancel o s) = Q s.
  Proof. unfold cancel. repeat case_match; rewrite ?Q_finish, ?Q_cancel_inner; reflexivity. Qed.
  Lemma Q_kill a s : Q (kill a s) = Q s.
  Proof. unfold kill. repeat case_match; rewrite ?Q_emit, ?Q_upd_actor; reflexivity. Qed.
  Lemma Q_ref_clone a s : Q (ref_clone a s) = Q s.
  Proof. unfold ref_clone. repeat case_match; rewrite ?Q_upd_actor; reflexivity. Qed.
  Lemma Q_ref_drop a s : Q (ref_drop a s) = Q s.
  Proof. unfold ref_drop. repeat case_match; rewrite ?Q_upd_actor; reflexivity. Qed.
  Lemma Q_ref_upgrade a s : Q (ref_upgrade a s) = Q s.
  Proof. unfold ref_upgrade. repeat case_match; rewrite ?Q_upd_actor; reflexivity. Qed.
  Lemma Q_set_hop c o s : Q (set_hop c o s) = Q s.
  Proof. unfold set_hop. destruct c; rewrite ?Q_upd_actor; reflexivity. Qed.
  Lemma Q_metrics_record a s : Q (metrics_record a s) = Q s.
  Proof. unfold metrics_record. repeat case_match; rewrite ?Q_upd_actor; reflexivity. Qed.
  Lemma Q_end_actor a s : Q (end_actor a s) = Q s.
  Proof. unfold end_actor. repeat case_match; rewrite ?Q_close_slots, ?Q_upd_actor; reflexivity. Qed.
  Lemma Q_finish_task a r s : Q (finish_task a r s) = Q s.
  Proof. unfold finish_task. rewrite Q_emit, Q_end_actor, Q_upd_actor. reflexivity. Qed.
  Lemma Q_panic_actor a s : Q (panic_actor a s) = Q s.
  Proof.
    unfold panic_actor. repeat case_match; rewrite ?Q_finish_task, ?Q_metrics_record, ?Q_close_slots; reflexivity.
  Qed.
  Lemma Q_begin o k a caller tmo fn s : Q (begin o k a caller tmo fn s) = Q s.
  Proof.
    unfold begin. repeat case_match;
      rewrite ?Q_panic_actor, ?Q_post_inner, ?Q_try_send, ?Q_set_hop, ?Q_graph, ?Q_ops, ?Q_emit; reflexivity.
  Qed.
  Lemma Q_enter_stop a k c s : Q (enter_stop a k c s) = Q s.
  Proof. unfold enter_stop. rewrite Q_emit, Q_upd_actor. reflexivity. Qed.
  Lemma Q_take a i tl s : Q (take a i tl s) = Q s.
  Proof. unfold take. rewrite Q_regrant, Q_upd_actor. reflexivity. Qed.
  Lemma Q_start_done a out s : Q (start_done a out s) = Q s.
  Proof.
    unfold start_done. repeat case_match; rewrite ?Q_panic_actor, ?Q_finish_task, ?Q_upd_actor, ?Q_emit; reflexivity.
  Qed.
  Lemma Q_pass_begin a k s : Q (pass_begin a k s) = Q s.
  Proof. unfold pass_begin. repeat case_match; rewrite ?Q_upd_actor; reflexivity. Qed.
  Lemma Q_poll_branch a ro s : Q (poll_branch a ro s) = Q s.
  Proof.
    unfold poll_branch. repeat case_match;
      rewrite ?Q_panic_actor, ?Q_enter_stop, ?Q_emit, ?Q_upd_actor, ?Q_take, ?Q_emit; reflexivity.
  Qed.
  Lemma Q_handle_done a out s : Q (handle_done a out s) = Q s.
  Proof.
    unfold handle_done. repeat case_match;
      rewrite ?Q_panic_actor, ?Q_upd_actor, ?Q_metrics_record, ?Q_upd_op, ?Q_emit; reflexivity.
  Qed.
  Lemma Q_stop_done a out s : Q (stop_done a out s) = Q s.
  Proof.
    unfold stop_done. repeat case_match; rewrite ?Q_panic_actor, ?Q_finish_task, ?Q_emit; reflexivity.
  Qed.

  (* every label except the one that owns the field *)
  Theorem Q_step s l :
    (forall c, l <> LSpawn c) -> l <> LTick -> Q (sys_step s l) = Q s.
  Proof.
    intros H1 H2. destruct l; cbn [sys_step].
    - exfalso. eapply H1. reflexivity.
    - apply Q_begin. - apply Q_poll. - apply Q_cancel. - apply Q_kill.
    - apply Q_ref_clone. - apply Q_ref_drop. - apply Q_ref_upgrade.
    - congruence.
    - apply Q_start_done. - apply Q_pass_begin. - apply Q_poll_branch. - apply Q_handle_done. - apply Q_stop_done.
  Qed.
End SysFrame.
