(* Acceptance order is real-time order (C02): a message whose send had completed before another
   send began sits before it in the target's mailbox history - for every pair of senders. *)
From RS Require Import Tactics Frame ListFacts Spec Silent Lifecycle Queue QueueStep NF ActorSpec Delivery
  StepCases CoreInv OpsSpec OpCases AccTrace Reply.

Lemma accepted_grows_step s l a x :
  get_actor s a = Some x -> exists y d, get_actor (sys_step s l) a = Some y /\ a_accepted y = a_accepted x ++ d.
Proof.
  intros Hx. destruct (step_shape s l) as [Hl H1 H2|a0 x0 f fo evs Hl Hx0 HL E|a0 x0 f fo evs Hl Hx0 HD E|E].
  - destruct (H1 a x Hx) as (y & Hy & _ & d & A & _). eauto.
  - rewrite E, NF_get_actor. destruct (Nat.eqb_spec a a0) as [->|Hne].
    + rewrite Hx0 in *. injection Hx as <-. cbn. exists (f x0), []. rewrite app_nil_r.
      split; [reflexivity|]. apply (local_accepted _ _ _ _ _ _ _ HL).
    + exists x, []. rewrite app_nil_r. auto.
  - rewrite E, NF_get_actor. destruct (Nat.eqb_spec a a0) as [->|Hne].
    + rewrite Hx0 in *. injection Hx as <-. cbn. exists (f x0), []. rewrite app_nil_r.
      split; [reflexivity|]. apply (ddpanic_accepted _ _ _ _ _ _ HD).
    + exists x, []. rewrite app_nil_r. auto.
  - rewrite E. exists x, []. rewrite app_nil_r. auto.
Qed.

Lemma accepted_grows_steps ls s a x :
  get_actor s a = Some x -> exists y d, get_actor (fold_left sys_step ls s) a = Some y /\ a_accepted y = a_accepted x ++ d.
Proof.
  revert s x. induction ls as [|l ls IH]; intros s x Hx; cbn [fold_left].
  - exists x, []. rewrite app_nil_r. auto.
  - destruct (accepted_grows_step s l a x Hx) as (y1 & d1 & Hy1 & E1).
    destruct (IH _ y1 Hy1) as (y & d & Hy & E). exists y, (d1 ++ d). rewrite E, E1, app_assoc. auto.
Qed.

(* the send of p has completed successfully *)
Definition sent_ok (p : op) : Prop :=
  o_ph p = OWaitReply \/ (o_kind p <> KStop /\ exists v, o_ph p = ODone (ROk v)).

Section Run.
  Variables (f : feats) (ls : list label).
  Local Notation S := (run f ls).

  (* a completed send is in the mailbox history of its target *)
  Theorem run_sent_is_accepted o p :
    get_op S o = Some p -> sent_ok p ->
    exists x, get_actor S (o_tgt p) = Some x /\ In (o, o_kind p) (a_accepted x).
  Proof.
    intros Hp Hs. destruct (ask_ok_run f ls) as [Hw Ht _ Hv Hd].
    assert (Hlog : forall k, In (EvAccept (o_tgt p) o k) (s_trace S) -> exists x, get_actor S (o_tgt p) = Some x /\ In (o, k) (a_accepted x)).
    { intros k Hin. apply accept_evs_in in Hin. rewrite (acc_ok_run f ls) in Hin. apply in_rev in Hin.
      unfold accepted_of in Hin. destruct (get_actor S (o_tgt p)) as [x|]; [eauto|destruct Hin]. }
    destruct Hs as [Hph|(Hk & v & Hph)].
    - destruct (Hw o p Hp Hph) as [Ek Hin]. rewrite Ek. apply Hlog, Hin.
    - destruct (o_kind p) eqn:Ek; [|clear Hk|congruence].
      + apply Hlog. eapply Ht; eassumption.
      + (* an ask that returned Ok: its handler ran, so it was dequeued, so it had been accepted *)
        pose proof (Hd o p v Hp Ek Hph) as Hsl. destruct (Hv o p v Hp Hsl) as (a & out & Hin & _ & _).
        pose proof (run_exit_by_target f ls a o out p Hin Hp) as Ea. subst a.
        apply exit_in_hook_events, exits_in in Hin.
        destruct (run_exits_prefix f ls (o_tgt p)) as (rest & E).
        assert (Hh : In o (handled_events (hook_events S (o_tgt p)))).
        { rewrite E. apply in_or_app. left. apply in_map_iff. exists (o, out). auto. }
        destruct (get_actor S (o_tgt p)) as [x|] eqn:Hx.
        * exists x. split; [reflexivity|].
          rewrite (run_handled_is_dequeued f ls _ x Hx) in Hh. apply in_map_iff in Hh. destruct Hh as ([o' k] & Eo & Hi).
          cbn in Eo. subst o'. apply envs_incl in Hi. destruct (run_fifo f ls _ x Hx) as (rest' & Ea).
          assert (Hacc : In (o, k) (a_accepted x)) by (rewrite Ea; apply in_or_app; left; exact Hi).
          destruct (q_ok_run f ls) as (_ & Hq2 & _). destruct (Hq2 _ x o k Hx Hacc) as (p0 & Hp0 & _ & Hk0 & _).
          rewrite Hp in Hp0. injection Hp0 as <-. rewrite Ek in Hk0. subst k. exact Hacc.
        * rewrite (proj2 (lc_ok_run f ls) _ Hx) in Hh. destruct Hh.
  Qed.

  (* real-time order: o1's send completed (state S), o2 had not even begun; whatever happens later,
     if o2 is accepted by the same actor it sits after o1 in the mailbox history *)
  Theorem run_realtime_order ls2 o1 p1 o2 k2 y :
    get_op S o1 = Some p1 -> sent_ok p1 -> get_op S o2 = None ->
    get_actor (run f (ls ++ ls2)) (o_tgt p1) = Some y -> In (o2, k2) (a_accepted y) ->
    exists l1 l2 l3, a_accepted y = l1 ++ (o1, o_kind p1) :: l2 ++ (o2, k2) :: l3.
  Proof.
    intros Hp1 Hs Hn Hy Hin2.
    destruct (run_sent_is_accepted o1 p1 Hp1 Hs) as (x & Hx & Hin1).
    unfold run in Hy. rewrite fold_left_app in Hy. fold (run f ls) in Hy.
    destruct (accepted_grows_steps ls2 S _ x Hx) as (y' & d & Hy' & E). rewrite Hy in Hy'. injection Hy' as <-.
    rewrite E in Hin2 |- *. apply in_app_or in Hin2. destruct Hin2 as [Hin2|Hin2].
    - destruct (q_ok_run f ls) as (_ & Hq2 & _). destruct (Hq2 _ x o2 k2 Hx Hin2) as (p0 & Hp0 & _). congruence.
    - apply in_split in Hin1. destruct Hin1 as (l1 & r1 & ->). apply in_split in Hin2. destruct Hin2 as (l2 & l3 & ->).
      exists l1, (r1 ++ l2), l3. rewrite <- !app_assoc. reflexivity.
  Qed.
End Run.
