(* Relational specification of the actor-side labels: each one changes the state to
   [NF a f fo evs s] for one of the explicitly listed shapes of (f, fo, evs). *)
From RS Require Import Tactics Frame ListFacts NF.

Definition label_actor (l : label) : option aid :=
  match l with
  | AStartDone a _ | APassBegin a _ | APoll a _ | AHandleDone a _ | AStopDone a _ => Some a
  | _ => None end.

Definition handle_f (o : oid) (k : okind) (y : actor) : actor :=
  set_a_pc (PHandle o k) (set_a_ustate (HvHandle o :: a_ustate y) y).
Definition run_f (y : actor) : actor := set_a_ustate (HvRun :: a_ustate y) y.
Definition reply_fo (o : oid) (v : N) (p : op) : op :=
  if o_id p =? o then match o_slot p with SlEmpty => set_o_slot (SlVal v) p | _ => p end else p.
Definition idf : actor -> actor := fun y => y.
Definition ido : op -> op := fun p => p.
Definition pass_order (k : nat) : list branch := if select_biased then select_order else rotate k select_order.

(* when an actor-side label does nothing: its guard does not hold *)
Definition guard_fails (l : label) (x : actor) : Prop :=
  match l with
  | AStartDone _ _ => a_pc x <> PStart \/ hop_free x = false
  | APassBegin _ _ => a_pc x <> PIdle
  | APoll _ _ => forall b rest, a_pc x <> PSel (b :: rest)
  | AHandleDone _ _ => (forall o k, a_pc x <> PHandle o k) \/ hop_free x = false
  | AStopDone _ _ => (forall k c, a_pc x <> PStop k c) \/ hop_free x = false
  | _ => True end.

Inductive Local (s : sys) (a : aid) (x : actor) : label -> (actor -> actor) -> (op -> op) -> list event -> Prop :=
| L_noop l : guard_fails l x -> Local s a x l idf ido []
| L_start_ok out :
    a_pc x = PStart -> hop_free x = true -> (forall e, out <> HErr e) -> out <> HPanic ->
    Local s a x (AStartDone a out) (fun y => set_a_pc PIdle (set_a_ustate [HvStart] y)) ido [EvStartExit a out]
| L_start_err e :
    a_pc x = PStart -> hop_free x = true ->
    Local s a x (AStartDone a (HErr e))
      (fun y => end_f (set_a_pc (PDone (Failed None e OnStart false)) y))
      (close_fo (asks_of (a_mbox x)) ido)
      [EvEnd a (Some (Failed None e OnStart false)); EvStartExit a (HErr e)]
| L_start_panic :
    a_pc x = PStart -> hop_free x = true ->
    Local s a x (AStartDone a HPanic) (fun y => end_f (set_a_pc PPanicked y))
      (close_fo (asks_of (a_mbox x)) ido) [EvEnd a None; EvStartExit a HPanic]
| L_pass_begin k :
    a_pc x = PIdle -> Local s a x (APassBegin a k) (set_a_pc (PSel (pass_order k))) ido []
| L_next b rest ro evs :
    a_pc x = PSel (b :: rest) -> (evs = [] \/ (b = BRun /\ evs = [EvRunPoll a])) ->
    (b = BTerm -> a_term x = false /\ refs_gone s a x = false) ->
    (b = BMail -> a_mbox x = [] /\ refs_gone s a x = false) ->
    Local s a x (APoll a ro) (set_a_pc (after_branch rest)) ido evs
| L_kill rest ro :
    a_pc x = PSel (BTerm :: rest) -> a_term x = true ->
    Local s a x (APoll a ro) (fun y => stop_f true CKill (set_a_term false y)) ido [EvStopEnter a true]
| L_gone_term rest ro :
    a_pc x = PSel (BTerm :: rest) -> a_term x = false -> refs_gone s a x = true ->
    Local s a x (APoll a ro) (stop_f false CRefsGone) ido [EvStopEnter a false]
| L_gone_mail rest ro :
    a_pc x = PSel (BMail :: rest) -> a_mbox x = [] -> refs_gone s a x = true ->
    Local s a x (APoll a ro) (stop_f false CMailNone) ido [EvStopEnter a false]
| L_take_stop rest ro o tl :
    a_pc x = PSel (BMail :: rest) -> a_mbox x = (o, KStop) :: tl ->
    Local s a x (APoll a ro) (fun y => stop_f false CStopMark (take_f (o, KStop) tl y)) ido [EvStopEnter a false]
| L_take_env rest ro o k tl :
    a_pc x = PSel (BMail :: rest) -> a_mbox x = (o, k) :: tl -> k <> KStop ->
    Local s a x (APoll a ro) (fun y => handle_f o k (take_f (o, k) tl y)) ido [EvHandleEnter a o k]
| L_run_again rest ro :
    a_pc x = PSel (BRun :: rest) -> (run_guarded && negb (a_idle x)) = false -> ro = RTrue ->
    Local s a x (APoll a ro) (fun y => set_a_pc PIdle (run_f y)) ido [EvRunDone a ro; EvRunPoll a]
| L_run_off rest ro :
    a_pc x = PSel (BRun :: rest) -> (run_guarded && negb (a_idle x)) = false -> ro = RFalse ->
    Local s a x (APoll a ro) (fun y => set_a_pc PIdle (set_a_idle false (run_f y))) ido [EvRunDone a ro; EvRunPoll a]
| L_run_err rest e :
    a_pc x = PSel (BRun :: rest) -> (run_guarded && negb (a_idle x)) = false ->
    Local s a x (APoll a (RErrO e)) (fun y => stop_f false (CRunErr e) (run_f y)) ido
      [EvStopEnter a false; EvRunDone a (RErrO e); EvRunPoll a]
| L_run_panic rest :
    a_pc x = PSel (BRun :: rest) -> (run_guarded && negb (a_idle x)) = false ->
    Local s a x (APoll a RPanicO) (fun y => end_f (set_a_pc PPanicked y))
      (close_fo (asks_of (a_mbox x)) ido) [EvEnd a None; EvRunDone a RPanicO; EvRunPoll a]
| L_handle_done o k out :
    a_pc x = PHandle o k -> hop_free x = true -> out <> HPanic ->
    Local s a x (AHandleDone a out)
      (fun y => set_a_pc PIdle (mrec_f (f_metrics (s_feat s)) y))
      (match k with KAsk => reply_fo o (hval out) | _ => ido end)
      (match k with KTell => [EvTellResult a o; EvHandleExit a o out] | _ => [EvHandleExit a o out] end)
| L_handle_panic o k :
    a_pc x = PHandle o k -> hop_free x = true ->
    Local s a x (AHandleDone a HPanic)
      (fun y => end_f (set_a_pc PPanicked (mrec_f (f_metrics (s_feat s)) y)))
      (close_fo (asks_of (a_mbox x)) (handle_close o k ido)) [EvEnd a None; EvHandleExit a o HPanic]
| L_stop_done killed c out :
    a_pc x = PStop killed c -> hop_free x = true -> out <> HPanic ->
    Local s a x (AStopDone a out)
      (fun y => end_f (set_a_pc (PDone (stop_result (a_ustate x) killed c out)) y))
      (close_fo (asks_of (a_mbox x)) ido)
      [EvEnd a (Some (stop_result (a_ustate x) killed c out)); EvStopExit a out]
| L_stop_panic killed c :
    a_pc x = PStop killed c -> hop_free x = true ->
    Local s a x (AStopDone a HPanic) (fun y => end_f (set_a_pc PPanicked y))
      (close_fo (asks_of (a_mbox x)) ido) [EvEnd a None; EvStopExit a HPanic].

Lemma NF0 a s : s = NF a idf ido [] s.
Proof. apply NF_id. Qed.

Ltac nf_start a s :=
  let E := fresh "E" in
  pose proof (NF0 a s) as E;
  match goal with |- context [emit ?e s] => rewrite E at 1 end.

Lemma emit_NF0 a s e : emit e s = NF a idf ido [e] s.
Proof. rewrite (NF0 a s) at 1. apply NF_emit. Qed.
Lemma upd_actor_NF0 a s g : upd_actor a g s = NF a g ido [] s.
Proof. rewrite (NF0 a s) at 1. rewrite NF_upd_actor. reflexivity. Qed.
Lemma take_NF0 a s i tl : take a i tl s = NF a (take_f i tl) ido [] s.
Proof. rewrite (NF0 a s) at 1. rewrite NF_take. reflexivity. Qed.
Lemma enter_stop_NF0 a s k c : enter_stop a k c s = NF a (stop_f k c) ido [EvStopEnter a k] s.
Proof. rewrite (NF0 a s) at 1. rewrite NF_enter_stop. reflexivity. Qed.

Ltac done_local c := eexists _, _, _; split; [|c]; reflexivity.

Lemma start_done_nf s a out x :
  get_actor s a = Some x ->
  exists f fo evs, start_done a out s = NF a f fo evs s /\ Local s a x (AStartDone a out) f fo evs.
Proof.
  intros Hx. unfold start_done. rewrite Hx.
  destruct (a_pc x) eqn:Hpc; try (exists idf, ido, []; split; [apply NF0|apply L_noop; left; congruence]).
  destruct (hop_free x) eqn:Hh; [|exists idf, ido, []; split; [apply NF0|apply L_noop; right; exact Hh]].
  rewrite (emit_NF0 a s (EvStartExit a out)).
  destruct out.
  - rewrite NF_upd_actor. eexists _, _, _. split; [reflexivity|]. apply L_start_ok; try assumption; intros; discriminate.
  - rewrite (NF_finish_task a _ _ _ s x _ Hx). eexists _, _, _. split; [reflexivity|]. apply L_start_err; assumption.
  - rewrite (NF_panic_actor_plain a _ _ _ s x Hx) by (intros o k; unfold idf; rewrite Hpc; discriminate).
    eexists _, _, _. split; [reflexivity|]. apply L_start_panic; assumption.
  - rewrite NF_upd_actor. eexists _, _, _. split; [reflexivity|]. apply L_start_ok; try assumption; intros; discriminate.
Qed.

Ltac noop := exists idf, ido, []; split; [apply NF0|apply L_noop; cbn [guard_fails]; first [congruence | left; congruence | right; assumption | intros; congruence | left; intros; congruence]].

Lemma pass_begin_nf s a k x :
  get_actor s a = Some x ->
  exists f fo evs, pass_begin a k s = NF a f fo evs s /\ Local s a x (APassBegin a k) f fo evs.
Proof.
  intros Hx. unfold pass_begin. rewrite Hx.
  destruct (a_pc x) eqn:Hpc; try noop.
  rewrite upd_actor_NF0. eexists _, _, _. split; [reflexivity|]. apply L_pass_begin. exact Hpc.
Qed.

Lemma poll_branch_nf s a ro x :
  get_actor s a = Some x ->
  exists f fo evs, poll_branch a ro s = NF a f fo evs s /\ Local s a x (APoll a ro) f fo evs.
Proof.
  intros Hx. unfold poll_branch. rewrite Hx.
  destruct (a_pc x) as [| |rest| | | |] eqn:Hpc; try noop.
  destruct rest as [|b rest]; [noop|].
  destruct b.
  - (* BTerm *)
    destruct (a_term x) eqn:Ht.
    + rewrite upd_actor_NF0, NF_enter_stop. eexists _, _, _. split; [reflexivity|].
      eapply L_kill; eassumption.
    + destruct (refs_gone s a x) eqn:Hg.
      * rewrite enter_stop_NF0. eexists _, _, _. split; [reflexivity|]. eapply L_gone_term; eassumption.
      * rewrite upd_actor_NF0. eexists _, _, _. split; [reflexivity|].
        eapply L_next; [exact Hpc|left; reflexivity|intros _; split; assumption|discriminate].
  - (* BMail *)
    destruct (a_mbox x) as [|[o k] tl] eqn:Hm.
    + destruct (refs_gone s a x) eqn:Hg.
      * rewrite enter_stop_NF0. eexists _, _, _. split; [reflexivity|]. eapply L_gone_mail; eassumption.
      * rewrite upd_actor_NF0. eexists _, _, _. split; [reflexivity|].
        eapply L_next; [exact Hpc|left; reflexivity|discriminate|intros _; split; assumption].
    + destruct k.
      * rewrite take_NF0, NF_upd_actor, NF_emit. eexists _, _, _. split; [reflexivity|].
        eapply (L_take_env s a x rest ro o KTell tl); [exact Hpc|exact Hm|discriminate].
      * rewrite take_NF0, NF_upd_actor, NF_emit. eexists _, _, _. split; [reflexivity|].
        eapply (L_take_env s a x rest ro o KAsk tl); [exact Hpc|exact Hm|discriminate].
      * rewrite take_NF0, NF_enter_stop. eexists _, _, _. split; [reflexivity|].
        eapply L_take_stop; eassumption.
  - (* BRun *)
    destruct (run_guarded && negb (a_idle x)) eqn:Hgd.
    + rewrite upd_actor_NF0. eexists _, _, _. split; [reflexivity|].
      eapply L_next; [exact Hpc|left; reflexivity|discriminate|discriminate].
    + rewrite (emit_NF0 a s (EvRunPoll a)). destruct ro.
      * rewrite NF_upd_actor. eexists _, _, _. split; [reflexivity|].
        eapply L_next; [exact Hpc|right; split; reflexivity|discriminate|discriminate].
      * rewrite NF_upd_actor, NF_emit. eexists _, _, _. split; [reflexivity|].
        eapply L_run_again; [exact Hpc|exact Hgd|reflexivity].
      * rewrite NF_upd_actor, NF_emit. eexists _, _, _. split; [reflexivity|].
        eapply L_run_off; [exact Hpc|exact Hgd|reflexivity].
      * rewrite NF_upd_actor, NF_emit, NF_enter_stop. eexists _, _, _. split; [reflexivity|].
        eapply L_run_err; [exact Hpc|exact Hgd].
      * rewrite NF_emit. rewrite (NF_panic_actor_plain a _ _ _ s x Hx) by (intros o k; unfold idf; rewrite Hpc; discriminate).
        eexists _, _, _. split; [reflexivity|]. eapply L_run_panic; [exact Hpc|exact Hgd].
Qed.

Lemma handle_done_nf s a out x :
  get_actor s a = Some x ->
  exists f fo evs, handle_done a out s = NF a f fo evs s /\ Local s a x (AHandleDone a out) f fo evs.
Proof.
  intros Hx. unfold handle_done. rewrite Hx.
  destruct (a_pc x) as [| | |o k| | |] eqn:Hpc; try noop.
  destruct (hop_free x) eqn:Hh; [|noop].
  rewrite (emit_NF0 a s (EvHandleExit a o out)).
  assert (Hgen : out <> HPanic ->
    exists f fo evs,
      upd_actor a (set_a_pc PIdle) (metrics_record a
        match k with
        | KAsk => upd_op o (fun p => match o_slot p with SlEmpty => set_o_slot (SlVal (hval out)) p | _ => p end)
                    (NF a idf ido [EvHandleExit a o out] s)
        | KTell => emit (EvTellResult a o) (NF a idf ido [EvHandleExit a o out] s)
        | KStop => NF a idf ido [EvHandleExit a o out] s end) = NF a f fo evs s
      /\ Local s a x (AHandleDone a out) f fo evs).
  { intros Hnp. destruct k.
    - rewrite NF_emit, NF_metrics_record, NF_upd_actor. eexists _, _, _. split; [reflexivity|].
      apply (L_handle_done s a x o KTell out Hpc Hh Hnp).
    - rewrite NF_upd_op, NF_metrics_record, NF_upd_actor. eexists _, _, _. split; [reflexivity|].
      apply (L_handle_done s a x o KAsk out Hpc Hh Hnp).
    - rewrite NF_metrics_record, NF_upd_actor. eexists _, _, _. split; [reflexivity|].
      apply (L_handle_done s a x o KStop out Hpc Hh Hnp). }
  destruct out; try (apply Hgen; discriminate).
  cbv zeta. rewrite (NF_panic_actor_handle a _ _ _ s x o k Hx) by (unfold idf; exact Hpc).
  eexists _, _, _. split; [reflexivity|]. apply (L_handle_panic s a x o k Hpc Hh).
Qed.

Lemma stop_done_nf s a out x :
  get_actor s a = Some x ->
  exists f fo evs, stop_done a out s = NF a f fo evs s /\ Local s a x (AStopDone a out) f fo evs.
Proof.
  intros Hx. unfold stop_done. rewrite Hx.
  destruct (a_pc x) as [| | | |killed c| |] eqn:Hpc; try noop.
  destruct (hop_free x) eqn:Hh; [|noop].
  rewrite (emit_NF0 a s (EvStopExit a out)).
  assert (Hgen : out <> HPanic ->
     exists f fo evs,
       finish_task a (Some (stop_result (a_ustate x) killed c out)) (NF a idf ido [EvStopExit a out] s) = NF a f fo evs s
       /\ Local s a x (AStopDone a out) f fo evs).
  { intros Hnp. rewrite (NF_finish_task a _ _ _ s x _ Hx). eexists _, _, _. split; [reflexivity|].
    apply (L_stop_done s a x killed c out Hpc Hh Hnp). }
  destruct out; try (apply Hgen; discriminate).
  cbv zeta. rewrite (NF_panic_actor_plain a _ _ _ s x Hx) by (intros o k; unfold idf; rewrite Hpc; discriminate).
  eexists _, _, _. split; [reflexivity|]. apply (L_stop_panic s a x killed c Hpc Hh).
Qed.

(* the master lemma *)
Theorem actor_step_nf s l a x :
  label_actor l = Some a -> get_actor s a = Some x ->
  exists f fo evs, sys_step s l = NF a f fo evs s /\ Local s a x l f fo evs.
Proof.
  intros Hl Hx. destruct l; cbn in Hl; try discriminate; injection Hl as ->; cbn [sys_step].
  - apply start_done_nf, Hx.
  - apply pass_begin_nf, Hx.
  - apply poll_branch_nf, Hx.
  - apply handle_done_nf, Hx.
  - apply stop_done_nf, Hx.
Qed.

Theorem actor_step_absent s l a :
  label_actor l = Some a -> get_actor s a = None -> sys_step s l = s.
Proof.
  intros Hl Hx. destruct l; cbn in Hl; try discriminate; injection Hl as ->; cbn [sys_step];
    [unfold start_done|unfold pass_begin|unfold poll_branch|unfold handle_done|unfold stop_done];
    rewrite Hx; reflexivity.
Qed.
