(* The lifecycle invariant: for every actor, the recogniser run over its hook events ends in the
   state its program counter claims (properties C04, C05, C08, C12). *)
From RS Require Import Tactics Frame Spec Silent.

Definition lc_ok (s : sys) : Prop :=
  (forall a x, get_actor s a = Some x -> lc_run LcInit (hook_events s a) = Some (lc_of_actor x)) /\
  (forall a, get_actor s a = None -> hook_events s a = []).

Lemma lc_run_app st es1 es2 :
  lc_run st (es1 ++ es2) = match lc_run st es1 with Some st' => lc_run st' es2 | None => None end.
Proof.
  revert st. induction es1 as [|e es1 IH]; intros st; cbn [lc_run app]; [reflexivity|].
  destruct (lc_step st e); [apply IH|reflexivity].
Qed.

Lemma hook_ev_is_hook a e : hook_ev_of a e = true -> is_hook_ev e = true.
Proof. destruct e; cbn; intros; congruence || reflexivity. Qed.

Lemma quiet_filter a es : quiet_events es -> filter (hook_ev_of a) (rev es) = [].
Proof.
  unfold quiet_events. intros H.
  assert (forall e, In e (rev es) -> hook_ev_of a e = false) as Hall.
  { intros e Hin. apply in_rev in Hin. rewrite forallb_forall in H. specialize (H e Hin).
    destruct (hook_ev_of a e) eqn:E; [|reflexivity].
    apply hook_ev_is_hook in E. rewrite E in H. discriminate. }
  induction (rev es) as [|e l IH]; cbn; [reflexivity|].
  rewrite (Hall e (or_introl eq_refl)). apply IH. intros e' Hin. apply Hall. right; exact Hin.
Qed.

(* --- transitions: how a state change looks to the lifecycle of actor a --- *)
Definition trans (a : aid) (evs : list event) (s s' : sys) : Prop :=
  length (s_actors s') = length (s_actors s) /\
  (forall b, b <> a -> option_map lc_of_actor (get_actor s' b) = option_map lc_of_actor (get_actor s b)) /\
  (forall b, hook_events s' b = hook_events s b ++ (if b =? a then evs else [])).

Lemma trans_silent a s s' : silent s s' -> trans a [] s s'.
Proof.
  intros H. split; [|split].
  - destruct H as [H _]. unfold lcs in H. apply (f_equal (@length _)) in H.
    rewrite !map_length in H. exact H.
  - intros b _. apply silent_get_actor. exact H.
  - intros b. destruct H as [_ (es & T & Q)]. unfold hook_events. rewrite T, rev_app_distr, filter_app.
    rewrite (quiet_filter b es Q). destruct (b =? a); rewrite app_nil_r; reflexivity.
Qed.

Lemma trans_comp a e1 e2 s1 s2 s3 :
  trans a e1 s1 s2 -> trans a e2 s2 s3 -> trans a (e1 ++ e2) s1 s3.
Proof.
  intros (L1 & O1 & H1) (L2 & O2 & H2). split; [congruence|split].
  - intros b Hb. rewrite O2, O1; auto.
  - intros b. rewrite H2, H1. destruct (b =? a); rewrite <- app_assoc; reflexivity.
Qed.

Lemma trans_upd a f s : trans a [] s (upd_actor a f s).
Proof.
  split; [|split].
  - unfold upd_actor; cbn. apply length_upd_nth.
  - intros b Hb. rewrite get_actor_upd_other; auto.
  - intros b. unfold hook_events; cbn. destruct (b =? a); rewrite app_nil_r; reflexivity.
Qed.

Definition ev_of (e : event) : option aid :=
  match e with
  | EvStartEnter b | EvStartExit b _ | EvHandleEnter b _ _ | EvHandleExit b _ _
  | EvTellResult b _ | EvRunDone b _ | EvStopEnter b _ | EvStopExit b _ | EvDeadlock b _ => Some b
  | _ => None end.

Lemma trans_emit a e s : ev_of e = Some a -> trans a [e] s (emit e s).
Proof.
  intros He. split; [reflexivity|split].
  - intros b _. reflexivity.
  - intros b. unfold hook_events. cbn [s_trace emit set_s_trace rev]. rewrite filter_app. cbn [filter].
    assert (hook_ev_of b e = (b =? a)) as ->.
    { destruct e; cbn in He; try discriminate; inv He; cbn; apply Nat.eqb_sym. }
    destruct (b =? a); reflexivity.
Qed.

Lemma trans_emit_quiet a e s : is_hook_ev e = false -> trans a [] s (emit e s).
Proof. intros H. apply trans_silent. apply silent_emit; [exact H|apply silent_refl]. Qed.

(* the link back to the invariant *)
Lemma get_actor_none_len s s' b :
  length (s_actors s') = length (s_actors s) -> get_actor s' b = None -> get_actor s b = None.
Proof.
  unfold get_actor. intros L H. apply nth_error_None in H. apply nth_error_None. lia.
Qed.

Lemma lc_ok_trans a evs s s' :
  lc_ok s -> trans a evs s s' ->
  (get_actor s a <> None \/ evs = []) ->
  (forall x y, get_actor s a = Some x -> get_actor s' a = Some y ->
               lc_run (lc_of_actor x) evs = Some (lc_of_actor y)) ->
  lc_ok s'.
Proof.
  intros [Hok Hnone] (L & O & H) Hex Hlink. split.
  - intros b y Hy.
    rewrite H. destruct (Nat.eqb_spec b a) as [->|Hne].
    + assert (exists x, get_actor s a = Some x) as [x Hx].
      { destruct (get_actor s a) eqn:E; [eauto|].
        apply (get_actor_none_len s' s) in E; [congruence|lia]. }
      rewrite lc_run_app, (Hok a x Hx). apply Hlink; assumption.
    + rewrite app_nil_r. specialize (O b Hne). rewrite Hy in O. cbn in O.
      destruct (get_actor s b) as [x|] eqn:Hx; cbn in O; [|discriminate].
      inv O. rewrite H1. apply Hok. exact Hx.
  - intros b Hb. rewrite H. apply (get_actor_none_len s s' b L) in Hb.
    rewrite (Hnone b Hb). destruct (Nat.eqb_spec b a) as [->|Hne]; [|reflexivity].
    destruct Hex as [Hex|Hex]; [congruence|subst evs; reflexivity].
Qed.

Lemma lc_ok_silent s s' : lc_ok s -> silent s s' -> lc_ok s'.
Proof.
  intros Hok Hs. apply (lc_ok_trans 0 [] s s' Hok (trans_silent 0 s s' Hs)); [right; reflexivity|].
  intros x y Hx Hy. pose proof (silent_get_actor s s' 0 Hs) as E. rewrite Hx, Hy in E. cbn in E.
  inv E. reflexivity.
Qed.

Lemma silent_actor s s' a x :
  silent s s' -> get_actor s a = Some x ->
  exists y, get_actor s' a = Some y /\ lc_of_actor y = lc_of_actor x.
Proof.
  intros Hs Hx. pose proof (silent_get_actor s s' a Hs) as E. rewrite Hx in E.
  destruct (get_actor s' a) as [y|]; cbn in E; [|discriminate]. inv E. eauto.
Qed.

Lemma lc_pc_ust x y :
  lc_of_actor y = lc_of_actor x ->
  (forall r, a_pc x <> PDone r) -> a_pc x <> PPanicked -> a_pc x <> PStart ->
  a_ustate y = a_ustate x.
Proof.
  unfold lc_of_actor. intros H H1 H2 H3.
  destruct (a_pc x) eqn:Ex; try congruence; destruct (a_pc y) eqn:Ey; try congruence.
  all: try (exfalso; eapply H1; reflexivity).
Qed.

(* ---------- building blocks of the actor task ---------- *)
Lemma get_end_actor s a x :
  get_actor s a = Some x ->
  exists y, get_actor (end_actor a s) a = Some y /\ a_pc y = a_pc x /\ a_ustate y = a_ustate x.
Proof.
  intros Hx. unfold end_actor. rewrite Hx. unfold close_slots.
  change (get_actor (set_s_ops ?v ?s) a) with (get_actor s a).
  erewrite get_actor_upd_same by exact Hx. eexists; split; [reflexivity|]. split; reflexivity.
Qed.

Lemma trans_finish_task a r s : trans a [] s (finish_task a r s).
Proof.
  unfold finish_task.
  change (@nil event) with (@nil event ++ []).
  eapply trans_comp; [apply trans_upd|].
  apply trans_silent. apply silent_emit; [reflexivity|]. apply silent_end_actor, silent_refl.
Qed.

Lemma get_finish_task s a r x :
  get_actor s a = Some x ->
  exists y, get_actor (finish_task a r s) a = Some y /\
            lc_of_actor y = match r with Some r' => LcDone r' | None => LcPanicked end.
Proof.
  intros Hx. unfold finish_task. rewrite get_actor_emit.
  destruct (get_end_actor (upd_actor a (set_a_pc match r with Some r' => PDone r' | None => PPanicked end) s) a _
              (get_actor_upd_same _ _ _ _ Hx)) as (y & Hy & Hpc & _).
  exists y. split; [exact Hy|]. unfold lc_of_actor. rewrite Hpc. cbn. destruct r; reflexivity.
Qed.

Lemma silent_pre_panic s a x :
  silent s (match a_pc x with
            | PHandle o k => metrics_record a (match k with KAsk => close_slots [o] s | _ => s end)
            | _ => s end).
Proof.
  destruct (a_pc x); try apply silent_refl.
  apply silent_metrics_record. destruct k; try apply silent_refl. apply silent_close_slots, silent_refl.
Qed.

Lemma trans_panic_actor a s : trans a [] s (panic_actor a s).
Proof.
  unfold panic_actor. destruct (get_actor s a) as [x|] eqn:Hx; [|apply trans_silent, silent_refl].
  change (@nil event) with (@nil event ++ []).
  eapply trans_comp; [apply trans_silent, (silent_pre_panic s a x)|apply trans_finish_task].
Qed.

Lemma get_panic_actor s a x :
  get_actor s a = Some x ->
  exists y, get_actor (panic_actor a s) a = Some y /\ lc_of_actor y = LcPanicked.
Proof.
  intros Hx. unfold panic_actor. rewrite Hx.
  destruct (silent_actor _ _ a x (silent_pre_panic s a x) Hx) as (y1 & Hy1 & _).
  destruct (get_finish_task _ a None y1 Hy1) as (y & Hy & Hlc). eauto.
Qed.

Lemma trans_enter_stop a killed c s : trans a [EvStopEnter a killed] s (enter_stop a killed c s).
Proof.
  unfold enter_stop. change [EvStopEnter a killed] with ([] ++ [EvStopEnter a killed]).
  eapply trans_comp; [apply trans_upd|apply trans_emit; reflexivity].
Qed.

Lemma get_enter_stop s a killed c x :
  get_actor s a = Some x ->
  exists y, get_actor (enter_stop a killed c s) a = Some y /\
            a_pc y = PStop killed c /\ a_ustate y = HvStop killed :: a_ustate x.
Proof.
  intros Hx. unfold enter_stop. rewrite get_actor_emit. erewrite get_actor_upd_same by exact Hx.
  eexists; split; [reflexivity|]. split; reflexivity.
Qed.

(* ---------- one lemma per actor label ---------- *)
Lemma lc_ok_spawn s cap : lc_ok s -> lc_ok (spawn cap s).
Proof.
  intros [Hok Hnone]. unfold spawn. destruct (cap =? 0); [split; assumption|].
  set (n := length (s_actors s)).
  assert (Hn : hook_events s n = []).
  { apply Hnone. unfold get_actor. apply nth_error_None. lia. }
  assert (Hev : forall b, hook_events (emit (EvStartEnter n) (emit (EvSpawn n (s_next s) cap)
                 (set_s_next (wrap64 (s_next s + 1)) (set_s_actors (s_actors s ++
                    [mkActor (s_next s) cap [] [] [] false false 1 true PStart None [] 0%N [] []]) s)))) b
               = hook_events s b ++ (if b =? n then [EvStartEnter n] else [])).
  { intros b. unfold hook_events. cbn [s_trace emit set_s_trace set_s_next set_s_actors rev].
    rewrite !filter_app. cbn [filter hook_ev_of]. rewrite app_nil_r, (Nat.eqb_sym n b).
    destruct (b =? n); reflexivity. }
  split.
  - intros b y Hy. rewrite Hev. unfold get_actor in Hy. cbn in Hy.
    destruct (Nat.lt_ge_cases b n) as [Hlt|Hge].
    + rewrite nth_error_app1 in Hy by exact Hlt.
      assert (b =? n = false) as -> by (apply Nat.eqb_neq; lia).
      rewrite app_nil_r. apply Hok. exact Hy.
    + rewrite nth_error_app2 in Hy by exact Hge. fold n in Hy.
      destruct (b - n) as [|k] eqn:E; cbn in Hy.
      * assert (b = n) as -> by lia. rewrite Nat.eqb_refl, Hn. inv Hy. reflexivity.
      * destruct k; discriminate.
  - intros b Hb. rewrite Hev. unfold get_actor in Hb. cbn in Hb. apply nth_error_None in Hb.
    rewrite app_length in Hb. cbn in Hb. fold n in Hb.
    assert (b =? n = false) as -> by (apply Nat.eqb_neq; lia).
    rewrite app_nil_r. apply Hnone. unfold get_actor. apply nth_error_None. lia.
Qed.

Ltac link_with Hx :=
  let x' := fresh "x'" in let y := fresh "y" in let Hx' := fresh "Hx'" in let Hy := fresh "Hy" in
  intros x' y Hx' Hy; rewrite Hx in Hx'; injection Hx' as Hx'; subst x'.

Lemma stop_result_res_of ust killed c out :
  out <> HPanic ->
  stop_result ust killed c out = res_of ust killed (match c with CRunErr e => Some e | _ => None end) out.
Proof. intros H. destruct out, c; cbn; congruence || reflexivity. Qed.

Lemma lc_ok_start_done s a out : lc_ok s -> lc_ok (start_done a out s).
Proof.
  intros Hok. unfold start_done.
  destruct (get_actor s a) as [x|] eqn:Hx; [|exact Hok].
  destruct (a_pc x) eqn:Hpc; try exact Hok.
  destruct (hop_free x); [|exact Hok].
  assert (Hlx : lc_of_actor x = LcStart) by (unfold lc_of_actor; rewrite Hpc; reflexivity).
  set (s1 := emit (EvStartExit a out) s).
  assert (T1 : trans a [EvStartExit a out] s s1) by (apply trans_emit; reflexivity).
  assert (H1 : get_actor s1 a = Some x) by exact Hx.
  destruct out.
  - (* HOk *)
    apply (lc_ok_trans a ([EvStartExit a HOk] ++ []) s _ Hok).
    + eapply trans_comp; [exact T1|apply trans_upd].
    + left; congruence.
    + link_with Hx. erewrite get_actor_upd_same in Hy by exact H1. inv Hy. rewrite Hlx. reflexivity.
  - (* HErr *)
    apply (lc_ok_trans a ([EvStartExit a (HErr e)] ++ []) s _ Hok).
    + eapply trans_comp; [exact T1|apply trans_finish_task].
    + left; congruence.
    + link_with Hx. destruct (get_finish_task s1 a (Some (Failed None e OnStart false)) x H1) as (y0 & Hy0 & Hl).
      rewrite Hy0 in Hy; inv Hy. rewrite Hlx, Hl. reflexivity.
  - (* HPanic *)
    apply (lc_ok_trans a ([EvStartExit a HPanic] ++ []) s _ Hok).
    + eapply trans_comp; [exact T1|apply trans_panic_actor].
    + left; congruence.
    + link_with Hx. destruct (get_panic_actor s1 a x H1) as (y0 & Hy0 & Hl).
      rewrite Hy0 in Hy; inv Hy. rewrite Hlx, Hl. reflexivity.
  - (* HReply *)
    apply (lc_ok_trans a ([EvStartExit a (HReply v)] ++ []) s _ Hok).
    + eapply trans_comp; [exact T1|apply trans_upd].
    + left; congruence.
    + link_with Hx. erewrite get_actor_upd_same in Hy by exact H1. inv Hy. rewrite Hlx. reflexivity.
Qed.

Lemma lc_ok_pass_begin s a k : lc_ok s -> lc_ok (pass_begin a k s).
Proof.
  intros Hok. unfold pass_begin.
  destruct (get_actor s a) as [x|] eqn:Hx; [|exact Hok].
  destruct (a_pc x) eqn:Hpc; try exact Hok.
  apply (lc_ok_trans a [] s _ Hok); [apply trans_upd|left; congruence|].
  link_with Hx. erewrite get_actor_upd_same in Hy by exact Hx. inv Hy.
  unfold lc_of_actor. rewrite Hpc. reflexivity.
Qed.

Lemma lc_after_branch x rest :
  lc_of_actor (set_a_pc (after_branch rest) x) = LcRun (a_ustate x).
Proof. unfold lc_of_actor, after_branch. destruct rest; reflexivity. Qed.

Lemma lc_ok_poll_branch s a ro : lc_ok s -> lc_ok (poll_branch a ro s).
Proof.
  intros Hok. unfold poll_branch.
  destruct (get_actor s a) as [x|] eqn:Hx; [|exact Hok].
  destruct (a_pc x) as [| |rest| | | |] eqn:Hpc; try exact Hok.
  destruct rest as [|b rest]; [exact Hok|].
  assert (Hlx : lc_of_actor x = LcRun (a_ustate x)) by (unfold lc_of_actor; rewrite Hpc; reflexivity).
  assert (Hnext : lc_ok (upd_actor a (set_a_pc (after_branch rest)) s)).
  { apply (lc_ok_trans a [] s _ Hok); [apply trans_upd|left; congruence|].
    link_with Hx. erewrite get_actor_upd_same in Hy by exact Hx. inv Hy.
    rewrite lc_after_branch, Hlx. reflexivity. }
  assert (Hstop : forall killed c s1,
            (forall e, c <> CRunErr e) -> silent s s1 ->
            lc_ok (enter_stop a killed c s1)).
  { intros killed c s1 Hc Hs.
    destruct (silent_actor s s1 a x Hs Hx) as (y1 & Hy1 & Hl1).
    apply (lc_ok_trans a ([] ++ [EvStopEnter a killed]) s _ Hok).
    - eapply trans_comp; [apply trans_silent, Hs|apply trans_enter_stop].
    - left; congruence.
    - link_with Hx. destruct (get_enter_stop s1 a killed c y1 Hy1) as (y0 & Hy0 & Hp0 & Hu0).
      rewrite Hy0 in Hy; inv Hy. rewrite Hlx. unfold lc_of_actor. rewrite Hp0, Hu0.
      rewrite (lc_pc_ust x y1 Hl1) by (rewrite Hpc; congruence).
      cbn. destruct c; try reflexivity. exfalso; eapply Hc; reflexivity. }
  destruct b.
  - (* BTerm *)
    destruct (a_term x).
    + apply Hstop; [congruence|]. apply silent_upd_actor; [reflexivity|apply silent_refl].
    + destruct (refs_gone s a x); [apply Hstop; [congruence|apply silent_refl]|exact Hnext].
  - (* BMail *)
    destruct (a_mbox x) as [|[o k] tl] eqn:Hmb.
    + destruct (refs_gone s a x); [apply Hstop; [congruence|apply silent_refl]|exact Hnext].
    + assert (Hs : silent s (take a (o, k) tl s)) by (apply silent_take, silent_refl).
      destruct (silent_actor _ _ a x Hs Hx) as (y1 & Hy1 & Hl1).
      assert (Hu1 : a_ustate y1 = a_ustate x) by (apply lc_pc_ust; [exact Hl1|rewrite Hpc; congruence..]).
      destruct k.
      * (* tell *)
        apply (lc_ok_trans a (([] ++ []) ++ [EvHandleEnter a o KTell]) s _ Hok).
        -- eapply trans_comp; [eapply trans_comp; [apply trans_silent, Hs|apply trans_upd]|apply trans_emit; reflexivity].
        -- left; congruence.
        -- link_with Hx. rewrite get_actor_emit in Hy. erewrite get_actor_upd_same in Hy by exact Hy1. inv Hy.
           rewrite Hlx. unfold lc_of_actor. cbn. rewrite Hu1. reflexivity.
      * (* ask *)
        apply (lc_ok_trans a (([] ++ []) ++ [EvHandleEnter a o KAsk]) s _ Hok).
        -- eapply trans_comp; [eapply trans_comp; [apply trans_silent, Hs|apply trans_upd]|apply trans_emit; reflexivity].
        -- left; congruence.
        -- link_with Hx. rewrite get_actor_emit in Hy. erewrite get_actor_upd_same in Hy by exact Hy1. inv Hy.
           rewrite Hlx. unfold lc_of_actor. cbn. rewrite Hu1. reflexivity.
      * (* stop marker *)
        apply Hstop; [congruence|exact Hs].
  - (* BRun *)
    destruct (run_guarded && negb (a_idle x)); [exact Hnext|].
    set (s1 := emit (EvRunPoll a) s).
    assert (Hs1 : silent s s1) by (apply silent_emit; [reflexivity|apply silent_refl]).
    assert (H1 : get_actor s1 a = Some x) by exact Hx.
    destruct ro.
    + (* pending *)
      apply (lc_ok_trans a ([] ++ []) s _ Hok).
      * eapply trans_comp; [apply trans_silent, Hs1|apply trans_upd].
      * left; congruence.
      * link_with Hx. erewrite get_actor_upd_same in Hy by exact H1. inv Hy.
        rewrite lc_after_branch, Hlx. reflexivity.
    + (* true *)
      apply (lc_ok_trans a (([] ++ []) ++ [EvRunDone a RTrue]) s _ Hok).
      * eapply trans_comp; [eapply trans_comp; [apply trans_silent, Hs1|apply trans_upd]|apply trans_emit; reflexivity].
      * left; congruence.
      * link_with Hx. rewrite get_actor_emit in Hy. erewrite get_actor_upd_same in Hy by exact H1. inv Hy.
        rewrite Hlx. reflexivity.
    + (* false *)
      apply (lc_ok_trans a (([] ++ []) ++ [EvRunDone a RFalse]) s _ Hok).
      * eapply trans_comp; [eapply trans_comp; [apply trans_silent, Hs1|apply trans_upd]|apply trans_emit; reflexivity].
      * left; congruence.
      * link_with Hx. rewrite get_actor_emit in Hy. erewrite get_actor_upd_same in Hy by exact H1. inv Hy.
        rewrite Hlx. reflexivity.
    + (* err *)
      set (s2 := emit (EvRunDone a (RErrO e)) (upd_actor a (fun y => set_a_ustate (HvRun :: a_ustate y) y) s1)).
      assert (H2 : get_actor s2 a = Some (set_a_ustate (HvRun :: a_ustate x) x)).
      { unfold s2. rewrite get_actor_emit. erewrite get_actor_upd_same by exact H1. reflexivity. }
      apply (lc_ok_trans a ((([] ++ []) ++ [EvRunDone a (RErrO e)]) ++ [EvStopEnter a false]) s _ Hok).
      * eapply trans_comp; [eapply trans_comp; [eapply trans_comp; [apply trans_silent, Hs1|apply trans_upd]|apply trans_emit; reflexivity]|apply trans_enter_stop].
      * left; congruence.
      * link_with Hx. destruct (get_enter_stop s2 a false (CRunErr e) _ H2) as (y0 & Hy0 & Hp0 & Hu0).
        fold s1 in Hy. fold s2 in Hy. rewrite Hy0 in Hy; inv Hy.
        rewrite Hlx. unfold lc_of_actor. rewrite Hp0, Hu0. reflexivity.
    + (* panic *)
      set (s2 := emit (EvRunDone a RPanicO) s1).
      assert (H2 : get_actor s2 a = Some x) by exact Hx.
      apply (lc_ok_trans a (([] ++ [EvRunDone a RPanicO]) ++ []) s _ Hok).
      * eapply trans_comp; [eapply trans_comp; [apply trans_silent, Hs1|apply trans_emit; reflexivity]|apply trans_panic_actor].
      * left; congruence.
      * link_with Hx. destruct (get_panic_actor s2 a x H2) as (y0 & Hy0 & Hl0).
        fold s1 in Hy; fold s2 in Hy. rewrite Hy0 in Hy; inv Hy. rewrite Hlx, Hl0. reflexivity.
Qed.

Lemma lc_ok_handle_done s a out : lc_ok s -> lc_ok (handle_done a out s).
Proof.
  intros Hok. unfold handle_done.
  destruct (get_actor s a) as [x|] eqn:Hx; [|exact Hok].
  destruct (a_pc x) as [| | |o k| | |] eqn:Hpc; try exact Hok.
  destruct (hop_free x); [|exact Hok].
  assert (Hlx : lc_of_actor x = LcHandle o k (a_ustate x)) by (unfold lc_of_actor; rewrite Hpc; reflexivity).
  set (s1 := emit (EvHandleExit a o out) s).
  assert (T1 : trans a [EvHandleExit a o out] s s1) by (apply trans_emit; reflexivity).
  assert (H1 : get_actor s1 a = Some x) by exact Hx.
  assert (Hpanic : lc_ok (panic_actor a (emit (EvHandleExit a o HPanic) s))).
  { apply (lc_ok_trans a ([EvHandleExit a o HPanic] ++ []) s _ Hok).
    - eapply trans_comp; [apply trans_emit; reflexivity|apply trans_panic_actor].
    - left; congruence.
    - link_with Hx. destruct (get_panic_actor (emit (EvHandleExit a o HPanic) s) a x Hx) as (y0 & Hy0 & Hl).
      rewrite Hy0 in Hy; inv Hy. rewrite Hlx, Hl. cbn. rewrite Nat.eqb_refl. reflexivity. }
  assert (Hgen : out <> HPanic ->
     lc_ok (upd_actor a (set_a_pc PIdle) (metrics_record a
        match k with
        | KAsk => upd_op o (fun p => match o_slot p with SlEmpty => set_o_slot (SlVal (hval out)) p | _ => p end) s1
        | KTell => emit (EvTellResult a o) s1
        | KStop => s1 end))).
  { intros Hnp.
    set (s2 := match k with
               | KAsk => upd_op o (fun p => match o_slot p with SlEmpty => set_o_slot (SlVal (hval out)) p | _ => p end) s1
               | KTell => emit (EvTellResult a o) s1 | KStop => s1 end).
    assert (T2 : trans a (if okind_eqb k KTell then [EvTellResult a o] else []) s1 s2).
    { unfold s2. destruct k; cbn.
      - apply trans_emit; reflexivity.
      - apply trans_silent, silent_upd_op, silent_refl.
      - apply trans_silent, silent_refl. }
    assert (H2 : get_actor s2 a = Some x) by (unfold s2; destruct k; exact Hx).
    assert (Hs3 : silent s2 (metrics_record a s2)) by apply silent_metrics_record, silent_refl.
    destruct (silent_actor _ _ a x Hs3 H2) as (y3 & Hy3 & Hl3).
    apply (lc_ok_trans a ((([EvHandleExit a o out] ++ (if okind_eqb k KTell then [EvTellResult a o] else [])) ++ []) ++ []) s _ Hok).
    - eapply trans_comp; [eapply trans_comp; [eapply trans_comp; [exact T1|exact T2]|apply trans_silent, Hs3]|apply trans_upd].
    - left; congruence.
    - link_with Hx. erewrite get_actor_upd_same in Hy by exact Hy3. inv Hy.
      rewrite Hlx. unfold lc_of_actor. cbn [a_pc set_a_pc a_ustate].
      rewrite (lc_pc_ust x y3 Hl3) by (rewrite Hpc; congruence).
      rewrite !app_nil_r.
      destruct k; cbn; rewrite !Nat.eqb_refl; destruct out; try congruence; cbn; rewrite ?Nat.eqb_refl; reflexivity. }
  destruct out; try (apply Hgen; congruence). exact Hpanic.
Qed.

Lemma lc_ok_stop_done s a out : lc_ok s -> lc_ok (stop_done a out s).
Proof.
  intros Hok. unfold stop_done.
  destruct (get_actor s a) as [x|] eqn:Hx; [|exact Hok].
  destruct (a_pc x) as [| | | |killed c| |] eqn:Hpc; try exact Hok.
  destruct (hop_free x); [|exact Hok].
  assert (Hlx : lc_of_actor x = LcStop killed (match c with CRunErr e => Some e | _ => None end) (a_ustate x))
    by (unfold lc_of_actor; rewrite Hpc; reflexivity).
  set (s1 := emit (EvStopExit a out) s).
  assert (T1 : trans a [EvStopExit a out] s s1) by (apply trans_emit; reflexivity).
  assert (H1 : get_actor s1 a = Some x) by exact Hx.
  assert (Hgen : out <> HPanic ->
            lc_ok (finish_task a (Some (stop_result (a_ustate x) killed c out)) s1)).
  { intros Hnp. apply (lc_ok_trans a ([EvStopExit a out] ++ []) s _ Hok).
    - eapply trans_comp; [exact T1|apply trans_finish_task].
    - left; congruence.
    - link_with Hx. destruct (get_finish_task s1 a (Some (stop_result (a_ustate x) killed c out)) x H1) as (y0 & Hy0 & Hl).
      rewrite Hy0 in Hy; inv Hy. rewrite Hlx, Hl, stop_result_res_of by exact Hnp.
      cbn. destruct out; congruence || reflexivity. }
  destruct out; try (apply Hgen; congruence).
  apply (lc_ok_trans a ([EvStopExit a HPanic] ++ []) s _ Hok).
  - eapply trans_comp; [exact T1|apply trans_panic_actor].
  - left; congruence.
  - link_with Hx. destruct (get_panic_actor s1 a x H1) as (y0 & Hy0 & Hl).
    rewrite Hy0 in Hy; inv Hy. rewrite Hlx, Hl. reflexivity.
Qed.

Lemma dd_check_panic s k caller x b cyc :
  dd_check s k caller x = DDPanic b cyc -> caller = Some b.
Proof.
  unfold dd_check. destruct k, caller; try discriminate.
  repeat case_match; try discriminate. intros H; inv H. reflexivity.
Qed.

Lemma lc_ok_begin s o k a caller tmo fn : lc_ok s -> lc_ok (begin o k a caller tmo fn s).
Proof.
  intros Hok. unfold begin.
  destruct (get_op s o); [exact Hok|].
  destruct (get_actor s a) as [x|] eqn:Hx; [|exact Hok].
  destruct (caller_ok s caller && (0 <? a_ext x)) eqn:Hc; [|exact Hok].
  apply andb_prop in Hc. destruct Hc as [Hc _].
  set (s0 := emit (EvBegin o k a) s).
  assert (Hs0 : silent s s0) by (apply silent_emit; [reflexivity|apply silent_refl]).
  destruct (dd_check s k caller x) as [|b bid|b cyc] eqn:Hdd.
  - apply (lc_ok_silent s _ Hok).
    apply silent_post_inner, silent_try_send, silent_set_hop, silent_set_ops, Hs0.
  - apply (lc_ok_silent s _ Hok).
    apply silent_post_inner, silent_try_send, silent_set_hop, silent_set_graph, silent_set_ops, Hs0.
  - apply dd_check_panic in Hdd. subst caller. cbn in Hc.
    destruct (get_actor s b) as [y|] eqn:Hy; [|discriminate].
    apply andb_prop in Hc. destruct Hc as [Hhook _].
    set (s1 := emit (EvDeadlock b cyc) s0).
    assert (H1 : get_actor s1 b = Some y) by exact Hy.
    apply (lc_ok_trans b (([] ++ [EvDeadlock b cyc]) ++ []) s _ Hok).
    + eapply trans_comp; [eapply trans_comp; [apply trans_silent, Hs0|apply trans_emit; reflexivity]|apply trans_panic_actor].
    + left; congruence.
    + intros y' z Hy' Hz. rewrite Hy in Hy'. injection Hy' as Hy'. subst y'.
      destruct (get_panic_actor s1 b y H1) as (z0 & Hz0 & Hl).
      fold s0 in Hz. fold s1 in Hz. rewrite Hz0 in Hz; inv Hz. rewrite Hl.
      unfold in_hook in Hhook. unfold lc_of_actor. destruct (a_pc y); try discriminate; reflexivity.
Qed.

Theorem lc_ok_step s l : lc_ok s -> lc_ok (sys_step s l).
Proof.
  intros Hok. destruct l; cbn [sys_step].
  - apply lc_ok_spawn, Hok.
  - apply lc_ok_begin, Hok.
  - apply (lc_ok_silent s _ Hok), silent_poll, silent_refl.
  - apply (lc_ok_silent s _ Hok), silent_cancel, silent_refl.
  - apply (lc_ok_silent s _ Hok), silent_kill, silent_refl.
  - apply (lc_ok_silent s _ Hok), silent_ref_clone, silent_refl.
  - apply (lc_ok_silent s _ Hok), silent_ref_drop, silent_refl.
  - apply (lc_ok_silent s _ Hok), silent_ref_upgrade, silent_refl.
  - apply (lc_ok_silent s _ Hok), silent_set_now, silent_refl.
  - apply lc_ok_start_done, Hok.
  - apply lc_ok_pass_begin, Hok.
  - apply lc_ok_poll_branch, Hok.
  - apply lc_ok_handle_done, Hok.
  - apply lc_ok_stop_done, Hok.
Qed.

Lemma lc_ok_init f : lc_ok (init f).
Proof.
  split.
  - intros a x H. unfold get_actor in H. cbn in H. destruct a; discriminate.
  - intros a _. reflexivity.
Qed.

Theorem lc_ok_run f ls : lc_ok (run f ls).
Proof.
  unfold run. generalize (lc_ok_init f). generalize (init f).
  induction ls as [|l ls IH]; intros s H; cbn [fold_left]; [exact H|].
  apply IH, lc_ok_step, H.
Qed.
