(* Generic frame for the client-side machinery: sends, polls, cancellations, dead letters, guards.
   These functions only ever touch the fields mbox / accepted / waiters / granted / hop of an actor
   (and operation records, graph, counters, trace).  Any observation P of an actor that ignores
   those five fields is therefore unchanged by them. *)
From RS Require Import Tactics Frame.

Section ClientFrame.
  Context {T : Type} (P : actor -> T).
  Hypothesis P_mbox : forall v x, P (set_a_mbox v x) = P x.
  Hypothesis P_accepted : forall v x, P (set_a_accepted v x) = P x.
  Hypothesis P_waiters : forall v x, P (set_a_waiters v x) = P x.
  Hypothesis P_granted : forall v x, P (set_a_granted v x) = P x.
  Hypothesis P_hop : forall v x, P (set_a_hop v x) = P x.

  Definition psame (s s' : sys) : Prop := map P (s_actors s') = map P (s_actors s).

  Lemma psame_refl s : psame s s.
  Proof. reflexivity. Qed.

  Lemma psame_get s s' b :
    psame s s' -> option_map P (get_actor s' b) = option_map P (get_actor s b).
  Proof. intros H. unfold get_actor. rewrite <- !nth_error_map. rewrite H. reflexivity. Qed.

  Lemma psame_upd_actor s0 s a f :
    (forall x, P (f x) = P x) -> psame s0 s -> psame s0 (upd_actor a f s).
  Proof.
    intros Hf H. unfold psame, upd_actor in *. cbn [s_actors set_s_actors].
    rewrite <- H. clear H. generalize (s_actors s). intros l. revert a.
    induction l as [|y l IH]; intros [|a]; cbn; try reflexivity.
    - rewrite Hf. reflexivity.
    - rewrite IH. reflexivity.
  Qed.

  Ltac pside := intros ?x; cbv beta; repeat case_match;
                repeat first [rewrite P_mbox | rewrite P_accepted | rewrite P_waiters | rewrite P_granted | rewrite P_hop];
                reflexivity.
  Ltac pprim :=
    first [ assumption | apply psame_refl
          | apply psame_upd_actor; [pside|] ].
  Ltac pauto := repeat (repeat case_match; pprim).

  (* primitives that do not touch the actor list at all are transparent: psame s0 (g s) is
     convertible to psame s0 s for emit / upd_op / set_s_* *)
  Lemma psame_record_dl s0 s a o f c : psame s0 s -> psame s0 (record_dl a o f c s).
  Proof.
    unfold record_dl. generalize (dl_sites (site_fn f c) c). intros l. revert s.
    induction l as [|rl l IH]; intros s H; cbn [fold_left]; [exact H|].
    apply IH. unfold record_one. destruct (f_testutils (s_feat s)); exact H.
  Qed.
  Lemma psame_drop_guard s0 s p : psame s0 s -> psame s0 (drop_guard p s).
  Proof. intros H. unfold drop_guard. repeat case_match; exact H. Qed.
  Lemma psame_clear_hop s0 s p : psame s0 s -> psame s0 (clear_hop p s).
  Proof. intros H. unfold clear_hop. pauto. Qed.
  Lemma psame_set_hop s0 s c o : psame s0 s -> psame s0 (set_hop c o s).
  Proof. intros H. unfold set_hop. pauto. Qed.
  Lemma psame_finish s0 s o r : psame s0 s -> psame s0 (finish o r s).
  Proof.
    intros H. unfold finish. case_match; [|exact H].
    change (psame s0 (clear_hop o0 (drop_guard o0 (upd_op o (fun q => set_o_tracked false (set_o_ph (ODone r) q)) s)))).
    apply psame_clear_hop, psame_drop_guard. exact H.
  Qed.
  Lemma psame_push s0 s a o k : psame s0 s -> psame s0 (push a o k s).
  Proof. intros H. unfold push. change (psame s0 (upd_actor a (fun x => set_a_accepted (a_accepted x ++ [(o, k)]) (set_a_mbox (a_mbox x ++ [(o, k)]) x)) s)). pauto. Qed.
  Lemma psame_after_push s0 s o k : psame s0 s -> psame s0 (after_push o k s).
  Proof. intros H. unfold after_push. destruct k; try (apply psame_finish; exact H). exact H. Qed.
  Lemma psame_send_failed s0 s p : psame s0 s -> psame s0 (send_failed p s).
  Proof. intros H. unfold send_failed. destruct (o_kind p); apply psame_finish; try apply psame_record_dl; exact H. Qed.
  Lemma psame_regrant s0 s a : psame s0 s -> psame s0 (regrant a s).
  Proof. intros H. unfold regrant. pauto. Qed.
  Lemma psame_unwait s0 s a o : psame s0 s -> psame s0 (unwait a o s).
  Proof. intros H. unfold unwait. pauto. Qed.
  Lemma psame_ungrant s0 s a o : psame s0 s -> psame s0 (ungrant a o s).
  Proof. intros H. unfold ungrant. pauto. Qed.
  Lemma psame_try_send s0 s p : psame s0 s -> psame s0 (try_send p s).
  Proof.
    intros H. unfold try_send. repeat case_match.
    - apply psame_send_failed, H.
    - apply psame_after_push, psame_push, H.
    - pauto.
    - exact H.
  Qed.
  Lemma psame_poll_inner s0 s p : psame s0 s -> psame s0 (poll_inner p s).
  Proof.
    intros H. unfold poll_inner. repeat case_match; try exact H.
    - apply psame_send_failed, psame_unwait, psame_ungrant, H.
    - apply psame_after_push, psame_push, psame_ungrant, H.
    - apply psame_finish, H.
    - apply psame_finish, psame_record_dl, H.
  Qed.
  Lemma psame_cancel_inner s0 s p : psame s0 s -> psame s0 (cancel_inner p s).
  Proof.
    intros H. unfold cancel_inner. repeat case_match; try exact H.
    - apply psame_regrant, psame_ungrant, H.
    - apply psame_unwait, H.
  Qed.
  Lemma psame_post_inner s0 s o : psame s0 s -> psame s0 (post_inner o s).
  Proof.
    intros H. unfold post_inner. repeat case_match; try exact H.
    apply psame_finish, psame_record_dl, psame_cancel_inner, H.
  Qed.
  Lemma psame_poll s0 s o : psame s0 s -> psame s0 (poll o s).
  Proof.
    intros H. unfold poll. repeat case_match; try exact H.
    apply psame_post_inner, psame_poll_inner, H.
  Qed.
  Lemma psame_cancel s0 s o : psame s0 s -> psame s0 (cancel o s).
  Proof.
    intros H. unfold cancel. repeat case_match; try exact H.
    apply psame_finish, psame_cancel_inner, H.
  Qed.
  (* the non-panicking part of begin *)
  Lemma psame_begin_send s0 s p caller o g :
    (forall st, psame s0 st -> psame s0 (g st)) ->
    psame s0 s -> psame s0 (post_inner o (try_send p (set_hop caller o (g s)))).
  Proof. intros Hg H. apply psame_post_inner, psame_try_send, psame_set_hop, Hg, H. Qed.
End ClientFrame.
