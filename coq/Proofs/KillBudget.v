(* kill() pre-empts the mailbox (C06, run level): once a Terminate signal is buffered for an actor,
   at most one further handler is ever entered - and only if the loop was already past the
   termination branch of a pass when the signal landed; an actor that is stopping or has ended
   never enters a handler again. *)
From RS Require Import Tactics Frame ListFacts Spec Silent Lifecycle ClientRel NF ActorSpec StepCases CoreInv
  Delivery Idle OpsSpec OpCases Refs.

(* how many more handler entries the state allows; None = no bound *)
Definition kbudget (x : actor) : option nat :=
  match a_pc x with
  | PStop _ _ | PDone _ | PPanicked => Some 0
  | PSel (BMail :: _) => if a_term x then Some 1 else None
  | _ => if a_term x then Some 0 else None
  end.

Definition nh (s : sys) (a : aid) : nat := length (handled_events (hook_events s a)).

(* ---------- a buffered signal stays buffered under everything the clients do ---------- *)
Definition TR (x y : actor) : Prop := a_pc y = a_pc x /\ (a_term x = true -> a_term y = true).
Lemma TR_refl x : TR x x. Proof. split; auto. Qed.
Lemma TR_trans x y z : TR x y -> TR y z -> TR x z.
Proof. intros [P1 T1] [P2 T2]. split; [congruence|auto]. Qed.

Lemma trsame_poll s o : rsame TR s (poll o s).
Proof. apply rsame_poll; try apply rsame_refl; try exact TR_refl; try exact TR_trans; intros; split; auto. Qed.
Lemma trsame_cancel s o : rsame TR s (cancel o s).
Proof. apply rsame_cancel; try apply rsame_refl; try exact TR_refl; try exact TR_trans; intros; split; auto. Qed.

Lemma trsame_upd s a f : (forall x, TR x (f x)) -> rsame TR s (upd_actor a f s).
Proof. intros Hf. apply (rsame_upd_actor TR TR_trans); [exact Hf|apply (rsame_refl TR TR_refl)]. Qed.

Lemma term_mono s l a x y :
  get_actor s a = Some x -> get_actor (sys_step s l) a = Some y -> label_actor l <> Some a ->
  TR x y \/ exists F FO EVS, DdPanic s a x F FO EVS /\ y = F x /\ sys_step s l = NF a F FO EVS s.
Proof.
  intros Hx Hy Hl.
  assert (Hrs : rsame TR s (sys_step s l) -> TR x y).
  { intros H. destruct (rsame_get TR s _ a x H Hx) as (y' & Hy' & HT). congruence. }
  assert (Hsame : get_actor (sys_step s l) a = get_actor s a -> TR x y).
  { intros E. rewrite E, Hx in Hy. injection Hy as <-. apply TR_refl. }
  assert (Hactor : forall b, label_actor l = Some b -> TR x y).
  { intros b Hb. apply Hsame. apply (actor_step_frame s l b a Hb). intros ->. congruence. }
  destruct l; try (left; apply (Hactor a0); reflexivity); cbn [sys_step] in *.
  - left. apply Hsame. rewrite (spawn_get_old s cap a x Hx). symmetry. exact Hx.
  - destruct (begin_cases s o k a0 caller tmo fn) as [E|q g xa _ _ _ _ _ _ _ _ Ga _ _ _ E _ _ _|c xc F FO EVS _ Hxc HD E].
    + left. apply Hsame. rewrite E. reflexivity.
    + left. apply Hrs. rewrite E.
      apply (rsame_begin_send TR TR_refl TR_trans); try (intros; split; auto; fail).
      * intros st Hst. unfold rsame in *. rewrite Ga. exact Hst.
      * unfold rsame. cbn [s_actors set_s_ops emit set_s_trace]. apply (rsame_refl TR TR_refl).
    + destruct (Nat.eqb_spec a c) as [->|Hne].
      * right. rewrite Hxc in Hx. injection Hx as <-. rewrite E, (NF_get_actor_same _ _ _ _ _ _ Hxc) in Hy.
        injection Hy as <-. eauto 6.
      * left. apply Hsame. rewrite E, NF_get_actor. apply Nat.eqb_neq in Hne. rewrite Hne. reflexivity.
  - left. apply Hrs, trsame_poll.
  - left. apply Hrs, trsame_cancel.
  - left. apply Hrs. unfold kill. repeat case_match; try apply (rsame_refl TR TR_refl).
    change (rsame TR s (upd_actor a0 (fun y0 => if a_closed y0 then y0 else set_a_term true y0) s)).
    apply trsame_upd. intros y0. destruct (a_closed y0); split; auto.
  - left. apply Hrs. unfold ref_clone. repeat case_match; try apply (rsame_refl TR TR_refl). apply trsame_upd. intros; split; auto.
  - left. apply Hrs. unfold ref_drop. repeat case_match; try apply (rsame_refl TR TR_refl). apply trsame_upd. intros; split; auto.
  - left. apply Hrs. unfold ref_upgrade. repeat case_match; try apply (rsame_refl TR TR_refl). apply trsame_upd. intros; split; auto.
  - left. apply Hsame. reflexivity.
Qed.

(* ---------- the actor's own step spends the budget ---------- *)
Lemma term_take_f i tl y : a_term (take_f i tl y) = a_term y.
Proof.
  unfold take_f, regrant_f. cbn. destruct (a_waiters y); [reflexivity|].
  match goal with |- context [if ?c then _ else _] => destruct c end; reflexivity.
Qed.
Lemma term_mrec_f on y : a_term (mrec_f on y) = a_term y.
Proof. unfold mrec_f. destruct on; reflexivity. Qed.
Lemma pc_mrec_f on y : a_pc (mrec_f on y) = a_pc y.
Proof. unfold mrec_f. destruct on; reflexivity. Qed.

Definition nhe (a : aid) (evs : list event) : nat := length (handled_events (filter (hook_ev_of a) (rev evs))).

Lemma nhe_nil a : nhe a [] = 0. Proof. reflexivity. Qed.

Ltac bfin Hb :=
  first [ exists 0; split; [reflexivity|lia]
        | destruct (a_term _) eqn:?; [injection Hb as <-; exists 0; split; [reflexivity|lia]|discriminate Hb]
        | destruct (a_term _) eqn:?; [injection Hb as <-; exists 0; split; [reflexivity|cbn; lia]|discriminate Hb] ].

Lemma local_budget s a x l f fo evs n :
  Local s a x l f fo evs -> sel_shape (a_pc x) -> kbudget x = Some n ->
  exists m, kbudget (f x) = Some m /\ nhe a evs + m <= n.
Proof.
  intros HL Hsel Hb. unfold kbudget in *.
  inversion HL; subst;
    try match goal with H : _ \/ _ |- _ => destruct H as [->|[_ ->]] end;
    unfold nhe, stop_f, handle_f, run_f, idf, end_f in *;
    cbn [a_pc a_term set_a_pc set_a_ustate set_a_idle set_a_term set_a_closed set_a_mbox rev app filter hook_ev_of handled_events length] in *;
    rewrite ?Nat.eqb_refl; cbn [handled_events length app filter hook_ev_of];
    rewrite ?pc_take_f, ?term_take_f, ?pc_mrec_f, ?term_mrec_f;
    try (match goal with H : a_pc x = _ |- _ => rewrite H in * end; cbn [sel_shape] in * ).
  all: try (bfin Hb).
  - exists n. split; [exact Hb|lia].
  - unfold after_branch. destruct Hsel as [E|[E|E]]; injection E as Eb Er; subst b rest.
    + match goal with H : BTerm = BTerm -> _ |- _ => destruct (H eq_refl) as [Ht _] end. rewrite Ht in Hb. discriminate.
    + bfin Hb.
    + bfin Hb.
  - unfold after_branch. destruct Hsel as [E|[E|E]]; injection E as Eb Er; subst b rest.
    + match goal with H : BTerm = BTerm -> _ |- _ => destruct (H eq_refl) as [Ht _] end. rewrite Ht in Hb. discriminate.
    + bfin Hb.
    + bfin Hb.
  - destruct k; cbn [rev app filter hook_ev_of handled_events length]; rewrite ?Nat.eqb_refl; cbn [handled_events length]; bfin Hb.
Qed.

Lemma ddpanic_budget s a x f fo evs : DdPanic s a x f fo evs -> kbudget (f x) = Some 0 /\ nhe a evs = 0.
Proof.
  intros HD. inversion HD; subst; unfold kbudget, nhe, end_f;
    cbn [a_pc set_a_pc set_a_closed set_a_term set_a_mbox rev app filter hook_ev_of handled_events length];
    rewrite ?Nat.eqb_refl; cbn [handled_events length filter hook_ev_of app]; split; reflexivity.
Qed.

Lemma kbudget_TR x y n : TR x y -> kbudget x = Some n -> kbudget y = Some n.
Proof.
  intros [P T] H. unfold kbudget in *. rewrite P.
  destruct (a_pc x) as [| |[|[] rest]| | | |]; try exact H;
    (destruct (a_term x); [rewrite (T eq_refl); exact H|discriminate]).
Qed.

Lemma nh_NF_self s a f fo evs : nh (NF a f fo evs s) a = nh s a + nhe a evs.
Proof. unfold nh, nhe. rewrite hook_events_NF_self, handled_events_app, app_length. reflexivity. Qed.

(* ---------- one step, then any number ---------- *)
Theorem budget_step s l a x n :
  sel_ok s -> get_actor s a = Some x -> kbudget x = Some n ->
  exists y m, get_actor (sys_step s l) a = Some y /\ kbudget y = Some m /\ nh (sys_step s l) a + m <= nh s a + n.
Proof.
  intros Hsel Hx Hb.
  destruct (step_cases s l a x Hx) as (y & Hy & HC). exists y.
  destruct HC as [E Hev|f fo evs Hl HL -> E|f fo evs HD -> E].
  - (* not the actor's own step *)
    assert (Hnh : nh (sys_step s l) a = nh s a) by (unfold nh; rewrite Hev; reflexivity).
    destruct (label_actor l) as [b|] eqn:Hlab.
    + destruct (Nat.eqb_spec b a) as [->|Hne].
      * (* its own label but nothing changed: core equal means the guard failed *)
        destruct (actor_step_nf s l a x Hlab Hx) as (f & fo & evs & E' & HL).
        rewrite E', (NF_get_actor_same _ _ _ _ _ _ Hx) in Hy. injection Hy as <-.
        destruct (local_budget s a x l f fo evs n HL (Hsel a x Hx) Hb) as (m & Hm & Hle).
        exists m. split; [rewrite E'; apply (NF_get_actor_same _ _ _ _ _ _ Hx)|]. split; [exact Hm|]. rewrite E', nh_NF_self. lia.
      * destruct (term_mono s l a x y Hx Hy) as [HT|(F & FO & EVS & HD & -> & E')]; [rewrite Hlab; congruence| |].
        -- exists n. split; [exact Hy|]. split; [eapply kbudget_TR; eassumption|lia].
        -- destruct (ddpanic_budget s a x F FO EVS HD) as [Hk Hz]. exists 0. split; [exact Hy|]. split; [exact Hk|].
           rewrite E', nh_NF_self. lia.
    + destruct (term_mono s l a x y Hx Hy) as [HT|(F & FO & EVS & HD & -> & E')]; [rewrite Hlab; discriminate| |].
      * exists n. split; [exact Hy|]. split; [eapply kbudget_TR; eassumption|lia].
      * destruct (ddpanic_budget s a x F FO EVS HD) as [Hk Hz]. exists 0. split; [exact Hy|]. split; [exact Hk|].
        rewrite E', nh_NF_self. lia.
  - destruct (local_budget s a x l f fo evs n HL (Hsel a x Hx) Hb) as (m & Hm & Hle).
    exists m. split; [exact Hy|]. split; [exact Hm|]. rewrite E, nh_NF_self. lia.
  - destruct (ddpanic_budget s a x f fo evs HD) as [Hk Hz]. exists 0. split; [exact Hy|]. split; [exact Hk|].
    rewrite E, nh_NF_self. lia.
Qed.

Section Run.
  Variables (f : feats) (ls : list label).
  Local Notation S := (run f ls).

  (* whatever happens after a state in which the budget is n, at most n more handlers are entered *)
  Theorem run_budget ls2 a x n :
    get_actor S a = Some x -> kbudget x = Some n ->
    exists y m, get_actor (run f (ls ++ ls2)) a = Some y /\ kbudget y = Some m /\
                nh (run f (ls ++ ls2)) a + m <= nh S a + n.
  Proof.
    revert x n. induction ls2 as [|l ls2 IH] using rev_ind; intros x n Hx Hb.
    - rewrite app_nil_r. exists x, n. split; [exact Hx|]. split; [exact Hb|lia].
    - destruct (IH x n Hx Hb) as (y & m & Hy & Hm & Hle).
      rewrite app_assoc. unfold run at 1 2. rewrite fold_left_app. cbn [fold_left]. fold (run f (ls ++ ls2)).
      destruct (budget_step (run f (ls ++ ls2)) l a y m (proj2 (idle_sel_run f (ls ++ ls2))) Hy Hm) as (z & k & Hz & Hk & Hle2).
      exists z, k. split; [exact Hz|]. split; [exact Hk|]. lia.
  Qed.

  (* C06: a Terminate signal is buffered for a running actor *)
  Theorem run_after_kill_at_most_one ls2 a x :
    get_actor S a = Some x -> a_term x = true ->
    nh (run f (ls ++ ls2)) a <= nh S a + 1 /\
    ((forall rest, a_pc x <> PSel (BMail :: rest)) -> nh (run f (ls ++ ls2)) a <= nh S a).
  Proof.
    intros Hx Ht.
    assert (Hb : exists n, kbudget x = Some n /\ n <= 1 /\ ((forall rest, a_pc x <> PSel (BMail :: rest)) -> n = 0)).
    { unfold kbudget. rewrite Ht. destruct (a_pc x) as [| |[|[] rest]| | | |]; eauto 6;
        try (exists 0; repeat split; auto; fail).
      exists 1. repeat split; auto. intros H. exfalso. eapply H. reflexivity. }
    destruct Hb as (n & Hb & Hn1 & Hn0).
    destruct (run_budget ls2 a x n Hx Hb) as (y & m & _ & _ & Hle). split; [lia|].
    intros Hpc. specialize (Hn0 Hpc). lia.
  Qed.
End Run.
