(* Normal form of a state change made by the task of actor a: one function applied to that actor,
   one function mapped over the operation records, and a list of emitted events.  Every actor-side
   label of the model normalises to this form, after which all questions about the new state
   (which actor changed how, which events were emitted, what happened to an operation) are answered
   by computation. *)
From RS Require Import Tactics Frame ListFacts.

Definition NF (a : aid) (f : actor -> actor) (fo : op -> op) (evs : list event) (s : sys) : sys :=
  mkSys (upd_nth a f (s_actors s)) (map fo (s_ops s)) (s_next s) (s_graph s) (s_now s)
        (s_dlcount s) (s_feat s) (evs ++ s_trace s).

Lemma upd_nth_id {A} (l : list A) n : upd_nth n (fun x => x) l = l.
Proof. revert n. induction l as [|y l IH]; intros [|n]; cbn; try reflexivity. rewrite IH. reflexivity. Qed.
Lemma upd_nth_compose {A} (f g : A -> A) (l : list A) n :
  upd_nth n g (upd_nth n f l) = upd_nth n (fun x => g (f x)) l.
Proof. revert n. induction l as [|y l IH]; intros [|n]; cbn; try reflexivity. f_equal. apply IH. Qed.

Lemma NF_id a s : s = NF a (fun x => x) (fun p => p) [] s.
Proof. unfold NF. rewrite upd_nth_id, map_id. destruct s; reflexivity. Qed.

Lemma NF_emit a f fo evs s e : emit e (NF a f fo evs s) = NF a f fo (e :: evs) s.
Proof. reflexivity. Qed.
Lemma NF_upd_actor a f fo evs s g :
  upd_actor a g (NF a f fo evs s) = NF a (fun x => g (f x)) fo evs s.
Proof. unfold NF, upd_actor. cbn. rewrite upd_nth_compose. reflexivity. Qed.
Lemma NF_upd_op a f fo evs s o g :
  upd_op o g (NF a f fo evs s) = NF a f (fun p => if o_id (fo p) =? o then g (fo p) else fo p) evs s.
Proof. unfold NF, upd_op. cbn. rewrite map_map. reflexivity. Qed.
Lemma NF_close_slots a f fo evs s os :
  close_slots os (NF a f fo evs s) =
  NF a f (fun p => if existsb (Nat.eqb (o_id (fo p))) os
                   then match o_slot (fo p) with SlEmpty => set_o_slot SlClosed (fo p) | _ => fo p end
                   else fo p) evs s.
Proof. unfold NF, close_slots. cbn. rewrite map_map. reflexivity. Qed.

Lemma NF_get_actor a f fo evs s b :
  get_actor (NF a f fo evs s) b = if b =? a then option_map f (get_actor s b) else get_actor s b.
Proof. unfold get_actor, NF. cbn. apply nth_error_upd_nth. Qed.
Lemma NF_get_actor_same a f fo evs s x :
  get_actor s a = Some x -> get_actor (NF a f fo evs s) a = Some (f x).
Proof. intros H. rewrite NF_get_actor, Nat.eqb_refl, H. reflexivity. Qed.
Lemma NF_get_op a f fo evs s o :
  (forall p, o_id (fo p) = o_id p) ->
  get_op (NF a f fo evs s) o = option_map fo (get_op s o).
Proof. intros H. unfold get_op, NF. cbn. apply find_map_id. exact H. Qed.
Lemma NF_trace a f fo evs s : s_trace (NF a f fo evs s) = evs ++ s_trace s.
Proof. reflexivity. Qed.
Lemma NF_feat a f fo evs s : s_feat (NF a f fo evs s) = s_feat s.
Proof. reflexivity. Qed.
Lemma NF_ops a f fo evs s : s_ops (NF a f fo evs s) = map fo (s_ops s).
Proof. reflexivity. Qed.

(* ---------- the task-side building blocks in normal form ---------- *)
Definition regrant_f (x : actor) : actor :=
  match a_waiters x with
  | w :: ws => if free_slot x && negb (a_closed x)
               then set_a_granted (a_granted x ++ [w]) (set_a_waiters ws x) else x
  | [] => x end.

Lemma NF_regrant a f fo evs s : regrant a (NF a f fo evs s) = NF a (fun x => regrant_f (f x)) fo evs s.
Proof. unfold regrant. apply NF_upd_actor. Qed.

Definition take_f (i : item) (tl : list item) (x : actor) : actor :=
  regrant_f (set_a_taken (a_taken x ++ [i]) (set_a_mbox tl x)).
Lemma NF_take a f fo evs s i tl :
  take a i tl (NF a f fo evs s) = NF a (fun x => take_f i tl (f x)) fo evs s.
Proof. unfold take. rewrite NF_upd_actor, NF_regrant. reflexivity. Qed.

Definition stop_f (killed : bool) (c : cause) (x : actor) : actor :=
  set_a_pc (PStop killed c) (set_a_ustate (HvStop killed :: a_ustate x) x).
Lemma NF_enter_stop a f fo evs s killed c :
  enter_stop a killed c (NF a f fo evs s) = NF a (fun x => stop_f killed c (f x)) fo (EvStopEnter a killed :: evs) s.
Proof. unfold enter_stop. rewrite NF_upd_actor, NF_emit. reflexivity. Qed.

Definition end_f (x : actor) : actor := set_a_closed true (set_a_term false (set_a_mbox [] x)).
Definition asks_of (l : list item) : list oid := map fst (filter (fun i => okind_eqb (snd i) KAsk) l).
Definition close_fo (os : list oid) (fo : op -> op) (p : op) : op :=
  if existsb (Nat.eqb (o_id (fo p))) os
  then match o_slot (fo p) with SlEmpty => set_o_slot SlClosed (fo p) | _ => fo p end
  else fo p.

Lemma NF_end_actor a f fo evs s x :
  get_actor s a = Some x ->
  end_actor a (NF a f fo evs s) = NF a (fun y => end_f (f y)) (close_fo (asks_of (a_mbox (f x))) fo) evs s.
Proof.
  intros Hx. unfold end_actor. rewrite (NF_get_actor_same _ _ _ _ _ _ Hx).
  rewrite NF_upd_actor, NF_close_slots. reflexivity.
Qed.

Definition done_pc (r : option aresult) : pc := match r with Some r' => PDone r' | None => PPanicked end.
Lemma NF_finish_task a f fo evs s x r :
  get_actor s a = Some x ->
  finish_task a r (NF a f fo evs s) =
  NF a (fun y => end_f (set_a_pc (done_pc r) (f y))) (close_fo (asks_of (a_mbox (f x))) fo) (EvEnd a r :: evs) s.
Proof.
  intros Hx. unfold finish_task. rewrite NF_upd_actor.
  rewrite (NF_end_actor a _ fo evs s x Hx), NF_emit. reflexivity.
Qed.

Definition mrec_f (on : bool) (x : actor) : actor :=
  if on then set_a_mcount (wrap64 (a_mcount x + 1)) x else x.
Lemma NF_metrics_record a f fo evs s :
  metrics_record a (NF a f fo evs s) = NF a (fun x => mrec_f (f_metrics (s_feat s)) (f x)) fo evs s.
Proof.
  unfold metrics_record. rewrite NF_feat. unfold mrec_f. destruct (f_metrics (s_feat s)).
  - apply NF_upd_actor.
  - reflexivity.
Qed.

(* a hook of a unwinds *)
Lemma NF_panic_actor_plain a f fo evs s x :
  get_actor s a = Some x -> (forall o k, a_pc (f x) <> PHandle o k) ->
  panic_actor a (NF a f fo evs s) =
  NF a (fun y => end_f (set_a_pc PPanicked (f y))) (close_fo (asks_of (a_mbox (f x))) fo)
     (EvEnd a None :: evs) s.
Proof.
  intros Hx Hpc. unfold panic_actor. rewrite (NF_get_actor_same _ _ _ _ _ _ Hx).
  destruct (a_pc (f x)) eqn:E; try (exfalso; eapply Hpc; reflexivity);
    apply (NF_finish_task a f fo evs s x None Hx).
Qed.

Definition handle_close (o : oid) (k : okind) (fo : op -> op) : op -> op :=
  match k with KAsk => close_fo [o] fo | _ => fo end.

Lemma mbox_mrec on y : a_mbox (mrec_f on y) = a_mbox y.
Proof. unfold mrec_f. destruct on; reflexivity. Qed.

Lemma NF_panic_actor_handle a f fo evs s x o k :
  get_actor s a = Some x -> a_pc (f x) = PHandle o k ->
  panic_actor a (NF a f fo evs s) =
  NF a (fun y => end_f (set_a_pc PPanicked (mrec_f (f_metrics (s_feat s)) (f y))))
     (close_fo (asks_of (a_mbox (f x))) (handle_close o k fo)) (EvEnd a None :: evs) s.
Proof.
  intros Hx Hpc. unfold panic_actor. rewrite (NF_get_actor_same _ _ _ _ _ _ Hx), Hpc.
  unfold handle_close. destruct k.
  - rewrite NF_metrics_record, (NF_finish_task a _ _ _ s x None Hx), mbox_mrec. reflexivity.
  - rewrite NF_close_slots, NF_metrics_record, (NF_finish_task a _ _ _ s x None Hx), mbox_mrec. reflexivity.
  - rewrite NF_metrics_record, (NF_finish_task a _ _ _ s x None Hx), mbox_mrec. reflexivity.
Qed.
