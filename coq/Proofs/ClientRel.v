(* A relational frame for the client-side machinery.  ClientFrame says which observations of an
   actor the sends / polls / cancellations leave unchanged; here we say how they may change an
   actor: by any reflexive-transitive relation R that admits rewriting waiters / granted / hop and
   appending one item to mailbox and accepted list of an actor whose channel is still open. *)
From RS Require Import Tactics Frame.

Section ClientRel.
  Variable R : actor -> actor -> Prop.
  Hypothesis R_refl : forall x, R x x.
  Hypothesis R_trans : forall x y z, R x y -> R y z -> R x z.
  Hypothesis R_waiters : forall v x, R x (set_a_waiters v x).
  Hypothesis R_granted : forall v x, R x (set_a_granted v x).
  Hypothesis R_hop : forall v x, R x (set_a_hop v x).
  Hypothesis R_push : forall i x, a_closed x = false ->
    R x (set_a_accepted (a_accepted x ++ [i]) (set_a_mbox (a_mbox x ++ [i]) x)).

  Definition rsame (s s' : sys) : Prop := Forall2 R (s_actors s) (s_actors s').

  Lemma rsame_refl s : rsame s s.
  Proof. unfold rsame. induction (s_actors s); constructor; auto. Qed.

  Lemma rsame_get s s' b x :
    rsame s s' -> get_actor s b = Some x -> exists y, get_actor s' b = Some y /\ R x y.
  Proof.
    unfold rsame, get_actor. intros H. revert b. induction H as [|x0 y0 l l' Hxy H IH]; intros [|b] Hb; cbn in *; try discriminate.
    - injection Hb as <-. eauto.
    - apply IH, Hb.
  Qed.
  Lemma rsame_get_rev s s' b y :
    rsame s s' -> get_actor s' b = Some y -> exists x, get_actor s b = Some x /\ R x y.
  Proof.
    unfold rsame, get_actor. intros H. revert b. induction H as [|x0 y0 l l' Hxy H IH]; intros [|b] Hb; cbn in *; try discriminate.
    - injection Hb as <-. eauto.
    - apply IH, Hb.
  Qed.

  Lemma rsame_upd_actor_at s0 s a f :
    (forall x, get_actor s a = Some x -> R x (f x)) -> rsame s0 s -> rsame s0 (upd_actor a f s).
  Proof.
    unfold rsame, upd_actor, get_actor. cbn [s_actors set_s_actors]. intros Hf H. revert a Hf.
    induction H as [|x0 y0 l l' Hxy H IH]; intros [|a] Hf; cbn in *; try constructor; auto.
    eapply R_trans; [exact Hxy|]. apply Hf. reflexivity.
  Qed.
  Lemma rsame_upd_actor s0 s a f : (forall x, R x (f x)) -> rsame s0 s -> rsame s0 (upd_actor a f s).
  Proof. intros Hf. apply rsame_upd_actor_at. intros x _. apply Hf. Qed.

  Ltac rside := intros ?x; cbv beta; repeat case_match;
    repeat first [ apply R_refl
                 | eapply R_trans; [|apply R_waiters]
                 | eapply R_trans; [|apply R_granted]
                 | eapply R_trans; [|apply R_hop] ].
  Ltac rprim := first [ assumption | apply rsame_refl | apply rsame_upd_actor; [rside|] ].
  Ltac rauto := repeat (repeat case_match; rprim).

  Lemma rsame_record_dl s0 s a o f c : rsame s0 s -> rsame s0 (record_dl a o f c s).
  Proof.
    unfold record_dl. generalize (dl_sites (site_fn f c) c). intros l. revert s.
    induction l as [|rl l IH]; intros s H; cbn [fold_left]; [exact H|].
    apply IH. unfold record_one. destruct (f_testutils (s_feat s)); exact H.
  Qed.
  Lemma rsame_drop_guard s0 s p : rsame s0 s -> rsame s0 (drop_guard p s).
  Proof. intros H. unfold drop_guard. repeat case_match; exact H. Qed.
  Lemma rsame_clear_hop s0 s p : rsame s0 s -> rsame s0 (clear_hop p s).
  Proof. intros H. unfold clear_hop. rauto. Qed.
  Lemma rsame_set_hop s0 s c o : rsame s0 s -> rsame s0 (set_hop c o s).
  Proof. intros H. unfold set_hop. rauto. Qed.
  Lemma rsame_finish s0 s o r : rsame s0 s -> rsame s0 (finish o r s).
  Proof.
    intros H. unfold finish. case_match; [|exact H].
    change (rsame s0 (clear_hop o0 (drop_guard o0 (upd_op o (fun q => set_o_tracked false (set_o_ph (ODone r) q)) s)))).
    apply rsame_clear_hop, rsame_drop_guard. exact H.
  Qed.
  Lemma rsame_push s0 s a o k :
    (forall x, get_actor s a = Some x -> a_closed x = false) -> rsame s0 s -> rsame s0 (push a o k s).
  Proof.
    intros Hc H. unfold push.
    change (rsame s0 (upd_actor a (fun x => set_a_accepted (a_accepted x ++ [(o, k)]) (set_a_mbox (a_mbox x ++ [(o, k)]) x)) s)).
    apply rsame_upd_actor_at; [|exact H]. intros x Hx. apply R_push, (Hc x Hx).
  Qed.
  Lemma rsame_after_push s0 s o k : rsame s0 s -> rsame s0 (after_push o k s).
  Proof. intros H. unfold after_push. destruct k; try (apply rsame_finish; exact H). exact H. Qed.
  Lemma rsame_send_failed s0 s p : rsame s0 s -> rsame s0 (send_failed p s).
  Proof. intros H. unfold send_failed. destruct (o_kind p); apply rsame_finish; try apply rsame_record_dl; exact H. Qed.
  Lemma rsame_regrant s0 s a : rsame s0 s -> rsame s0 (regrant a s).
  Proof. intros H. unfold regrant. rauto. Qed.
  Lemma rsame_unwait s0 s a o : rsame s0 s -> rsame s0 (unwait a o s).
  Proof. intros H. unfold unwait. rauto. Qed.
  Lemma rsame_ungrant s0 s a o : rsame s0 s -> rsame s0 (ungrant a o s).
  Proof. intros H. unfold ungrant. rauto. Qed.
  Lemma rsame_try_send s0 s p : rsame s0 s -> rsame s0 (try_send p s).
  Proof.
    intros H. unfold try_send. destruct (get_actor s (o_tgt p)) as [x|] eqn:Hx; [|exact H].
    destruct (a_closed x) eqn:Hc; [apply rsame_send_failed, H|].
    destruct (free_slot x).
    - apply rsame_after_push, rsame_push; [|exact H]. intros x' Hx'. congruence.
    - rauto.
  Qed.
  Lemma rsame_poll_inner s0 s p : rsame s0 s -> rsame s0 (poll_inner p s).
  Proof.
    intros H. unfold poll_inner. destruct (get_actor s (o_tgt p)) as [x|] eqn:Hx; [|exact H].
    destruct (o_ph p); try exact H.
    - destruct (a_closed x) eqn:Hc; [apply rsame_send_failed, rsame_unwait, rsame_ungrant, H|].
      destruct (is_granted x (o_id p)); [|exact H].
      apply rsame_after_push, rsame_push; [|apply rsame_ungrant, H].
      intros x' Hx'. unfold ungrant in Hx'. rewrite (get_actor_upd_same _ _ _ _ Hx) in Hx'.
      injection Hx' as <-. exact Hc.
    - destruct (o_slot p); try exact H.
      + apply rsame_finish, H.
      + apply rsame_finish, rsame_record_dl, H.
  Qed.
  Lemma rsame_cancel_inner s0 s p : rsame s0 s -> rsame s0 (cancel_inner p s).
  Proof.
    intros H. unfold cancel_inner. repeat case_match; try exact H.
    - apply rsame_regrant, rsame_ungrant, H.
    - apply rsame_unwait, H.
  Qed.
  Lemma rsame_post_inner s0 s o : rsame s0 s -> rsame s0 (post_inner o s).
  Proof.
    intros H. unfold post_inner. repeat case_match; try exact H.
    apply rsame_finish, rsame_record_dl, rsame_cancel_inner, H.
  Qed.
  Lemma rsame_poll s0 s o : rsame s0 s -> rsame s0 (poll o s).
  Proof.
    intros H. unfold poll. repeat case_match; try exact H.
    apply rsame_post_inner, rsame_poll_inner, H.
  Qed.
  Lemma rsame_cancel s0 s o : rsame s0 s -> rsame s0 (cancel o s).
  Proof.
    intros H. unfold cancel. repeat case_match; try exact H.
    apply rsame_finish, rsame_cancel_inner, H.
  Qed.
  (* the non-panicking part of begin *)
  Lemma rsame_begin_send s0 s p caller o g :
    (forall st, rsame s0 st -> rsame s0 (g st)) ->
    rsame s0 s -> rsame s0 (post_inner o (try_send p (set_hop caller o (g s)))).
  Proof. intros Hg H. apply rsame_post_inner, rsame_try_send, rsame_set_hop, Hg, H. Qed.
End ClientRel.
