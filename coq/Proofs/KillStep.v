(* Step-level facts about kill() and the pass that follows it (property C06). *)
From RS Require Import Tactics Frame.

(* The structural facts read from the source, consumed in exactly one place. *)
Lemma shape_select :
  select_biased = true /\ select_order = [BTerm; BMail; BRun] /\ run_guarded = true.
Proof. repeat split; reflexivity. Qed.

(* kill never blocks and never fails: it is one total step whose only effect on the state is
   the buffered signal (absorbed when one is already buffered or the channel is closed). *)
Lemma kill_total s a x :
  get_actor s a = Some x -> 0 < a_ext x ->
  let s' := sys_step s (LKill a) in
  s_trace s' = EvKill a :: s_trace s /\
  s_ops s' = s_ops s /\ s_graph s' = s_graph s /\ s_now s' = s_now s /\
  (forall b, b <> a -> get_actor s' b = get_actor s b) /\
  get_actor s' a = Some (if a_closed x then x else set_a_term true x).
Proof.
  intros Hx Hext. cbn [sys_step]. unfold kill. rewrite Hx.
  apply Nat.ltb_lt in Hext. rewrite Hext.
  repeat split; try reflexivity.
  - intros b Hb. rewrite get_actor_emit. apply get_actor_upd_other; assumption.
  - rewrite get_actor_emit. apply get_actor_upd_same with (f := fun y => if a_closed y then y else set_a_term true y) in Hx. exact Hx.
Qed.

(* Every poll of the select that begins while a kill signal is buffered takes branch 1:
   it consumes the signal and enters on_stop(killed = true) without touching the mailbox. *)
Lemma pass_after_kill s a x k ro :
  get_actor s a = Some x -> a_pc x = PIdle -> a_term x = true ->
  let s' := sys_step (sys_step s (APassBegin a k)) (APoll a ro) in
  exists y, get_actor s' a = Some y /\
    a_pc y = PStop true CKill /\ a_term y = false /\
    a_mbox y = a_mbox x /\ a_taken y = a_taken x /\
    s_trace s' = EvStopEnter a true :: s_trace s /\
    s_ops s' = s_ops s.
Proof.
  intros Hx Hpc Hterm. cbn [sys_step].
  unfold pass_begin. rewrite Hx, Hpc.
  destruct shape_select as (Hb & Ho & _). rewrite Hb, Ho.
  unfold poll_branch.
  rewrite (get_actor_upd_same _ _ _ _ Hx). cbn [a_pc set_a_pc a_term].
  rewrite Hterm.
  unfold enter_stop.
  eexists. split.
  - rewrite get_actor_emit.
    erewrite get_actor_upd_same; [reflexivity|].
    erewrite get_actor_upd_same; [reflexivity|].
    erewrite get_actor_upd_same; [reflexivity|exact Hx].
  - cbn. repeat split; reflexivity.
Qed.
