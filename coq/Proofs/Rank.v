(* "Eventually ends" as a ranking argument (C07).  Once a stop request is queued, every state of a
   running actor has a rank - the number of its own steps until on_stop is entered - such that
   (1) nothing anybody else does raises it (later sends queue up behind the marker),
   (2) every enabled step of the actor itself lowers it, or enters on_stop, or ends the actor,
   (3) some step of the actor is enabled whenever no hook is blocked on an operation.
   Under fairness of the scheduler (a woken task is eventually polled - tokio's, assumed) the actor
   therefore enters on_stop after at most [rank] of its own steps. *)
From RS Require Import Tactics Frame ListFacts Spec Silent Lifecycle Queue QueueStep ClientRel NF ActorSpec StepCases
  CoreInv Delivery Idle OpsSpec OpCases AccTrace Reply.

(* number of envelopes queued before the first stop marker *)
Fixpoint before_marker (l : list item) : option nat :=
  match l with
  | [] => None
  | (_, KStop) :: _ => Some 0
  | _ :: t => option_map S (before_marker t)
  end.

Definition rank (x : actor) : option nat :=
  match before_marker (a_mbox x) with
  | None => None
  | Some k =>
      match a_pc x with
      | PStart | PHandle _ _ => Some (4 * k + 4)
      | PIdle => Some (4 * k + 3)
      | PSel (BTerm :: _) => Some (4 * k + 2)
      | PSel (BMail :: _) => Some (4 * k + 1)
      | PSel _ => Some (4 * k + 4)
      | PStop _ _ | PDone _ | PPanicked => None
      end
  end.

Definition stopping (p : pc) : Prop :=
  match p with PStop _ _ | PDone _ | PPanicked => True | _ => False end.

(* the outcome of one step for the ranking: lower rank, or on_stop entered / actor ended *)
Definition lower (y : actor) (r : nat) : Prop :=
  match rank y with Some r' => r' < r | None => stopping (a_pc y) end.

Lemma before_marker_app l d k : before_marker l = Some k -> before_marker (l ++ d) = Some k.
Proof.
  revert k. induction l as [|[o kd] l IH]; intros k H; cbn in *; [discriminate|].
  destruct kd; try exact H; destruct (before_marker l) as [k'|]; try discriminate;
    rewrite (IH k' eq_refl); exact H.
Qed.

(* (1) client-side steps and other actors' steps *)
Lemma rank_AR x y r : AR x y -> rank x = Some r -> rank y = Some r.
Proof.
  intros [C (d & _ & M & _)] H. unfold rank in *. destruct (core_fields x y C) as (-> & _).
  destruct (before_marker (a_mbox x)) as [k|] eqn:Hk; [|discriminate].
  rewrite M, (before_marker_app _ d k Hk). exact H.
Qed.

(* (2) the actor's own steps *)
Lemma mbox_take_f' i tl y : a_mbox (take_f i tl y) = tl.
Proof. apply mbox_take_f. Qed.

Lemma local_rank s a x l f fo evs r :
  Local s a x l f fo evs -> sel_shape (a_pc x) -> rank x = Some r ->
  (f = idf /\ guard_fails l x) \/ lower (f x) r.
Proof.
  intros HL Hsel Hr. unfold lower, rank in *.
  destruct (before_marker (a_mbox x)) as [k|] eqn:Hk; [|discriminate].
  inversion HL; subst; try (left; split; [reflexivity|assumption]); right;
    unfold stop_f, handle_f, run_f, idf, end_f in *;
    cbn [a_pc a_mbox set_a_pc set_a_ustate set_a_idle set_a_term set_a_closed set_a_mbox before_marker stopping] in *;
    rewrite ?pc_take_f, ?mbox_take_f, ?mbox_mrec; try exact I;
    try (match goal with H : a_pc x = _ |- _ => rewrite H in * end; cbn [sel_shape] in * ).
  all: try (rewrite Hk; injection Hr as <-; lia).
  - (* a pass begins with the termination channel *) rewrite shape_order, Hk. injection Hr as <-. lia.
  - (* next branch *)
    unfold after_branch. destruct Hsel as [E|[E|E]]; injection E as Eb Er; subst b rest; rewrite Hk; injection Hr as <-; try lia.
    (* the mailbox branch found the queue empty - impossible with a marker queued *)
    match goal with H : BMail = BMail -> _ |- _ => destruct (H eq_refl) as [Hm _] end. rewrite Hm in Hk. discriminate.
  - (* the marker is taken *) destruct (before_marker tl); exact I.
  - (* an envelope is taken *)
    match goal with H : a_mbox x = _ |- _ => rewrite H in Hk end. cbn [before_marker] in Hk.
    destruct k0; try congruence; destruct (before_marker tl) as [k'|]; try discriminate; injection Hk as <-; injection Hr as <-; lia.
Qed.

Lemma local_stopping s a x l f fo evs : Local s a x l f fo evs -> stopping (a_pc x) -> stopping (a_pc (f x)).
Proof.
  intros HL Hs. inversion HL; subst; unfold stop_f, handle_f, run_f, idf, end_f;
    cbn [a_pc set_a_pc set_a_ustate set_a_idle set_a_term set_a_closed set_a_mbox stopping]; try exact I; try exact Hs;
    match goal with H : a_pc x = _ |- _ => rewrite H in Hs; destruct Hs end.
Qed.
Lemma ddpanic_stopping s a x f fo evs : DdPanic s a x f fo evs -> stopping (a_pc (f x)).
Proof. intros HD. inversion HD; subst; exact I. Qed.

(* (3) some step of the actor is enabled unless its hook is blocked on an operation *)
Lemma own_step_enabled (a : aid) x r :
  rank x = Some r -> sel_shape (a_pc x) -> (in_hook x = true -> hop_free x = true) ->
  exists l, label_actor l = Some a /\ ~ guard_fails l x.
Proof.
  intros Hr Hsel Hh. unfold rank in Hr. destruct (before_marker (a_mbox x)); [|discriminate].
  destruct (a_pc x) as [| |rest|o k| | |] eqn:Hpc; try discriminate.
  - exists (AStartDone a HOk). split; [reflexivity|]. cbn. unfold in_hook in Hh. rewrite Hpc in Hh. intros [H|H]; [congruence|].
    rewrite (Hh eq_refl) in H. discriminate.
  - exists (APassBegin a 0). split; [reflexivity|]. cbn. congruence.
  - exists (APoll a RPending). split; [reflexivity|]. cbn. intros H.
    destruct Hsel as [E|[E|E]]; rewrite E in *; eapply H; exact Hpc.
  - exists (AHandleDone a HOk). split; [reflexivity|]. cbn. unfold in_hook in Hh. rewrite Hpc in Hh. intros [H|H].
    + eapply H. exact Hpc.
    + rewrite (Hh eq_refl) in H. discriminate.
Qed.

(* one step of the whole system *)
Theorem rank_step s l a x r :
  sel_ok s -> get_actor s a = Some x -> rank x = Some r ->
  exists y, get_actor (sys_step s l) a = Some y /\ (rank y = Some r \/ lower y r) /\
            (label_actor l = Some a -> ~ guard_fails l x -> lower y r).
Proof.
  intros Hsel Hx Hr.
  assert (Hsame : get_actor (sys_step s l) a = Some x -> label_actor l <> Some a ->
                  exists y, get_actor (sys_step s l) a = Some y /\ (rank y = Some r \/ lower y r) /\
                            (label_actor l = Some a -> ~ guard_fails l x -> lower y r)).
  { intros H Hl. exists x. split; [exact H|]. split; [left; exact Hr|]. intros E. congruence. }
  destruct (step_shape s l) as [Hl H1 H2|a0 x0 f fo evs Hl Hx0 HL E|a0 x0 f fo evs Hl Hx0 HD E|E].
  - destruct (H1 a x Hx) as (y & Hy & HAR). exists y. split; [exact Hy|]. split; [left; eapply rank_AR; eassumption|].
    intros E. congruence.
  - destruct (Nat.eqb_spec a a0) as [->|Hne].
    + rewrite Hx0 in Hx. injection Hx as <-. exists (f x0). split; [rewrite E; apply (NF_get_actor_same _ _ _ _ _ _ Hx0)|].
      destruct (local_rank s a0 x0 l f fo evs r HL (Hsel a0 x0 Hx0) Hr) as [[-> Hg]|Hlow].
      * split; [left; exact Hr|]. intros _ Hng. contradiction.
      * split; [right; exact Hlow|]. intros _ _. exact Hlow.
    + apply Hsame; [|congruence]. rewrite E, NF_get_actor. apply Nat.eqb_neq in Hne. rewrite Hne. exact Hx.
  - destruct (Nat.eqb_spec a a0) as [->|Hne].
    + rewrite Hx0 in Hx. injection Hx as <-. exists (f x0). split; [rewrite E; apply (NF_get_actor_same _ _ _ _ _ _ Hx0)|].
      assert (Hlow : lower (f x0) r).
      { unfold lower, rank. pose proof (ddpanic_stopping _ _ _ _ _ _ HD) as Hs.
        destruct (before_marker (a_mbox (f x0))); [|exact Hs]. destruct (a_pc (f x0)); try destruct Hs; exact I. }
      split; [right; exact Hlow|]. intros _ _. exact Hlow.
    + exists x. split; [rewrite E, NF_get_actor; apply Nat.eqb_neq in Hne; rewrite Hne; exact Hx|]. split; [left; exact Hr|].
      intros El Hg. congruence.
  - rewrite E. exists x. split; [exact Hx|]. split; [left; exact Hr|]. intros El Hg.
    destruct (actor_step_nf s l a x El Hx) as (f' & fo' & evs' & E' & HL).
    destruct (local_rank s a x l f' fo' evs' r HL (Hsel a x Hx) Hr) as [[_ Hgf]|Hlow]; [contradiction|].
    (* the step changed nothing, so the state it leads to is x itself *)
    rewrite E' in E. apply (f_equal (fun st => get_actor st a)) in E. rewrite (NF_get_actor_same _ _ _ _ _ _ Hx), Hx in E.
    injection E as E. rewrite E in Hlow. exact Hlow.
Qed.

(* over any continuation of a run the rank never rises: it stays, falls, or the actor is stopping *)
Lemma stopping_step s l a x :
  get_actor s a = Some x -> stopping (a_pc x) ->
  exists y, get_actor (sys_step s l) a = Some y /\ stopping (a_pc y).
Proof.
  intros Hx Hs. destruct (step_cases s l a x Hx) as (y & Hy & HC). exists y. split; [exact Hy|].
  destruct HC as [E _|f fo evs _ HL -> _|f fo evs HD -> _].
  - destruct (core_fields x y E) as (-> & _). exact Hs.
  - eapply local_stopping; eassumption.
  - eapply ddpanic_stopping; eassumption.
Qed.

Section Run.
  Variables (f : feats) (ls : list label).
  Local Notation S := (run f ls).

  Theorem run_rank_never_increases ls2 a x r :
    get_actor S a = Some x -> rank x = Some r ->
    exists y, get_actor (run f (ls ++ ls2)) a = Some y /\
              ((exists r', rank y = Some r' /\ r' <= r) \/ stopping (a_pc y)).
  Proof.
    intros Hx Hr. induction ls2 as [|l ls2 IH] using rev_ind.
    - rewrite app_nil_r. exists x. split; [exact Hx|]. left. exists r. split; [exact Hr|lia].
    - destruct IH as (y & Hy & Hcase).
      rewrite app_assoc. unfold run at 1. rewrite fold_left_app. cbn [fold_left]. fold (run f (ls ++ ls2)).
      destruct Hcase as [(r' & Hr' & Hle)|Hs].
      + destruct (rank_step (run f (ls ++ ls2)) l a y r' (proj2 (idle_sel_run f (ls ++ ls2))) Hy Hr') as (z & Hz & [E|Hlow] & _).
        * exists z. split; [exact Hz|]. left. exists r'. split; [exact E|exact Hle].
        * exists z. split; [exact Hz|]. unfold lower in Hlow. destruct (rank z) as [r2|] eqn:E2.
          -- left. exists r2. split; [reflexivity|lia].
          -- right. exact Hlow.
      + destruct (stopping_step (run f (ls ++ ls2)) l a y Hy Hs) as (z & Hz & Hsz). exists z. split; [exact Hz|]. right. exact Hsz.
  Qed.
End Run.
