(* ask: the reply belongs to the request, and an ask never hangs on an ended actor (C03). *)
From RS Require Import Tactics Frame ListFacts Spec Silent Lifecycle Queue QueueStep ClientFrame ClientRel NF ActorSpec Delivery
  StepCases CoreInv OpsSpec OpCases AccTrace.

(* ---------- how a client-side step may change an actor ---------- *)
Definition AR (x y : actor) : Prop :=
  core y = core x /\
  exists d, a_accepted y = a_accepted x ++ d /\ a_mbox y = a_mbox x ++ d /\ (d <> [] -> a_closed x = false).

Lemma AR_refl x : AR x x.
Proof. split; [reflexivity|]. exists []. rewrite !app_nil_r. repeat split. congruence. Qed.
Lemma AR_trans x y z : AR x y -> AR y z -> AR x z.
Proof.
  intros [C1 (d1 & A1 & M1 & K1)] [C2 (d2 & A2 & M2 & K2)]. split; [congruence|].
  exists (d1 ++ d2). rewrite A2, A1, M2, M1, <- !app_assoc. repeat split.
  intros Hd. destruct d1 as [|i d1]; [|apply K1; discriminate].
  destruct (core_fields x y C1) as (_ & _ & _ & <- & _). apply K2. exact Hd.
Qed.
Lemma AR_core x y : core y = core x -> a_accepted y = a_accepted x -> a_mbox y = a_mbox x -> AR x y.
Proof. intros C A M. split; [exact C|]. exists []. rewrite !app_nil_r. repeat split; congruence. Qed.
Lemma AR_waiters v x : AR x (set_a_waiters v x).
Proof. apply AR_core; reflexivity. Qed.
Lemma AR_granted v x : AR x (set_a_granted v x).
Proof. apply AR_core; reflexivity. Qed.
Lemma AR_hop v x : AR x (set_a_hop v x).
Proof. apply AR_core; reflexivity. Qed.
Lemma AR_push i x : a_closed x = false ->
  AR x (set_a_accepted (a_accepted x ++ [i]) (set_a_mbox (a_mbox x ++ [i]) x)).
Proof. intros Hc. split; [reflexivity|]. exists [i]. repeat split. intros _. exact Hc. Qed.

Definition arsame := rsame AR.

Lemma arsame_ext s0 s s' : s_actors s' = s_actors s -> arsame s0 s -> arsame s0 s'.
Proof. unfold arsame, rsame. intros ->. auto. Qed.

(* every client-side label, and the clock, relates each existing actor to itself by AR *)
Inductive StepShape (s : sys) (l : label) : Prop :=
| SS_client : label_actor l = None ->
    (forall b x, get_actor s b = Some x -> exists y, get_actor (sys_step s l) b = Some y /\ AR x y) ->
    (forall b y, get_actor (sys_step s l) b = Some y -> get_actor s b = None ->
                 a_accepted y = [] /\ a_mbox y = [] /\ a_pc y = PStart /\ a_closed y = false) ->
    StepShape s l
| SS_local a x f fo evs :
    label_actor l = Some a -> get_actor s a = Some x -> Local s a x l f fo evs -> sys_step s l = NF a f fo evs s ->
    StepShape s l
| SS_ddpanic a x f fo evs :
    label_actor l = None ->
    get_actor s a = Some x -> DdPanic s a x f fo evs -> sys_step s l = NF a f fo evs s -> StepShape s l
| SS_none : sys_step s l = s -> StepShape s l.

Lemma arsame_client s s' :
  arsame s s' ->
  (forall b x, get_actor s b = Some x -> exists y, get_actor s' b = Some y /\ AR x y) /\
  (forall b y, get_actor s' b = Some y -> get_actor s b = None ->
               a_accepted y = [] /\ a_mbox y = [] /\ a_pc y = PStart /\ a_closed y = false).
Proof.
  intros H. split.
  - intros b x Hx. eapply rsame_get; eassumption.
  - intros b y Hy Hn. destruct (rsame_get_rev AR s s' b y H Hy) as (x & Hx & _). congruence.
Qed.

Lemma arsame_upd_core s a f :
  (forall x, core (f x) = core x /\ a_accepted (f x) = a_accepted x /\ a_mbox (f x) = a_mbox x) ->
  arsame s (upd_actor a f s).
Proof.
  intros Hf. apply (rsame_upd_actor AR AR_trans); [|apply (rsame_refl AR AR_refl)].
  intros x. destruct (Hf x) as (C & A & M). apply AR_core; assumption.
Qed.

Theorem step_shape s l : StepShape s l.
Proof.
  assert (Hactor : forall b, label_actor l = Some b -> StepShape s l).
  { intros b Hl. destruct (get_actor s b) as [xb|] eqn:Hxb.
    - destruct (actor_step_nf s l b xb Hl Hxb) as (f & fo & evs & E & HL). eapply SS_local; eassumption.
    - apply SS_none. apply (actor_step_absent s l b Hl Hxb). }
  assert (Hcl : label_actor l = None -> arsame s (sys_step s l) -> StepShape s l).
  { intros Hl H. destruct (arsame_client _ _ H) as [H1 H2]. apply SS_client; assumption. }
  pose proof (rsame_refl AR AR_refl) as Hrefl.
  destruct l; try (apply (Hactor a); reflexivity); cbn [sys_step].
  - (* spawn *)
    apply SS_client; [reflexivity| |]; cbn [sys_step].
    + intros b x Hx. exists x. split; [apply spawn_get_old, Hx|apply AR_refl].
    + intros b y Hy Hn. destruct (spawn_new_actor s cap b y Hn Hy) as (_ & ->). repeat split.
  - destruct (begin_cases s o k a caller tmo fn) as [E|q g xa _ _ _ _ _ _ _ _ Ga _ _ _ E|c xc F FO EVS _ Hxc HD E].
    + apply SS_none. exact E.
    + apply Hcl; [reflexivity|]. cbn [sys_step]. rewrite E.
      apply (rsame_begin_send AR AR_refl AR_trans AR_waiters AR_granted AR_hop AR_push).
      * intros st Hst. eapply arsame_ext; [apply Ga|exact Hst].
      * eapply arsame_ext; [|apply Hrefl]. reflexivity.
    + eapply SS_ddpanic; [reflexivity|eassumption..].
  - apply Hcl; [reflexivity|]. apply (rsame_poll AR AR_refl AR_trans AR_waiters AR_granted AR_hop AR_push), Hrefl.
  - apply Hcl; [reflexivity|]. apply (rsame_cancel AR AR_refl AR_trans AR_waiters AR_granted AR_hop), Hrefl.
  - apply Hcl; [reflexivity|]. cbn [sys_step]. unfold kill. repeat case_match; try apply Hrefl.
    eapply arsame_ext; [|apply (arsame_upd_core s a (fun y => if a_closed y then y else set_a_term true y))]; [reflexivity|].
    intros y. destruct (a_closed y); repeat split.
  - apply Hcl; [reflexivity|]. cbn [sys_step]. unfold ref_clone. repeat case_match; try apply Hrefl.
    apply arsame_upd_core. intros y. repeat split.
  - apply Hcl; [reflexivity|]. cbn [sys_step]. unfold ref_drop. repeat case_match; try apply Hrefl.
    apply arsame_upd_core. intros y. repeat split.
  - apply Hcl; [reflexivity|]. cbn [sys_step]. unfold ref_upgrade. repeat case_match; try apply Hrefl.
    apply arsame_upd_core. intros y. repeat split.
  - apply Hcl; [reflexivity|]. cbn [sys_step]. eapply arsame_ext; [|apply Hrefl]. reflexivity.
Qed.

(* ---------- the trace only grows ---------- *)
Lemma step_trace_grows s l : exists es, s_trace (sys_step s l) = es ++ s_trace s.
Proof.
  assert (Hsil : silent s (sys_step s l) -> exists es, s_trace (sys_step s l) = es ++ s_trace s).
  { intros [_ (es & E & _)]. eauto. }
  assert (Hactor : forall b, label_actor l = Some b -> exists es, s_trace (sys_step s l) = es ++ s_trace s).
  { intros b Hl. destruct (get_actor s b) as [xb|] eqn:Hxb.
    - destruct (actor_step_nf s l b xb Hl Hxb) as (f & fo & evs & E & _). rewrite E. exists evs. reflexivity.
    - rewrite (actor_step_absent s l b Hl Hxb). exists []. reflexivity. }
  destruct l; try (apply (Hactor a); reflexivity); cbn [sys_step].
  - unfold spawn. destruct (cap =? 0); [exists []; reflexivity|]. eexists [_; _]. reflexivity.
  - destruct (begin_shape2 s o k a caller tmo fn) as [Hs|(c & xc & F & FO & EVS & E & _ & _)].
    + apply Hsil, Hs.
    + rewrite E. exists EVS. reflexivity.
  - apply Hsil. apply silent_poll, silent_refl.
  - apply Hsil. apply silent_cancel, silent_refl.
  - apply Hsil. apply silent_kill, silent_refl.
  - apply Hsil. apply silent_ref_clone, silent_refl.
  - apply Hsil. apply silent_ref_drop, silent_refl.
  - apply Hsil. apply silent_ref_upgrade, silent_refl.
  - exists []. reflexivity.
Qed.

Lemma step_trace_in s l e : In e (s_trace s) -> In e (s_trace (sys_step s l)).
Proof. intros H. destruct (step_trace_grows s l) as (es & ->). apply in_or_app. right. exact H. Qed.

(* ---------- what a slot change says about the record ---------- *)
Lemma slot_case_static p p' evs :
  SlotCase p p' evs -> o_ph p' = o_ph p /\ op_static p' = op_static p /\ (o_slot p' = SlEmpty -> o_slot p = SlEmpty).
Proof. intros [->|a out E -> _ _|E ->]; repeat split; cbn; auto; discriminate. Qed.

Lemma op_case_slot_empty s l o p p' : OpCase s l o p p' -> o_slot p' = SlEmpty -> o_slot p = SlEmpty.
Proof.
  intros [->|evs _ _ HS _|_ _ ->|evs _ HC] H; try exact H.
  - rewrite <- (os_slot _ _ _ _ _ _ HS). exact H.
  - apply (slot_case_static _ _ _ HC), H.
Qed.

Lemma op_case_static s l o p p' : OpCase s l o p p' -> op_static p' = op_static p.
Proof.
  intros [->|evs _ _ HS _|_ _ ->|evs _ HC]; try reflexivity.
  - apply (os_static _ _ _ _ _ _ HS).
  - apply (slot_case_static _ _ _ HC).
Qed.

Lemma static_fields p q : op_static p = op_static q ->
  o_id p = o_id q /\ o_kind p = o_kind q /\ o_tgt p = o_tgt q.
Proof. unfold op_static. intros E. injection E as ? ? ? ? ? ?. auto. Qed.

(* ---------- the invariant ---------- *)
Record ask_ok (s : sys) : Prop := mkAskOk {
  (* an ask waiting for its reply was accepted by its target's mailbox *)
  ak_wait : forall o p, get_op s o = Some p -> o_ph p = OWaitReply ->
      o_kind p = KAsk /\ In (EvAccept (o_tgt p) o KAsk) (s_trace s);
  (* a tell that returned Ok was accepted by its target's mailbox *)
  ak_tell : forall o p v, get_op s o = Some p -> o_kind p = KTell -> o_ph p = ODone (ROk v) ->
      In (EvAccept (o_tgt p) o KTell) (s_trace s);
  (* an accepted ask whose reply slot is still untouched is either queued in an open mailbox or
     is the envelope the actor's handler is running on *)
  ak_slot : forall a x o p, get_actor s a = Some x -> In (o, KAsk) (a_accepted x) -> get_op s o = Some p ->
      o_slot p = SlEmpty -> (In (o, KAsk) (a_mbox x) /\ a_closed x = false) \/ a_pc x = PHandle o KAsk;
  (* a value in the reply slot is what a handler logged for this very request *)
  ak_val : forall o p v, get_op s o = Some p -> o_slot p = SlVal v ->
      exists a out, In (EvHandleExit a o out) (s_trace s) /\ hval out = v /\ out <> HPanic;
  (* an ask that returned Ok(v) read v out of its own reply slot *)
  ak_done : forall o p v, get_op s o = Some p -> o_kind p = KAsk -> o_ph p = ODone (ROk v) -> o_slot p = SlVal v
}.

Lemma close_fo_nonempty os fo p : In (o_id (fo p)) os -> o_slot (close_fo os fo p) <> SlEmpty.
Proof.
  intros Hin. unfold close_fo.
  assert (E : existsb (Nat.eqb (o_id (fo p))) os = true).
  { apply existsb_exists. exists (o_id (fo p)). split; [exact Hin|apply Nat.eqb_refl]. }
  rewrite E. destruct (o_slot (fo p)) eqn:Es; cbn; congruence.
Qed.
Lemma close_fo_keeps_nonempty os fo p : o_slot (fo p) <> SlEmpty -> o_slot (close_fo os fo p) <> SlEmpty.
Proof. intros H. unfold close_fo. destruct (existsb (Nat.eqb (o_id (fo p))) os); [|exact H]. destruct (o_slot (fo p)) eqn:E; congruence. Qed.
Lemma close_fo_id os fo p : o_id (close_fo os fo p) = o_id (fo p).
Proof. unfold close_fo. destruct (existsb (Nat.eqb (o_id (fo p))) os); [|reflexivity]. destruct (o_slot (fo p)); reflexivity. Qed.
Lemma in_asks_of o l : In (o, KAsk) l -> In o (asks_of l).
Proof.
  intros H. unfold asks_of. apply in_map_iff. exists (o, KAsk). split; [reflexivity|].
  apply filter_In. split; [exact H|reflexivity].
Qed.

Lemma mbox_take_f i tl y : a_mbox (take_f i tl y) = tl.
Proof.
  unfold take_f, regrant_f. cbn. destruct (a_waiters y); [reflexivity|].
  match goal with |- context [if ?c then _ else _] => destruct c end; reflexivity.
Qed.
Lemma closed_mrec_f on y : a_closed (mrec_f on y) = a_closed y.
Proof. unfold mrec_f. destruct on; reflexivity. Qed.

Definition holds (x : actor) (o : oid) : Prop :=
  (In (o, KAsk) (a_mbox x) /\ a_closed x = false) \/ a_pc x = PHandle o KAsk.

(* the step of the actor itself: a record whose slot is still empty afterwards stays held *)
Lemma local_holds s a x l f fo evs p :
  Local s a x l f fo evs -> holds x (o_id p) -> o_slot (fo p) = SlEmpty -> holds (f x) (o_id p).
Proof.
  intros HL Hh Hs. unfold holds in *.
  assert (Hend : forall fo', (a_pc x = PHandle (o_id p) KAsk -> o_slot (fo' p) <> SlEmpty) -> o_id (fo' p) = o_id p ->
                   o_slot (close_fo (asks_of (a_mbox x)) fo' p) = SlEmpty -> False).
  { intros fo' Hpc Hid Hcl. destruct Hh as [[Hin _]|Hp].
    - eapply close_fo_nonempty; [|exact Hcl]. rewrite Hid. apply in_asks_of, Hin.
    - eapply close_fo_keeps_nonempty; [|exact Hcl]. apply Hpc, Hp. }
  inversion HL; subst; unfold stop_f, handle_f, run_f, idf, end_f in *;
    cbn [a_pc a_mbox a_closed set_a_pc set_a_ustate set_a_idle set_a_term set_a_closed set_a_mbox] in *;
    rewrite ?mbox_take_f, ?closed_take_f, ?mbox_mrec, ?closed_mrec_f;
    try (exfalso; eapply (Hend ido); [intros Hp; congruence|reflexivity|exact Hs]);
    try (destruct Hh as [Hh|Hp]; [left; exact Hh|congruence]).
  - exact Hh.
  - (* take the stop marker *)
    destruct Hh as [[Hin Hc]|Hp]; [|congruence]. left. split; [|exact Hc].
    match goal with H : a_mbox x = _ |- _ => rewrite H in Hin end. destruct Hin as [E|Hin]; [discriminate|exact Hin].
  - (* take an envelope *)
    destruct Hh as [[Hin Hc]|Hp]; [|congruence].
    match goal with H : a_mbox x = _ |- _ => rewrite H in Hin end.
    destruct Hin as [E|Hin]; [injection E as -> ->; right; reflexivity|left; split; assumption].
  - (* the handler returns *)
    destruct Hh as [Hh|Hp]; [left; exact Hh|]. exfalso.
    match goal with H : a_pc x = PHandle _ _ |- _ => rewrite H in Hp; injection Hp as -> -> end.
    unfold reply_fo in Hs. rewrite Nat.eqb_refl in Hs. destruct (o_slot p) eqn:E; cbn in Hs; congruence.
  - (* the handler panics *)
    exfalso. eapply (Hend (handle_close o k ido)); [| |exact Hs].
    + intros Hp. match goal with H : a_pc x = PHandle _ _ |- _ => rewrite H in Hp; injection Hp as -> -> end.
      cbn [handle_close]. apply close_fo_nonempty. cbn. auto.
    + unfold handle_close. destruct k; try reflexivity. apply close_fo_id.
Qed.

Lemma ddpanic_holds s a x f fo evs p :
  DdPanic s a x f fo evs -> holds x (o_id p) -> o_slot (fo p) = SlEmpty -> False.
Proof.
  intros HD Hh Hs. unfold holds in *.
  assert (Hend : forall fo', (a_pc x = PHandle (o_id p) KAsk -> o_slot (fo' p) <> SlEmpty) -> o_id (fo' p) = o_id p ->
                   o_slot (close_fo (asks_of (a_mbox x)) fo' p) = SlEmpty -> False).
  { intros fo' Hpc Hid Hcl. destruct Hh as [[Hin _]|Hp].
    - eapply close_fo_nonempty; [|exact Hcl]. rewrite Hid. apply in_asks_of, Hin.
    - eapply close_fo_keeps_nonempty; [|exact Hcl]. apply Hpc, Hp. }
  inversion HD; subst.
  - eapply (Hend ido); [|reflexivity|exact Hs]. intros Hp. exfalso. eapply H0. exact Hp.
  - eapply (Hend (handle_close o k ido)); [| |exact Hs].
    + intros Hp. rewrite H in Hp. injection Hp as -> ->. cbn [handle_close]. apply close_fo_nonempty. cbn. auto.
    + unfold handle_close. destruct k; try reflexivity. apply close_fo_id.
Qed.

Lemma holds_AR x y o : AR x y -> holds x o -> holds y o.
Proof.
  intros [C (d & _ & M & _)] [[Hin Hc]|Hp]; destruct (core_fields x y C) as (Epc & _ & _ & Ecl & _).
  - left. split; [rewrite M; apply in_or_app; left; exact Hin|congruence].
  - right. congruence.
Qed.

Theorem ask_ok_step s l : q_ok s -> ask_ok s -> ask_ok (sys_step s l).
Proof.
  intros Hq [Hw Ht Hsl Hv Hd]. constructor.
  - (* ak_wait *)
    intros o p' Hp' Hph. destruct (get_op s o) as [p|] eqn:Hp.
    + destruct (op_step_cases s l o p Hp) as (p'' & Hp'' & HC). rewrite Hp' in Hp''. injection Hp'' as <-.
      pose proof (get_op_id s o p Hp) as Hid.
      assert (Hold : o_ph p = OWaitReply -> o_kind p = KAsk /\ In (EvAccept (o_tgt p) o KAsk) (s_trace (sys_step s l))).
      { intros E. destruct (Hw o p Hp E) as [E1 E2]. split; [exact E1|apply step_trace_in, E2]. }
      destruct HC as [->|evs _ _ HS HC|_ _ ->|evs _ HC].
      * apply Hold, Hph.
      * destruct (static_fields _ _ (os_static _ _ _ _ _ _ HS)) as (_ & Ek & Et). rewrite Et, Ek.
        inversion HC; subst; try congruence.
        -- apply Hold. congruence.
        -- split; [assumption|]. rewrite (os_trace _ _ _ _ _ _ HS). left. reflexivity.
      * discriminate.
      * destruct (slot_case_static _ _ _ HC) as (Eph & Est & _). destruct (static_fields _ _ Est) as (_ & Ek & Et).
        rewrite Et, Ek. apply Hold. congruence.
    + destruct (step_new_op s l o p' Hp Hp') as (k & a & caller & tmo & fn & q & s1 & evs & -> & Hid & Hk & Htg & _ & Hqph & Hqsl & HS & HB & _ & _ & _ & _).
      destruct (static_fields _ _ (os_static _ _ _ _ _ _ HS)) as (_ & Ek & Et). rewrite Et, Ek.
      inversion HB; subst; try congruence.
      split; [assumption|]. rewrite (os_trace _ _ _ _ _ _ HS). left. reflexivity.
  - (* ak_tell *)
    intros o p' v Hp' Hk' Hph'. destruct (get_op s o) as [p|] eqn:Hp.
    + destruct (op_step_cases s l o p Hp) as (p'' & Hp'' & HC). rewrite Hp' in Hp''. injection Hp'' as <-.
      pose proof (get_op_id s o p Hp) as Hid.
      pose proof (op_case_static _ _ _ _ _ HC) as Est. destruct (static_fields _ _ Est) as (_ & Ek & Et). rewrite Et.
      assert (Hold : o_ph p = ODone (ROk v) -> In (EvAccept (o_tgt p) o KTell) (s_trace (sys_step s l))).
      { intros E. apply step_trace_in. eapply Ht; [exact Hp|congruence|exact E]. }
      destruct HC as [->|evs _ Hnd HS HC|_ _ ->|evs _ HC].
      * apply Hold, Hph'.
      * inversion HC; subst; try congruence.
        -- apply Hold. congruence.
        -- rewrite (os_trace _ _ _ _ _ _ HS). right. left. congruence.
        -- match goal with H : o_ph p = OWaitReply |- _ => destruct (Hw _ p Hp H) as [E _] end. congruence.
      * discriminate.
      * destruct (slot_case_static _ _ _ HC) as (Eph & _ & _). apply Hold. congruence.
    + destruct (step_new_op s l o p' Hp Hp') as (k & a & caller & tmo & fn & q & s1 & evs & -> & Hid & Hk & Htg & _ & Hqph & Hqsl & HS & HB & _ & _ & _ & _).
      destruct (static_fields _ _ (os_static _ _ _ _ _ _ HS)) as (_ & Ek & Et). rewrite Et.
      inversion HB; subst; try congruence.
      rewrite (os_trace _ _ _ _ _ _ HS). right. left. congruence.
  - (* ak_slot *)
    intros a y o p' Hy Hin Hp' Hse.
    destruct (step_shape s l) as [Hl H1 H2|a0 x0 f fo evs Hl Hx0 HL E|a0 x0 f fo evs Hl Hx0 HD E|E].
    + destruct (get_actor s a) as [x|] eqn:Hx.
      * destruct (H1 a x Hx) as (y' & Hy' & HAR). rewrite Hy in Hy'. injection Hy' as <-.
        destruct HAR as [C (d & A & M & K)]. rewrite A in Hin. apply in_app_or in Hin. destruct Hin as [Hin|Hin].
        -- destruct Hq as (_ & Hq2 & _). destruct (Hq2 a x o KAsk Hx Hin) as (p & Hp & _).
           destruct (op_step_cases s l o p Hp) as (p'' & Hp'' & HC). rewrite Hp' in Hp''. injection Hp'' as <-.
           apply (holds_AR x y o); [split; [exact C|exists d; auto]|].
           apply (Hsl a x o p Hx Hin Hp). eapply op_case_slot_empty; eassumption.
        -- left. split; [rewrite M; apply in_or_app; right; exact Hin|].
           destruct (core_fields x y C) as (_ & _ & _ & -> & _). apply K. intros ->. destruct Hin.
      * destruct (H2 a y Hy Hx) as (Ea & _). rewrite Ea in Hin. destruct Hin.
    + rewrite E in Hy, Hp'. rewrite NF_get_op in Hp' by (intros q; eapply fo_preserves_id; exact HL).
      destruct (get_op s o) as [p|] eqn:Hp; [|discriminate]. cbn in Hp'. injection Hp' as <-.
      pose proof (get_op_id s o p Hp) as Hid.
      assert (Hpe : o_slot p = SlEmpty) by (apply (slot_case_static _ _ _ (local_slot_case s a0 x0 l f fo evs p HL)), Hse).
      rewrite NF_get_actor in Hy. destruct (Nat.eqb_spec a a0) as [->|Hne].
      * rewrite Hx0 in Hy. cbn in Hy. injection Hy as <-.
        destruct (local_accepted _ _ _ _ _ _ _ HL) as [Ea _]. rewrite Ea in Hin.
        rewrite <- Hid. eapply local_holds; [exact HL| |exact Hse]. rewrite Hid. apply (Hsl a0 x0 o p Hx0 Hin Hp Hpe).
      * apply (Hsl a y o p Hy Hin Hp Hpe).
    + rewrite E in Hy, Hp'. rewrite NF_get_op in Hp' by (intros q; eapply fo_preserves_id_dd; exact HD).
      destruct (get_op s o) as [p|] eqn:Hp; [|discriminate]. cbn in Hp'. injection Hp' as <-.
      pose proof (get_op_id s o p Hp) as Hid.
      assert (Hpe : o_slot p = SlEmpty) by (apply (slot_case_static _ _ _ (ddpanic_slot_case s a0 x0 f fo evs p HD)), Hse).
      rewrite NF_get_actor in Hy. destruct (Nat.eqb_spec a a0) as [->|Hne].
      * rewrite Hx0 in Hy. cbn in Hy. injection Hy as <-.
        destruct (ddpanic_accepted _ _ _ _ _ _ HD) as [Ea _]. rewrite Ea in Hin.
        exfalso. eapply ddpanic_holds; [exact HD| |exact Hse]. rewrite Hid. apply (Hsl a0 x0 o p Hx0 Hin Hp Hpe).
      * apply (Hsl a y o p Hy Hin Hp Hpe).
    + rewrite E in *. eapply Hsl; eassumption.
  - (* ak_val *)
    intros o p' v Hp' Hs'. destruct (get_op s o) as [p|] eqn:Hp.
    + destruct (op_step_cases s l o p Hp) as (p'' & Hp'' & HC). rewrite Hp' in Hp''. injection Hp'' as <-.
      pose proof (get_op_id s o p Hp) as Hid.
      assert (Hold : o_slot p = SlVal v -> exists a out, In (EvHandleExit a o out) (s_trace (sys_step s l)) /\ hval out = v /\ out <> HPanic).
      { intros Hs. destruct (Hv o p v Hp Hs) as (a & out & Hin & Hval & Hnp). exists a, out. split; [apply step_trace_in, Hin|auto]. }
      destruct HC as [->|evs _ _ HS HC|_ _ ->|evs Htr HC].
      * apply Hold, Hs'.
      * apply Hold. rewrite <- (os_slot _ _ _ _ _ _ HS). exact Hs'.
      * apply Hold. exact Hs'.
      * destruct HC as [->|a out Ee -> Hnp Hin|Ee ->].
        -- apply Hold, Hs'.
        -- cbn in Hs'. injection Hs' as <-. exists a, out. split; [|auto]. rewrite Hid in Hin.
           destruct Htr as (es & [->| ->]); apply in_or_app; left; exact Hin.
        -- discriminate.
    + destruct (step_new_op s l o p' Hp Hp') as (k & a & caller & tmo & fn & q & s1 & evs & -> & Hid & Hk & Htg & _ & Hqph & Hqsl & HS & HB & _ & _ & _ & _).
      rewrite (os_slot _ _ _ _ _ _ HS), Hqsl in Hs'. discriminate.
  - (* ak_done *)
    intros o p' v Hp' Hk' Hph'. destruct (get_op s o) as [p|] eqn:Hp.
    + destruct (op_step_cases s l o p Hp) as (p'' & Hp'' & HC). rewrite Hp' in Hp''. injection Hp'' as <-.
      pose proof (op_case_static _ _ _ _ _ HC) as Est. destruct (static_fields _ _ Est) as (_ & Ek & _).
      destruct HC as [->|evs _ Hnd HS HC|_ _ ->|evs Htr HC].
      * eapply Hd; eassumption.
      * rewrite (os_slot _ _ _ _ _ _ HS). inversion HC; subst; try congruence.
        -- rewrite H in Hph'. rewrite Hph' in Hnd. discriminate.
      * discriminate.
      * destruct (slot_case_static _ _ _ HC) as (Eph & _ & _).
        assert (Hsp : o_slot p = SlVal v) by (eapply Hd; [exact Hp|congruence|congruence]).
        destruct HC as [->|a out Ee -> Hnp Hin|Ee ->]; [exact Hsp|congruence|congruence].
    + destruct (step_new_op s l o p' Hp Hp') as (k & a & caller & tmo & fn & q & s1 & evs & -> & Hid & Hk & Htg & _ & Hqph & Hqsl & HS & HB & _ & _ & _ & _).
      destruct (static_fields _ _ (os_static _ _ _ _ _ _ HS)) as (_ & Ek & _).
      inversion HB; subst; congruence.
Qed.

Lemma ask_ok_init f : ask_ok (init f).
Proof. constructor; intros; unfold get_op in *; cbn in *; discriminate. Qed.

Theorem ask_ok_run f ls : ask_ok (run f ls).
Proof.
  unfold run.
  assert (H : q_ok (init f) /\ ask_ok (init f)) by (split; [apply q_ok_init|apply ask_ok_init]).
  revert H. generalize (init f).
  induction ls as [|l ls IH]; intros s [H1 H2]; cbn [fold_left]; [exact H2|].
  apply IH. split; [apply q_ok_step, H1|apply ask_ok_step; assumption].
Qed.

(* ---------- run-level theorems ---------- *)
Section Run.
  Variables (f : feats) (ls : list label).
  Local Notation S := (run f ls).

  (* Ok(v) of an ask is the value a handler returned for that very request *)
  Theorem run_reply_integrity o p v :
    get_op S o = Some p -> o_kind p = KAsk -> o_ph p = ODone (ROk v) ->
    o_slot p = SlVal v /\
    exists a out, In (EvHandleExit a o out) (s_trace S) /\ hval out = v /\ out <> HPanic.
  Proof.
    intros Hp Hk Hph. destruct (ask_ok_run f ls) as [_ _ _ Hv Hd].
    pose proof (Hd o p v Hp Hk Hph) as Hs. split; [exact Hs|]. eapply Hv; eassumption.
  Qed.

  (* an ask that is waiting for its reply on an ended actor does not wait on an untouched slot:
     the value is there, or the sender was dropped *)
  Theorem run_ended_slot o p x :
    get_op S o = Some p -> o_ph p = OWaitReply -> get_actor S (o_tgt p) = Some x -> ended_pc (a_pc x) ->
    o_slot p <> SlEmpty.
  Proof.
    intros Hp Hph Hx Hend Hs. destruct (ask_ok_run f ls) as [Hw _ Hsl _ _].
    pose proof (proj2 (Hw o p Hp Hph)) as Hacc. apply (accepted_iff_logged f ls _ x _ _ Hx) in Hacc.
    destruct (cores_ok_run f ls _ x Hx) as [_ _ _ _ k5 _ _].
    destruct (Hsl _ x o p Hx Hacc Hp Hs) as [[_ Hc]|Hpc].
    - apply k5 in Hend. congruence.
    - destruct Hend as [(r & E)|E]; congruence.
  Qed.

  (* the next poll of any unfinished operation whose target has ended finishes it *)
  Theorem run_poll_on_ended_completes o p x :
    get_op S o = Some p -> is_done (o_ph p) = false -> get_actor S (o_tgt p) = Some x -> ended_pc (a_pc x) ->
    exists p' evs r, OpStep S (sys_step S (LPoll o)) o p p' evs /\ o_ph p' = ODone r /\
      (r = RErr ESend \/ r = RErr EReceive \/ r = RErr ETimeout \/
       (o_kind p = KStop /\ r = ROk 0) \/
       (exists v, r = ROk v /\ o_ph p = OWaitReply /\ o_slot p = SlVal v)).
  Proof.
    intros Hp Hnd Hx Hend. destruct (poll_spec S o p Hp Hnd) as (p' & evs & HS & HC).
    destruct (cores_ok_run f ls _ x Hx) as [_ _ _ _ k5 _ _]. apply k5 in Hend as Hcl.
    exists p', evs.
    inversion HC; subst;
      try match goal with H : get_actor S (o_tgt p) = Some ?y |- _ => rewrite Hx in H; injection H as <- end;
      try congruence.
    - (* still pending: impossible *)
      exfalso. destruct (o_ph p) eqn:Hph; [| |discriminate].
      + match goal with H : OPre = OPre -> _ |- _ => specialize (H eq_refl x Hx) end. congruence.
      + eapply run_ended_slot; try eassumption.
        match goal with H : OWaitReply = OWaitReply -> _ |- _ => apply H; [reflexivity|congruence] end.
    - eexists. split; [exact HS|]. split; [eassumption|]. auto.
    - eexists. split; [exact HS|]. split; [eassumption|]. auto 6.
    - eexists. split; [exact HS|]. split; [eassumption|]. right. right. right. right. eauto.
    - eexists. split; [exact HS|]. split; [eassumption|]. auto.
    - eexists. split; [exact HS|]. split; [eassumption|]. auto.
  Qed.

  (* every operation begun on an ended actor fails at once (stop() reports Ok) *)
  Theorem run_begin_on_ended o k a caller tmo fn x p' :
    get_op S o = None -> get_actor S a = Some x -> ended_pc (a_pc x) ->
    get_op (sys_step S (LBegin o k a caller tmo fn)) o = Some p' ->
    o_ph p' = match k with KStop => ODone (ROk 0) | _ => ODone (RErr ESend) end.
  Proof.
    intros Hn Hx Hend Hp'.
    destruct (step_new_op S _ o p' Hn Hp') as (k0 & a0 & c0 & t0 & f0 & q & s1 & evs & El & Hid & Hk & Ht & _ & Hqph & _ & HS & HB & _ & _ & _ & Hcl1 & _).
    injection El as <- <- <- <- <-.
    destruct (cores_ok_run f ls _ x Hx) as [_ _ _ _ k5 _ _]. apply k5 in Hend as Hcl.
    assert (Hc1 : forall y, get_actor s1 (o_tgt q) = Some y -> a_closed y = true).
    { intros y Hy. destruct (Hcl1 _ y Hy) as (x' & Hx' & ->). rewrite Ht, Hx in Hx'. injection Hx' as <-. exact Hcl. }
    inversion HB; subst;
      match goal with H : get_actor s1 (o_tgt q) = Some ?y |- _ => pose proof (Hc1 y H) end; try congruence.
    - destruct (o_kind q); congruence.
    - destruct (o_kind q); congruence.
  Qed.
End Run.

(* ---------- one handler exit per request, logged by the request's target ---------- *)
Fixpoint exits (es : list event) : list (oid * hout) :=
  match es with
  | [] => []
  | EvHandleExit _ o out :: t => (o, out) :: exits t
  | _ :: t => exits t end.

Definition infl (st : lcstate) : list oid := match st with LcHandle o _ _ => [o] | _ => [] end.

Lemma lc_run_panicked es st : lc_run LcPanicked es = Some st -> es = [].
Proof. destruct es as [|e es]; [reflexivity|]. cbn. destruct e; discriminate. Qed.
Lemma lc_run_done r es st : lc_run (LcDone r) es = Some st -> es = [].
Proof. destruct es as [|e es]; [reflexivity|]. cbn. destruct e; discriminate. Qed.

(* the recogniser pairs every exit with the entry before it *)
Lemma lc_exits_prefix es : forall st st',
  lc_run st es = Some st' -> exists rest, infl st ++ handled_events es = map fst (exits es) ++ rest.
Proof.
  induction es as [|e es IH]; intros st st' H.
  - exists (infl st). cbn. rewrite app_nil_r. reflexivity.
  - cbn [lc_run] in H. destruct (lc_step st e) as [st1|] eqn:E; [|discriminate].
    destruct (IH st1 st' H) as (rest1 & IH1).
    destruct st, e; cbn in E; try discriminate;
      try (injection E as <-; cbn [infl handled_events exits map fst app] in *; exists rest1; exact IH1).
    + (* on_start outcome *)
      destruct out; injection E as <-; cbn [infl handled_events exits map fst app] in *; exists rest1; exact IH1.
    + (* handler entry *)
      destruct k; try discriminate; injection E as <-; cbn [infl handled_events exits map fst app] in *; exists rest1; exact IH1.
    + destruct r; try discriminate; injection E as <-; cbn [infl handled_events exits map fst app] in *; exists rest1; exact IH1.
    + (* handler exit *)
      destruct (Nat.eqb_spec o0 o) as [->|]; [|discriminate].
      assert (Hi : infl st1 = []) by (destruct out; injection E as <-; try reflexivity; destruct k; reflexivity).
      rewrite Hi in IH1. cbn [infl handled_events exits map fst app] in *. exists rest1. rewrite IH1. reflexivity.
    + (* the detector fires inside a handler: nothing can follow *)
      injection E as <-. apply lc_run_panicked in H. subst es. exists [o]. reflexivity.
    + destruct (o0 =? o); [|discriminate]. injection E as <-. cbn [infl handled_events exits map fst app] in *. exists rest1; exact IH1.
    + destruct killed; try discriminate. injection E as <-. cbn [infl handled_events exits map fst app] in *. exists rest1; exact IH1.
    + destruct out; injection E as <-; cbn [infl handled_events exits map fst app] in *; exists rest1; exact IH1.
Qed.

Lemma exits_in a o out es : In (EvHandleExit a o out) es -> In (o, out) (exits es).
Proof.
  induction es as [|e es IH]; [intros []|]. intros [->|H]; [left; reflexivity|].
  destruct e; cbn; auto.
Qed.

Lemma nodup_fst_unique {A B} (l : list (A * B)) a b1 b2 :
  NoDup (map fst l) -> In (a, b1) l -> In (a, b2) l -> b1 = b2.
Proof.
  induction l as [|[a' b'] l IH]; [intros _ []|]. cbn. intros Hnd H1 H2. apply NoDup_cons_iff in Hnd. destruct Hnd as [Hn Hnd].
  destruct H1 as [E1|H1], H2 as [E2|H2].
  - congruence.
  - injection E1 as -> ->. exfalso. apply Hn. apply in_map_iff. exists (a, b2). auto.
  - injection E2 as -> ->. exfalso. apply Hn. apply in_map_iff. exists (a, b1). auto.
  - apply IH; assumption.
Qed.

Lemma nodup_prefix {A} (l1 l2 : list A) : NoDup (l1 ++ l2) -> NoDup l1.
Proof. induction l1 as [|x l1 IH]; cbn; intros H; [constructor|]. apply NoDup_cons_iff in H. destruct H as [Hn H].
  constructor; [|apply IH, H]. intros Hin. apply Hn. apply in_or_app. left. exact Hin. Qed.

Section Exits.
  Variables (f : feats) (ls : list label).
  Local Notation S := (run f ls).

  Lemma exit_in_hook_events a o out :
    In (EvHandleExit a o out) (s_trace S) -> In (EvHandleExit a o out) (hook_events S a).
  Proof.
    intros H. unfold hook_events. apply filter_In. split; [apply in_rev in H; exact H|]. cbn. apply Nat.eqb_refl.
  Qed.

  Lemma run_exits_prefix a :
    exists rest, handled_events (hook_events S a) = map fst (exits (hook_events S a)) ++ rest.
  Proof.
    destruct (get_actor S a) as [x|] eqn:Hx.
    - pose proof (proj1 (lc_ok_run f ls) a x Hx) as H. apply lc_exits_prefix in H. exact H.
    - rewrite (proj2 (lc_ok_run f ls) a Hx). exists []. reflexivity.
  Qed.

  (* a request's handler returns at most once: the logged outcome of request o is unique *)
  Theorem run_exit_unique a o out1 out2 :
    In (EvHandleExit a o out1) (s_trace S) -> In (EvHandleExit a o out2) (s_trace S) -> out1 = out2.
  Proof.
    intros H1 H2. apply exit_in_hook_events, exits_in in H1. apply exit_in_hook_events, exits_in in H2.
    destruct (run_exits_prefix a) as (rest & E).
    pose proof (run_handled_at_most_once f ls a) as Hnd. rewrite E in Hnd. apply nodup_prefix in Hnd.
    eapply nodup_fst_unique; eassumption.
  Qed.

  (* and it is the request's own target that logs it *)
  Theorem run_exit_by_target a o out p :
    In (EvHandleExit a o out) (s_trace S) -> get_op S o = Some p -> o_tgt p = a.
  Proof.
    intros H Hp. apply exit_in_hook_events, exits_in in H.
    destruct (run_exits_prefix a) as (rest & E).
    assert (Hin : In o (handled_events (hook_events S a))).
    { rewrite E. apply in_or_app. left. apply in_map_iff. exists (o, out). auto. }
    destruct (get_actor S a) as [x|] eqn:Hx.
    - rewrite (run_handled_is_dequeued f ls a x Hx) in Hin. apply in_map_iff in Hin. destruct Hin as ([o' k] & Eo & Hi).
      cbn in Eo. subst o'. apply envs_incl in Hi.
      destruct (run_fifo f ls a x Hx) as (rest' & Ea).
      destruct (q_ok_run f ls) as (_ & Hq2 & _).
      destruct (Hq2 a x o k Hx) as (p0 & Hp0 & Ht & _); [rewrite Ea; apply in_or_app; left; exact Hi|].
      congruence.
    - rewrite (proj2 (lc_ok_run f ls) a Hx) in Hin. destruct Hin.
  Qed.
End Exits.
