(* How one step of the system looks from one operation record. *)
From RS Require Import Tactics Frame ListFacts Spec Silent Lifecycle ClientFrame NF ActorSpec StepCases OpsSpec.

(* what the actor side can do to an operation record: deliver the reply, or drop the reply sender *)
Inductive SlotCase (p p' : op) (evs : list event) : Prop :=
| SLC_same : p' = p -> SlotCase p p' evs
| SLC_reply a out :
    o_slot p = SlEmpty -> p' = set_o_slot (SlVal (hval out)) p -> out <> HPanic ->
    In (EvHandleExit a (o_id p) out) evs -> SlotCase p p' evs
| SLC_closed : o_slot p = SlEmpty -> p' = set_o_slot SlClosed p -> SlotCase p p' evs.

Lemma close_fo_case os fo p evs :
  SlotCase p (fo p) evs -> SlotCase p (close_fo os fo p) evs.
Proof.
  intros H. unfold close_fo. destruct (existsb (Nat.eqb (o_id (fo p))) os); [|exact H].
  destruct (o_slot (fo p)) eqn:E; try exact H.
  inversion H as [E1|a out E0 E1 Hnp Hin|E0 E1].
  - rewrite E1 in *. apply SLC_closed; [exact E|reflexivity].
  - rewrite E1 in E. discriminate.
  - rewrite E1 in E. discriminate.
Qed.

Lemma ido_case p evs : SlotCase p (ido p) evs.
Proof. apply SLC_same. reflexivity. Qed.

Lemma handle_close_case o k p evs : SlotCase p (handle_close o k ido p) evs.
Proof. unfold handle_close. destruct k; try apply ido_case. apply close_fo_case, ido_case. Qed.

Lemma local_slot_case s a x l f fo evs p :
  Local s a x l f fo evs -> SlotCase p (fo p) evs.
Proof.
  intros HL. inversion HL; subst; try apply ido_case; try (apply close_fo_case, ido_case);
    try (apply close_fo_case, handle_close_case).
  (* handle done *)
  destruct k; try apply ido_case. unfold reply_fo. destruct (Nat.eqb_spec (o_id p) o) as [E|]; [|apply SLC_same; reflexivity].
  destruct (o_slot p) eqn:Es; try (apply SLC_same; reflexivity).
  eapply (SLC_reply _ _ _ a out); [exact Es|reflexivity|assumption|]. rewrite E. cbn. auto.
Qed.

Lemma ddpanic_slot_case s a x f fo evs p : DdPanic s a x f fo evs -> SlotCase p (fo p) evs.
Proof. intros HD. inversion HD; subst; apply close_fo_case; [apply ido_case|apply handle_close_case]. Qed.

Lemma fo_preserves_id s a x l f fo evs p : Local s a x l f fo evs -> o_id (fo p) = o_id p.
Proof.
  intros HL. destruct (local_slot_case s a x l f fo evs p HL) as [->|b out _ -> _ _|_ ->]; reflexivity.
Qed.
Lemma fo_preserves_id_dd s a x f fo evs p : DdPanic s a x f fo evs -> o_id (fo p) = o_id p.
Proof.
  intros HD. destruct (ddpanic_slot_case s a x f fo evs p HD) as [->|b out _ -> _ _|_ ->]; reflexivity.
Qed.

Inductive OpCase (s : sys) (l : label) (o : oid) (p p' : op) : Prop :=
| OC_same : p' = p -> OpCase s l o p p'
| OC_poll evs :
    l = LPoll o -> is_done (o_ph p) = false -> OpStep s (sys_step s l) o p p' evs -> PollCase s p p' evs ->
    OpCase s l o p p'
| OC_cancel :
    l = LCancel o -> is_done (o_ph p) = false -> p' = done_f RCancelled p -> OpCase s l o p p'
| OC_slot evs :
    (exists es, s_trace (sys_step s l) = evs ++ es ++ s_trace s \/ s_trace (sys_step s l) = evs ++ s_trace s) ->
    SlotCase p p' evs -> OpCase s l o p p'.

Lemma kill_ops s a : s_ops (kill a s) = s_ops s.
Proof. unfold kill. repeat case_match; reflexivity. Qed.
Lemma ref_clone_ops s a : s_ops (ref_clone a s) = s_ops s.
Proof. unfold ref_clone. repeat case_match; reflexivity. Qed.
Lemma ref_drop_ops s a : s_ops (ref_drop a s) = s_ops s.
Proof. unfold ref_drop. repeat case_match; reflexivity. Qed.
Lemma ref_upgrade_ops s a : s_ops (ref_upgrade a s) = s_ops s.
Proof. unfold ref_upgrade. repeat case_match; reflexivity. Qed.
Lemma spawn_ops s c : s_ops (spawn c s) = s_ops s.
Proof. unfold spawn. repeat case_match; reflexivity. Qed.

(* the non-panicking part of begin leaves every other operation record alone *)
Lemma begin_send_others s0 q caller g o p :
  o_ph q = OPre -> o <> o_id q -> get_op s0 (o_id q) = None -> get_op s0 o = Some p ->
  (forall st o2, get_op (g st) o2 = get_op st o2) ->
  (forall st b, get_actor (g st) b = get_actor st b) ->
  (exists xa, get_actor s0 (o_tgt q) = Some xa) ->
  get_op (post_inner (o_id q) (try_send q (set_hop caller (o_id q) (g (set_s_ops (s_ops s0 ++ [q]) s0))))) o = Some p.
Proof.
  intros Hph Hne Hfresh Hp Hg Hga [xa Hxa].
  set (s1 := set_hop caller (o_id q) (g (set_s_ops (s_ops s0 ++ [q]) s0))).
  assert (Hops : forall o2, get_op s1 o2 = get_op (set_s_ops (s_ops s0 ++ [q]) s0) o2).
  { intros o2. unfold s1, set_hop. destruct caller; [rewrite get_op_upd_actor|]; apply Hg. }
  assert (H1 : get_op s1 (o_id q) = Some q).
  { rewrite Hops, get_op_app, Hfresh, Nat.eqb_refl. reflexivity. }
  assert (H1o : get_op s1 o = Some p).
  { rewrite Hops, get_op_app, Hp. reflexivity. }
  assert (Hx1 : exists x1, get_actor s1 (o_tgt q) = Some x1).
  { unfold s1, set_hop. destruct caller as [b|].
    - rewrite get_actor_upd_actor, Hga. change (get_actor (set_s_ops _ s0) (o_tgt q)) with (get_actor s0 (o_tgt q)).
      rewrite Hxa. destruct (o_tgt q =? b); cbn; eauto.
    - rewrite Hga. change (get_actor (set_s_ops _ s0) (o_tgt q)) with (get_actor s0 (o_tgt q)). eauto. }
  destruct (first_poll_spec s1 q H1 Hph Hx1) as (q' & evs & [_ _ _ _ _ Ot _] & _).
  rewrite Ot by exact Hne. exact H1o.
Qed.

Lemma begin_old_op s o' k a caller tmo fn o p :
  get_op s o = Some p ->
  exists p', get_op (begin o' k a caller tmo fn s) o = Some p' /\ OpCase s (LBegin o' k a caller tmo fn) o p p'.
Proof.
  intros Hp.
  assert (Est : sys_step s (LBegin o' k a caller tmo fn) = begin o' k a caller tmo fn s) by reflexivity.
  assert (Hsame : forall st, st = s -> exists p', get_op st o = Some p' /\ OpCase s (LBegin o' k a caller tmo fn) o p p').
  { intros st ->. exists p. split; [exact Hp|apply OC_same; reflexivity]. }
  unfold begin in *.
  destruct (get_op s o') eqn:Hfresh; [apply Hsame; reflexivity|].
  assert (Hne : o <> o') by (intros E; subst; congruence).
  destruct (get_actor s a) as [xa|] eqn:Hxa; [|apply Hsame; reflexivity].
  destruct (caller_ok s caller && (0 <? a_ext xa)) eqn:Hc; [|apply Hsame; reflexivity].
  set (s0 := emit (EvBegin o' k a) s) in *.
  destruct (dd_check s k caller xa) as [|c bid|c cyc] eqn:Hdd.
  - exists p. split; [|apply OC_same; reflexivity].
    apply (begin_send_others s0 (mkOp o' k a fn caller _ OPre SlEmpty false) caller (fun st => st) o p);
      try reflexivity; try assumption. exists xa. exact Hxa.
  - exists p. split; [|apply OC_same; reflexivity].
    apply (begin_send_others s0 (mkOp o' k a fn caller _ OPre SlEmpty true) caller
             (fun st => set_s_graph (g_insert bid (a_id xa) (s_graph s0)) st) o p);
      try reflexivity; try assumption. exists xa. exact Hxa.
  - (* the caller panics: its queued asks lose their reply senders *)
    unfold dd_check in Hdd. destruct k; try discriminate. destruct caller as [c'|]; try discriminate.
    destruct (f_dd (s_feat s)); try discriminate.
    destruct (get_actor s c') as [xc|] eqn:Hxc; try discriminate.
    destruct (N.eqb (a_id xc) (a_id xa) || has_path (s_graph s) (a_id xa) (a_id xc)); try discriminate.
    injection Hdd as <- <-. apply andb_prop in Hc. destruct Hc as [Hc _]. cbn in Hc. rewrite Hxc in Hc.
    apply andb_prop in Hc. destruct Hc as [Hhook _].
    assert (Hfin : forall F FO EVS,
              panic_actor c' (emit (EvDeadlock c' (format_cycle (s_graph s) (a_id xc) (a_id xa))) s0) = NF c' F FO EVS s ->
              DdPanic s c' xc F FO EVS ->
              exists p', get_op (panic_actor c' (emit (EvDeadlock c' (format_cycle (s_graph s) (a_id xc) (a_id xa))) s0)) o = Some p' /\
                         OpCase s (LBegin o' KAsk a (Some c') tmo fn) o p p').
    { intros F FO EVS E HD. rewrite E. rewrite NF_get_op by (intros q; eapply fo_preserves_id_dd; exact HD).
      rewrite Hp. cbn [option_map]. eexists. split; [reflexivity|]. eapply (OC_slot _ _ _ _ _ EVS).
      - exists []. right. rewrite Est, E. reflexivity.
      - eapply ddpanic_slot_case. exact HD. }
    destruct (a_pc xc) as [| | |ho hk| | |] eqn:Hpc.
    all: try (unfold in_hook in Hhook; rewrite Hpc in Hhook; discriminate).
    + eapply Hfin.
      * unfold s0. rewrite (emit_NF0 c' s (EvBegin o' KAsk a)), NF_emit.
        rewrite (NF_panic_actor_plain c' _ _ _ s xc Hxc) by (intros o2 k2; unfold idf; rewrite Hpc; discriminate). reflexivity.
      * apply DdP_plain; [exact Hhook|]. intros o2 k2 E. unfold idf in E. rewrite Hpc in E. discriminate.
    + eapply Hfin.
      * unfold s0. rewrite (emit_NF0 c' s (EvBegin o' KAsk a)), NF_emit.
        rewrite (NF_panic_actor_handle c' _ _ _ s xc ho hk Hxc) by (unfold idf; exact Hpc). reflexivity.
      * apply DdP_handle. exact Hpc.
    + eapply Hfin.
      * unfold s0. rewrite (emit_NF0 c' s (EvBegin o' KAsk a)), NF_emit.
        rewrite (NF_panic_actor_plain c' _ _ _ s xc Hxc) by (intros o2 k2; unfold idf; rewrite Hpc; discriminate). reflexivity.
      * apply DdP_plain; [exact Hhook|]. intros o2 k2 E. unfold idf in E. rewrite Hpc in E. discriminate.
Qed.

(* every operation record that exists before a step exists after it, and changed in one of four ways *)
Theorem op_step_cases s l o p :
  get_op s o = Some p ->
  exists p', get_op (sys_step s l) o = Some p' /\ OpCase s l o p p'.
Proof.
  intros Hp.
  assert (Hsame : s_ops (sys_step s l) = s_ops s -> exists p', get_op (sys_step s l) o = Some p' /\ OpCase s l o p p').
  { intros E. exists p. split; [unfold get_op in *; rewrite E; exact Hp|apply OC_same; reflexivity]. }
  assert (Hactor : forall b, label_actor l = Some b -> exists p', get_op (sys_step s l) o = Some p' /\ OpCase s l o p p').
  { intros b Hl. destruct (get_actor s b) as [xb|] eqn:Hxb.
    - destruct (actor_step_nf s l b xb Hl Hxb) as (f & fo & evs & E & HL).
      rewrite E. rewrite NF_get_op by (intros q; eapply fo_preserves_id; exact HL). rewrite Hp. cbn [option_map].
      eexists. split; [reflexivity|]. eapply (OC_slot _ _ _ _ _ evs).
      + exists []. right. rewrite E. reflexivity.
      + eapply local_slot_case. exact HL.
    - apply Hsame. rewrite (actor_step_absent s l b Hl Hxb). reflexivity. }
  destruct l; try (apply (Hactor a); reflexivity).
  - apply Hsame. apply spawn_ops.
  - apply begin_old_op, Hp.
  - (* poll *)
    cbn [sys_step]. destruct (Nat.eqb_spec o0 o) as [->|Hne].
    + destruct (is_done (o_ph p)) eqn:Hd.
      * exists p. split; [unfold poll; rewrite Hp, Hd; exact Hp|apply OC_same; reflexivity].
      * destruct (poll_spec s o p Hp Hd) as (p' & evs & HS & HC). exists p'. split; [apply HS|].
        eapply OC_poll; [reflexivity|exact Hd|exact HS|exact HC].
    + destruct (get_op s o0) as [q|] eqn:Hq.
      * destruct (is_done (o_ph q)) eqn:Hd.
        -- exists p. split; [unfold poll; rewrite Hq, Hd; exact Hp|apply OC_same; reflexivity].
        -- destruct (poll_spec s o0 q Hq Hd) as (q' & evs & [_ _ _ _ _ Ot _] & _). exists p.
           split; [rewrite Ot by congruence; exact Hp|apply OC_same; reflexivity].
      * exists p. split; [unfold poll; rewrite Hq; exact Hp|apply OC_same; reflexivity].
  - (* cancel *)
    cbn [sys_step]. destruct (get_op s o0) as [q|] eqn:Hq.
    + destruct (is_done (o_ph q)) eqn:Hd; [exists p; split; [unfold cancel; rewrite Hq, Hd; exact Hp|apply OC_same; reflexivity]|].
      destruct (o_caller q) eqn:Hcl; [exists p; split; [unfold cancel; rewrite Hq, Hd, Hcl; exact Hp|apply OC_same; reflexivity]|].
      pose proof (cancel_spec s o0 q Hq Hd Hcl) as [G _ _ _ _ Ot _].
      destruct (Nat.eqb_spec o0 o) as [->|Hne].
      * rewrite Hp in Hq. injection Hq as <-. exists (done_f RCancelled p). split; [exact G|].
        apply OC_cancel; [reflexivity|exact Hd|reflexivity].
      * exists p. split; [rewrite Ot by congruence; exact Hp|apply OC_same; reflexivity].
    + exists p. split; [unfold cancel; rewrite Hq; exact Hp|apply OC_same; reflexivity].
  - apply Hsame. apply kill_ops.
  - apply Hsame. apply ref_clone_ops.
  - apply Hsame. apply ref_drop_ops.
  - apply Hsame. apply ref_upgrade_ops.
  - apply Hsame. reflexivity.
Qed.

(* ---------- the three shapes of begin ---------- *)
Definition new_op (o : oid) (k : okind) (a : aid) (caller : option aid) (fn : fnname) (dl : option N) (tr : bool) : op :=
  mkOp o k a fn caller dl OPre SlEmpty tr.

Inductive BeginShape (s : sys) (o : oid) (k : okind) (a : aid) (caller : option aid) (tmo : option N) (fn : fnname) (s' : sys) : Prop :=
| BS_noop : s' = s -> BeginShape s o k a caller tmo fn s'
| BS_send q g xa :
    get_op s o = None -> get_actor s a = Some xa ->
    o_id q = o -> o_kind q = k -> o_tgt q = a -> o_caller q = caller -> o_ph q = OPre -> o_slot q = SlEmpty ->
    (forall st, s_actors (g st) = s_actors st) -> (forall st, s_trace (g st) = s_trace st) ->
    (forall st, s_ops (g st) = s_ops st) -> (forall st, s_now (g st) = s_now st) ->
    s' = post_inner o (try_send q (set_hop caller o (g (set_s_ops (s_ops s ++ [q]) (emit (EvBegin o k a) s))))) ->
    caller_ok s caller = true ->
    o_tracked q = (match dd_check s k caller xa with DDTrack _ _ => true | _ => false end) ->
    (forall c cyc, dd_check s k caller xa <> DDPanic c cyc) ->
    o_fn q = fn -> (o_deadline q = None <-> tmo = None) ->
    BeginShape s o k a caller tmo fn s'
| BS_panic c xc F FO EVS :
    get_op s o = None -> get_actor s c = Some xc -> DdPanic s c xc F FO EVS -> s' = NF c F FO EVS s ->
    BeginShape s o k a caller tmo fn s'.

(* the panicking shape, in normal form *)
Lemma begin_panic_nf s o k a caller xa c cyc :
  get_actor s a = Some xa -> caller_ok s caller = true -> dd_check s k caller xa = DDPanic c cyc ->
  exists xc F FO EVS, get_actor s c = Some xc /\ DdPanic s c xc F FO EVS /\
    panic_actor c (emit (EvDeadlock c cyc) (emit (EvBegin o k a) s)) = NF c F FO EVS s.
Proof.
  intros Hxa Hc Hdd.
  unfold dd_check in Hdd. destruct k; try discriminate. destruct caller as [c'|]; try discriminate.
  destruct (f_dd (s_feat s)); try discriminate.
  destruct (get_actor s c') as [xc|] eqn:Hxc; try discriminate.
  destruct (N.eqb (a_id xc) (a_id xa) || has_path (s_graph s) (a_id xa) (a_id xc)); try discriminate.
  injection Hdd as <- <-. unfold caller_ok in Hc. rewrite Hxc in Hc. apply andb_prop in Hc. destruct Hc as [Hhook _].
  rewrite (emit_NF0 c' s (EvBegin o KAsk a)), NF_emit.
  destruct (a_pc xc) as [| | |ho hk| | |] eqn:Hpc.
  all: try (unfold in_hook in Hhook; rewrite Hpc in Hhook; discriminate).
  - rewrite (NF_panic_actor_plain c' _ _ _ s xc Hxc) by (intros o' k'; unfold idf; rewrite Hpc; discriminate).
    eexists xc, _, _, _. split; [exact Hxc|]. split; [|reflexivity].
    apply DdP_plain; [exact Hhook|]. intros o' k' E. unfold idf in E. rewrite Hpc in E. discriminate.
  - rewrite (NF_panic_actor_handle c' _ _ _ s xc ho hk Hxc) by (unfold idf; exact Hpc).
    eexists xc, _, _, _. split; [exact Hxc|]. split; [|reflexivity]. apply DdP_handle. exact Hpc.
  - rewrite (NF_panic_actor_plain c' _ _ _ s xc Hxc) by (intros o' k'; unfold idf; rewrite Hpc; discriminate).
    eexists xc, _, _, _. split; [exact Hxc|]. split; [|reflexivity].
    apply DdP_plain; [exact Hhook|]. intros o' k' E. unfold idf in E. rewrite Hpc in E. discriminate.
Qed.

Lemma begin_cases s o k a caller tmo fn : BeginShape s o k a caller tmo fn (begin o k a caller tmo fn s).
Proof.
  unfold begin.
  destruct (get_op s o) eqn:Hfresh; [apply BS_noop; reflexivity|].
  destruct (get_actor s a) as [xa|] eqn:Hxa; [|apply BS_noop; reflexivity].
  destruct (caller_ok s caller && (0 <? a_ext xa)) eqn:Hc; [|apply BS_noop; reflexivity].
  apply andb_prop in Hc. destruct Hc as [Hc _].
  set (s0 := emit (EvBegin o k a) s).
  destruct (dd_check s k caller xa) as [|c bid|c cyc] eqn:Hdd.
  - eapply (BS_send _ _ _ _ _ _ _ _ (mkOp o k a fn caller _ OPre SlEmpty false) (fun st => st) xa); try reflexivity; try assumption.
    + rewrite Hdd. reflexivity.
    + intros c cyc. rewrite Hdd. discriminate.
    + cbn. destruct tmo; split; intros; congruence.
  - eapply (BS_send _ _ _ _ _ _ _ _ (mkOp o k a fn caller _ OPre SlEmpty true)
              (fun st => set_s_graph (g_insert bid (a_id xa) (s_graph s0)) st) xa); try reflexivity; try assumption.
    + rewrite Hdd. reflexivity.
    + intros c2 cyc. rewrite Hdd. discriminate.
    + cbn. destruct tmo; split; intros; congruence.
  - unfold dd_check in Hdd. destruct k; try discriminate. destruct caller as [c'|]; try discriminate.
    destruct (f_dd (s_feat s)); try discriminate.
    destruct (get_actor s c') as [xc|] eqn:Hxc; try discriminate.
    destruct (N.eqb (a_id xc) (a_id xa) || has_path (s_graph s) (a_id xa) (a_id xc)); try discriminate.
    injection Hdd as <- <-. cbn in Hc. rewrite Hxc in Hc. apply andb_prop in Hc. destruct Hc as [Hhook _].
    unfold s0. rewrite (emit_NF0 c' s (EvBegin o KAsk a)), NF_emit.
    destruct (a_pc xc) as [| | |ho hk| | |] eqn:Hpc.
    all: try (unfold in_hook in Hhook; rewrite Hpc in Hhook; discriminate).
    + rewrite (NF_panic_actor_plain c' _ _ _ s xc Hxc) by (intros o' k'; unfold idf; rewrite Hpc; discriminate).
      eapply BS_panic; [exact Hfresh|exact Hxc| |reflexivity].
      apply DdP_plain; [exact Hhook|]. intros o' k' E. unfold idf in E. rewrite Hpc in E. discriminate.
    + rewrite (NF_panic_actor_handle c' _ _ _ s xc ho hk Hxc) by (unfold idf; exact Hpc).
      eapply BS_panic; [exact Hfresh|exact Hxc| |reflexivity]. apply DdP_handle. exact Hpc.
    + rewrite (NF_panic_actor_plain c' _ _ _ s xc Hxc) by (intros o' k'; unfold idf; rewrite Hpc; discriminate).
      eapply BS_panic; [exact Hfresh|exact Hxc| |reflexivity].
      apply DdP_plain; [exact Hhook|]. intros o' k' E. unfold idf in E. rewrite Hpc in E. discriminate.
Qed.

(* the sending shape of begin: the new record is appended (state s1) and polled once *)
Lemma begin_send_spec s o k a caller q g xa s' :
  get_op s o = None -> get_actor s a = Some xa -> o_id q = o -> o_tgt q = a -> o_ph q = OPre ->
  (forall st, s_actors (g st) = s_actors st) -> (forall st, s_trace (g st) = s_trace st) ->
  (forall st, s_ops (g st) = s_ops st) -> (forall st, s_now (g st) = s_now st) ->
  s' = post_inner o (try_send q (set_hop caller o (g (set_s_ops (s_ops s ++ [q]) (emit (EvBegin o k a) s))))) ->
  exists s1 p' evs,
    OpStep s1 s' o q p' evs /\ BeginCase s1 q p' evs /\
    (forall o', o' <> o -> get_op s1 o' = get_op s o') /\
    s_trace s1 = EvBegin o k a :: s_trace s /\ s_now s1 = s_now s /\
    (forall b y, get_actor s1 b = Some y -> exists x, get_actor s b = Some x /\ a_closed y = a_closed x).
Proof.
  intros Hfresh Hxa Hid Htgt Hph Ga Gt Go Gn ->.
  set (s0 := emit (EvBegin o k a) s).
  set (s1 := set_hop caller o (g (set_s_ops (s_ops s0 ++ [q]) s0))).
  assert (Hops : forall o2, get_op s1 o2 = get_op (set_s_ops (s_ops s0 ++ [q]) s0) o2).
  { intros o2. unfold s1, set_hop. destruct caller; [rewrite get_op_upd_actor|]; unfold get_op; rewrite Go; reflexivity. }
  assert (H1 : get_op s1 (o_id q) = Some q).
  { rewrite Hops, get_op_app. change (get_op s0 (o_id q)) with (get_op s (o_id q)). rewrite Hid, Hfresh, Nat.eqb_refl. reflexivity. }
  assert (Hx1 : exists x1, get_actor s1 (o_tgt q) = Some x1).
  { rewrite Htgt. unfold s1, set_hop. destruct caller as [b|].
    - rewrite get_actor_upd_actor. unfold get_actor at 1 2. rewrite Ga. change (nth_error (s_actors _) a) with (get_actor s a).
      rewrite Hxa. destruct (a =? b); cbn; eauto.
    - unfold get_actor. rewrite Ga. change (nth_error (s_actors _) a) with (get_actor s a). eauto. }
  destruct (first_poll_spec s1 q H1 Hph Hx1) as (p' & evs & HS & HB). rewrite Hid in HS.
  exists s1, p', evs. split; [exact HS|]. split; [exact HB|]. split; [|split; [|split]].
  - intros o' Hne. rewrite Hops, get_op_app. change (get_op s0 o') with (get_op s o').
    destruct (get_op s o'); [reflexivity|]. rewrite Hid. apply Nat.eqb_neq in Hne. rewrite Nat.eqb_sym, Hne. reflexivity.
  - unfold s1, set_hop. destruct caller; [rewrite trace_upd_actor|]; rewrite Gt; reflexivity.
  - unfold s1, set_hop. destruct caller; [change (s_now (upd_actor ?b ?f ?st)) with (s_now st)|]; rewrite Gn; reflexivity.
  - intros b y Hy. unfold s1, set_hop in Hy. destruct caller as [c|].
    + rewrite get_actor_upd_actor in Hy. unfold get_actor at 1 2 in Hy. rewrite Ga in Hy.
      change (nth_error (s_actors _) b) with (get_actor s b) in Hy.
      destruct (get_actor s b) as [x|]; [|destruct (b =? c); discriminate].
      exists x. split; [reflexivity|]. destruct (b =? c); cbn in Hy; injection Hy as <-; reflexivity.
    + unfold get_actor in Hy. rewrite Ga in Hy. change (nth_error (s_actors _) b) with (get_actor s b) in Hy. eauto.
Qed.

(* where a new operation record can come from: only from begin, in its sending shape *)
Lemma step_new_op s l o p' :
  get_op s o = None -> get_op (sys_step s l) o = Some p' ->
  exists k a caller tmo fn q s1 evs,
    l = LBegin o k a caller tmo fn /\ o_id q = o /\ o_kind q = k /\ o_tgt q = a /\ o_caller q = caller /\
    o_ph q = OPre /\ o_slot q = SlEmpty /\
    OpStep s1 (sys_step s l) o q p' evs /\ BeginCase s1 q p' evs /\
    (forall o', o' <> o -> get_op s1 o' = get_op s o') /\
    s_trace s1 = EvBegin o k a :: s_trace s /\ s_now s1 = s_now s /\
    (forall b y, get_actor s1 b = Some y -> exists x, get_actor s b = Some x /\ a_closed y = a_closed x) /\
    (* with the detector on, an ask begun by a hook is tracked *)
    (f_dd (s_feat s) = true -> k = KAsk -> (exists b, caller = Some b) -> o_tracked q = true) /\
    o_fn q = fn /\ (o_deadline q = None <-> tmo = None).
Proof.
  intros Hn Hp'.
  assert (Hsame : s_ops (sys_step s l) = s_ops s -> False).
  { intros E. unfold get_op in *. rewrite E in Hp'. congruence. }
  assert (Hactor : forall b, label_actor l = Some b -> False).
  { intros b Hl. destruct (get_actor s b) as [xb|] eqn:Hxb.
    - destruct (actor_step_nf s l b xb Hl Hxb) as (f & fo & evs & E & HL).
      rewrite E, NF_get_op, Hn in Hp' by (intros q; eapply fo_preserves_id; exact HL). discriminate.
    - apply Hsame. rewrite (actor_step_absent s l b Hl Hxb). reflexivity. }
  destruct l; try (exfalso; apply (Hactor a); reflexivity).
  - exfalso. apply Hsame. apply spawn_ops.
  - cbn [sys_step] in Hp'.
    destruct (begin_cases s o0 k a caller tmo fn) as [E|q g xa Hf Hxa Hid Hk Ht Hcl Hph Hsl Ga Gt Go Gn E Hcok Htrk Hnp Hfn Hdl|c xc F FO EVS _ Hxc HD E].
    + rewrite E in Hp'. congruence.
    + destruct (begin_send_spec s o0 k a caller q g xa _ Hf Hxa Hid Ht Hph Ga Gt Go Gn E) as (s1 & q' & evs & HS & HB & Ho & Htr & Hnow & Hcl1).
      destruct (Nat.eqb_spec o o0) as [->|Hne].
      * pose proof (os_get _ _ _ _ _ _ HS) as G. rewrite Hp' in G. injection G as ->.
        exists k. exists a. exists caller. exists tmo. exists fn. exists q. exists s1. exists evs.
        cbn [sys_step]. repeat (split; [first [assumption|reflexivity]|]).
        split; [|split; assumption].
        intros Hdd -> [b ->]. rewrite Htrk. unfold dd_check in *. rewrite Hdd in *.
        unfold caller_ok in Hcok. destruct (get_actor s b) as [yb|]; [|discriminate].
        destruct (N.eqb (a_id yb) (a_id xa) || has_path (s_graph s) (a_id xa) (a_id yb)); [|reflexivity].
        exfalso. eapply Hnp. reflexivity.
      * exfalso. rewrite (os_others _ _ _ _ _ _ HS o Hne), (Ho o Hne), Hn in Hp'. discriminate.
    + rewrite E, NF_get_op, Hn in Hp' by (intros q; eapply fo_preserves_id_dd; exact HD). discriminate.
  - exfalso. cbn [sys_step] in Hp'. destruct (get_op s o0) as [q|] eqn:Hq.
    + destruct (is_done (o_ph q)) eqn:Hd; [unfold poll in Hp'; rewrite Hq, Hd in Hp'; congruence|].
      destruct (poll_spec s o0 q Hq Hd) as (q' & evs & HS & _).
      destruct (Nat.eqb_spec o o0) as [->|Hne]; [congruence|].
      rewrite (os_others _ _ _ _ _ _ HS o Hne), Hn in Hp'. discriminate.
    + unfold poll in Hp'. rewrite Hq in Hp'. congruence.
  - exfalso. cbn [sys_step] in Hp'. destruct (get_op s o0) as [q|] eqn:Hq.
    + destruct (is_done (o_ph q)) eqn:Hd; [unfold cancel in Hp'; rewrite Hq, Hd in Hp'; congruence|].
      destruct (o_caller q) eqn:Hcl; [unfold cancel in Hp'; rewrite Hq, Hd, Hcl in Hp'; congruence|].
      pose proof (cancel_spec s o0 q Hq Hd Hcl) as HS.
      destruct (Nat.eqb_spec o o0) as [->|Hne]; [congruence|].
      rewrite (os_others _ _ _ _ _ _ HS o Hne), Hn in Hp'. discriminate.
    + unfold cancel in Hp'. rewrite Hq in Hp'. congruence.
  - exfalso. apply Hsame. apply kill_ops.
  - exfalso. apply Hsame. apply ref_clone_ops.
  - exfalso. apply Hsame. apply ref_drop_ops.
  - exfalso. apply Hsame. apply ref_upgrade_ops.
  - exfalso. apply Hsame. reflexivity.
Qed.
