(* The ghost list a_accepted of an actor is exactly the sequence of EvAccept events logged for it:
   the mailbox accepts an envelope at the moment - and only at the moment - the model logs the
   acceptance.  (This ties the per-actor FIFO statements, which talk about a_accepted, to the
   global real-time order of the trace.) *)
From RS Require Import Tactics Frame ListFacts NF ActorSpec StepCases OpsSpec OpCases.

Fixpoint accept_evs (a : aid) (es : list event) : list item :=
  match es with
  | [] => []
  | EvAccept b o k :: t => if b =? a then (o, k) :: accept_evs a t else accept_evs a t
  | _ :: t => accept_evs a t
  end.

Definition is_accept (e : event) : bool := match e with EvAccept _ _ _ => true | _ => false end.

Lemma accept_evs_app a l1 l2 : accept_evs a (l1 ++ l2) = accept_evs a l1 ++ accept_evs a l2.
Proof.
  induction l1 as [|e l1 IH]; cbn; [reflexivity|]. destruct e; try exact IH.
  destruct (a0 =? a); cbn; rewrite IH; reflexivity.
Qed.
Lemma accept_evs_none a l : forallb (fun e => negb (is_accept e)) l = true -> accept_evs a l = [].
Proof.
  induction l as [|e l IH]; cbn; [reflexivity|]. intros H. apply andb_prop in H. destruct H as [He Hl].
  destruct e; try (apply IH, Hl). discriminate.
Qed.

Definition accepted_of (s : sys) (a : aid) : list item :=
  match get_actor s a with Some x => a_accepted x | None => [] end.

(* the trace is newest first, the ghost list oldest first *)
Definition acc_ok (s : sys) : Prop := forall a, accept_evs a (s_trace s) = rev (accepted_of s a).

Lemma acc_emit e s : is_accept e = false -> acc_ok s -> acc_ok (emit e s).
Proof.
  intros He H a. unfold accepted_of. rewrite get_actor_emit. cbn [emit s_trace set_s_trace].
  destruct e; try discriminate; cbn [accept_evs]; apply H.
Qed.
Lemma acc_upd_actor a f s : (forall x, a_accepted (f x) = a_accepted x) -> acc_ok s -> acc_ok (upd_actor a f s).
Proof.
  intros Hf H b. unfold accepted_of. rewrite trace_upd_actor, get_actor_upd_actor.
  specialize (H b). unfold accepted_of in H.
  destruct (b =? a); [|exact H]. destruct (get_actor s b); cbn [option_map]; [rewrite Hf|]; exact H.
Qed.
Lemma acc_push a o k s : (exists x, get_actor s a = Some x) -> acc_ok s -> acc_ok (push a o k s).
Proof.
  intros [x Hx] H b. unfold push, accepted_of. cbn [emit s_trace set_s_trace accept_evs].
  rewrite get_actor_emit, trace_upd_actor, get_actor_upd_actor. specialize (H b). unfold accepted_of in H.
  destruct (Nat.eqb_spec a b) as [->|Hne].
  - rewrite Nat.eqb_refl, Hx in *. cbn [option_map a_accepted set_a_accepted].
    rewrite rev_app_distr. cbn. rewrite H. reflexivity.
  - assert (E : b =? a = false) by (apply Nat.eqb_neq; congruence). rewrite E. exact H.
Qed.

Ltac aside := intros ?x; cbv beta; repeat case_match; reflexivity.
Ltac aprim := first [ assumption | apply acc_upd_actor; [aside|] ].
Ltac aauto := repeat (repeat case_match; aprim).

Lemma acc_record_dl s a o f c : acc_ok s -> acc_ok (record_dl a o f c s).
Proof.
  unfold record_dl. generalize (dl_sites (site_fn f c) c). intros l. revert s.
  induction l as [|rl l IH]; intros s H; cbn [fold_left]; [exact H|].
  apply IH. unfold record_one. apply acc_emit; [reflexivity|]. destruct (f_testutils (s_feat s)); exact H.
Qed.
Lemma acc_drop_guard s p : acc_ok s -> acc_ok (drop_guard p s).
Proof. intros H. unfold drop_guard. repeat case_match; exact H. Qed.
Lemma acc_clear_hop s p : acc_ok s -> acc_ok (clear_hop p s).
Proof. intros H. unfold clear_hop. aauto. Qed.
Lemma acc_set_hop s c o : acc_ok s -> acc_ok (set_hop c o s).
Proof. intros H. unfold set_hop. aauto. Qed.
Lemma acc_finish s o r : acc_ok s -> acc_ok (finish o r s).
Proof.
  intros H. unfold finish. case_match; [|exact H].
  apply acc_emit; [reflexivity|]. apply acc_clear_hop, acc_drop_guard. exact H.
Qed.
Lemma acc_after_push s o k : acc_ok s -> acc_ok (after_push o k s).
Proof. intros H. unfold after_push. destruct k; try (apply acc_finish; exact H). exact H. Qed.
Lemma acc_send_failed s p : acc_ok s -> acc_ok (send_failed p s).
Proof. intros H. unfold send_failed. destruct (o_kind p); apply acc_finish; try apply acc_record_dl; exact H. Qed.
Lemma acc_regrant s a : acc_ok s -> acc_ok (regrant a s).
Proof. intros H. unfold regrant. aauto. Qed.
Lemma acc_unwait s a o : acc_ok s -> acc_ok (unwait a o s).
Proof. intros H. unfold unwait. aauto. Qed.
Lemma acc_ungrant s a o : acc_ok s -> acc_ok (ungrant a o s).
Proof. intros H. unfold ungrant. aauto. Qed.
Lemma acc_try_send s p : acc_ok s -> acc_ok (try_send p s).
Proof.
  intros H. unfold try_send. destruct (get_actor s (o_tgt p)) as [x|] eqn:Hx; [|exact H].
  destruct (a_closed x); [apply acc_send_failed, H|]. destruct (free_slot x).
  - apply acc_after_push, acc_push; [eauto|exact H].
  - aauto.
Qed.
Lemma acc_poll_inner s p : acc_ok s -> acc_ok (poll_inner p s).
Proof.
  intros H. unfold poll_inner. destruct (get_actor s (o_tgt p)) as [x|] eqn:Hx; [|exact H].
  destruct (o_ph p); try exact H.
  - destruct (a_closed x); [apply acc_send_failed, acc_unwait, acc_ungrant, H|].
    destruct (is_granted x (o_id p)); [|exact H].
    apply acc_after_push, acc_push; [|apply acc_ungrant, H].
    unfold ungrant. rewrite (get_actor_upd_same _ _ _ _ Hx). eauto.
  - destruct (o_slot p); try exact H.
    + apply acc_finish, H.
    + apply acc_finish, acc_record_dl, H.
Qed.
Lemma acc_cancel_inner s p : acc_ok s -> acc_ok (cancel_inner p s).
Proof.
  intros H. unfold cancel_inner. repeat case_match; try exact H.
  - apply acc_regrant, acc_ungrant, H.
  - apply acc_unwait, H.
Qed.
Lemma acc_post_inner s o : acc_ok s -> acc_ok (post_inner o s).
Proof.
  intros H. unfold post_inner. repeat case_match; try exact H.
  apply acc_finish, acc_record_dl, acc_cancel_inner, H.
Qed.
Lemma acc_poll s o : acc_ok s -> acc_ok (poll o s).
Proof. intros H. unfold poll. repeat case_match; try exact H. apply acc_post_inner, acc_poll_inner, H. Qed.
Lemma acc_cancel s o : acc_ok s -> acc_ok (cancel o s).
Proof. intros H. unfold cancel. repeat case_match; try exact H. apply acc_finish, acc_cancel_inner, H. Qed.

(* a state change made by an actor's own task logs no acceptance and leaves the ghost list alone *)
Lemma acc_NF s a x f fo evs :
  get_actor s a = Some x -> a_accepted (f x) = a_accepted x ->
  forallb (fun e => negb (is_accept e)) evs = true ->
  acc_ok s -> acc_ok (NF a f fo evs s).
Proof.
  intros Hx Hf Hev H b. unfold accepted_of. rewrite NF_trace, accept_evs_app, (accept_evs_none _ _ Hev), NF_get_actor.
  specialize (H b). unfold accepted_of in H. cbn [app].
  destruct (Nat.eqb_spec b a) as [->|Hne]; [|exact H]. rewrite Hx in *. cbn [option_map]. rewrite Hf. exact H.
Qed.

Lemma accepted_take_f i tl y : a_accepted (take_f i tl y) = a_accepted y.
Proof.
  unfold take_f, regrant_f. cbn. destruct (a_waiters y); [reflexivity|].
  match goal with |- context [if ?c then _ else _] => destruct c end; reflexivity.
Qed.
Lemma accepted_mrec_f on y : a_accepted (mrec_f on y) = a_accepted y.
Proof. unfold mrec_f. destruct on; reflexivity. Qed.

Lemma local_accepted s a x l f fo evs :
  Local s a x l f fo evs -> a_accepted (f x) = a_accepted x /\ forallb (fun e => negb (is_accept e)) evs = true.
Proof.
  intros HL. inversion HL; subst;
    try match goal with H : _ \/ _ |- _ => destruct H as [->|[_ ->]] end;
    try match goal with k : okind |- _ => destruct k end;
    unfold stop_f, handle_f, run_f, idf, end_f;
    cbn [a_accepted set_a_pc set_a_ustate set_a_idle set_a_term set_a_closed set_a_mbox forallb is_accept negb andb];
    rewrite ?accepted_take_f, ?accepted_mrec_f; split; reflexivity.
Qed.
Lemma ddpanic_accepted s a x f fo evs :
  DdPanic s a x f fo evs -> a_accepted (f x) = a_accepted x /\ forallb (fun e => negb (is_accept e)) evs = true.
Proof.
  intros HD. inversion HD; subst; unfold end_f;
    cbn [a_accepted set_a_pc set_a_closed set_a_term set_a_mbox forallb is_accept negb andb];
    rewrite ?accepted_mrec_f; split; reflexivity.
Qed.

Lemma acc_kill s a : acc_ok s -> acc_ok (kill a s).
Proof.
  intros H. unfold kill. repeat case_match; try exact H. apply acc_emit; [reflexivity|].
  apply acc_upd_actor; [|exact H]. intros y. destruct (a_closed y); reflexivity.
Qed.
Lemma acc_spawn s cap : acc_ok s -> acc_ok (spawn cap s).
Proof.
  intros H. unfold spawn. destruct (cap =? 0); [exact H|]. apply acc_emit; [reflexivity|]. apply acc_emit; [reflexivity|].
  intros b. specialize (H b). unfold accepted_of, get_actor in *. cbn [s_trace s_actors set_s_next set_s_actors].
  destruct (nth_error (s_actors s) b) as [x|] eqn:Hx.
  - rewrite nth_error_app1 by (apply nth_error_Some; congruence). rewrite Hx. exact H.
  - rewrite H. apply nth_error_None in Hx. rewrite nth_error_app2 by exact Hx.
    destruct (b - length (s_actors s)) as [|[|n]]; reflexivity.
Qed.
Lemma acc_ref_clone s a : acc_ok s -> acc_ok (ref_clone a s).
Proof. intros H. unfold ref_clone. repeat case_match; try exact H. apply acc_upd_actor; [reflexivity|exact H]. Qed.
Lemma acc_ref_drop s a : acc_ok s -> acc_ok (ref_drop a s).
Proof. intros H. unfold ref_drop. repeat case_match; try exact H. apply acc_upd_actor; [reflexivity|exact H]. Qed.
Lemma acc_ref_upgrade s a : acc_ok s -> acc_ok (ref_upgrade a s).
Proof. intros H. unfold ref_upgrade. repeat case_match; try exact H. apply acc_upd_actor; [reflexivity|exact H]. Qed.

Lemma acc_ok_ext s s' : s_actors s' = s_actors s -> s_trace s' = s_trace s -> acc_ok s -> acc_ok s'.
Proof. intros Ea Et H a. unfold accepted_of, get_actor. rewrite Ea, Et. apply H. Qed.

Lemma acc_begin s o k a caller tmo fn : acc_ok s -> acc_ok (begin o k a caller tmo fn s).
Proof.
  intros H. destruct (begin_cases s o k a caller tmo fn) as [->|q g xa _ _ _ _ _ _ _ _ Ga Gt _ _ ->|c xc F FO EVS _ Hxc HD ->].
  - exact H.
  - apply acc_post_inner, acc_try_send, acc_set_hop. eapply acc_ok_ext; [apply Ga|apply Gt|].
    change (acc_ok (emit (EvBegin o k a) s)). apply acc_emit; [reflexivity|exact H].
  - destruct (ddpanic_accepted _ _ _ _ _ _ HD) as [E1 E2]. eapply acc_NF; eassumption.
Qed.

Theorem acc_ok_step s l : acc_ok s -> acc_ok (sys_step s l).
Proof.
  intros H.
  assert (Hactor : forall b, label_actor l = Some b -> acc_ok (sys_step s l)).
  { intros b Hl. destruct (get_actor s b) as [xb|] eqn:Hxb.
    - destruct (actor_step_nf s l b xb Hl Hxb) as (f & fo & evs & E & HL). rewrite E.
      destruct (local_accepted _ _ _ _ _ _ _ HL) as [E1 E2]. eapply acc_NF; eassumption.
    - rewrite (actor_step_absent s l b Hl Hxb). exact H. }
  destruct l; try (apply (Hactor a); reflexivity); cbn [sys_step].
  - apply acc_spawn, H.
  - apply acc_begin, H.
  - apply acc_poll, H.
  - apply acc_cancel, H.
  - apply acc_kill, H.
  - apply acc_ref_clone, H.
  - apply acc_ref_drop, H.
  - apply acc_ref_upgrade, H.
  - eapply acc_ok_ext; [| |exact H]; reflexivity.
Qed.

Lemma acc_ok_init f : acc_ok (init f).
Proof. intros a. unfold accepted_of, get_actor. cbn. destruct a; reflexivity. Qed.

Theorem acc_ok_run f ls : acc_ok (run f ls).
Proof.
  unfold run. generalize (acc_ok_init f). generalize (init f).
  induction ls as [|l ls IH]; intros s H; cbn [fold_left]; [exact H|]. apply IH, acc_ok_step, H.
Qed.

(* readable corollary: an envelope is in the ghost list of an actor iff its acceptance was logged *)
Lemma accept_evs_in a es o k : In (o, k) (accept_evs a es) <-> In (EvAccept a o k) es.
Proof.
  induction es as [|e es IH]; cbn; [tauto|].
  destruct e; try (rewrite IH; split; [auto|intros [E|E]; [discriminate|exact E]]).
  destruct (Nat.eqb_spec a0 a) as [->|Hne]; cbn; rewrite IH; split.
  - intros [E|E]; [injection E as <- <-; auto|auto].
  - intros [E|E]; [injection E as <- <-; auto|auto].
  - auto.
  - intros [E|E]; [injection E as ? ? ?; congruence|exact E].
Qed.

Theorem accepted_iff_logged f ls a x o k :
  get_actor (run f ls) a = Some x ->
  (In (o, k) (a_accepted x) <-> In (EvAccept a o k) (s_trace (run f ls))).
Proof.
  intros Hx. pose proof (acc_ok_run f ls a) as H. unfold accepted_of in H. rewrite Hx in H.
  rewrite <- accept_evs_in, H, <- in_rev. tauto.
Qed.
