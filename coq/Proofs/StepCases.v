(* How one step of the system looks from one actor: either only its "client" fields changed
   (mailbox, accepted, waiters, granted, hop, buffered kill signal, reference count), or it took an
   actor-side step described by [Local], or one of its hooks panicked on a detected ask cycle. *)
From RS Require Import Tactics Frame ListFacts Spec Silent Lifecycle ClientFrame NF ActorSpec.

(* everything about an actor that the client-side machinery never touches *)
Definition core (x : actor) : actor :=
  set_a_mbox [] (set_a_accepted [] (set_a_waiters [] (set_a_granted [] (set_a_hop None
    (set_a_term false (set_a_ext 0 x)))))).

Lemma core_mbox v x : core (set_a_mbox v x) = core x. Proof. reflexivity. Qed.
Lemma core_accepted v x : core (set_a_accepted v x) = core x. Proof. reflexivity. Qed.
Lemma core_waiters v x : core (set_a_waiters v x) = core x. Proof. reflexivity. Qed.
Lemma core_granted v x : core (set_a_granted v x) = core x. Proof. reflexivity. Qed.
Lemma core_hop v x : core (set_a_hop v x) = core x. Proof. reflexivity. Qed.
Lemma core_term v x : core (set_a_term v x) = core x. Proof. reflexivity. Qed.
Lemma core_ext v x : core (set_a_ext v x) = core x. Proof. reflexivity. Qed.

Lemma core_fields x y :
  core y = core x ->
  a_pc y = a_pc x /\ a_ustate y = a_ustate x /\ a_taken y = a_taken x /\ a_closed y = a_closed x /\
  a_idle y = a_idle x /\ a_cap y = a_cap x /\ a_id y = a_id x /\ a_mcount y = a_mcount x.
Proof.
  intros H.
  pose proof (f_equal a_pc H). pose proof (f_equal a_ustate H). pose proof (f_equal a_taken H).
  pose proof (f_equal a_closed H). pose proof (f_equal a_idle H). pose proof (f_equal a_cap H).
  pose proof (f_equal a_id H). pose proof (f_equal a_mcount H). cbn in *. repeat split; assumption.
Qed.

Definition csame := psame core.

Lemma csame_get s s' a x :
  csame s s' -> get_actor s a = Some x -> exists y, get_actor s' a = Some y /\ core y = core x.
Proof.
  intros H Hx. pose proof (psame_get core s s' a H) as E. rewrite Hx in E.
  destruct (get_actor s' a) as [y|]; cbn in E; [|discriminate]. exists y. split; [reflexivity|congruence].
Qed.

Ltac cs := first [ apply psame_refl
                 | apply psame_poll | apply psame_cancel | apply psame_post_inner | apply psame_try_send
                 | apply psame_set_hop ];
           try (intros; reflexivity).

Lemma csame_poll s o : csame s (poll o s).
Proof. apply psame_poll; intros; reflexivity. Qed.
Lemma csame_cancel s o : csame s (cancel o s).
Proof. apply psame_cancel; intros; reflexivity. Qed.
Lemma csame_kill s a : csame s (kill a s).
Proof.
  unfold kill. repeat case_match; try apply psame_refl.
  change (csame s (upd_actor a (fun y => if a_closed y then y else set_a_term true y) s)).
  apply psame_upd_actor; [|apply psame_refl]. intros y. destruct (a_closed y); reflexivity.
Qed.
Lemma csame_ref_clone s a : csame s (ref_clone a s).
Proof. unfold ref_clone. repeat case_match; try apply psame_refl. apply psame_upd_actor; [reflexivity|apply psame_refl]. Qed.
Lemma csame_ref_drop s a : csame s (ref_drop a s).
Proof. unfold ref_drop. repeat case_match; try apply psame_refl. apply psame_upd_actor; [reflexivity|apply psame_refl]. Qed.
Lemma csame_ref_upgrade s a : csame s (ref_upgrade a s).
Proof. unfold ref_upgrade. repeat case_match; try apply psame_refl. apply psame_upd_actor; [reflexivity|apply psame_refl]. Qed.

(* the result of a detected ask cycle for the asking actor *)
Inductive DdPanic (s : sys) (b : aid) (x : actor) : (actor -> actor) -> (op -> op) -> list event -> Prop :=
| DdP_plain cyc o0 k0 t0 :
    in_hook x = true -> (forall o k, a_pc x <> PHandle o k) ->
    DdPanic s b x (fun y => end_f (set_a_pc PPanicked y)) (close_fo (asks_of (a_mbox x)) ido)
            [EvEnd b None; EvDeadlock b cyc; EvBegin o0 k0 t0]
| DdP_handle cyc o0 k0 t0 o k :
    a_pc x = PHandle o k ->
    DdPanic s b x (fun y => end_f (set_a_pc PPanicked (mrec_f (f_metrics (s_feat s)) y)))
            (close_fo (asks_of (a_mbox x)) (handle_close o k ido))
            [EvEnd b None; EvDeadlock b cyc; EvBegin o0 k0 t0].

Inductive StepCase (s : sys) (l : label) (a : aid) (x y : actor) : Prop :=
| SC_client : core y = core x -> hook_events (sys_step s l) a = hook_events s a -> StepCase s l a x y
| SC_local f fo evs :
    label_actor l = Some a -> Local s a x l f fo evs -> y = f x -> sys_step s l = NF a f fo evs s ->
    StepCase s l a x y
| SC_ddpanic f fo evs :
    DdPanic s a x f fo evs -> y = f x -> sys_step s l = NF a f fo evs s -> StepCase s l a x y.

Lemma spawn_get_old s cap a x : get_actor s a = Some x -> get_actor (spawn cap s) a = Some x.
Proof.
  intros Hx. unfold spawn. destruct (cap =? 0); [exact Hx|].
  unfold get_actor in *. cbn. rewrite nth_error_app1; [exact Hx|].
  apply nth_error_Some. congruence.
Qed.

Lemma hook_events_silent s s' a : silent s s' -> hook_events s' a = hook_events s a.
Proof.
  intros H. destruct (trans_silent a s s' H) as (_ & _ & E). rewrite E.
  destruct (a =? a); apply app_nil_r.
Qed.

Lemma hook_events_NF_other s a b f fo evs :
  (forall e, In e evs -> hook_ev_of a e = false) ->
  hook_events (NF b f fo evs s) a = hook_events s a.
Proof.
  intros H. unfold hook_events. rewrite NF_trace, rev_app_distr, filter_app.
  assert (filter (hook_ev_of a) (rev evs) = []) as ->; [|apply app_nil_r].
  assert (forall e, In e (rev evs) -> hook_ev_of a e = false) as H' by (intros e He; apply H, in_rev, He).
  induction (rev evs) as [|e l IH]; [reflexivity|]. cbn. rewrite (H' e (or_introl eq_refl)).
  apply IH. intros e' He'. apply H'. right; exact He'.
Qed.

Lemma hook_events_NF_self s a f fo evs :
  hook_events (NF a f fo evs s) a = hook_events s a ++ filter (hook_ev_of a) (rev evs).
Proof. unfold hook_events. rewrite NF_trace, rev_app_distr, filter_app. reflexivity. Qed.

Lemma local_evs_other s b x l f fo evs a :
  Local s b x l f fo evs -> a <> b -> forall e, In e evs -> hook_ev_of a e = false.
Proof.
  intros HL Hne e He. apply Nat.eqb_neq in Hne. rewrite Nat.eqb_sym in Hne.
  inversion HL; subst;
    try match goal with H : _ \/ _ |- _ => destruct H as [->|[_ ->]] end;
    try match goal with k : okind |- _ => destruct k end;
    cbn [In] in He;
    repeat match goal with H : _ \/ _ |- _ => destruct H as [<-|H] end;
    try contradiction; cbn; rewrite ?Hne; reflexivity.
Qed.

Lemma begin_cases s o k a caller tmo fn b x :
  get_actor s b = Some x ->
  exists y, get_actor (begin o k a caller tmo fn s) b = Some y /\
            StepCase s (LBegin o k a caller tmo fn) b x y.
Proof.
  intros Hx.
  remember (begin o k a caller tmo fn s) as s' eqn:Es'.
  assert (Est : sys_step s (LBegin o k a caller tmo fn) = s') by (rewrite Es'; reflexivity).
  assert (Hsame : s' = s -> exists y, get_actor s' b = Some y /\ StepCase s (LBegin o k a caller tmo fn) b x y).
  { intros ->. exists x. split; [exact Hx|apply SC_client; [reflexivity|rewrite Est; reflexivity]]. }
  unfold begin in Es'.
  destruct (get_op s o) eqn:Hfresh; [apply Hsame, Es'|].
  destruct (get_actor s a) as [xa|] eqn:Hxa; [|apply Hsame, Es'].
  destruct (caller_ok s caller && (0 <? a_ext xa)) eqn:Hc; [|apply Hsame, Es'].
  apply andb_prop in Hc. destruct Hc as [Hc _].
  set (s0 := emit (EvBegin o k a) s) in *.
  assert (Hs0 : silent s s0) by (apply silent_emit; [reflexivity|apply silent_refl]).
  assert (Hsend : csame s s' -> silent s s' ->
            exists y, get_actor s' b = Some y /\ StepCase s (LBegin o k a caller tmo fn) b x y).
  { intros H1 H2. destruct (csame_get s s' b x H1 Hx) as (y & Hy & E).
    exists y. split; [exact Hy|apply SC_client; [exact E|rewrite Est; apply hook_events_silent, H2]]. }
  destruct (dd_check s k caller xa) as [|c bid|c cyc] eqn:Hdd.
  - apply Hsend; rewrite Es'.
    + apply psame_post_inner; try (intros; reflexivity). apply psame_try_send; try (intros; reflexivity).
      apply psame_set_hop; try (intros; reflexivity); try (unfold csame, psame; reflexivity).
    + apply silent_post_inner, silent_try_send, silent_set_hop, silent_set_ops, Hs0.
  - apply Hsend; rewrite Es'.
    + apply psame_post_inner; try (intros; reflexivity). apply psame_try_send; try (intros; reflexivity).
      apply psame_set_hop; try (intros; reflexivity); try (unfold csame, psame; reflexivity).
    + apply silent_post_inner, silent_try_send, silent_set_hop, silent_set_graph, silent_set_ops, Hs0.
  - (* the caller c panics *)
    unfold dd_check in Hdd. destruct k; try discriminate. destruct caller as [c'|]; try discriminate.
    destruct (f_dd (s_feat s)); try discriminate.
    destruct (get_actor s c') as [xc|] eqn:Hxc; try discriminate.
    destruct (N.eqb (a_id xc) (a_id xa) || has_path (s_graph s) (a_id xa) (a_id xc)); try discriminate.
    injection Hdd as <- <-. cbn in Hc. rewrite Hxc in Hc. apply andb_prop in Hc. destruct Hc as [Hhook _].
    assert (Hfin : forall F FO ev0 cyc,
               s' = NF c' F FO [EvEnd c' None; EvDeadlock c' cyc; ev0] s -> ev0 = EvBegin o KAsk a ->
               is_hook_ev ev0 = false ->
               DdPanic s c' xc F FO [EvEnd c' None; EvDeadlock c' cyc; ev0] ->
               exists y, get_actor s' b = Some y /\ StepCase s (LBegin o KAsk a (Some c') tmo fn) b x y).
    { intros F FO ev0 cyc E _ Hq HD. rewrite E, NF_get_actor. destruct (Nat.eqb_spec b c') as [->|Hne].
      - rewrite Hx. cbn [option_map]. exists (F x). split; [reflexivity|].
        rewrite Hxc in Hx. injection Hx as <-.
        eapply (SC_ddpanic _ _ _ _ _ F FO _); [exact HD|reflexivity|]. rewrite Est. exact E.
      - exists x. split; [exact Hx|]. apply SC_client; [reflexivity|].
        rewrite Est, E. apply hook_events_NF_other. intros e [<-|[<-|[<-|[]]]].
        + reflexivity.
        + cbn. apply Nat.eqb_neq. congruence.
        + destruct (hook_ev_of b ev0) eqn:E0; [|reflexivity]. apply hook_ev_is_hook in E0. congruence. }
    destruct (a_pc xc) as [| | |ho hk| | |] eqn:Hpc.
    all: try (unfold in_hook in Hhook; rewrite Hpc in Hhook; discriminate).
    + eapply Hfin.
      * rewrite Es'. unfold s0. rewrite (emit_NF0 c' s (EvBegin o KAsk a)), NF_emit.
        rewrite (NF_panic_actor_plain c' _ _ _ s xc Hxc) by (intros o' k'; unfold idf; rewrite Hpc; discriminate).
        reflexivity.
      * reflexivity.
      * reflexivity.
      * apply DdP_plain; [exact Hhook|]. intros o' k' E. unfold idf in E. rewrite Hpc in E. discriminate.
    + eapply Hfin.
      * rewrite Es'. unfold s0. rewrite (emit_NF0 c' s (EvBegin o KAsk a)), NF_emit.
        rewrite (NF_panic_actor_handle c' _ _ _ s xc ho hk Hxc) by (unfold idf; exact Hpc).
        reflexivity.
      * reflexivity.
      * reflexivity.
      * apply DdP_handle. exact Hpc.
    + eapply Hfin.
      * rewrite Es'. unfold s0. rewrite (emit_NF0 c' s (EvBegin o KAsk a)), NF_emit.
        rewrite (NF_panic_actor_plain c' _ _ _ s xc Hxc) by (intros o' k'; unfold idf; rewrite Hpc; discriminate).
        reflexivity.
      * reflexivity.
      * reflexivity.
      * apply DdP_plain; [exact Hhook|]. intros o' k' E. unfold idf in E. rewrite Hpc in E. discriminate.
Qed.

(* every actor that exists before a step exists after it, and changed in one of three ways *)
Theorem step_cases s l a x :
  get_actor s a = Some x ->
  exists y, get_actor (sys_step s l) a = Some y /\ StepCase s l a x y.
Proof.
  intros Hx.
  assert (Hclient : csame s (sys_step s l) -> silent s (sys_step s l) ->
                    exists y, get_actor (sys_step s l) a = Some y /\ StepCase s l a x y).
  { intros H1 H2. destruct (csame_get s _ a x H1 Hx) as (y & Hy & E). exists y.
    split; [exact Hy|apply SC_client; [exact E|apply hook_events_silent, H2]]. }
  assert (Hactor : forall b, label_actor l = Some b ->
            exists y, get_actor (sys_step s l) a = Some y /\ StepCase s l a x y).
  { intros b Hl. destruct (get_actor s b) as [xb|] eqn:Hxb.
    - destruct (actor_step_nf s l b xb Hl Hxb) as (f & fo & evs & E & HL).
      rewrite E, NF_get_actor. destruct (Nat.eqb_spec a b) as [->|Hne].
      + rewrite Hx. cbn [option_map]. eexists. split; [reflexivity|]. rewrite Hxb in Hx. injection Hx as <-.
        eapply SC_local; [exact Hl|exact HL|reflexivity|exact E].
      + exists x. split; [exact Hx|]. apply SC_client; [reflexivity|].
        rewrite E. apply hook_events_NF_other. eapply local_evs_other; eassumption.
    - pose proof (actor_step_absent s l b Hl Hxb) as Eabs. exists x. rewrite Eabs.
      split; [exact Hx|apply SC_client; [reflexivity|rewrite Eabs; reflexivity]]. }
  destruct l; try (apply (Hactor a0); reflexivity).
  - exists x. cbn [sys_step]. split; [apply spawn_get_old, Hx|]. apply SC_client; [reflexivity|].
    cbn [sys_step]. unfold spawn. destruct (cap =? 0); [reflexivity|].
    unfold hook_events. cbn [s_trace emit set_s_trace set_s_next set_s_actors rev].
    rewrite !filter_app. cbn [filter hook_ev_of].
    assert (length (s_actors s) =? a = false) as ->.
    { apply Nat.eqb_neq. intros E. unfold get_actor in Hx. assert (nth_error (s_actors s) a <> None) as Hn by congruence.
      apply nth_error_Some in Hn. lia. }
    rewrite !app_nil_r. reflexivity.
  - apply begin_cases, Hx.
  - apply Hclient; cbn [sys_step]; [apply csame_poll|apply silent_poll, silent_refl].
  - apply Hclient; cbn [sys_step]; [apply csame_cancel|apply silent_cancel, silent_refl].
  - apply Hclient; cbn [sys_step]; [apply csame_kill|apply silent_kill, silent_refl].
  - apply Hclient; cbn [sys_step]; [apply csame_ref_clone|apply silent_ref_clone, silent_refl].
  - apply Hclient; cbn [sys_step]; [apply csame_ref_drop|apply silent_ref_drop, silent_refl].
  - apply Hclient; cbn [sys_step]; [apply csame_ref_upgrade|apply silent_ref_upgrade, silent_refl].
  - apply Hclient; cbn [sys_step]; [unfold csame, psame; reflexivity|apply silent_set_now, silent_refl].
Qed.

(* shape of a whole step, for facts about the actor list as a whole *)
Lemma begin_shape s o k a caller tmo fn :
  csame s (begin o k a caller tmo fn s) \/
  exists c F FO EVS, begin o k a caller tmo fn s = NF c F FO EVS s.
Proof.
  unfold begin.
  destruct (get_op s o); [left; apply psame_refl|].
  destruct (get_actor s a) as [xa|] eqn:Hxa; [|left; apply psame_refl].
  destruct (caller_ok s caller && (0 <? a_ext xa)) eqn:Hc; [|left; apply psame_refl].
  set (s0 := emit (EvBegin o k a) s).
  assert (Hsend : forall p g, (forall st, csame s st -> csame s (g st)) ->
            csame s (post_inner o (try_send p (set_hop caller o (g (set_s_ops (s_ops s0 ++ [p]) s0)))))).
  { intros p g Hg.
    apply psame_post_inner; try (intros; reflexivity). apply psame_try_send; try (intros; reflexivity).
    apply psame_set_hop; try (intros; reflexivity). apply Hg. unfold csame, psame. reflexivity. }
  destruct (dd_check s k caller xa) as [|c bid|c cyc] eqn:Hdd.
  - left. apply (Hsend _ (fun st => st)). intros st H; exact H.
  - left. apply (Hsend _ (fun st => set_s_graph (g_insert bid (a_id xa) (s_graph s0)) st)). intros st H; exact H.
  - right. unfold dd_check in Hdd. destruct k; try discriminate. destruct caller as [c'|]; try discriminate.
    destruct (f_dd (s_feat s)); try discriminate.
    destruct (get_actor s c') as [xc|] eqn:Hxc; try discriminate.
    destruct (N.eqb (a_id xc) (a_id xa) || has_path (s_graph s) (a_id xa) (a_id xc)); try discriminate.
    injection Hdd as <- <-.
    unfold s0. rewrite (emit_NF0 c' s (EvBegin o KAsk a)), NF_emit.
    destruct (a_pc xc) as [| | |ho hk| | |] eqn:Hpc.
    4: { rewrite (NF_panic_actor_handle c' _ _ _ s xc ho hk Hxc) by (unfold idf; exact Hpc). eauto. }
    all: rewrite (NF_panic_actor_plain c' _ _ _ s xc Hxc) by (intros o' k'; unfold idf; rewrite Hpc; discriminate); eauto.
Qed.

Lemma csame_length s s' : csame s s' -> length (s_actors s') = length (s_actors s).
Proof. intros H. unfold csame, psame in H. apply (f_equal (@length _)) in H. rewrite !map_length in H. exact H. Qed.

Lemma NF_length a f fo evs s : length (s_actors (NF a f fo evs s)) = length (s_actors s).
Proof. unfold NF. cbn. apply length_upd_nth. Qed.

Theorem step_length s l :
  (forall c, l <> LSpawn c) -> length (s_actors (sys_step s l)) = length (s_actors s).
Proof.
  intros Hl.
  assert (Hactor : forall b, label_actor l = Some b -> length (s_actors (sys_step s l)) = length (s_actors s)).
  { intros b Hb. destruct (get_actor s b) as [xb|] eqn:Hxb.
    - destruct (actor_step_nf s l b xb Hb Hxb) as (f & fo & evs & E & _). rewrite E. apply NF_length.
    - rewrite (actor_step_absent s l b Hb Hxb). reflexivity. }
  destruct l; try (apply (Hactor a); reflexivity); cbn [sys_step].
  - exfalso. eapply Hl. reflexivity.
  - destruct (begin_shape s o k a caller tmo fn) as [H|(c & F & FO & EVS & E)].
    + apply csame_length, H.
    + rewrite E. apply NF_length.
  - apply csame_length, csame_poll.
  - apply csame_length, csame_cancel.
  - apply csame_length, csame_kill.
  - apply csame_length, csame_ref_clone.
  - apply csame_length, csame_ref_drop.
  - apply csame_length, csame_ref_upgrade.
  - reflexivity.
Qed.

(* begin is either silent or the detection panic of the calling actor *)
Lemma begin_shape2 s o k a caller tmo fn :
  silent s (begin o k a caller tmo fn s) \/
  exists c xc F FO EVS, begin o k a caller tmo fn s = NF c F FO EVS s /\ get_actor s c = Some xc /\
                        DdPanic s c xc F FO EVS.
Proof.
  unfold begin.
  destruct (get_op s o); [left; apply silent_refl|].
  destruct (get_actor s a) as [xa|] eqn:Hxa; [|left; apply silent_refl].
  destruct (caller_ok s caller && (0 <? a_ext xa)) eqn:Hc; [|left; apply silent_refl].
  apply andb_prop in Hc. destruct Hc as [Hc _].
  set (s0 := emit (EvBegin o k a) s).
  assert (Hs0 : silent s s0) by (apply silent_emit; [reflexivity|apply silent_refl]).
  destruct (dd_check s k caller xa) as [|c bid|c cyc] eqn:Hdd.
  - left. apply silent_post_inner, silent_try_send, silent_set_hop, silent_set_ops, Hs0.
  - left. apply silent_post_inner, silent_try_send, silent_set_hop, silent_set_graph, silent_set_ops, Hs0.
  - right. unfold dd_check in Hdd. destruct k; try discriminate. destruct caller as [c'|]; try discriminate.
    destruct (f_dd (s_feat s)); try discriminate.
    destruct (get_actor s c') as [xc|] eqn:Hxc; try discriminate.
    destruct (N.eqb (a_id xc) (a_id xa) || has_path (s_graph s) (a_id xa) (a_id xc)); try discriminate.
    injection Hdd as <- <-. cbn in Hc. rewrite Hxc in Hc. apply andb_prop in Hc. destruct Hc as [Hhook _].
    unfold s0. rewrite (emit_NF0 c' s (EvBegin o KAsk a)), NF_emit.
    destruct (a_pc xc) as [| | |ho hk| | |] eqn:Hpc.
    all: try (unfold in_hook in Hhook; rewrite Hpc in Hhook; discriminate).
    + rewrite (NF_panic_actor_plain c' _ _ _ s xc Hxc) by (intros o' k'; unfold idf; rewrite Hpc; discriminate).
      eexists c', xc, _, _, _. split; [reflexivity|]. split; [exact Hxc|].
      apply DdP_plain; [exact Hhook|]. intros o' k' E. unfold idf in E. rewrite Hpc in E. discriminate.
    + rewrite (NF_panic_actor_handle c' _ _ _ s xc ho hk Hxc) by (unfold idf; exact Hpc).
      eexists c', xc, _, _, _. split; [reflexivity|]. split; [exact Hxc|]. apply DdP_handle. exact Hpc.
    + rewrite (NF_panic_actor_plain c' _ _ _ s xc Hxc) by (intros o' k'; unfold idf; rewrite Hpc; discriminate).
      eexists c', xc, _, _, _. split; [reflexivity|]. split; [exact Hxc|].
      apply DdP_plain; [exact Hhook|]. intros o' k' E. unfold idf in E. rewrite Hpc in E. discriminate.
Qed.
