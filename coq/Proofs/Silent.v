(* "Silent" state changes: no hook event is emitted and no actor changes its lifecycle position.
   All the client-side machinery (sends, polls, cancellations, references, kill, clock) is silent. *)
From RS Require Import Tactics Frame Spec.

Definition lcs (s : sys) : list lcstate := map lc_of_actor (s_actors s).

Definition quiet_events (es : list event) : Prop :=
  forallb (fun e => negb (is_hook_ev e)) es = true.

Definition silent (s s' : sys) : Prop :=
  lcs s' = lcs s /\ exists es, s_trace s' = es ++ s_trace s /\ quiet_events es.

Lemma silent_refl s : silent s s.
Proof. split; [reflexivity|]. exists []. split; reflexivity. Qed.

Lemma silent_trans s1 s2 s3 : silent s1 s2 -> silent s2 s3 -> silent s1 s3.
Proof.
  intros [H1 (e1 & T1 & Q1)] [H2 (e2 & T2 & Q2)]. split; [congruence|].
  exists (e2 ++ e1). split.
  - rewrite T2, T1, app_assoc. reflexivity.
  - unfold quiet_events in *. rewrite forallb_app, Q1, Q2. reflexivity.
Qed.

Lemma silent_emit s0 s e : is_hook_ev e = false -> silent s0 s -> silent s0 (emit e s).
Proof.
  intros He [H1 (es & T & Q)]. split; [exact H1|].
  exists (e :: es). split.
  - cbn. rewrite T. reflexivity.
  - unfold quiet_events in *. cbn. rewrite He, Q. reflexivity.
Qed.

Lemma map_upd_nth {A B} (g : A -> B) (f : A -> A) (l : list A) n :
  (forall x, g (f x) = g x) -> map g (upd_nth n f l) = map g l.
Proof.
  intros H. revert n. induction l as [|x l IH]; intros [|n]; simpl; try reflexivity.
  - rewrite H. reflexivity.
  - rewrite IH. reflexivity.
Qed.

Lemma silent_upd_actor s0 s a f :
  (forall x, lc_of_actor (f x) = lc_of_actor x) -> silent s0 s -> silent s0 (upd_actor a f s).
Proof.
  intros Hf [H1 HT]. split; [|exact HT].
  unfold lcs, upd_actor in *. cbn. rewrite map_upd_nth; assumption.
Qed.

Lemma silent_upd_op s0 s o f : silent s0 s -> silent s0 (upd_op o f s).
Proof. intros H; exact H. Qed.
Lemma silent_set_ops s0 s v : silent s0 s -> silent s0 (set_s_ops v s).
Proof. intros H; exact H. Qed.
Lemma silent_set_graph s0 s v : silent s0 s -> silent s0 (set_s_graph v s).
Proof. intros H; exact H. Qed.
Lemma silent_set_dlcount s0 s v : silent s0 s -> silent s0 (set_s_dlcount v s).
Proof. intros H; exact H. Qed.
Lemma silent_set_now s0 s v : silent s0 s -> silent s0 (set_s_now v s).
Proof. intros H; exact H. Qed.

Ltac silent_prim :=
  first
    [ assumption
    | apply silent_refl
    | apply silent_emit; [reflexivity|]
    | apply silent_upd_actor; [intros ?x; cbn; repeat case_match; reflexivity|]
    | apply silent_upd_op
    | apply silent_set_ops
    | apply silent_set_graph
    | apply silent_set_dlcount
    | apply silent_set_now ].

Ltac silent_auto := repeat (repeat case_match; silent_prim).

Lemma silent_record_one s0 s a o rl : silent s0 s -> silent s0 (record_one a o rl s).
Proof. intros H. unfold record_one. silent_auto. Qed.

Lemma silent_record_dl s0 s a o f c : silent s0 s -> silent s0 (record_dl a o f c s).
Proof.
  unfold record_dl. generalize (dl_sites (site_fn f c) c). intros l. revert s.
  induction l as [|rl l IH]; intros s H; cbn [fold_left]; [exact H|].
  apply IH. apply silent_record_one. exact H.
Qed.

Lemma silent_drop_guard s0 s p : silent s0 s -> silent s0 (drop_guard p s).
Proof. intros H. unfold drop_guard. silent_auto. Qed.
Lemma silent_clear_hop s0 s p : silent s0 s -> silent s0 (clear_hop p s).
Proof. intros H. unfold clear_hop. silent_auto. Qed.

Lemma silent_finish s0 s o r : silent s0 s -> silent s0 (finish o r s).
Proof.
  intros H. unfold finish. case_match; [|exact H].
  apply silent_emit; [reflexivity|]. apply silent_clear_hop, silent_drop_guard, silent_upd_op, H.
Qed.

Lemma silent_push s0 s a o k : silent s0 s -> silent s0 (push a o k s).
Proof. intros H. unfold push. silent_auto. Qed.

Lemma silent_after_push s0 s o k : silent s0 s -> silent s0 (after_push o k s).
Proof. intros H. unfold after_push. destruct k; try (apply silent_finish; exact H). exact H. Qed.

Lemma silent_send_failed s0 s p : silent s0 s -> silent s0 (send_failed p s).
Proof.
  intros H. unfold send_failed. destruct (o_kind p);
    apply silent_finish; try apply silent_record_dl; exact H.
Qed.

Lemma silent_regrant s0 s a : silent s0 s -> silent s0 (regrant a s).
Proof. intros H. unfold regrant. silent_auto. Qed.
Lemma silent_unwait s0 s a o : silent s0 s -> silent s0 (unwait a o s).
Proof. intros H. unfold unwait. silent_auto. Qed.
Lemma silent_ungrant s0 s a o : silent s0 s -> silent s0 (ungrant a o s).
Proof. intros H. unfold ungrant. silent_auto. Qed.

Lemma silent_try_send s0 s p : silent s0 s -> silent s0 (try_send p s).
Proof.
  intros H. unfold try_send. repeat case_match.
  - apply silent_send_failed, H.
  - apply silent_after_push, silent_push, H.
  - silent_auto.
  - exact H.
Qed.

Lemma silent_poll_inner s0 s p : silent s0 s -> silent s0 (poll_inner p s).
Proof.
  intros H. unfold poll_inner. repeat case_match; try exact H.
  - apply silent_send_failed, silent_unwait, silent_ungrant, H.
  - apply silent_after_push, silent_push, silent_ungrant, H.
  - apply silent_finish, H.
  - apply silent_finish, silent_record_dl, H.
Qed.

Lemma silent_cancel_inner s0 s p : silent s0 s -> silent s0 (cancel_inner p s).
Proof.
  intros H. unfold cancel_inner. repeat case_match; try exact H.
  - apply silent_regrant, silent_ungrant, H.
  - apply silent_unwait, H.
Qed.

Lemma silent_post_inner s0 s o : silent s0 s -> silent s0 (post_inner o s).
Proof.
  intros H. unfold post_inner. repeat case_match; try exact H.
  apply silent_finish, silent_record_dl, silent_cancel_inner, H.
Qed.

Lemma silent_poll s0 s o : silent s0 s -> silent s0 (poll o s).
Proof.
  intros H. unfold poll. repeat case_match; try exact H.
  apply silent_post_inner, silent_poll_inner, H.
Qed.

Lemma silent_cancel s0 s o : silent s0 s -> silent s0 (cancel o s).
Proof.
  intros H. unfold cancel. repeat case_match; try exact H.
  apply silent_finish, silent_cancel_inner, H.
Qed.

Lemma silent_kill s0 s a : silent s0 s -> silent s0 (kill a s).
Proof. intros H. unfold kill. silent_auto. Qed.

Lemma silent_close_slots s0 s os : silent s0 s -> silent s0 (close_slots os s).
Proof. intros H; exact H. Qed.

Lemma silent_metrics_record s0 s a : silent s0 s -> silent s0 (metrics_record a s).
Proof. intros H. unfold metrics_record. silent_auto. Qed.

Lemma silent_end_actor s0 s a : silent s0 s -> silent s0 (end_actor a s).
Proof. intros H. unfold end_actor. case_match; [|exact H]. apply silent_close_slots. silent_auto. Qed.

Lemma silent_take s0 s a i tl : silent s0 s -> silent s0 (take a i tl s).
Proof. intros H. unfold take. apply silent_regrant. silent_auto. Qed.

Lemma silent_ref_clone s0 s a : silent s0 s -> silent s0 (ref_clone a s).
Proof. intros H. unfold ref_clone. silent_auto. Qed.
Lemma silent_ref_drop s0 s a : silent s0 s -> silent s0 (ref_drop a s).
Proof. intros H. unfold ref_drop. silent_auto. Qed.
Lemma silent_ref_upgrade s0 s a : silent s0 s -> silent s0 (ref_upgrade a s).
Proof. intros H. unfold ref_upgrade. silent_auto. Qed.
Lemma silent_set_hop s0 s c o : silent s0 s -> silent s0 (set_hop c o s).
Proof. intros H. unfold set_hop. silent_auto. Qed.

(* consequences *)
Lemma silent_get_actor s s' a :
  silent s s' -> option_map lc_of_actor (get_actor s' a) = option_map lc_of_actor (get_actor s a).
Proof.
  intros [H _]. unfold get_actor, lcs in *.
  rewrite <- !nth_error_map. rewrite H. reflexivity.
Qed.
