(* List facts used by the invariants (stdlib 8.16 has no NoDup_app). *)
From RS Require Import Tactics.

Lemma nodup_app {A} (l1 l2 : list A) :
  NoDup (l1 ++ l2) <-> NoDup l1 /\ NoDup l2 /\ (forall x, In x l1 -> ~ In x l2).
Proof.
  induction l1 as [|y l1 IH]; cbn.
  - split; [intros H; repeat split; [constructor|exact H|intros x []]|intros (_ & H & _); exact H].
  - rewrite !NoDup_cons_iff, IH, in_app_iff. split.
    + intros (Hy & H1 & H2 & H3). repeat split; auto.
      intros x [->|Hx]; auto.
    + intros ((Hy & H1) & H2 & H3). repeat split; auto.
      intros [Hin|Hin]; [auto|]. apply (H3 y); auto.
Qed.

Lemma in_remove_nat o x l : In x (remove_nat o l) <-> In x l /\ x <> o.
Proof.
  unfold remove_nat. rewrite filter_In. split; intros [H1 H2]; split; auto.
  - apply negb_true_iff, Nat.eqb_neq in H2. exact H2.
  - apply negb_true_iff, Nat.eqb_neq. exact H2.
Qed.

Lemma remove_nat_cons o y l :
  remove_nat o (y :: l) = if y =? o then remove_nat o l else y :: remove_nat o l.
Proof. unfold remove_nat. cbn. destruct (y =? o); reflexivity. Qed.

Lemma remove_nat_notin o l : ~ In o l -> remove_nat o l = l.
Proof.
  induction l as [|y l IH]; intros H; [reflexivity|].
  rewrite remove_nat_cons. destruct (Nat.eqb_spec y o) as [->|Hne].
  - exfalso. apply H. left; reflexivity.
  - rewrite IH; [reflexivity|]. intros Hin. apply H. right; exact Hin.
Qed.

Lemma nodup_remove_nat o l : NoDup l -> NoDup (remove_nat o l).
Proof. intros H. unfold remove_nat. apply NoDup_filter. exact H. Qed.

Lemma length_remove_nat_le o l : length (remove_nat o l) <= length l.
Proof. induction l as [|y l IH]; [unfold remove_nat; cbn; lia|]. rewrite remove_nat_cons. destruct (y =? o); cbn [length]; lia. Qed.

Lemma length_remove_nat_in o l : NoDup l -> In o l -> S (length (remove_nat o l)) = length l.
Proof.
  induction l as [|y l IH]; intros Hnd Hin; [destruct Hin|].
  apply NoDup_cons_iff in Hnd. destruct Hnd as [Hy Hnd].
  rewrite remove_nat_cons. destruct (Nat.eqb_spec y o) as [->|Hne]; cbn [length].
  - rewrite remove_nat_notin by assumption. reflexivity.
  - destruct Hin as [->|Hin]; [congruence|]. rewrite IH by assumption. reflexivity.
Qed.

Lemma not_in_remove_nat o l : ~ In o (remove_nat o l).
Proof. intros H. apply in_remove_nat in H. destruct H as [_ H]. congruence. Qed.

Lemma nodup_snoc {A} (l : list A) x : NoDup l -> ~ In x l -> NoDup (l ++ [x]).
Proof.
  intros H Hx. apply nodup_app. repeat split; [exact H|constructor; [intros []|constructor]|].
  intros y Hy [->|[]]. auto.
Qed.

Lemma map_fst_snoc {A B} (l : list (A * B)) a b : map fst (l ++ [(a, b)]) = map fst l ++ [a].
Proof. rewrite map_app. reflexivity. Qed.
