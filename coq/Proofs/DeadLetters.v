(* Exactly one dead letter per failed delivery, none per success - over whole runs (C13).
   In every reachable state, for every operation, the dead-letter records logged for it are exactly
   the records its present outcome calls for: none while it is pending or after Ok / cancellation,
   the record(s) of the failing branch after Err(Send) / Err(Receive) / Err(Timeout); and the
   generated call-site table says that is exactly one record with the matching reason. *)
From RS Require Import Tactics Frame ListFacts Spec NF ActorSpec StepCases OpsSpec OpCases Timeouts Reply.

Definition dl_of (o : oid) (e : event) : bool :=
  match e with EvDeadLetter _ o' _ _ => o' =? o | _ => false end.
Definition dls (o : oid) (es : list event) : list event := filter (dl_of o) es.

Definition expected_dl (p : op) : list event :=
  match o_ph p with
  | ODone (RErr ESend) => dl_events (o_tgt p) (o_id p) (o_fn p) CxSend
  | ODone (RErr EReceive) => dl_events (o_tgt p) (o_id p) (o_fn p) CxReply
  | ODone (RErr ETimeout) => dl_events (o_tgt p) (o_id p) (o_fn p) CxElapsed
  | _ => [] end.

Definition dl_ok (s : sys) : Prop :=
  forall o, dls o (s_trace s) = match get_op s o with Some p => expected_dl p | None => [] end.

Lemma dls_app o l1 l2 : dls o (l1 ++ l2) = dls o l1 ++ dls o l2.
Proof. apply filter_app. Qed.

Lemma dl_of_is_dl o e : dl_of o e = true -> is_dl e = true.
Proof. destruct e; cbn; auto; discriminate. Qed.

(* a list without any dead letter *)
Lemma dls_none o es : filter is_dl es = [] -> dls o es = [].
Proof.
  unfold dls. induction es as [|e es IH]; cbn; [reflexivity|]. destruct (is_dl e) eqn:E; [discriminate|].
  intros H. destruct (dl_of o e) eqn:E2; [apply dl_of_is_dl in E2; congruence|apply IH, H].
Qed.

Lemma dls_dl_events o a o' f c : dls o (dl_events a o' f c) = if o' =? o then dl_events a o' f c else [].
Proof.
  unfold dls, dl_events. generalize (dl_sites (site_fn f c) c). intros l.
  induction l as [|rl l IH]; cbn; [destruct (o' =? o); reflexivity|].
  rewrite filter_app, IH. cbn. destruct (o' =? o); reflexivity.
Qed.

(* the dead letters of a step's event list, knowing they are those of one operation's outcome *)
Lemma dls_of_outcome o es o' (exp : list event) a f c :
  filter is_dl es = exp -> (exp = [] \/ exp = dl_events a o' f c) ->
  dls o es = if o' =? o then exp else [].
Proof.
  intros H Hexp.
  assert (E : dls o es = dls o (filter is_dl es)).
  { unfold dls. clear. induction es as [|e es IH]; cbn; [reflexivity|].
    destruct (is_dl e) eqn:E1; cbn; destruct (dl_of o e) eqn:E2; rewrite ?IH; try reflexivity.
    apply dl_of_is_dl in E2. congruence. }
  rewrite E, H. destruct Hexp as [->| ->]; [destruct (o' =? o); reflexivity|apply dls_dl_events].
Qed.

Lemma expected_dl_cases p :
  expected_dl p = [] \/ exists c, expected_dl p = dl_events (o_tgt p) (o_id p) (o_fn p) c.
Proof. unfold expected_dl. destruct (o_ph p) as [| |[v|[]|]]; eauto. Qed.

Lemma expected_not_done p : is_done (o_ph p) = false -> expected_dl p = [].
Proof. unfold expected_dl. destruct (o_ph p); try reflexivity. discriminate. Qed.

Lemma expected_static p q : op_static q = op_static p -> o_ph q = o_ph p -> expected_dl q = expected_dl p.
Proof.
  intros E Hph. unfold expected_dl, op_static in *. injection E as E1 E2 E3 E4 E5 E6. rewrite Hph, E1, E3, E4. reflexivity.
Qed.

Lemma slot_case_expected p p' evs : SlotCase p p' evs -> expected_dl p' = expected_dl p.
Proof. intros [->|a out _ -> _ _|_ ->]; reflexivity. Qed.

Lemma local_no_dl s a x l f fo evs : Local s a x l f fo evs -> filter is_dl evs = [].
Proof.
  intros HL. inversion HL; subst;
    try match goal with H : _ \/ _ |- _ => destruct H as [->|[_ ->]] end;
    try match goal with k : okind |- _ => destruct k end; reflexivity.
Qed.
Lemma ddpanic_no_dl s a x f fo evs : DdPanic s a x f fo evs -> filter is_dl evs = [].
Proof. intros HD. inversion HD; subst; reflexivity. Qed.

Lemma static_of_opstep s s' o p p' evs : OpStep s s' o p p' evs ->
  o_id p' = o_id p /\ o_tgt p' = o_tgt p /\ o_fn p' = o_fn p.
Proof. intros HS. pose proof (os_static _ _ _ _ _ _ HS) as E. unfold op_static in E. injection E as ? ? ? ? ? ?. auto. Qed.

Lemma ref_clone_trace s a : s_trace (ref_clone a s) = s_trace s.
Proof. unfold ref_clone. repeat case_match; reflexivity. Qed.
Lemma ref_drop_trace s a : s_trace (ref_drop a s) = s_trace s.
Proof. unfold ref_drop. repeat case_match; reflexivity. Qed.
Lemma ref_upgrade_trace s a : s_trace (ref_upgrade a s) = s_trace s.
Proof. unfold ref_upgrade. repeat case_match; reflexivity. Qed.

(* ---------- one step ---------- *)
Theorem dl_ok_step s l : dl_ok s -> dl_ok (sys_step s l).
Proof.
  intros H o.
  (* a step that changes the operation records at most in their slots and logs no dead letter *)
  assert (HNF : forall a f fo evs, sys_step s l = NF a f fo evs s -> (forall p, o_id (fo p) = o_id p) ->
                  (forall p, expected_dl (fo p) = expected_dl p) -> filter is_dl evs = [] ->
                  dls o (s_trace (sys_step s l)) = match get_op (sys_step s l) o with Some p => expected_dl p | None => [] end).
  { intros a f fo evs E Hid Hexp Hno. rewrite E, NF_trace, dls_app, (dls_none o evs Hno), NF_get_op by exact Hid.
    cbn [app]. rewrite (H o). destruct (get_op s o); cbn; [rewrite Hexp|]; reflexivity. }
  assert (Hquiet : forall es, s_trace (sys_step s l) = es ++ s_trace s -> filter is_dl es = [] ->
                     s_ops (sys_step s l) = s_ops s ->
                     dls o (s_trace (sys_step s l)) = match get_op (sys_step s l) o with Some p => expected_dl p | None => [] end).
  { intros es E Hno Hops. rewrite E, dls_app, (dls_none o es Hno). cbn [app]. unfold get_op. rewrite Hops. apply H. }
  assert (Hactor : forall b, label_actor l = Some b ->
                     dls o (s_trace (sys_step s l)) = match get_op (sys_step s l) o with Some p => expected_dl p | None => [] end).
  { intros b Hl. destruct (get_actor s b) as [xb|] eqn:Hxb.
    - destruct (actor_step_nf s l b xb Hl Hxb) as (f & fo & evs & E & HL). eapply HNF; [exact E| | |].
      + intros p. eapply fo_preserves_id. exact HL.
      + intros p. eapply slot_case_expected. eapply local_slot_case. exact HL.
      + eapply local_no_dl. exact HL.
    - rewrite (actor_step_absent s l b Hl Hxb). apply H. }
  destruct l; try (apply (Hactor a); reflexivity); cbn [sys_step] in *.
  - (* spawn *)
    unfold spawn in *. destruct (cap =? 0); [apply H|].
    apply (Hquiet [EvStartEnter (length (s_actors s)); EvSpawn (length (s_actors s)) (s_next s) cap]); reflexivity.
  - (* begin *)
    destruct (begin_cases s o0 k a caller tmo fn) as [E|q g xa Hf Hxa Hid Hk Ht Hcl Hph Hsl Ga Gt Go Gn E _ _ _|c xc F FO EVS _ Hxc HD E].
    + rewrite E. apply H.
    + destruct (begin_send_spec s o0 k a caller q g xa _ Hf Hxa Hid Ht Hph Ga Gt Go Gn E) as (s1 & q' & evs & HS & HB & Ho & Htr & Hnow & _).
      rewrite (os_trace _ _ _ _ _ _ HS), Htr, dls_app. cbn [dls filter dl_of]. fold (dls o (s_trace s)). rewrite (H o).
      pose proof (begin_dead_letters _ _ _ _ HB) as Hdl.
      destruct (static_of_opstep _ _ _ _ _ _ HS) as (Eid & Etg & Efn).
      assert (Hexp : filter is_dl evs = expected_dl q').
      { rewrite Hdl. unfold expected_dl. rewrite Eid, Etg, Efn. destruct (o_ph q') as [| |[v|[]|]] eqn:Eph; try reflexivity.
        (* a first poll never reports Receive *)
        exfalso. inversion HB; subst; congruence. }
      rewrite (dls_of_outcome o evs o0 (expected_dl q') (o_tgt q') (o_fn q')
                 (match o_ph q' with ODone (RErr EReceive) => CxReply | ODone (RErr ETimeout) => CxElapsed | _ => CxSend end) Hexp).
      2: { unfold expected_dl. replace (o_id q') with o0 by congruence. destruct (o_ph q') as [| |[v|[]|]]; auto. }
      destruct (Nat.eqb_spec o0 o) as [->|Hne].
      * rewrite (os_get _ _ _ _ _ _ HS), Hf, app_nil_r. reflexivity.
      * rewrite (os_others _ _ _ _ _ _ HS o) by congruence. rewrite (Ho o) by congruence. reflexivity.
    + eapply HNF; [exact E| | |].
      * intros p. eapply fo_preserves_id_dd. exact HD.
      * intros p. eapply slot_case_expected. eapply ddpanic_slot_case. exact HD.
      * eapply ddpanic_no_dl. exact HD.
  - (* poll *)
    destruct (get_op s o0) as [p0|] eqn:Hp0; [|unfold poll; rewrite Hp0; apply H].
    destruct (is_done (o_ph p0)) eqn:Hd; [unfold poll; rewrite Hp0, Hd; apply H|].
    destruct (poll_spec s o0 p0 Hp0 Hd) as (p' & evs & HS & HC).
    rewrite (os_trace _ _ _ _ _ _ HS), dls_app, (H o).
    pose proof (poll_dead_letters _ _ _ _ Hd HC) as Hdl.
    destruct (static_of_opstep _ _ _ _ _ _ HS) as (Eid & Etg & Efn).
    pose proof (get_op_id s o0 p0 Hp0) as Hid0.
    assert (Hexp : filter is_dl evs = expected_dl p').
    { rewrite Hdl. unfold expected_dl. rewrite Eid, Etg, Efn. reflexivity. }
    rewrite (dls_of_outcome o evs o0 (expected_dl p') (o_tgt p') (o_fn p')
               (match o_ph p' with ODone (RErr EReceive) => CxReply | ODone (RErr ETimeout) => CxElapsed | _ => CxSend end) Hexp).
    2: { unfold expected_dl. replace (o_id p') with o0 by congruence. destruct (o_ph p') as [| |[v|[]|]]; auto. }
    destruct (Nat.eqb_spec o0 o) as [->|Hne].
    + rewrite (os_get _ _ _ _ _ _ HS), Hp0, (expected_not_done p0 Hd), app_nil_r. reflexivity.
    + rewrite (os_others _ _ _ _ _ _ HS o) by congruence. reflexivity.
  - (* cancel *)
    destruct (get_op s o0) as [p0|] eqn:Hp0; [|unfold cancel; rewrite Hp0; apply H].
    destruct (is_done (o_ph p0)) eqn:Hd; [unfold cancel; rewrite Hp0, Hd; apply H|].
    destruct (o_caller p0) eqn:Hcl; [unfold cancel; rewrite Hp0, Hd, Hcl; apply H|].
    pose proof (cancel_spec s o0 p0 Hp0 Hd Hcl) as HS.
    rewrite (os_trace _ _ _ _ _ _ HS), dls_app, (H o). cbn [dls filter dl_of app].
    destruct (Nat.eqb_spec o0 o) as [->|Hne].
    + rewrite (os_get _ _ _ _ _ _ HS), Hp0, (expected_not_done p0 Hd). reflexivity.
    + rewrite (os_others _ _ _ _ _ _ HS o) by congruence. reflexivity.
  - (* kill *)
    unfold kill in *. destruct (get_actor s a) as [xa|]; [|apply H]. destruct (0 <? a_ext xa); [|apply H].
    apply (Hquiet [EvKill a]); reflexivity.
  - apply (Hquiet []); [apply ref_clone_trace|reflexivity|apply ref_clone_ops].
  - apply (Hquiet []); [apply ref_drop_trace|reflexivity|apply ref_drop_ops].
  - apply (Hquiet []); [apply ref_upgrade_trace|reflexivity|apply ref_upgrade_ops].
  - apply (Hquiet []); reflexivity.
Qed.

Lemma dl_ok_init f : dl_ok (init f).
Proof. intros o. reflexivity. Qed.

Theorem dl_ok_run f ls : dl_ok (run f ls).
Proof.
  unfold run. generalize (dl_ok_init f). generalize (init f).
  induction ls as [|l ls IH]; intros s H; cbn [fold_left]; [exact H|]. apply IH, dl_ok_step, H.
Qed.

(* which failing branch an error comes from *)
Definition ctx_of (e : err) : dlctx := match e with ESend => CxSend | EReceive => CxReply | ETimeout => CxElapsed end.

Section Run.
  Variables (f : feats) (ls : list label).
  Local Notation S := (run f ls).

  (* the records logged for an operation are exactly those of its present outcome *)
  Theorem run_dead_letters_exact o p :
    get_op S o = Some p -> dls o (s_trace S) = expected_dl p.
  Proof. intros Hp. rewrite (dl_ok_run f ls o), Hp. reflexivity. Qed.

  Theorem run_no_op_no_dead_letter o : get_op S o = None -> dls o (s_trace S) = [].
  Proof. intros Hp. rewrite (dl_ok_run f ls o), Hp. reflexivity. Qed.

  (* none per success, none while pending, none after a cancellation *)
  Theorem run_success_no_dead_letter o p :
    get_op S o = Some p -> (forall e, o_ph p <> ODone (RErr e)) -> dls o (s_trace S) = [].
  Proof.
    intros Hp Hne. rewrite (run_dead_letters_exact o p Hp). unfold expected_dl.
    destruct (o_ph p) as [| |[v|e|]]; try reflexivity. exfalso. eapply Hne. reflexivity.
  Qed.

  (* exactly one per failed delivery, with the reason of the failing branch and a label of the
     operation's family - whenever that branch has a call site in the generated table *)
  Theorem run_failure_one_dead_letter o p e :
    get_op S o = Some p -> o_ph p = ODone (RErr e) -> valid_site (o_fn p) (ctx_of e) = true ->
    exists lb, dls o (s_trace S) = [EvDeadLetter (o_tgt p) o (reason_of (ctx_of e)) lb] /\
               label_family lb = fn_family (o_fn p).
  Proof.
    intros Hp Hph Hv. rewrite (run_dead_letters_exact o p Hp). unfold expected_dl. rewrite Hph.
    destruct (dl_table_exact (o_fn p) (ctx_of e) Hv) as (lb & Es & Hf). exists lb. split; [|exact Hf].
    rewrite (get_op_id S o p Hp). destruct e; unfold dl_events; cbn [ctx_of] in *; rewrite Es; reflexivity.
  Qed.
End Run.

(* ---------- which failures an operation can end with ---------- *)
(* the function named in a begin label is consistent with its kind and timeout: this is what the
   public API guarantees (tell_with_timeout is a tell with a timeout, ...); Exec.fn_of / desugar
   only ever produce such labels *)
Definition fn_kind (fn : fnname) : okind :=
  match fn with
  | FTell | FTellTo | FBTell | FBTellTo => KTell
  | FAsk | FAskTo | FBAsk | FBAskTo => KAsk
  | FStop => KStop end.
Definition fn_timed (fn : fnname) : bool :=
  match fn with FTellTo | FBTellTo | FAskTo | FBAskTo => true | _ => false end.
Definition wf_label (l : label) : Prop :=
  match l with
  | LBegin _ k _ _ tmo fn => fn_kind fn = k /\ (tmo <> None -> fn_timed fn = true)
  | _ => True end.

Record res_ok (s : sys) : Prop := mkResOk {
  ro_fn : forall o p, get_op s o = Some p -> fn_kind (o_fn p) = o_kind p /\ (o_deadline p <> None -> fn_timed (o_fn p) = true);
  ro_wait : forall o p, get_op s o = Some p -> o_ph p = OWaitReply -> o_kind p = KAsk;
  ro_send : forall o p, get_op s o = Some p -> o_ph p = ODone (RErr ESend) -> o_kind p <> KStop;
  ro_recv : forall o p, get_op s o = Some p -> o_ph p = ODone (RErr EReceive) -> o_kind p = KAsk;
  ro_tmo : forall o p, get_op s o = Some p -> o_ph p = ODone (RErr ETimeout) -> o_deadline p <> None
}.

Lemma static_all p q : op_static p = op_static q ->
  o_kind p = o_kind q /\ o_fn p = o_fn q /\ o_deadline p = o_deadline q.
Proof. unfold op_static. intros E. injection E as ? ? ? ? ? ?. auto. Qed.

Lemma expired_deadline p s : expired p s = true -> o_deadline p <> None.
Proof. unfold expired. destruct (o_deadline p); [discriminate|discriminate]. Qed.

Theorem res_ok_step s l : wf_label l -> res_ok s -> res_ok (sys_step s l).
Proof.
  intros Hwf [Hfn Hw Hs Hr Ht].
  (* every record after the step: an old one (related by OpCase) or the new one of a begin *)
  assert (Hold : forall o p', get_op (sys_step s l) o = Some p' ->
            (exists p, get_op s o = Some p /\ OpCase s l o p p') \/
            (get_op s o = None /\ exists k a caller tmo fn q s1 evs, l = LBegin o k a caller tmo fn /\ o_kind q = k /\
               o_fn q = fn /\ (o_deadline q = None <-> tmo = None) /\ OpStep s1 (sys_step s l) o q p' evs /\ BeginCase s1 q p' evs)).
  { intros o p' Hp'. destruct (get_op s o) as [p|] eqn:Hp.
    - left. destruct (op_step_cases s l o p Hp) as (p'' & Hp'' & HC). rewrite Hp' in Hp''. injection Hp'' as <-. eauto.
    - right. split; [reflexivity|].
      destruct (step_new_op s l o p' Hp Hp') as (k & a & caller & tmo & fn & q & s1 & evs & El & _ & Hk & _ & _ & _ & _ & HS & HB & _ & _ & _ & _ & _ & Hf & Hd).
      exists k, a, caller, tmo, fn, q, s1, evs. auto 10. }
  constructor.
  - intros o p' Hp'. destruct (Hold o p' Hp') as [(p & Hp & HC)|(_ & k & a & caller & tmo & fn & q & s1 & evs & -> & Hk & Hf & Hd & HS & _)].
    + destruct (static_all _ _ (op_case_static _ _ _ _ _ HC)) as (-> & -> & ->). apply (Hfn o p Hp).
    + destruct (static_all _ _ (os_static _ _ _ _ _ _ HS)) as (-> & -> & ->). cbn in Hwf. destruct Hwf as [W1 W2].
      rewrite Hf, Hk. split; [exact W1|]. intros Hdl. apply W2. intros E. apply Hdl, Hd, E.
  - intros o p' Hp' Hph. destruct (Hold o p' Hp') as [(p & Hp & HC)|(_ & k & a & caller & tmo & fn & q & s1 & evs & -> & Hk & Hf & Hd & HS & HB)].
    + destruct (static_all _ _ (op_case_static _ _ _ _ _ HC)) as (-> & _).
      destruct HC as [->|evs _ Hnd HS HC|_ _ ->|evs _ HC].
      * apply (Hw o p Hp Hph).
      * inversion HC; subst; try congruence. apply (Hw _ p Hp). congruence.
      * discriminate.
      * destruct HC as [->|b out _ -> _ _|_ ->]; apply (Hw o p Hp Hph).
    + destruct (static_all _ _ (os_static _ _ _ _ _ _ HS)) as (-> & _). inversion HB; subst; congruence.
  - intros o p' Hp' Hph. destruct (Hold o p' Hp') as [(p & Hp & HC)|(_ & k & a & caller & tmo & fn & q & s1 & evs & -> & Hk & Hf & Hd & HS & HB)].
    + destruct (static_all _ _ (op_case_static _ _ _ _ _ HC)) as (-> & _).
      destruct HC as [->|evs _ Hnd HS HC|_ _ ->|evs _ HC].
      * apply (Hs o p Hp Hph).
      * inversion HC; subst; try congruence. apply (Hs _ p Hp). congruence.
      * discriminate.
      * destruct HC as [->|b out _ -> _ _|_ ->]; apply (Hs o p Hp Hph).
    + destruct (static_all _ _ (os_static _ _ _ _ _ _ HS)) as (-> & _). inversion HB; subst; congruence.
  - intros o p' Hp' Hph. destruct (Hold o p' Hp') as [(p & Hp & HC)|(_ & k & a & caller & tmo & fn & q & s1 & evs & -> & Hk & Hf & Hd & HS & HB)].
    + destruct (static_all _ _ (op_case_static _ _ _ _ _ HC)) as (-> & _).
      destruct HC as [->|evs _ Hnd HS HC|_ _ ->|evs _ HC].
      * apply (Hr o p Hp Hph).
      * inversion HC; subst; try congruence.
        -- apply (Hr _ p Hp). congruence.
        -- apply (Hw _ p Hp). assumption.
      * discriminate.
      * destruct HC as [->|b out _ -> _ _|_ ->]; apply (Hr o p Hp Hph).
    + inversion HB; subst; congruence.
  - intros o p' Hp' Hph. destruct (Hold o p' Hp') as [(p & Hp & HC)|(_ & k & a & caller & tmo & fn & q & s1 & evs & -> & Hk & Hf & Hd & HS & HB)].
    + destruct (static_all _ _ (op_case_static _ _ _ _ _ HC)) as (_ & _ & ->).
      destruct HC as [->|evs _ Hnd HS HC|_ _ ->|evs _ HC].
      * apply (Ht o p Hp Hph).
      * inversion HC; subst; try congruence.
        -- apply (Ht _ p Hp). congruence.
        -- eapply expired_deadline. eassumption.
      * discriminate.
      * destruct HC as [->|b out _ -> _ _|_ ->]; apply (Ht o p Hp Hph).
    + destruct (static_all _ _ (os_static _ _ _ _ _ _ HS)) as (_ & _ & ->). inversion HB; subst; try congruence.
      eapply expired_deadline. eassumption.
Qed.

Lemma res_ok_init f : res_ok (init f).
Proof. constructor; intros o p Hp; unfold get_op in Hp; cbn in Hp; discriminate. Qed.

Theorem res_ok_run f ls : Forall wf_label ls -> res_ok (run f ls).
Proof.
  unfold run. generalize (res_ok_init f). generalize (init f).
  induction ls as [|l ls IH]; intros s H Hwf; cbn [fold_left]; [exact H|].
  apply Forall_cons_iff in Hwf. destruct Hwf as [Hl Hwf]. apply IH; [apply res_ok_step; assumption|exact Hwf].
Qed.

(* every failure an operation can end with has its call site in the table *)
Lemma failure_has_site s o p e :
  res_ok s -> get_op s o = Some p -> o_ph p = ODone (RErr e) -> valid_site (o_fn p) (ctx_of e) = true.
Proof.
  intros [Hfn Hw Hs Hr Ht] Hp Hph. destruct (Hfn o p Hp) as [Hk Hd].
  destruct e; cbn [ctx_of].
  - pose proof (Hs o p Hp Hph) as Hns. destruct (o_fn p); cbn in *; try reflexivity. congruence.
  - pose proof (Hr o p Hp Hph) as Ha. destruct (o_fn p); cbn in *; try reflexivity; congruence.
  - pose proof (Hd (Ht o p Hp Hph)) as Htm. destruct (o_fn p); cbn in *; try reflexivity; discriminate.
Qed.

(* C13 over runs whose begin labels name functions consistent with their kind and timeout *)
Theorem run_one_dead_letter_per_failure f ls o p e :
  Forall wf_label ls -> get_op (run f ls) o = Some p -> o_ph p = ODone (RErr e) ->
  exists lb, dls o (s_trace (run f ls)) = [EvDeadLetter (o_tgt p) o (reason_of (ctx_of e)) lb] /\
             label_family lb = fn_family (o_fn p).
Proof.
  intros Hwf Hp Hph. apply (run_failure_one_dead_letter f ls o p e Hp Hph).
  eapply failure_has_site; [apply res_ok_run, Hwf|exact Hp|exact Hph].
Qed.

(* ---------- an operation's result, once returned, never changes ---------- *)
Lemma done_stable_step s l o p :
  get_op s o = Some p -> is_done (o_ph p) = true ->
  exists p', get_op (sys_step s l) o = Some p' /\ o_ph p' = o_ph p /\ op_static p' = op_static p.
Proof.
  intros Hp Hd. destruct (op_step_cases s l o p Hp) as (p' & Hp' & HC). exists p'. split; [exact Hp'|].
  destruct HC as [->|evs _ Hnd _ _|_ Hnd _|evs _ HC]; try congruence; try (split; reflexivity).
  destruct (slot_case_static _ _ _ HC) as (E1 & E2 & _). auto.
Qed.

Theorem run_result_stable f ls ls2 o p :
  get_op (run f ls) o = Some p -> is_done (o_ph p) = true ->
  exists p', get_op (run f (ls ++ ls2)) o = Some p' /\ o_ph p' = o_ph p /\ op_static p' = op_static p.
Proof.
  intros Hp Hd. induction ls2 as [|l ls2 IH] using rev_ind.
  - rewrite app_nil_r. exists p. auto.
  - destruct IH as (p1 & Hp1 & E1 & S1).
    rewrite app_assoc. unfold run at 1. rewrite fold_left_app. cbn [fold_left]. fold (run f (ls ++ ls2)).
    destruct (done_stable_step (run f (ls ++ ls2)) l o p1 Hp1) as (p2 & Hp2 & E2 & S2); [congruence|].
    exists p2. split; [exact Hp2|]. split; congruence.
Qed.
