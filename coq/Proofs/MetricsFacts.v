(* Metrics arithmetic and placement (C20). *)
From RS Require Import Tactics Frame ListFacts SysFrame Spec Silent Lifecycle ClientFrame NF ActorSpec StepCases CoreInv Metrics.
Local Open Scope N_scope.

Lemma records_snoc ds d : records (ds ++ [d]) = record d (records ds).
Proof. unfold records. rewrite fold_left_app. reflexivity. Qed.

Fixpoint sumN (l : list N) : N := match l with [] => 0 | x :: t => x + sumN t end.
Fixpoint maxN (l : list N) : N := match l with [] => 0 | x :: t => N.max x (maxN t) end.

Lemma sumN_app l1 l2 : sumN (l1 ++ l2) = sumN l1 + sumN l2.
Proof. induction l1 as [|x l1 IH]; cbn [app sumN]; [reflexivity|]. rewrite IH. lia. Qed.
Lemma maxN_app l1 l2 : maxN (l1 ++ l2) = N.max (maxN l1) (maxN l2).
Proof. induction l1 as [|x l1 IH]; cbn [app maxN]; [lia|]. rewrite IH. lia. Qed.

(* closed forms: count = n mod 2^64, total = min(sum of clamped durations, u64::MAX), max = max *)
Theorem records_closed ds :
  m_count (records ds) = N.modulo (N.of_nat (length ds)) (u64max + 1) /\
  m_total (records ds) = N.min (sumN (map clamp ds)) u64max /\
  m_max (records ds) = maxN (map clamp ds).
Proof.
  induction ds as [|d ds IH] using rev_ind.
  - cbn. repeat split; reflexivity.
  - destruct IH as (Hc & Ht & Hm). rewrite records_snoc. unfold record. cbn [m_count m_total m_max].
    rewrite Hc, Ht, Hm, app_length, map_app, sumN_app, maxN_app. cbn [length map sumN maxN].
    repeat split.
    + rewrite Nat.add_1_r, Nat2N.inj_succ, <- N.add_1_r. rewrite N.add_mod_idemp_l by (unfold u64max; lia). reflexivity.
    + lia.
    + lia.
Qed.

Lemma sum_le_len_max l : sumN l <= N.of_nat (length l) * maxN l.
Proof.
  induction l as [|x l IH]; cbn [sumN maxN length]; [lia|].
  rewrite Nat2N.inj_succ. nia.
Qed.

(* once at least one message was recorded and the counter has not wrapped: avg <= max *)
Theorem avg_le_max ds :
  ds <> [] -> N.of_nat (length ds) <= u64max -> avg (records ds) <= m_max (records ds).
Proof.
  intros Hne Hlen. destruct (records_closed ds) as (Hc & Ht & Hm). unfold avg. rewrite Hc, Ht, Hm.
  rewrite N.mod_small by (unfold u64max in *; lia).
  assert (Hpos : 0 < N.of_nat (length ds)) by (destruct ds; [congruence|cbn; lia]).
  destruct (N.eqb_spec (N.of_nat (length ds)) 0) as [E|_]; [lia|].
  apply N.div_le_upper_bound; [lia|].
  pose proof (sum_le_len_max (map clamp ds)) as H. rewrite map_length in H. lia.
Qed.

(* the count never decreases while fewer than 2^64 messages were recorded *)
Theorem count_monotone ds d :
  N.of_nat (length ds) < u64max -> m_count (records ds) < m_count (records (ds ++ [d])).
Proof.
  intros H. destruct (records_closed ds) as (Hc & _). destruct (records_closed (ds ++ [d])) as (Hc' & _).
  rewrite Hc, Hc', app_length. cbn [length]. rewrite !N.mod_small by (unfold u64max in *; lia). lia.
Qed.

Theorem max_ge_each ds d : In d ds -> clamp d <= m_max (records ds).
Proof.
  intros Hin. destruct (records_closed ds) as (_ & _ & ->).
  induction ds as [|x ds IH]; [destruct Hin|]. cbn. destruct Hin as [->|Hin]; [lia|]. specialize (IH Hin). lia.
Qed.

(* ---------- placement: one record per handler that was entered and has returned or unwound ---------- *)
Local Close Scope N_scope.

Definition in_handler (p : pc) : nat := match p with PHandle _ _ => 1 | _ => 0 end.
Definition completed (x : actor) : nat := length (envs (a_taken x)) - in_handler (a_pc x).

Definition mcount_ok (s : sys) : Prop :=
  forall a x, get_actor s a = Some x ->
    a_mcount x = if f_metrics (s_feat s) then wrap64 (N.of_nat (completed x)) else 0%N.

Lemma feat_step s l : s_feat (sys_step s l) = s_feat s.
Proof.
  destruct l; try (apply (Q_step s_feat); try reflexivity; discriminate); cbn [sys_step].
  - unfold spawn. destruct (cap =? 0); reflexivity.
  - reflexivity.
Qed.

Lemma wrap64_S n : wrap64 (wrap64 (N.of_nat n) + 1) = wrap64 (N.of_nat (S n)).
Proof.
  unfold wrap64. rewrite N.add_mod_idemp_l by (unfold two64; discriminate).
  rewrite Nat2N.inj_succ, N.add_1_r. reflexivity.
Qed.

Lemma mcount_take_f i tl y : a_mcount (take_f i tl y) = a_mcount y.
Proof.
  unfold take_f, regrant_f. cbn. destruct (a_waiters y); [reflexivity|].
  match goal with |- context [if ?c then _ else _] => destruct c end; reflexivity.
Qed.

Definition M (on : bool) (n : nat) : N := if on then wrap64 (N.of_nat n) else 0%N.

Lemma mrec_M on y n : a_mcount y = M on n -> a_mcount (mrec_f on y) = M on (S n).
Proof.
  unfold mrec_f, M. destruct on; cbn; intros ->; [apply wrap64_S|reflexivity].
Qed.

Lemma handler_has_env x o k :
  core_ok x -> a_pc x = PHandle o k -> 1 <= length (envs (a_taken x)).
Proof.
  intros [_ _ k3 _ _ _ _] Hpc. destruct (k3 o k Hpc) as (Hk & t & Et). rewrite Et, envs_snoc.
  assert (is_env (o, k) = true) as -> by (destruct k; [reflexivity|reflexivity|congruence]).
  rewrite app_length. cbn. lia.
Qed.

Lemma local_mcount s a x l f fo evs :
  core_ok x -> Local s a x l f fo evs ->
  a_mcount x = M (f_metrics (s_feat s)) (completed x) ->
  a_mcount (f x) = M (f_metrics (s_feat s)) (completed (f x)).
Proof.
  intros Hok HL Hm. unfold completed in *.
  inversion HL; subst; unfold stop_f, handle_f, run_f, idf, end_f;
    cbn [a_mcount a_taken a_pc set_a_pc set_a_ustate set_a_idle set_a_term set_a_closed set_a_mbox in_handler];
    rewrite ?mcount_take_f, ?taken_take_f, ?envs_snoc;
    try match goal with H : a_pc x = _ |- _ => rewrite H in Hm; cbn [in_handler] in Hm end;
    first
      [ exact Hm
      | rewrite Nat.sub_0_r in *; exact Hm
      | destruct rest; cbn [after_branch in_handler]; rewrite Nat.sub_0_r in *; exact Hm
      | cbn [is_env snd]; rewrite Nat.sub_0_r in *; exact Hm
      | (* envelope taken *)
        match goal with H : ?k <> KStop |- context [is_env (?o, ?k)] =>
          assert (is_env (o, k) = true) as -> by (destruct k; [reflexivity|reflexivity|congruence]) end;
        rewrite app_length; cbn [length]; rewrite Nat.sub_0_r in Hm; rewrite Hm; f_equal; lia
      | (* handler returned or unwound *)
        match goal with H : a_pc x = PHandle ?o ?k |- _ =>
          destruct (mrec_fields (f_metrics (s_feat s)) x) as (_ & _ & -> & _);
          pose proof (handler_has_env x o k Hok H) as Hge;
          rewrite (mrec_M _ x _ Hm); f_equal; lia end ].
Qed.

Lemma ddpanic_mcount s a x f fo evs :
  core_ok x -> DdPanic s a x f fo evs ->
  a_mcount x = M (f_metrics (s_feat s)) (completed x) ->
  a_mcount (f x) = M (f_metrics (s_feat s)) (completed (f x)).
Proof.
  intros Hok HD Hm. unfold completed in *. inversion HD; subst; unfold end_f;
    cbn [a_mcount a_taken a_pc set_a_pc set_a_closed set_a_term set_a_mbox in_handler].
  - rewrite Nat.sub_0_r. destruct (a_pc x) eqn:E; cbn [in_handler] in Hm; try (rewrite Nat.sub_0_r in Hm; exact Hm).
    exfalso. eapply H0. reflexivity.
  - destruct (mrec_fields (f_metrics (s_feat s)) x) as (_ & _ & -> & _).
    pose proof (handler_has_env x o k Hok H) as Hge. rewrite H in Hm. cbn [in_handler] in Hm.
    rewrite (mrec_M _ x _ Hm). f_equal. lia.
Qed.

Theorem mcount_ok_step s l : cores_ok s -> mcount_ok s -> mcount_ok (sys_step s l).
Proof.
  intros Hc Hok a y Hy. rewrite feat_step. fold (M (f_metrics (s_feat s)) (completed y)).
  destruct (get_actor s a) as [x|] eqn:Hx.
  - destruct (step_cases s l a x Hx) as (y' & Hy' & HC). rewrite Hy in Hy'. injection Hy' as <-.
    specialize (Hok a x Hx). fold (M (f_metrics (s_feat s)) (completed x)) in Hok.
    destruct HC as [E _|f fo evs _ HL -> _|f fo evs HD -> _].
    + destruct (core_fields x y E) as (e1 & _ & e3 & _ & _ & _ & _ & e8). unfold completed. rewrite e1, e3, e8. exact Hok.
    + eapply local_mcount; eauto.
    + eapply ddpanic_mcount; eauto.
  - destruct (step_new_actor s l a y Hx Hy) as (cap & -> & _ & ->). unfold M, completed. cbn.
    destruct (f_metrics (s_feat s)); reflexivity.
Qed.

Theorem mcount_ok_run f ls : mcount_ok (run f ls).
Proof.
  unfold run.
  assert (H : cores_ok (init f) /\ mcount_ok (init f)).
  { split; [apply cores_ok_init|]. intros a x H. unfold get_actor in H. cbn in H. destruct a; discriminate. }
  revert H. generalize (init f).
  induction ls as [|l ls IH]; intros s [H1 H2]; cbn [fold_left]; [exact H2|].
  apply IH. split; [apply cores_ok_step, H1|apply mcount_ok_step; assumption].
Qed.
