(* Facts about the lifecycle recogniser itself (a small regular language) and their lift to runs. *)
From RS Require Import Tactics Frame Spec Silent Lifecycle Result.

Definition lc_ended (st : lcstate) : bool :=
  match st with LcDone _ | LcPanicked => true | _ => false end.

Lemma lc_ended_final st es st' : lc_ended st = true -> lc_run st es = Some st' -> es = [].
Proof. intros H. destruct es as [|e es]; [reflexivity|]. destruct st; try discriminate; cbn; discriminate. Qed.

Definition is_start_enter (e : event) := match e with EvStartEnter _ => true | _ => false end.
Definition is_stop_enter (e : event) := match e with EvStopEnter _ _ => true | _ => false end.
Definition is_stop_exit (e : event) := match e with EvStopExit _ _ => true | _ => false end.
Definition is_work (e : event) :=
  match e with EvHandleEnter _ _ _ | EvRunDone _ _ | EvStopEnter _ _ => true | _ => false end.

(* on_start is entered exactly once, first *)
Lemma lc_no_second_start st es st' :
  st <> LcInit -> lc_run st es = Some st' -> existsb is_start_enter es = false.
Proof.
  revert st. induction es as [|e es IH]; intros st Hst H; [reflexivity|].
  cbn in H. destruct (lc_step st e) as [st1|] eqn:E; [|discriminate].
  cbn. assert (is_start_enter e = false) as ->.
  { destruct e; try reflexivity. destruct st; try discriminate; congruence. }
  apply (IH st1); [|exact H].
  destruct st, e; cbn in E; try discriminate; repeat case_match_in E; inv E; discriminate.
Qed.

Lemma lc_first_is_start es st :
  lc_run LcInit es = Some st ->
  es = [] \/ exists a t, es = EvStartEnter a :: t /\ existsb is_start_enter t = false.
Proof.
  intros H. destruct es as [|e t]; [left; reflexivity|right].
  cbn in H. destruct e; try discriminate. eexists _, t. split; [reflexivity|].
  eapply lc_no_second_start; [|exact H]. discriminate.
Qed.

(* while on_start runs nothing else happens; a failed or panicking start ends the history *)
Lemma lc_after_start_enter es st :
  lc_run LcStart es = Some st ->
  es = [] \/
  (exists a out t, es = EvStartExit a out :: t /\
      match out with HPanic | HErr _ => t = [] | _ => True end) \/
  (exists a c, es = [EvDeadlock a c]).
Proof.
  intros H. destruct es as [|e t]; [left; reflexivity|right].
  cbn in H. destruct e as [| | | | |b out| | | | | | | | | |b cyc|]; try discriminate.
  - left. exists b, out, t. split; [reflexivity|]. destruct out; try exact I.
    + eapply lc_ended_final; [|exact H]. reflexivity.
    + eapply lc_ended_final; [|exact H]. reflexivity.
  - right. exists b, cyc. f_equal. eapply lc_ended_final; [|exact H]. reflexivity.
Qed.

(* on_stop is entered at most once and is the last hook: after it only its own exit can follow *)
Lemma lc_after_stop_enter k re ust es st :
  lc_run (LcStop k re ust) es = Some st ->
  es = [] \/ (exists a out, es = [EvStopExit a out]) \/ (exists a c, es = [EvDeadlock a c]).
Proof.
  intros H. destruct es as [|e t]; [left; reflexivity|right].
  cbn in H. destruct e as [| | | | | | | | | | | |b out| | |b cyc|]; try discriminate.
  - left. exists b, out. f_equal. eapply lc_ended_final; [|exact H]. destruct out; reflexivity.
  - right. exists b, cyc. f_equal. eapply lc_ended_final; [|exact H]. reflexivity.
Qed.

Definition pre_stop (st : lcstate) : bool :=
  match st with LcStop _ _ _ | LcDone _ | LcPanicked => false | _ => true end.

Lemma lc_stop_count st es st' :
  lc_run st es = Some st' ->
  length (filter is_stop_enter es) <= (if pre_stop st then 1 else 0).
Proof.
  revert st. induction es as [|e es IH]; intros st H; cbn; [lia|].
  cbn in H. destruct (lc_step st e) as [st1|] eqn:E; [|discriminate].
  specialize (IH st1 H).
  destruct st, e; cbn in E; try discriminate; repeat case_match_in E; inv E; cbn in *; lia.
Qed.

(* ---------- lifted to runs of the model ---------- *)
Theorem run_lifecycle f ls a x :
  get_actor (run f ls) a = Some x ->
  lc_run LcInit (hook_events (run f ls) a) = Some (lc_of_actor x).
Proof. intros H. apply (proj1 (lc_ok_run f ls)). exact H. Qed.

Theorem run_result f ls a x r :
  get_actor (run f ls) a = Some x -> a_pc x = PDone r ->
  lc_run LcInit (hook_events (run f ls) a) = Some (LcDone r).
Proof. intros H Hpc. rewrite (run_lifecycle f ls a x H). unfold lc_of_actor. rewrite Hpc. reflexivity. Qed.

Theorem run_panicked f ls a x :
  get_actor (run f ls) a = Some x ->
  (a_pc x = PPanicked <-> lc_run LcInit (hook_events (run f ls) a) = Some LcPanicked).
Proof.
  intros H. rewrite (run_lifecycle f ls a x H). unfold lc_of_actor.
  split; [intros ->; reflexivity|]. destruct (a_pc x); intros E; inv E; reflexivity.
Qed.

(* accessor laws: every query method is determined by the variant's fields *)
Lemma accessor_laws r :
  is_failed r = negb (is_completed r) /\
  (stopped_normally r = is_completed r && negb (was_killed r)) /\
  (has_actor r = match r_actor r with Some _ => true | None => false end) /\
  (is_completed r = true -> r_error r = None /\ r_phase r = None /\ has_actor r = true) /\
  (is_failed r = true -> exists e ph, r_error r = Some e /\ r_phase r = Some ph /\
      is_startup_failed r = match ph with OnStart => true | _ => false end /\
      is_runtime_failed r = match ph with OnRun | OnRunThenOnStop => true | _ => false end /\
      is_cleanup_failed r = match ph with OnRunThenOnStop => true | _ => false end /\
      is_stop_failed r = match ph with OnStop => true | _ => false end) /\
  (to_tuple r = (r_actor r, r_error r)) /\
  (to_result r = match r_error r with Some e => inr e | None =>
                   match r_actor r with Some st => inl st | None => inr 0%N end end).
Proof.
  destruct r as [st k|st e ph k]; cbn.
  - repeat split; try reflexivity; try discriminate; try (destruct k; reflexivity).
  - repeat split; try reflexivity; try discriminate.
    intros _. exists e, ph. repeat split; destruct ph; reflexivity.
Qed.

Lemma retryable_iff_timeout e : is_retryable e = true <-> e = ETimeout.
Proof. destruct e; cbn; split; intros H; congruence || discriminate. Qed.

(* ---------- run-level corollaries ---------- *)
Lemma run_history_accepted f ls a :
  exists st, lc_run LcInit (hook_events (run f ls) a) = Some st.
Proof.
  destruct (lc_ok_run f ls) as [H1 H2].
  destruct (get_actor (run f ls) a) as [x|] eqn:E.
  - eexists. apply H1. exact E.
  - rewrite (H2 a E). eexists. reflexivity.
Qed.

Theorem run_start_once_first f ls a :
  let es := hook_events (run f ls) a in
  es = [] \/ exists b t, es = EvStartEnter b :: t /\ existsb is_start_enter t = false.
Proof. destruct (run_history_accepted f ls a) as [st H]. eapply lc_first_is_start. exact H. Qed.

Theorem run_stop_at_most_once f ls a :
  length (filter is_stop_enter (hook_events (run f ls) a)) <= 1.
Proof.
  destruct (run_history_accepted f ls a) as [st H].
  apply lc_stop_count in H. exact H.
Qed.

(* nothing - no handler, no on_run, no on_stop - ever follows the end of the task: a failed or
   panicking on_start, a panic in any hook, or the return of on_stop *)
Theorem run_nothing_after_end f ls a es1 e es2 st :
  hook_events (run f ls) a = es1 ++ e :: es2 ->
  lc_run LcInit es1 = Some st -> lc_ended st = false.
Proof.
  intros Hsplit H1. destruct (run_history_accepted f ls a) as [st' H].
  rewrite Hsplit, lc_run_app, H1 in H.
  destruct (lc_ended st) eqn:E; [|reflexivity].
  apply (lc_ended_final st _ st' E) in H. discriminate.
Qed.

(* while on_start has not returned Ok, no handler, on_run body or on_stop runs *)
Theorem run_start_before_work f ls a b t :
  hook_events (run f ls) a = EvStartEnter b :: t ->
  t = [] \/ (exists c out t', t = EvStartExit c out :: t' /\
               match out with HPanic | HErr _ => t' = [] | _ => True end)
        \/ (exists c cyc, t = [EvDeadlock c cyc]).
Proof.
  intros Hs. destruct (run_history_accepted f ls a) as [st H]. rewrite Hs in H. cbn in H.
  eapply lc_after_start_enter. exact H.
Qed.

(* on_stop is the last hook: after its entry only its own exit (or its panic) can follow *)
Theorem run_stop_is_last f ls a es1 b k es2 :
  hook_events (run f ls) a = es1 ++ EvStopEnter b k :: es2 ->
  es2 = [] \/ (exists c out, es2 = [EvStopExit c out]) \/ (exists c cyc, es2 = [EvDeadlock c cyc]).
Proof.
  intros Hs. destruct (run_history_accepted f ls a) as [st H].
  rewrite Hs, lc_run_app in H. destruct (lc_run LcInit es1) as [st1|] eqn:E1; [|discriminate].
  cbn in H. destruct (lc_step st1 (EvStopEnter b k)) as [st2|] eqn:E2; [|discriminate].
  destruct st1; cbn in E2; try discriminate; repeat case_match_in E2; inv E2;
    eapply lc_after_stop_enter; exact H.
Qed.
