(* The mailbox / permit / operation-phase invariant (properties C01, C02, C09). *)
From RS Require Import Tactics Frame ListFacts.

Definition oids (l : list item) : list oid := map fst l.

(* what the phase of an operation can be once its envelope is in the mailbox *)
Definition accepted_phase (k : okind) (ph : ophase) : Prop :=
  match k with
  | KAsk => ph = OWaitReply \/ exists r, ph = ODone r /\ r <> RErr ESend
  | _ => ph = ODone (ROk 0)
  end.

Record actor_ok (x : actor) : Prop := mkAOK {
  ao_q1 : exists d, a_accepted x = a_taken x ++ a_mbox x ++ d /\ (a_closed x = false -> d = []);
  ao_q2 : NoDup (oids (a_accepted x));
  ao_p1 : length (a_mbox x) + length (a_granted x) <= a_cap x;
  ao_p2 : a_closed x = false -> a_waiters x <> [] ->
          length (a_mbox x) + length (a_granted x) = a_cap x;
  ao_nd : NoDup (a_waiters x ++ a_granted x)
}.

Definition q_ok (s : sys) : Prop :=
  (forall a x, get_actor s a = Some x -> actor_ok x) /\
  (forall a x o k, get_actor s a = Some x -> In (o, k) (a_accepted x) ->
      exists p, get_op s o = Some p /\ o_tgt p = a /\ o_kind p = k /\ accepted_phase k (o_ph p)) /\
  (forall a x o, get_actor s a = Some x -> In o (a_waiters x ++ a_granted x) ->
      exists p, get_op s o = Some p /\ o_tgt p = a /\ o_ph p = OPre).

(* ---------- the parts of the state the invariant reads ---------- *)
Definition qa (x : actor) :=
  (a_mbox x, a_accepted x, a_taken x, a_waiters x, a_granted x, a_closed x, a_cap x).
Definition qo (p : op) := (o_id p, o_kind p, o_tgt p, o_ph p).

Definition qsame (s s' : sys) : Prop :=
  (forall b, option_map qa (get_actor s' b) = option_map qa (get_actor s b)) /\
  (forall o, option_map qo (get_op s' o) = option_map qo (get_op s o)).

Lemma qsame_refl s : qsame s s.
Proof. split; reflexivity. Qed.
Lemma qsame_trans s1 s2 s3 : qsame s1 s2 -> qsame s2 s3 -> qsame s1 s3.
Proof. intros [A1 O1] [A2 O2]. split; intros; [rewrite A2, A1|rewrite O2, O1]; reflexivity. Qed.

Lemma actor_ok_qa x y : qa y = qa x -> actor_ok x -> actor_ok y.
Proof.
  unfold qa. intros E [q1 q2 p1 p2 nd]. injection E as E1 E2 E3 E4 E5 E6 E7.
  constructor; rewrite ?E1, ?E2, ?E3, ?E4, ?E5, ?E6, ?E7; assumption.
Qed.

Lemma qa_get s s' b y :
  qsame s s' -> get_actor s' b = Some y -> exists x, get_actor s b = Some x /\ qa y = qa x.
Proof.
  intros [A _] H. specialize (A b). rewrite H in A. cbn in A.
  destruct (get_actor s b) as [x|]; cbn in A; [|discriminate]. exists x. split; [reflexivity|congruence].
Qed.
Lemma qo_get s s' o p :
  qsame s s' -> get_op s o = Some p -> exists p', get_op s' o = Some p' /\ qo p' = qo p.
Proof.
  intros [_ O] H. specialize (O o). rewrite H in O. cbn in O.
  destruct (get_op s' o) as [p'|]; cbn in O; [|discriminate]. exists p'. split; [reflexivity|congruence].
Qed.

Lemma q_ok_qsame s s' : qsame s s' -> q_ok s -> q_ok s'.
Proof.
  intros Hq (H1 & H2 & H3). split; [|split].
  - intros a y Hy. destruct (qa_get s s' a y Hq Hy) as (x & Hx & E).
    eapply actor_ok_qa; [exact E|]. eapply H1; exact Hx.
  - intros a y o k Hy Hin. destruct (qa_get s s' a y Hq Hy) as (x & Hx & E).
    unfold qa in E. injection E as E1 E2 E3 E4 E5 E6 E7.
    destruct (H2 a x o k Hx) as (p & Hp & Ht & Hk & Hph); [congruence|].
    destruct (qo_get s s' o p Hq Hp) as (p' & Hp' & E'). unfold qo in E'. injection E' as F1 F2 F3 F4.
    exists p'. repeat split; congruence.
  - intros a y o Hy Hin. destruct (qa_get s s' a y Hq Hy) as (x & Hx & E).
    unfold qa in E. injection E as E1 E2 E3 E4 E5 E6 E7.
    destruct (H3 a x o Hx) as (p & Hp & Ht & Hph); [congruence|].
    destruct (qo_get s s' o p Hq Hp) as (p' & Hp' & E'). unfold qo in E'. injection E' as F1 F2 F3 F4.
    exists p'. repeat split; congruence.
Qed.

(* primitives that leave the view alone; stated in backward-chaining form *)
Lemma qsame_emit s0 s e : qsame s0 s -> qsame s0 (emit e s).
Proof. intros H; exact H. Qed.
Lemma qsame_set_graph s0 s v : qsame s0 s -> qsame s0 (set_s_graph v s).
Proof. intros H; exact H. Qed.
Lemma qsame_set_dlcount s0 s v : qsame s0 s -> qsame s0 (set_s_dlcount v s).
Proof. intros H; exact H. Qed.
Lemma qsame_set_now s0 s v : qsame s0 s -> qsame s0 (set_s_now v s).
Proof. intros H; exact H. Qed.

Lemma qsame_upd_actor s0 s a f :
  (forall x, qa (f x) = qa x) -> qsame s0 s -> qsame s0 (upd_actor a f s).
Proof.
  intros Hf [A O]. split; [|exact O].
  intros b. rewrite get_actor_upd_actor. destruct (b =? a); [|apply A].
  rewrite <- A. destruct (get_actor s b); cbn; [rewrite Hf|]; reflexivity.
Qed.

Lemma qsame_upd_op s0 s o f :
  (forall p, qo (f p) = qo p) -> qsame s0 s -> qsame s0 (upd_op o f s).
Proof.
  intros Hf [A O]. split; [exact A|].
  intros o'. rewrite get_op_upd_op.
  - destruct (o' =? o); [|apply O]. rewrite <- O. destruct (get_op s o'); cbn; [rewrite Hf|]; reflexivity.
  - intros p. specialize (Hf p). unfold qo in Hf. congruence.
Qed.

Lemma qsame_close_slots s0 s os : qsame s0 s -> qsame s0 (close_slots os s).
Proof.
  intros [A O]. split; [exact A|]. intros o. rewrite get_op_close_slots, <- O.
  destruct (get_op s o) as [p|]; cbn; [|reflexivity].
  destruct (existsb (Nat.eqb (o_id p)) os); [destruct (o_slot p)|]; reflexivity.
Qed.

Ltac qsame_prim :=
  first
    [ assumption
    | apply qsame_refl
    | apply qsame_emit
    | apply qsame_set_graph
    | apply qsame_set_dlcount
    | apply qsame_set_now
    | apply qsame_close_slots
    | apply qsame_upd_actor; [intros ?x; cbn; repeat case_match; reflexivity|]
    | apply qsame_upd_op; [intros ?p; cbn; repeat case_match; reflexivity|] ].
Ltac qsame_auto := repeat (repeat case_match; qsame_prim).

Lemma qsame_record_dl s0 s a o f c : qsame s0 s -> qsame s0 (record_dl a o f c s).
Proof.
  unfold record_dl. generalize (dl_sites (site_fn f c) c). intros l. revert s.
  induction l as [|rl l IH]; intros s H; cbn [fold_left]; [exact H|].
  apply IH. unfold record_one. qsame_auto.
Qed.
Lemma qsame_drop_guard s0 s p : qsame s0 s -> qsame s0 (drop_guard p s).
Proof. intros H. unfold drop_guard. qsame_auto. Qed.
Lemma qsame_clear_hop s0 s p : qsame s0 s -> qsame s0 (clear_hop p s).
Proof. intros H. unfold clear_hop. qsame_auto. Qed.
Lemma qsame_set_hop s0 s c o : qsame s0 s -> qsame s0 (set_hop c o s).
Proof. intros H. unfold set_hop. qsame_auto. Qed.
Lemma qsame_metrics_record s0 s a : qsame s0 s -> qsame s0 (metrics_record a s).
Proof. intros H. unfold metrics_record. qsame_auto. Qed.
Lemma qsame_kill s0 s a : qsame s0 s -> qsame s0 (kill a s).
Proof. intros H. unfold kill. qsame_auto. Qed.
Lemma qsame_ref_clone s0 s a : qsame s0 s -> qsame s0 (ref_clone a s).
Proof. intros H. unfold ref_clone. qsame_auto. Qed.
Lemma qsame_ref_drop s0 s a : qsame s0 s -> qsame s0 (ref_drop a s).
Proof. intros H. unfold ref_drop. qsame_auto. Qed.
Lemma qsame_ref_upgrade s0 s a : qsame s0 s -> qsame s0 (ref_upgrade a s).
Proof. intros H. unfold ref_upgrade. qsame_auto. Qed.
Lemma qsame_enter_stop s0 s a k c : qsame s0 s -> qsame s0 (enter_stop a k c s).
Proof. intros H. unfold enter_stop. qsame_auto. Qed.
Lemma qsame_pass_begin s0 s a k : qsame s0 s -> qsame s0 (pass_begin a k s).
Proof. intros H. unfold pass_begin. qsame_auto. Qed.


(* ---------- changes of one operation's phase ---------- *)
Lemma q_ok_set_ph s o g p ph' :
  q_ok s -> get_op s o = Some p ->
  (forall q, qo (g q) = (o_id q, o_kind q, o_tgt q, ph')) ->
  (ph' = OPre \/ forall x, get_actor s (o_tgt p) = Some x -> ~ In o (a_waiters x ++ a_granted x)) ->
  (forall x, get_actor s (o_tgt p) = Some x -> In (o, o_kind p) (a_accepted x) ->
             accepted_phase (o_kind p) ph') ->
  q_ok (upd_op o g s).
Proof.
  intros (H1 & H2 & H3) Hp Hg Hw Ha.
  assert (Hid : forall q, o_id (g q) = o_id q) by (intros q; specialize (Hg q); unfold qo in Hg; congruence).
  split; [exact H1|split].
  - intros a x o' k Hx Hin.
    destruct (H2 a x o' k Hx Hin) as (p' & Hp' & Ht & Hk & Hph).
    rewrite get_op_upd_op by exact Hid. destruct (Nat.eqb_spec o' o) as [->|Hne].
    + rewrite Hp. rewrite Hp in Hp'. injection Hp' as <-. cbn.
      exists (g p). specialize (Hg p). unfold qo in Hg. injection Hg as G1 G2 G3 G4.
      repeat split; try congruence. rewrite G4. subst k a. apply (Ha x Hx Hin).
    + exists p'. repeat split; assumption.
  - intros a x o' Hx Hin.
    destruct (H3 a x o' Hx Hin) as (p' & Hp' & Ht & Hph).
    rewrite get_op_upd_op by exact Hid. destruct (Nat.eqb_spec o' o) as [->|Hne].
    + rewrite Hp. rewrite Hp in Hp'. injection Hp' as <-. cbn.
      exists (g p). specialize (Hg p). unfold qo in Hg. injection Hg as G1 G2 G3 G4.
      repeat split; try congruence. rewrite G4.
      destruct Hw as [->|Hw]; [reflexivity|]. exfalso. subst a. apply (Hw x Hx Hin).
    + exists p'. repeat split; assumption.
Qed.

Lemma q_ok_finish s o r p :
  q_ok s -> get_op s o = Some p ->
  (forall x, get_actor s (o_tgt p) = Some x -> ~ In o (a_waiters x ++ a_granted x)) ->
  (forall x, get_actor s (o_tgt p) = Some x -> In (o, o_kind p) (a_accepted x) ->
             accepted_phase (o_kind p) (ODone r)) ->
  q_ok (finish o r s).
Proof.
  intros Hok Hp Hw Ha. unfold finish. rewrite Hp.
  eapply q_ok_qsame.
  - apply qsame_emit, qsame_clear_hop, qsame_drop_guard, qsame_refl.
  - eapply (q_ok_set_ph s o _ p (ODone r)); [exact Hok|exact Hp|intros q; reflexivity|right; exact Hw|exact Ha].
Qed.

(* an operation still in phase OPre is not in the mailbox *)
Lemma pre_not_accepted s o p x :
  q_ok s -> get_op s o = Some p -> o_ph p = OPre -> get_actor s (o_tgt p) = Some x ->
  ~ In o (oids (a_accepted x)).
Proof.
  intros (_ & H2 & _) Hp Hph Hx Hin. unfold oids in Hin. apply in_map_iff in Hin.
  destruct Hin as ([o' k] & E & Hin). cbn in E. subst o'.
  destruct (H2 _ x o k Hx Hin) as (p' & Hp' & _ & _ & Hacc).
  rewrite Hp in Hp'. injection Hp' as <-. rewrite Hph in Hacc.
  destruct k; cbn in Hacc; try discriminate. destruct Hacc as [E|(r & E & _)]; discriminate.
Qed.

(* ---------- changes of one actor's queue fields that add nothing ---------- *)
Lemma upd_nth_compose {A} (f g : A -> A) (l : list A) n :
  upd_nth n g (upd_nth n f l) = upd_nth n (fun x => g (f x)) l.
Proof. revert n. induction l as [|y l IH]; intros [|n]; cbn; try reflexivity. f_equal. apply IH. Qed.

Lemma upd_actor_compose s a f g :
  upd_actor a g (upd_actor a f s) = upd_actor a (fun x => g (f x)) s.
Proof.
  unfold upd_actor. cbn [s_actors set_s_actors]. rewrite upd_nth_compose.
  destruct s; reflexivity.
Qed.

Lemma q_ok_upd_actor_shrink s a f x :
  q_ok s -> get_actor s a = Some x -> actor_ok (f x) ->
  a_accepted (f x) = a_accepted x ->
  incl (a_waiters (f x) ++ a_granted (f x)) (a_waiters x ++ a_granted x) ->
  q_ok (upd_actor a f s).
Proof.
  intros (H1 & H2 & H3) Hx Hok Hacc Hincl. split; [|split].
  - intros b y Hy. rewrite get_actor_upd_actor in Hy. destruct (Nat.eqb_spec b a) as [->|Hne].
    + rewrite Hx in Hy. cbn in Hy. injection Hy as <-. exact Hok.
    + eapply H1; exact Hy.
  - intros b y o k Hy Hin. rewrite get_actor_upd_actor in Hy. destruct (Nat.eqb_spec b a) as [->|Hne].
    + rewrite Hx in Hy. cbn in Hy. injection Hy as <-. rewrite Hacc in Hin. apply (H2 a x o k Hx Hin).
    + apply (H2 b y o k Hy Hin).
  - intros b y o Hy Hin. rewrite get_actor_upd_actor in Hy. destruct (Nat.eqb_spec b a) as [->|Hne].
    + rewrite Hx in Hy. cbn in Hy. injection Hy as <-. apply Hincl in Hin. apply (H3 a x o Hx Hin).
    + apply (H3 b y o Hy Hin).
Qed.

Lemma incl_app_remove_l o (l1 l2 : list nat) : incl (remove_nat o l1 ++ l2) (l1 ++ l2).
Proof.
  intros y Hy. apply in_app_or in Hy. apply in_or_app. destruct Hy as [Hy|Hy]; [left|right; exact Hy].
  apply in_remove_nat in Hy. tauto.
Qed.
Lemma incl_app_remove_r o (l1 l2 : list nat) : incl (l1 ++ remove_nat o l2) (l1 ++ l2).
Proof.
  intros y Hy. apply in_app_or in Hy. apply in_or_app. destruct Hy as [Hy|Hy]; [left; exact Hy|right].
  apply in_remove_nat in Hy. tauto.
Qed.

Lemma q_ok_unwait s a o : q_ok s -> q_ok (unwait a o s).
Proof.
  intros Hok. unfold unwait. destruct (get_actor s a) as [x|] eqn:Hx.
  - eapply q_ok_upd_actor_shrink; [exact Hok|exact Hx| |reflexivity|apply incl_app_remove_l].
    destruct Hok as (H1 & _). destruct (H1 a x Hx) as [q1 q2 p1 p2 nd].
    constructor; cbn; try assumption.
    + intros Hc Hw. apply p2; [exact Hc|]. intros E. rewrite E in Hw. apply Hw. reflexivity.
    + apply nodup_app in nd. destruct nd as (n1 & n2 & n3). apply nodup_app. repeat split.
      * apply nodup_remove_nat, n1.
      * exact n2.
      * intros y Hy. apply in_remove_nat in Hy. apply n3. tauto.
  - eapply q_ok_qsame; [|exact Hok]. split; [|reflexivity].
    intros b. rewrite get_actor_upd_actor. destruct (Nat.eqb_spec b a) as [->|]; [rewrite Hx|]; reflexivity.
Qed.

(* the transformation regrant applies to its actor *)
Definition regrant_f (x : actor) : actor :=
  match a_waiters x with
  | w :: ws => if free_slot x && negb (a_closed x)
               then set_a_granted (a_granted x ++ [w]) (set_a_waiters ws x) else x
  | [] => x end.

Lemma regrant_is_upd a s : regrant a s = upd_actor a regrant_f s.
Proof. reflexivity. Qed.

(* after one slot has been given back, regrant restores "nobody waits while a slot is free" *)
Lemma actor_ok_regrant x :
  (exists d, a_accepted x = a_taken x ++ a_mbox x ++ d /\ (a_closed x = false -> d = [])) ->
  NoDup (oids (a_accepted x)) ->
  NoDup (a_waiters x ++ a_granted x) ->
  length (a_mbox x) + length (a_granted x) <= a_cap x ->
  (a_closed x = false -> a_waiters x <> [] -> S (length (a_mbox x) + length (a_granted x)) >= a_cap x) ->
  actor_ok (regrant_f x).
Proof.
  intros q1 q2 nd p1 p2. unfold regrant_f.
  destruct (a_waiters x) as [|w ws] eqn:Ew.
  - constructor; try assumption; [intros _ Hw; rewrite Ew in Hw; congruence|rewrite Ew; exact nd].
  - destruct (free_slot x && negb (a_closed x)) eqn:Ef.
    + apply andb_prop in Ef. destruct Ef as [Ef Ec]. unfold free_slot in Ef. apply Nat.ltb_lt in Ef.
      apply negb_true_iff in Ec.
      constructor; cbn; try assumption.
      * rewrite app_length. cbn. lia.
      * intros _ _. rewrite app_length. cbn. specialize (p2 Ec).
        assert (w :: ws <> []) as Hne by discriminate. specialize (p2 Hne). lia.
      * cbn in nd. apply NoDup_cons_iff in nd. destruct nd as [Hw nd].
        rewrite app_assoc. apply nodup_snoc; [exact nd|exact Hw].
    + constructor; try assumption; [|rewrite Ew; exact nd].
      intros Hc _. rewrite Hc in Ef. cbn in Ef. rewrite andb_true_r in Ef.
      unfold free_slot in Ef. apply Nat.ltb_ge in Ef. lia.
Qed.

Lemma regrant_f_lists x :
  a_accepted (regrant_f x) = a_accepted x /\
  incl (a_waiters (regrant_f x) ++ a_granted (regrant_f x)) (a_waiters x ++ a_granted x).
Proof.
  unfold regrant_f. destruct (a_waiters x) as [|w ws] eqn:Ew; [split; [reflexivity|rewrite Ew; apply incl_refl]|].
  destruct (free_slot x && negb (a_closed x)); cbn; [|split; [reflexivity|rewrite Ew; apply incl_refl]].
  split; [reflexivity|]. intros y Hy. rewrite app_assoc in Hy. apply in_app_or in Hy.
  destruct Hy as [Hy|[<-|[]]]; [right; exact Hy|left; reflexivity].
Qed.

(* the loop takes the head of the mailbox *)
Lemma q_ok_take s a x i tl :
  q_ok s -> get_actor s a = Some x -> a_mbox x = i :: tl -> q_ok (take a i tl s).
Proof.
  intros Hok Hx Hm. unfold take. rewrite regrant_is_upd, upd_actor_compose.
  destruct Hok as (H1 & H2 & H3). destruct (H1 a x Hx) as [q1 q2 p1 p2 nd].
  set (h := fun y => set_a_taken (a_taken y ++ [i]) (set_a_mbox tl y)).
  assert (Hreg : actor_ok (regrant_f (h x))).
  { apply actor_ok_regrant; unfold h; cbn.
    - destruct q1 as (d & E & Hd). exists d. split; [|exact Hd].
      rewrite E, Hm. rewrite <- !app_assoc. reflexivity.
    - exact q2.
    - exact nd.
    - rewrite Hm in p1. cbn in p1. lia.
    - intros Hc Hw. specialize (p2 Hc Hw). rewrite Hm in p2. cbn in p2. lia. }
  destruct (regrant_f_lists (h x)) as [Ea Ei].
  eapply q_ok_upd_actor_shrink with (x := x); [split; [|split]; eassumption|exact Hx|exact Hreg|exact Ea|exact Ei].
Qed.

(* a granted permit is given back (the sender was cancelled or timed out) *)
Lemma q_ok_ungrant_regrant s a o x :
  q_ok s -> get_actor s a = Some x -> In o (a_granted x) -> q_ok (regrant a (ungrant a o s)).
Proof.
  intros Hok Hx Hin. unfold ungrant. rewrite regrant_is_upd, upd_actor_compose.
  destruct Hok as (H1 & H2 & H3). destruct (H1 a x Hx) as [q1 q2 p1 p2 nd].
  set (h := fun y => set_a_granted (remove_nat o (a_granted y)) y).
  apply nodup_app in nd as nd'. destruct nd' as (n1 & n2 & n3).
  pose proof (length_remove_nat_in o _ n2 Hin) as Hlen.
  assert (Hreg : actor_ok (regrant_f (h x))).
  { apply actor_ok_regrant; unfold h; cbn; try assumption.
    - apply nodup_app. repeat split; [exact n1|apply nodup_remove_nat, n2|].
      intros y Hy Hy2. apply in_remove_nat in Hy2. apply (n3 y Hy). tauto.
    - nlia.
    - intros Hc Hw. specialize (p2 Hc Hw). nlia. }
  destruct (regrant_f_lists (h x)) as [Ea Ei].
  eapply q_ok_upd_actor_shrink with (x := x); [split; [|split]; eassumption|exact Hx|exact Hreg|exact Ea|].
  eapply incl_tran; [exact Ei|]. unfold h; cbn. apply incl_app_remove_r.
Qed.

(* removing a sender from the queues of a closed mailbox *)
Lemma q_ok_closed_remove s a o x :
  q_ok s -> get_actor s a = Some x -> a_closed x = true -> q_ok (unwait a o (ungrant a o s)).
Proof.
  intros Hok Hx Hc. unfold unwait, ungrant. rewrite upd_actor_compose.
  destruct Hok as (H1 & H2 & H3). destruct (H1 a x Hx) as [q1 q2 p1 p2 nd].
  apply nodup_app in nd as nd'. destruct nd' as (n1 & n2 & n3).
  eapply q_ok_upd_actor_shrink with (x := x); [split; [|split]; eassumption|exact Hx| |reflexivity|].
  - constructor; cbn; try assumption.
    + pose proof (length_remove_nat_le o (a_granted x)). nlia.
    + intros Hc'. congruence.
    + apply nodup_app. repeat split; [apply nodup_remove_nat, n1|apply nodup_remove_nat, n2|].
      intros y Hy Hy2. apply in_remove_nat in Hy, Hy2. apply (n3 y); tauto.
  - cbn. eapply incl_tran; [apply incl_app_remove_l|apply incl_app_remove_r].
Qed.

(* both receivers are dropped *)
Lemma q_ok_end_actor s a : q_ok s -> q_ok (end_actor a s).
Proof.
  intros Hok. unfold end_actor. destruct (get_actor s a) as [x|] eqn:Hx; [|exact Hok].
  eapply q_ok_qsame; [apply qsame_close_slots, qsame_refl|].
  destruct Hok as (H1 & H2 & H3). destruct (H1 a x Hx) as [q1 q2 p1 p2 nd].
  eapply q_ok_upd_actor_shrink with (x := x); [split; [|split]; eassumption|exact Hx| |reflexivity|apply incl_refl].
  constructor; cbn; try assumption.
  - destruct q1 as (d & E & _). exists (a_mbox x ++ d). split; [exact E|discriminate].
  - nlia.
  - discriminate.
Qed.

Lemma oids_snoc l o k : oids (l ++ [(o, k)]) = oids l ++ [o].
Proof. unfold oids. rewrite map_app. reflexivity. Qed.

(* ---------- the envelope of o enters the mailbox (a push followed by after_push) ---------- *)
Lemma q_ok_accept s a o k x p f :
  q_ok s -> get_actor s a = Some x -> get_op s o = Some p ->
  o_tgt p = a -> o_kind p = k -> o_ph p = OPre ->
  a_closed x = false -> ~ In o (a_waiters x) ->
  (In o (a_granted x) \/ (length (a_mbox x) + length (a_granted x) < a_cap x)) ->
  a_mbox (f x) = a_mbox x -> a_accepted (f x) = a_accepted x -> a_taken (f x) = a_taken x ->
  a_closed (f x) = false -> a_cap (f x) = a_cap x -> a_waiters (f x) = a_waiters x ->
  a_granted (f x) = remove_nat o (a_granted x) ->
  q_ok (after_push o k (push a o k (upd_actor a f s))).
Proof.
  intros Hok Hx Hp Ht Hk Hph Hc Hnw Hslot Em Ea Et Ec Ecap Ew Eg.
  pose proof Hok as (H1 & H2 & H3). destruct (H1 a x Hx) as [q1 q2 p1 p2 nd].
  apply nodup_app in nd as nd'. destruct nd' as (n1 & n2 & n3).
  assert (Hna : ~ In o (oids (a_accepted x))).
  { eapply pre_not_accepted; [exact Hok|exact Hp|exact Hph|rewrite Ht; exact Hx]. }
  unfold push. rewrite upd_actor_compose.
  set (g := fun y => set_a_accepted (a_accepted (f y) ++ [(o, k)]) (set_a_mbox (a_mbox (f y) ++ [(o, k)]) (f y))).
  (* the state after the push, before the phase is updated *)
  set (s1 := upd_actor a g s).
  assert (Hg : get_actor s1 a = Some (g x)) by (apply get_actor_upd_same; exact Hx).
  assert (Hgok : actor_ok (g x)).
  { unfold g. constructor; cbn [a_accepted a_mbox a_taken a_closed a_cap a_waiters a_granted set_a_accepted set_a_mbox];
      rewrite ?Em, ?Ea, ?Et, ?Ec, ?Ecap, ?Ew, ?Eg.
    - destruct q1 as (d & E & Hd). exists []. split; [|reflexivity].
      rewrite (Hd Hc) in E. rewrite E, app_nil_r, app_nil_r, app_assoc. reflexivity.
    - rewrite oids_snoc. apply nodup_snoc; assumption.
    - rewrite app_length. cbn. destruct Hslot as [Hin|Hlt].
      + pose proof (length_remove_nat_in o _ n2 Hin). nlia.
      + pose proof (length_remove_nat_le o (a_granted x)). nlia.
    - intros _ Hw. rewrite app_length. cbn. specialize (p2 Hc Hw). destruct Hslot as [Hin|Hlt].
      + pose proof (length_remove_nat_in o _ n2 Hin). nlia.
      + nlia.
    - apply nodup_app. repeat split; [exact n1|apply nodup_remove_nat, n2|].
      intros y Hy Hy2. apply in_remove_nat in Hy2. apply (n3 y Hy). tauto. }
  (* the three clauses for the final state, by cases on the kind *)
  assert (Hfinal : forall g2 ph', (forall q, qo (g2 q) = (o_id q, o_kind q, o_tgt q, ph')) ->
                     accepted_phase k ph' -> ph' <> OPre -> q_ok (upd_op o g2 s1)).
  { intros g2 ph' Hg2 Hacc Hnpre.
    assert (Hid : forall q, o_id (g2 q) = o_id q) by (intros q; specialize (Hg2 q); unfold qo in Hg2; congruence).
    split; [|split].
    - intros b y Hy. change (get_actor (upd_op o g2 s1) b) with (get_actor s1 b) in Hy.
      unfold s1 in Hy. rewrite get_actor_upd_actor in Hy. destruct (Nat.eqb_spec b a) as [->|Hne].
      + rewrite Hx in Hy. cbn in Hy. injection Hy as <-. exact Hgok.
      + eapply H1; exact Hy.
    - intros b y o' k' Hy Hin. change (get_actor (upd_op o g2 s1) b) with (get_actor s1 b) in Hy.
      rewrite get_op_upd_op by exact Hid. change (get_op s1 o') with (get_op s o').
      unfold s1 in Hy. rewrite get_actor_upd_actor in Hy. destruct (Nat.eqb_spec b a) as [->|Hne].
      + rewrite Hx in Hy. cbn in Hy. injection Hy as <-. unfold g in Hin. cbn in Hin. rewrite Ea in Hin.
        apply in_app_or in Hin. destruct Hin as [Hin|[E|[]]].
        * destruct (H2 a x o' k' Hx Hin) as (p' & Hp' & Ht' & Hk' & Hph').
          destruct (Nat.eqb_spec o' o) as [->|Hne].
          -- exfalso. apply Hna. unfold oids. apply in_map_iff. exists (o, k'). split; [reflexivity|exact Hin].
          -- exists p'. repeat split; assumption.
        * injection E as <- <-. rewrite Nat.eqb_refl, Hp. cbn. exists (g2 p).
          specialize (Hg2 p). unfold qo in Hg2. injection Hg2 as G1 G2 G3 G4.
          repeat split; try congruence; try (rewrite G4; exact Hacc).
      + destruct (H2 b y o' k' Hy Hin) as (p' & Hp' & Ht' & Hk' & Hph').
        destruct (Nat.eqb_spec o' o) as [->|Hne2].
        * rewrite Hp in Hp'. injection Hp' as <-. congruence.
        * exists p'. repeat split; assumption.
    - intros b y o' Hy Hin. change (get_actor (upd_op o g2 s1) b) with (get_actor s1 b) in Hy.
      rewrite get_op_upd_op by exact Hid. change (get_op s1 o') with (get_op s o').
      unfold s1 in Hy. rewrite get_actor_upd_actor in Hy. destruct (Nat.eqb_spec b a) as [->|Hne].
      + rewrite Hx in Hy. cbn in Hy. injection Hy as <-. unfold g in Hin. cbn in Hin. rewrite Ew, Eg in Hin.
        assert (Hin' : In o' (a_waiters x ++ a_granted x) /\ o' <> o).
        { apply in_app_or in Hin. destruct Hin as [Hin|Hin].
          - split; [apply in_or_app; left; exact Hin|]. intros ->. apply Hnw, Hin.
          - apply in_remove_nat in Hin. split; [apply in_or_app; right; tauto|tauto]. }
        destruct Hin' as [Hin' Hne]. apply Nat.eqb_neq in Hne. rewrite Hne.
        apply (H3 a x o' Hx Hin').
      + destruct (H3 b y o' Hy Hin) as (p' & Hp' & Ht' & Hph').
        destruct (Nat.eqb_spec o' o) as [->|Hne2].
        * rewrite Hp in Hp'. injection Hp' as <-. congruence.
        * exists p'. repeat split; assumption. }
  change (upd_actor a (fun x0 => set_a_accepted (a_accepted (f x0) ++ [(o, k)]) (set_a_mbox (a_mbox (f x0) ++ [(o, k)]) (f x0))) s) with s1.
  assert (Hemit : forall st, q_ok st -> q_ok (emit (EvAccept a o k) st)) by (intros st Hst; exact Hst).
  unfold after_push. destruct k.
  - (* tell: finish with Ok *)
    unfold finish. change (get_op (emit (EvAccept a o KTell) s1) o) with (get_op s o). rewrite Hp.
    eapply q_ok_qsame; [apply qsame_emit, qsame_clear_hop, qsame_drop_guard, qsame_refl|].
    change (upd_op o ?g2 (emit ?e s1)) with (emit e (upd_op o g2 s1)). apply Hemit.
    apply (Hfinal _ (ODone (ROk 0))); [intros q; reflexivity|reflexivity|discriminate].
  - (* ask: wait for the reply *)
    change (upd_op o ?g2 (emit ?e s1)) with (emit e (upd_op o g2 s1)). apply Hemit.
    apply (Hfinal _ OWaitReply); [intros q; reflexivity|left; reflexivity|discriminate].
  - (* stop marker *)
    unfold finish. change (get_op (emit (EvAccept a o KStop) s1) o) with (get_op s o). rewrite Hp.
    eapply q_ok_qsame; [apply qsame_emit, qsame_clear_hop, qsame_drop_guard, qsame_refl|].
    change (upd_op o ?g2 (emit ?e s1)) with (emit e (upd_op o g2 s1)). apply Hemit.
    apply (Hfinal _ (ODone (ROk 0))); [intros q; reflexivity|reflexivity|discriminate].
Qed.

(* the sender joins the wait queue: no slot is free *)
Lemma q_ok_wait s a o x p :
  q_ok s -> get_actor s a = Some x -> get_op s o = Some p -> o_tgt p = a -> o_ph p = OPre ->
  a_closed x = false -> free_slot x = false -> ~ In o (a_waiters x ++ a_granted x) ->
  q_ok (upd_actor a (fun y => set_a_waiters (a_waiters y ++ [o]) y) s).
Proof.
  intros Hok Hx Hp Ht Hph Hc Hfree Hnin.
  pose proof Hok as (H1 & H2 & H3). destruct (H1 a x Hx) as [q1 q2 p1 p2 nd].
  unfold free_slot in Hfree. apply Nat.ltb_ge in Hfree.
  split; [|split].
  - intros b y Hy. rewrite get_actor_upd_actor in Hy. destruct (Nat.eqb_spec b a) as [->|Hne].
    + rewrite Hx in Hy. cbn in Hy. injection Hy as <-. constructor; cbn; try assumption.
      * intros _ _. nlia.
      * apply nodup_app in nd. destruct nd as (n1 & n2 & n3). apply nodup_app. repeat split.
        -- apply nodup_snoc; [exact n1|]. intros Hin. apply Hnin, in_or_app. left; exact Hin.
        -- exact n2.
        -- intros y Hy. apply in_app_or in Hy. destruct Hy as [Hy|[<-|[]]]; [apply n3, Hy|].
           intros Hin. apply Hnin, in_or_app. right; exact Hin.
    + eapply H1; exact Hy.
  - intros b y o' k Hy Hin. change (get_op (upd_actor a ?f s) o') with (get_op s o').
    rewrite get_actor_upd_actor in Hy. destruct (Nat.eqb_spec b a) as [->|Hne].
    + rewrite Hx in Hy. cbn in Hy. injection Hy as <-. apply (H2 a x o' k Hx Hin).
    + apply (H2 b y o' k Hy Hin).
  - intros b y o' Hy Hin. change (get_op (upd_actor a ?f s) o') with (get_op s o').
    rewrite get_actor_upd_actor in Hy. destruct (Nat.eqb_spec b a) as [->|Hne].
    + rewrite Hx in Hy. cbn in Hy. injection Hy as <-. cbn in Hin. rewrite <- app_assoc in Hin.
      apply in_app_or in Hin. destruct Hin as [Hin|Hin].
      * apply (H3 a x o' Hx). apply in_or_app. left; exact Hin.
      * cbn in Hin. destruct Hin as [<-|Hin].
        -- exists p. repeat split; assumption.
        -- apply (H3 a x o' Hx). apply in_or_app. right; exact Hin.
    + apply (H3 b y o' Hy Hin).
Qed.

(* a new operation record with a fresh id *)
Lemma q_ok_add_op s p :
  q_ok s -> get_op s (o_id p) = None -> q_ok (set_s_ops (s_ops s ++ [p]) s).
Proof.
  intros (H1 & H2 & H3) Hfresh. split; [exact H1|split].
  - intros a x o k Hx Hin. destruct (H2 a x o k Hx Hin) as (p' & Hp' & R).
    exists p'. split; [|exact R]. rewrite get_op_app, Hp'. reflexivity.
  - intros a x o Hx Hin. destruct (H3 a x o Hx Hin) as (p' & Hp' & R).
    exists p'. split; [|exact R]. rewrite get_op_app, Hp'. reflexivity.
Qed.

Lemma q_ok_spawn s cap : q_ok s -> q_ok (spawn cap s).
Proof.
  intros (H1 & H2 & H3). unfold spawn. destruct (cap =? 0); [split; [|split]; assumption|].
  set (x0 := mkActor (s_next s) cap [] [] [] false false 1 true PStart None [] 0%N [] []).
  assert (Hget : forall b y, get_actor (emit (EvStartEnter (length (s_actors s)))
                   (emit (EvSpawn (length (s_actors s)) (s_next s) cap)
                      (set_s_next (wrap64 (s_next s + 1)) (set_s_actors (s_actors s ++ [x0]) s)))) b = Some y ->
                 get_actor s b = Some y \/ y = x0).
  { intros b y Hy. unfold get_actor in *. cbn in Hy.
    destruct (Nat.lt_ge_cases b (length (s_actors s))) as [Hlt|Hge].
    - rewrite nth_error_app1 in Hy by exact Hlt. left; exact Hy.
    - rewrite nth_error_app2 in Hy by exact Hge. destruct (b - length (s_actors s)) as [|n]; cbn in Hy.
      + right. congruence.
      + destruct n; discriminate. }
  split; [|split].
  - intros b y Hy. destruct (Hget b y Hy) as [Hy'|E]; [eapply H1; exact Hy'|subst y].
    constructor; cbn; try constructor.
    + exists []. split; reflexivity.
    + lia.
    + intros _ Hw. congruence.
  - intros b y o k Hy Hin. destruct (Hget b y Hy) as [Hy'|E]; [|subst y; destruct Hin].
    destruct (H2 b y o k Hy' Hin) as (p & Hp & R). exists p. split; [exact Hp|exact R].
  - intros b y o Hy Hin. destruct (Hget b y Hy) as [Hy'|E]; [|subst y; destruct Hin].
    destruct (H3 b y o Hy' Hin) as (p & Hp & R). exists p. split; [exact Hp|exact R].
Qed.
