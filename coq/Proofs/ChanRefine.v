(* Every execution of the permit-granularity mailbox (Chan.v) under the exit protocol that waits
   for the permits is, observably, an execution of the mailbox with atomic sends (AChan.v):
   a push that lands after close() is an acceptance just before it.  Forward simulation in which
   the atomic side, at the moment of close, runs ahead by exactly the late pushes of the rest of
   the execution ([late]); the drain then meets them in the same order. *)
From Coq Require Import List Arith Bool Lia.
From RS Require Import Chan ChanInv AChan.
Import ListNotations.

(* ------------------------------------------------------------------ late pushes *)
Definition pushes (c : chan) (l : clabel) : list cmsg :=
  match l with
  | KPush i => match nth_error (c_senders c) i with
               | Some s => match sn_st s with SHeld => [(i, sn_next s)] | SIdle => [] end
               | None => []
               end
  | _ => []
  end.

Fixpoint late (c : chan) (rest : list clabel) : list cmsg :=
  match rest with
  | [] => []
  | l :: r => pushes c l ++ late (cstep true c l) r
  end.

Lemma closed_mono w c l : c_closed c = true -> c_closed (cstep w c l) = true.
Proof.
  intros H. destruct l as [i|i|i|i| | | |]; cbn [cstep]; rewrite ?H;
    repeat match goal with
           | |- context [match ?e with _ => _ end] => destruct e eqn:?
           | |- context [if ?e then _ else _] => destruct e eqn:?
           end; cbn; try assumption; reflexivity.
Qed.

(* once the channel is closed nobody becomes a holder, and a holder's record is untouched until it
   pushes or gives the permit back *)
Lemma held_back w c l i s' :
  c_closed c = true -> nth_error (c_senders (cstep w c l)) i = Some s' -> sn_st s' = SHeld ->
  nth_error (c_senders c) i = Some s'.
Proof.
  intros Hc H Hs.
  assert (Hrep : forall j s t, nth_error (c_senders c) j = Some s -> sn_st t = SIdle ->
                 nth_error (firstn j (c_senders c) ++ t :: skipn (S j) (c_senders c)) i = Some s' ->
                 nth_error (c_senders c) i = Some s').
  { intros j s t Ej Ht Hn. destruct (Nat.eq_dec i j) as [->|Hne].
    - rewrite (nth_error_replace_same _ _ _ _ Ej) in Hn. injection Hn as <-. congruence.
    - rewrite (nth_error_replace_other _ _ _ _ _ Ej Hne) in Hn. exact Hn. }
  destruct l as [j|j|j|j| | | |]; cbn [cstep] in H.
  - destruct (nth_error (c_senders c) j) as [s|] eqn:Ej; [|exact H].
    destruct (sn_st s); [|exact H]. rewrite Hc in H. exact H.
  - destruct (nth_error (c_senders c) j) as [s|] eqn:Ej; [|exact H].
    destruct (sn_st s); [|exact H]. rewrite Hc in H. cbn [set_sender c_senders] in H.
    eapply Hrep; [exact Ej| |exact H]. reflexivity.
  - destruct (nth_error (c_senders c) j) as [s|] eqn:Ej; [|exact H].
    destruct (sn_st s); [exact H|].
    destruct (c_phase c); cbn [set_sender c_senders] in H; (eapply Hrep; [exact Ej| |exact H]; reflexivity).
  - destruct (nth_error (c_senders c) j) as [s|] eqn:Ej; [|exact H].
    destruct (sn_st s); [exact H|]. cbn [set_sender with_free c_senders] in H.
    eapply Hrep; [exact Ej| |exact H]. reflexivity.
  - destruct (c_phase c); try exact H. destruct (c_queue c); exact H.
  - destruct (c_phase c); exact H.
  - destruct (c_phase c); try exact H. destruct (c_queue c); exact H.
  - destruct (c_phase c); try exact H. destruct (c_queue c); try exact H.
    destruct (negb w || Nat.eqb (c_free c) (c_cap c)); exact H.
Qed.

Lemma late_held rest : forall c i k,
  c_closed c = true -> In (i, k) (late c rest) ->
  exists s, nth_error (c_senders c) i = Some s /\ sn_st s = SHeld /\ sn_next s = k.
Proof.
  induction rest as [|l r IH]; intros c i k Hc Hin; [destruct Hin|].
  cbn [late] in Hin. apply in_app_or in Hin. destruct Hin as [Hin|Hin].
  - destruct l as [j|j|j|j| | | |]; cbn [pushes] in Hin; try destruct Hin.
    destruct (nth_error (c_senders c) j) as [s|] eqn:Ej; [|destruct Hin].
    destruct (sn_st s) eqn:Es; [destruct Hin|]. destruct Hin as [Hin|[]]. injection Hin as <- <-.
    exists s. auto.
  - destruct (IH _ _ _ (closed_mono true c l Hc) Hin) as (s & Hn & Hs & Hk).
    exists s. split; [|auto]. eapply held_back; eassumption.
Qed.

(* after its push (or give-back) a sender is idle, so it is not among the later late pushers *)
Lemma pushes_then_not_late c i k r :
  c_closed c = true -> pushes c (KPush i) = [(i, k)] -> forall k', ~ In (i, k') (late (cstep true c (KPush i)) r).
Proof.
  intros Hc Hp k' Hin. cbn [pushes] in Hp.
  destruct (nth_error (c_senders c) i) as [s|] eqn:Ei; [|discriminate].
  destruct (sn_st s) eqn:Es; [discriminate|].
  destruct (late_held r _ _ _ (closed_mono true c _ Hc) Hin) as (s' & Hn & Hs & _).
  cbn [cstep] in Hn. rewrite Ei, Es in Hn.
  destruct (c_phase c); cbn [set_sender c_senders] in Hn;
    rewrite (nth_error_replace_same _ _ _ _ Ei) in Hn; injection Hn as <-; discriminate.
Qed.

Lemma late_nodup rest : forall c, c_closed c = true -> NoDup (map fst (late c rest)).
Proof.
  induction rest as [|l r IH]; intros c Hc; [constructor|]. cbn [late]. rewrite map_app.
  destruct (pushes c l) as [|[i k] [|? ?]] eqn:Hp.
  - cbn. apply IH, closed_mono, Hc.
  - cbn. constructor; [|apply IH, closed_mono, Hc].
    assert (El : l = KPush i).
    { destruct l as [j|j|j|j| | | |]; cbn [pushes] in Hp; try discriminate.
      destruct (nth_error (c_senders c) j) as [s|]; [|discriminate]. destruct (sn_st s); [discriminate|].
      injection Hp as -> _. reflexivity. }
    subst l. intros Hin. apply in_map_iff in Hin. destruct Hin as ([i' k'] & Hf & Hin). cbn in Hf. subst i'.
    eapply pushes_then_not_late; eassumption.
  - exfalso. destruct l as [j|j|j|j| | | |]; cbn [pushes] in Hp; try discriminate.
    destruct (nth_error (c_senders c) j) as [s|]; [|discriminate]. destruct (sn_st s); discriminate.
Qed.

Lemma held_step_closed c l :
  c_closed c = true -> held (cstep true c l) + length (pushes c l) <= held c.
Proof.
  intros Hc. rewrite !held_hcount.
  destruct l as [j|j|j|j| | | |]; cbn [cstep pushes length].
  - destruct (nth_error (c_senders c) j) as [s|]; [|lia]. destruct (sn_st s); [|lia]. rewrite Hc. lia.
  - destruct (nth_error (c_senders c) j) as [s|] eqn:Ej; [|lia]. destruct (sn_st s) eqn:Es; [|lia]. rewrite Hc.
    pose proof (hcount_replace _ j s (mkSender (S (sn_next s)) SIdle (sn_ok s) (sn_next s :: sn_err s)) Ej) as H.
    unfold isheld in H; cbn [sn_st] in H; rewrite Es in H. cbn [set_sender c_senders]. lia.
  - destruct (nth_error (c_senders c) j) as [s|] eqn:Ej; [|cbn; lia]. destruct (sn_st s) eqn:Es; [cbn; lia|].
    pose proof (hcount_replace _ j s (mkSender (S (sn_next s)) SIdle (sn_next s :: sn_ok s) (sn_err s)) Ej) as H.
    unfold isheld in H; cbn [sn_st] in H; rewrite Es in H.
    destruct (c_phase c); cbn [set_sender c_senders length]; lia.
  - destruct (nth_error (c_senders c) j) as [s|] eqn:Ej; [|lia]. destruct (sn_st s) eqn:Es; [lia|].
    pose proof (hcount_replace _ j s (mkSender (S (sn_next s)) SIdle (sn_ok s) (sn_next s :: sn_err s)) Ej) as H.
    unfold isheld in H; cbn [sn_st] in H; rewrite Es in H. cbn [set_sender with_free c_senders]. lia.
  - destruct (c_phase c); try lia. destruct (c_queue c); cbn [c_senders]; lia.
  - destruct (c_phase c); cbn [c_senders]; lia.
  - destruct (c_phase c); try lia. destruct (c_queue c); cbn [c_senders]; lia.
  - destruct (c_phase c); try lia. destruct (c_queue c); try lia.
    destruct (negb true || Nat.eqb (c_free c) (c_cap c)); cbn [c_senders]; lia.
Qed.

Lemma late_le_held rest : forall c, c_closed c = true -> length (late c rest) <= held c.
Proof.
  induction rest as [|l r IH]; intros c Hc; cbn [late length]; [lia|].
  rewrite app_length. pose proof (held_step_closed c l Hc). pose proof (IH _ (closed_mono true c l Hc)). lia.
Qed.

(* ------------------------------------------------------------------ the relation *)
Definition memb (m : cmsg) (l : list cmsg) : bool :=
  existsb (fun x => Nat.eqb (fst x) (fst m) && Nat.eqb (snd x) (snd m)) l.

Lemma memb_In m l : memb m l = true <-> In m l.
Proof.
  unfold memb. rewrite existsb_exists. split.
  - intros ([a b] & Hin & H). apply andb_true_iff in H. destruct H as (H1 & H2).
    apply Nat.eqb_eq in H1, H2. cbn in H1, H2. destruct m as [x y]. cbn in *. subst. exact Hin.
  - intros H. exists m. split; [exact H|]. rewrite !Nat.eqb_refl. reflexivity.
Qed.

Lemma memb_cons_other i k j n l : j <> i -> memb (j, n) ((i, k) :: l) = memb (j, n) l.
Proof.
  intros H. unfold memb. cbn [existsb fst snd]. destruct (Nat.eqb_spec i j) as [->|_]; [congruence|]. reflexivity.
Qed.

(* the atomic side's record of a sender: ahead by one Ok if its late push is still to come *)
Definition adj (pend : list cmsg) (i : nat) (s : csender) : asender :=
  if memb (i, sn_next s) pend then mkA (S (sn_next s)) (sn_next s :: sn_ok s) (sn_err s)
  else mkA (sn_next s) (sn_ok s) (sn_err s).

Definition lrel (pend : list cmsg) (cs : list csender) (ss : list asender) : Prop :=
  length ss = length cs /\ forall j sj, nth_error cs j = Some sj -> nth_error ss j = Some (adj pend j sj).

Lemma lrel_gen pend pend' cs ss ss' i s s' :
  lrel pend cs ss -> nth_error cs i = Some s ->
  length ss' = length ss -> nth_error ss' i = Some (adj pend' i s') ->
  (forall j, j <> i -> nth_error ss' j = nth_error ss j) ->
  (forall j sj, j <> i -> nth_error cs j = Some sj -> adj pend' j sj = adj pend j sj) ->
  lrel pend' (firstn i cs ++ s' :: skipn (S i) cs) ss'.
Proof.
  intros [Hl Hp] E Hl' Hi Ho Hadj. split.
  - rewrite (replace_length _ _ _ _ E). congruence.
  - intros j sj Hj. destruct (Nat.eq_dec j i) as [->|Hne].
    + rewrite (nth_error_replace_same _ _ _ _ E) in Hj. injection Hj as <-. exact Hi.
    + rewrite (nth_error_replace_other _ _ _ _ _ E Hne) in Hj. rewrite (Ho _ Hne), (Hp _ _ Hj).
      f_equal. symmetry. apply Hadj; assumption.
Qed.

(* the fine sender changed, the atomic one did not have to *)
Lemma lrel_stutter pend pend' cs ss i s s' :
  lrel pend cs ss -> nth_error cs i = Some s -> adj pend' i s' = adj pend i s ->
  (forall j sj, j <> i -> nth_error cs j = Some sj -> adj pend' j sj = adj pend j sj) ->
  lrel pend' (firstn i cs ++ s' :: skipn (S i) cs) ss.
Proof.
  intros H E Ha Ho. eapply lrel_gen; try eassumption; try reflexivity.
  rewrite Ha. apply (proj2 H). exact E.
Qed.

(* both changed: the atomic step replaced record i *)
Lemma lrel_both pend pend' cs ss i s s' t :
  lrel pend cs ss -> nth_error cs i = Some s -> t = adj pend' i s' ->
  (forall j sj, j <> i -> nth_error cs j = Some sj -> adj pend' j sj = adj pend j sj) ->
  lrel pend' (firstn i cs ++ s' :: skipn (S i) cs) (firstn i ss ++ t :: skipn (S i) ss).
Proof.
  intros H E Ht Ho. pose proof (proj2 H _ _ E) as Ea.
  eapply lrel_gen; try eassumption.
  - apply (replace_length _ _ _ _ Ea).
  - rewrite (nth_error_replace_same _ _ _ _ Ea). congruence.
  - intros j Hne. apply (nth_error_replace_other _ _ _ _ _ Ea Hne).
Qed.

Lemma lrel_pend_ext pend pend' cs ss :
  lrel pend cs ss -> (forall j sj, nth_error cs j = Some sj -> adj pend' j sj = adj pend j sj) -> lrel pend' cs ss.
Proof.
  intros [Hl Hp] He. split; [exact Hl|]. intros j sj Hj. rewrite (Hp _ _ Hj). f_equal. symmetry. apply He. exact Hj.
Qed.

Definition pend (c : chan) (rest : list clabel) : list cmsg :=
  match c_phase c with RRunning => [] | _ => late c rest end.

Record R (c : chan) (rest : list clabel) (a : achan) : Prop := {
  r_cap : ac_cap a = c_cap c;
  r_h : ac_handled a = c_handled c;
  r_d : ac_dropped a = c_dropped c;
  r_ph : ac_phase a = c_phase c;
  r_cl : ac_closed a = c_closed c;
  r_q : ac_queue a = c_queue c ++ pend c rest;
  r_s : lrel (pend c rest) (c_senders c) (ac_senders a)
}.

Lemma nth_error_repeat {A} (x : A) n j y : nth_error (repeat x n) j = Some y -> y = x.
Proof. intros H. apply nth_error_In, repeat_spec in H. exact H. Qed.

Lemma nth_error_repeat_some {A B} (x : A) (z : B) n j y : nth_error (repeat x n) j = Some y -> nth_error (repeat z n) j = Some z.
Proof. revert j. induction n as [|n IH]; intros [|j] H; cbn in *; try discriminate; [reflexivity|]. eapply IH. exact H. Qed.

Lemma R_init cap n rest : R (init_chan cap n) rest (init_achan cap n).
Proof.
  split; try reflexivity. split; cbn [init_chan init_achan c_senders ac_senders]; [rewrite !repeat_length; reflexivity|].
  intros j sj H. pose proof (nth_error_repeat _ _ _ _ H) as ->.
  rewrite (nth_error_repeat_some _ (mkA 0 [] []) _ _ _ H). reflexivity.
Qed.

(* ------------------------------------------------------------------ the atomic side catches up *)
Definition sends (M : list cmsg) : list alabel := map (fun m => ASend (fst m)) M.

Lemma asends M : forall a,
  ac_closed a = false -> length (ac_queue a) + length M <= ac_cap a -> NoDup (map fst M) ->
  (forall i k, In (i, k) M -> exists ok err, nth_error (ac_senders a) i = Some (mkA k ok err)) ->
  let a' := asteps (sends M) a in
  ac_queue a' = ac_queue a ++ M /\ ac_cap a' = ac_cap a /\ ac_closed a' = false /\ ac_phase a' = ac_phase a /\
  ac_handled a' = ac_handled a /\ ac_dropped a' = ac_dropped a /\
  length (ac_senders a') = length (ac_senders a) /\
  (forall i t, nth_error (ac_senders a) i = Some t ->
     nth_error (ac_senders a') i =
     Some (if memb (i, an_next t) M then mkA (S (an_next t)) (an_next t :: an_ok t) (an_err t) else t)).
Proof.
  induction M as [|[i k] M IH]; intros a Hc Hcap Hnd Hs; cbn [sends map asteps fold_left].
  - rewrite app_nil_r. repeat (split; [first [reflexivity | exact Hc]|]). intros i t H. exact H.
  - destruct (Hs i k (or_introl eq_refl)) as (ok & err & Ei). cbn [length] in Hcap. cbn [map fst] in Hnd.
    apply NoDup_cons_iff in Hnd. destruct Hnd as (Hni & Hnd').
    set (a1 := astep a (ASend i)).
    assert (Ea1 : a1 = set_asender (with_queue a (ac_queue a ++ [(i, k)])) i (mkA (S k) (k :: ok) err)).
    { unfold a1. cbn [astep fst]. rewrite Ei, Hc. cbn [negb andb an_next an_ok an_err].
      assert (Hlt : Nat.ltb (length (ac_queue a)) (ac_cap a) = true) by (apply Nat.ltb_lt; lia).
      rewrite Hlt. reflexivity. }
    fold (sends M). change (fold_left astep (sends M) (astep a (ASend (fst (i, k))))) with (asteps (sends M) a1).
    assert (Hq1 : ac_queue a1 = ac_queue a ++ [(i, k)]) by (rewrite Ea1; reflexivity).
    assert (Hs1 : ac_senders a1 = firstn i (ac_senders a) ++ mkA (S k) (k :: ok) err :: skipn (S i) (ac_senders a))
      by (rewrite Ea1; reflexivity).
    specialize (IH a1).
    assert (P1 : ac_closed a1 = false) by (rewrite Ea1; exact Hc).
    assert (P2 : length (ac_queue a1) + length M <= ac_cap a1).
    { rewrite Hq1, app_length, Ea1. cbn [length set_asender with_queue ac_cap]. lia. }
    assert (P4 : forall j k', In (j, k') M -> exists ok' err', nth_error (ac_senders a1) j = Some (mkA k' ok' err')).
    { intros j k' Hin. destruct (Hs j k' (or_intror Hin)) as (ok' & err' & Ej). exists ok', err'.
      assert (Hne : j <> i).
      { intros ->. apply Hni. apply in_map_iff. exists (i, k'). split; [reflexivity|exact Hin]. }
      rewrite Hs1, (nth_error_replace_other _ _ _ _ _ Ei Hne). exact Ej. }
    destruct (IH P1 P2 Hnd' P4) as (Q1 & Q2 & Q3 & Q4 & Q5 & Q6 & Q7 & Q8).
    repeat split.
    + rewrite Q1, Hq1, <- app_assoc. reflexivity.
    + rewrite Q2, Ea1. reflexivity.
    + exact Q3.
    + rewrite Q4, Ea1. reflexivity.
    + rewrite Q5, Ea1. reflexivity.
    + rewrite Q6, Ea1. reflexivity.
    + rewrite Q7, Hs1. apply (replace_length _ _ _ _ Ei).
    + intros j t Hj. destruct (Nat.eq_dec j i) as [->|Hne].
      * rewrite Ei in Hj. injection Hj as <-. cbn [an_next an_ok an_err].
        assert (E1 : nth_error (ac_senders a1) i = Some (mkA (S k) (k :: ok) err))
          by (rewrite Hs1; apply (nth_error_replace_same _ _ _ _ Ei)).
        rewrite (Q8 _ _ E1). cbn [an_next].
        assert (Hm : memb (i, S k) M = false).
        { destruct (memb (i, S k) M) eqn:Em; [|reflexivity]. apply memb_In in Em. exfalso. apply Hni.
          apply in_map_iff. exists (i, S k). split; [reflexivity|exact Em]. }
        rewrite Hm. unfold memb. cbn [existsb fst snd]. rewrite !Nat.eqb_refl. reflexivity.
      * assert (E1 : nth_error (ac_senders a1) j = Some t)
          by (rewrite Hs1, (nth_error_replace_other _ _ _ _ _ Ei Hne); exact Hj).
        rewrite (Q8 _ _ E1), (memb_cons_other _ _ _ _ _ Hne). reflexivity.
Qed.

(* ------------------------------------------------------------------ one fine step *)
Lemma pend_running c rest : c_phase c = RRunning -> pend c rest = [].
Proof. unfold pend. intros ->. reflexivity. Qed.

Lemma pend_other c rest : c_phase c <> RRunning -> pend c rest = late c rest.
Proof. unfold pend. destruct (c_phase c); congruence. Qed.

Lemma adj_nil i s : adj [] i s = mkA (sn_next s) (sn_ok s) (sn_err s).
Proof. reflexivity. Qed.

Lemma asteps_app l1 l2 a : asteps (l1 ++ l2) a = asteps l2 (asteps l1 a).
Proof. apply fold_left_app. Qed.

Lemma R_noop c l rest a :
  cstep true c l = c -> pushes c l = [] -> R c (l :: rest) a -> R c rest a.
Proof.
  intros Hc Hp [A B C D E F G].
  assert (Hpe : pend c (l :: rest) = pend c rest).
  { unfold pend. destruct (c_phase c); try reflexivity; cbn [late]; rewrite Hp, Hc; reflexivity. }
  rewrite Hpe in F, G. split; assumption.
Qed.

(* a sender that is idle in a closed channel is not among the late pushers *)
Lemma idle_not_late c rest i s k :
  c_closed c = true -> nth_error (c_senders c) i = Some s -> sn_st s = SIdle -> memb (i, k) (late c rest) = false.
Proof.
  intros Hc E Es. destruct (memb (i, k) (late c rest)) eqn:Em; [|reflexivity].
  apply memb_In in Em. destruct (late_held _ _ _ _ Hc Em) as (s' & E' & Hs' & _). congruence.
Qed.

Ltac Rsplit := split; cbn [c_cap c_handled c_dropped c_phase c_closed c_queue c_senders set_sender with_free
                           ac_cap ac_handled ac_dropped ac_phase ac_closed ac_queue ac_senders set_asender with_queue].

Lemma R_closed_fields c l rest a :
  c_phase c <> RRunning -> R c (l :: rest) a ->
  ac_queue a = c_queue c ++ pushes c l ++ late (cstep true c l) rest /\
  lrel (pushes c l ++ late (cstep true c l) rest) (c_senders c) (ac_senders a).
Proof. intros Hne [_ _ _ _ _ Rq Rs]. rewrite (pend_other _ _ Hne) in Rq, Rs. cbn [late] in Rq, Rs. auto. Qed.

Lemma memb_head i k P : memb (i, k) ((i, k) :: P) = true.
Proof. unfold memb. cbn [existsb fst snd]. rewrite !Nat.eqb_refl. reflexivity. Qed.

(* closed: a failing send *)
Lemma sim_fail_closed c i rest a :
  c_closed c = true -> c_phase c <> RRunning -> R c (KFail i :: rest) a ->
  exists las, R (cstep true c (KFail i)) rest (asteps las a).
Proof.
  intros Hc Hne HR. pose proof HR as [Rcap Rh Rd Rph Rcl _ _].
  destruct (R_closed_fields _ _ _ _ Hne HR) as (Rq & Rs). cbn [pushes app] in Rq, Rs.
  destruct (nth_error (c_senders c) i) as [s|] eqn:Ei;
    [|exists []; cbn [cstep]; rewrite Ei; apply (R_noop c (KFail i)); [cbn [cstep]; rewrite Ei; reflexivity|reflexivity|exact HR]].
  destruct (sn_st s) eqn:Es;
    [|exists []; cbn [cstep]; rewrite Ei, Es; apply (R_noop c (KFail i)); [cbn [cstep]; rewrite Ei, Es; reflexivity|reflexivity|exact HR]].
  set (c' := cstep true c (KFail i)) in *.
  assert (Ec' : c' = set_sender c i (mkSender (S (sn_next s)) SIdle (sn_ok s) (sn_next s :: sn_err s))).
  { unfold c'. cbn [cstep]. rewrite Ei, Es, Hc. reflexivity. }
  assert (Hc' : c_closed c' = true) by (rewrite Ec'; exact Hc).
  assert (Ei' : nth_error (c_senders c') i = Some (mkSender (S (sn_next s)) SIdle (sn_ok s) (sn_next s :: sn_err s))).
  { rewrite Ec'. cbn [set_sender c_senders]. apply (nth_error_replace_same _ _ _ _ Ei). }
  assert (Hidle : forall k, memb (i, k) (late c' rest) = false) by (intros k; eapply idle_not_late; [exact Hc'|exact Ei'|reflexivity]).
  pose proof (proj2 Rs _ _ Ei) as Ea. unfold adj in Ea. rewrite Hidle in Ea.
  exists [AFail i]. cbn [asteps fold_left astep]. rewrite Ea, Rcl, Hc. cbn [an_next an_ok an_err].
  assert (Hp' : pend c' rest = late c' rest) by (apply pend_other; rewrite Ec'; exact Hne).
  rewrite Ec' in *. Rsplit; rewrite ?Hp'; try congruence.
  eapply lrel_both; [exact Rs|exact Ei| |reflexivity].
  unfold adj. cbn [sn_next sn_ok sn_err]. rewrite Hidle. reflexivity.
Qed.

(* closed: the holder gives its permit back *)
Lemma sim_giveback_closed c i rest a :
  c_closed c = true -> c_phase c <> RRunning -> R c (KGiveBack i :: rest) a ->
  exists las, R (cstep true c (KGiveBack i)) rest (asteps las a).
Proof.
  intros Hc Hne HR. pose proof HR as [Rcap Rh Rd Rph Rcl _ _].
  destruct (R_closed_fields _ _ _ _ Hne HR) as (Rq & Rs). cbn [pushes app] in Rq, Rs.
  destruct (nth_error (c_senders c) i) as [s|] eqn:Ei;
    [|exists []; cbn [cstep]; rewrite Ei; apply (R_noop c (KGiveBack i)); [cbn [cstep]; rewrite Ei; reflexivity|reflexivity|exact HR]].
  destruct (sn_st s) eqn:Es;
    [exists []; cbn [cstep]; rewrite Ei, Es; apply (R_noop c (KGiveBack i)); [cbn [cstep]; rewrite Ei, Es; reflexivity|reflexivity|exact HR]|].
  set (c' := cstep true c (KGiveBack i)) in *.
  assert (Ec' : c' = set_sender (with_free c (S (c_free c))) i (mkSender (S (sn_next s)) SIdle (sn_ok s) (sn_next s :: sn_err s))).
  { unfold c'. cbn [cstep]. rewrite Ei, Es. reflexivity. }
  assert (Hc' : c_closed c' = true) by (rewrite Ec'; exact Hc).
  assert (Ei' : nth_error (c_senders c') i = Some (mkSender (S (sn_next s)) SIdle (sn_ok s) (sn_next s :: sn_err s))).
  { rewrite Ec'. cbn [set_sender with_free c_senders]. apply (nth_error_replace_same _ _ _ _ Ei). }
  assert (Hidle : forall k, memb (i, k) (late c' rest) = false) by (intros k; eapply idle_not_late; [exact Hc'|exact Ei'|reflexivity]).
  pose proof (proj2 Rs _ _ Ei) as Ea. unfold adj in Ea. rewrite Hidle in Ea.
  exists [AAbandon i]. cbn [asteps fold_left astep]. rewrite Ea. cbn [an_next an_ok an_err].
  assert (Hp' : pend c' rest = late c' rest) by (apply pend_other; rewrite Ec'; exact Hne).
  rewrite Ec' in *. Rsplit; rewrite ?Hp'; try congruence.
  eapply lrel_both; [exact Rs|exact Ei| |reflexivity].
  unfold adj. cbn [sn_next sn_ok sn_err]. rewrite Hidle. reflexivity.
Qed.

(* draining: a late push - the atomic side has it already *)
Lemma sim_push_draining c i rest a :
  c_closed c = true -> c_phase c = RDraining -> R c (KPush i :: rest) a ->
  exists las, R (cstep true c (KPush i)) rest (asteps las a).
Proof.
  intros Hc Eph HR. assert (Hne : c_phase c <> RRunning) by congruence.
  pose proof HR as [Rcap Rh Rd Rph Rcl _ _].
  destruct (R_closed_fields _ _ _ _ Hne HR) as (Rq & Rs).
  destruct (nth_error (c_senders c) i) as [s|] eqn:Ei;
    [|exists []; cbn [cstep]; rewrite Ei; apply (R_noop c (KPush i)); [cbn [cstep]; rewrite Ei; reflexivity|cbn [pushes]; rewrite Ei; reflexivity|exact HR]].
  destruct (sn_st s) eqn:Es;
    [exists []; cbn [cstep]; rewrite Ei, Es; apply (R_noop c (KPush i)); [cbn [cstep]; rewrite Ei, Es; reflexivity|cbn [pushes]; rewrite Ei, Es; reflexivity|exact HR]|].
  cbn [pushes] in Rq, Rs. rewrite Ei, Es in Rq, Rs. cbn [app] in Rq, Rs.
  set (c' := cstep true c (KPush i)) in *.
  set (s' := mkSender (S (sn_next s)) SIdle (sn_next s :: sn_ok s) (sn_err s)).
  assert (Ec' : c' = mkChan (c_cap c) (c_free c) (c_closed c) (c_queue c ++ [(i, sn_next s)])
                            (firstn i (c_senders c) ++ s' :: skipn (S i) (c_senders c)) RDraining
                            (c_handled c) (c_dropped c) (c_stranded c)).
  { unfold c'. cbn [cstep]. rewrite Ei, Es, Eph.
    cbn [set_sender c_cap c_free c_closed c_queue c_senders c_phase c_handled c_dropped c_stranded].
    rewrite Eph. reflexivity. }
  assert (Hc' : c_closed c' = true) by (rewrite Ec'; exact Hc).
  assert (Ei' : nth_error (c_senders c') i = Some s').
  { rewrite Ec'. cbn [c_senders]. apply (nth_error_replace_same _ _ _ _ Ei). }
  assert (Hidle : forall k, memb (i, k) (late c' rest) = false) by (intros k; eapply idle_not_late; [exact Hc'|exact Ei'|reflexivity]).
  exists []. cbn [asteps fold_left].
  assert (Hp' : pend c' rest = late c' rest) by (apply pend_other; rewrite Ec'; discriminate).
  split; rewrite ?Hp'; try (rewrite Ec'; cbn [c_cap c_handled c_dropped c_phase c_closed]; congruence).
  - assert (Eq' : c_queue c' = c_queue c ++ [(i, sn_next s)]) by (rewrite Ec'; reflexivity).
    rewrite Rq, Eq', <- app_assoc. reflexivity.
  - assert (Es' : c_senders c' = firstn i (c_senders c) ++ s' :: skipn (S i) (c_senders c)) by (rewrite Ec'; reflexivity).
    rewrite Es'. eapply lrel_stutter; [exact Rs|exact Ei| |].
    + unfold adj. cbn [s' sn_next sn_ok sn_err]. rewrite Hidle, memb_head. reflexivity.
    + intros j sj Hj _. unfold adj. rewrite (memb_cons_other _ _ _ _ _ Hj). reflexivity.
Qed.

Lemma acquire_closed_noop w c i : c_closed c = true -> cstep w c (KAcquire i) = c.
Proof.
  intros H. cbn [cstep]. destruct (nth_error (c_senders c) i) as [s|]; [|reflexivity].
  destruct (sn_st s); [|reflexivity]. rewrite H. reflexivity.
Qed.

Lemma sim_step c l rest a :
  pinv true c -> R c (l :: rest) a -> exists las, R (cstep true c l) rest (asteps las a).
Proof.
  intros P HR. pose proof HR as [Rcap Rh Rd Rph Rcl Rq Rs].
  destruct P as [Pp Pr Pd Pe Pw Pn]. rewrite held_hcount in Pp.
  destruct (c_phase c) eqn:Eph.
  - (* ---------------- running: the channel is open, the atomic side is level *)
    destruct (Pr eq_refl) as (Hopen & Hdr & Hst).
    rewrite (pend_running c _ Eph) in Rq, Rs. rewrite app_nil_r in Rq.
    destruct l as [i|i|i|i| | | |].
    + (* acquire *)
      cbn [cstep]. destruct (nth_error (c_senders c) i) as [s|] eqn:Ei;
        [|exists []; apply (R_noop c (KAcquire i)); [cbn [cstep]; rewrite Ei; reflexivity|reflexivity|exact HR]].
      destruct (sn_st s) eqn:Es;
        [|exists []; apply (R_noop c (KAcquire i)); [cbn [cstep]; rewrite Ei, Es; reflexivity|reflexivity|exact HR]].
      rewrite Hopen. destruct (c_free c) as [|f] eqn:Ef;
        [exists []; apply (R_noop c (KAcquire i)); [cbn [cstep]; rewrite Ei, Es, Hopen, Ef; reflexivity|reflexivity|exact HR]|].
      exists []. cbn [asteps fold_left].
      assert (Hpe : forall r, pend (set_sender (with_free c f) i (mkSender (sn_next s) SHeld (sn_ok s) (sn_err s))) r = [])
        by (intros r; apply pend_running; exact Eph).
      Rsplit; rewrite ?Hpe, ?app_nil_r; try congruence.
      eapply lrel_stutter; [exact Rs|exact Ei|reflexivity|reflexivity].
    + (* fail: cannot happen while open *)
      exists []. rewrite (chan_open_never_fails true c i Hopen).
      apply (R_noop c (KFail i)); [apply chan_open_never_fails; exact Hopen|reflexivity|exact HR].
    + (* push *)
      cbn [cstep]. destruct (nth_error (c_senders c) i) as [s|] eqn:Ei;
        [|exists []; apply (R_noop c (KPush i)); [cbn [cstep]; rewrite Ei; reflexivity|cbn [pushes]; rewrite Ei; reflexivity|exact HR]].
      destruct (sn_st s) eqn:Es;
        [exists []; apply (R_noop c (KPush i)); [cbn [cstep]; rewrite Ei, Es; reflexivity|cbn [pushes]; rewrite Ei, Es; reflexivity|exact HR]|].
      rewrite Eph.
      assert (Hpos : 0 < hcount (c_senders c)).
      { rewrite (nth_error_split_eq _ _ _ Ei), hcount_app, hcount_cons. unfold isheld. rewrite Es. lia. }
      pose proof (proj2 Rs _ _ Ei) as Ea. rewrite adj_nil in Ea.
      exists [ASend i]. cbn [asteps fold_left astep]. rewrite Ea, Rcl, Hopen. cbn [negb andb an_next an_ok an_err].
      assert (Hlt : Nat.ltb (length (ac_queue a)) (ac_cap a) = true).
      { apply Nat.ltb_lt. rewrite Rq, Rcap. rewrite Hst in Pp. cbn [length] in Pp. lia. }
      rewrite Hlt.
      match goal with |- R ?c' _ _ => assert (Hpe : forall r, pend c' r = []) by (intros r; apply pend_running; exact Eph) end.
      Rsplit; rewrite ?Hpe, ?app_nil_r; try congruence; try (rewrite Rq; reflexivity).
      eapply lrel_both; [exact Rs|exact Ei|reflexivity|reflexivity].
    + (* give back *)
      cbn [cstep]. destruct (nth_error (c_senders c) i) as [s|] eqn:Ei;
        [|exists []; apply (R_noop c (KGiveBack i)); [cbn [cstep]; rewrite Ei; reflexivity|reflexivity|exact HR]].
      destruct (sn_st s) eqn:Es;
        [exists []; apply (R_noop c (KGiveBack i)); [cbn [cstep]; rewrite Ei, Es; reflexivity|reflexivity|exact HR]|].
      pose proof (proj2 Rs _ _ Ei) as Ea. rewrite adj_nil in Ea.
      exists [AAbandon i]. cbn [asteps fold_left astep]. rewrite Ea. cbn [an_next an_ok an_err].
      match goal with |- R ?c' _ _ => assert (Hpe : forall r, pend c' r = []) by (intros r; apply pend_running; exact Eph) end.
      Rsplit; rewrite ?Hpe, ?app_nil_r; try congruence.
      eapply lrel_both; [exact Rs|exact Ei|reflexivity|reflexivity].
    + (* recv *)
      cbn [cstep]. rewrite Eph. destruct (c_queue c) as [|m q] eqn:Eq;
        [exists []; apply (R_noop c KRecv); [cbn [cstep]; rewrite Eph, Eq; reflexivity|reflexivity|exact HR]|].
      exists [ARecv]. cbn [asteps fold_left astep]. rewrite Rph, Rq.
      match goal with |- R ?c' _ _ => assert (Hpe : forall r, pend c' r = []) by (intros r; apply pend_running; reflexivity) end.
      Rsplit; rewrite ?Hpe, ?app_nil_r; try congruence; try reflexivity.
    + (* close: the atomic side first accepts every late push of the rest of the execution *)
      cbn [cstep]. rewrite Eph.
      set (c' := mkChan (c_cap c) (c_free c) true (c_queue c) (c_senders c) RDraining (c_handled c) (c_dropped c) (c_stranded c)).
      assert (Hc' : c_closed c' = true) by reflexivity.
      set (M := late c' rest).
      assert (HM : pend c' rest = M) by reflexivity.
      assert (P2 : length (ac_queue a) + length M <= ac_cap a).
      { pose proof (late_le_held rest c' Hc') as Hle. fold M in Hle. rewrite held_hcount in Hle. cbn [c' c_senders] in Hle.
        rewrite Rq, Rcap. rewrite Hst in Pp. cbn [length] in Pp. lia. }
      assert (P4 : forall i k, In (i, k) M -> exists ok err, nth_error (ac_senders a) i = Some (mkA k ok err)).
      { intros i k Hin. destruct (late_held rest c' i k Hc' Hin) as (s & Ei & _ & Hk). cbn [c' c_senders] in Ei.
        exists (sn_ok s), (sn_err s). rewrite (proj2 Rs _ _ Ei), adj_nil, Hk. reflexivity. }
      assert (P1 : ac_closed a = false) by (rewrite Rcl; exact Hopen).
      destruct (asends M a P1 P2 (late_nodup rest c' Hc') P4) as (Q1 & Q2 & Q3 & Q4 & Q5 & Q6 & Q7 & Q8).
      exists (sends M ++ [AClose]). rewrite asteps_app. cbn [asteps fold_left astep].
      fold (asteps (sends M) a). rewrite Q4, Rph.
      Rsplit; rewrite ?HM; unfold c';
        cbn [c_cap c_handled c_dropped c_phase c_closed c_queue c_senders]; try congruence.
      split; [rewrite Q7; apply (proj1 Rs)|]. intros j sj Hj.
      pose proof (proj2 Rs _ _ Hj) as Ea. rewrite adj_nil in Ea. rewrite (Q8 _ _ Ea). reflexivity.
    + (* drain: not while running *)
      cbn [cstep]. rewrite Eph. exists []. apply (R_noop c KDrain); [cbn [cstep]; rewrite Eph; reflexivity|reflexivity|exact HR].
    + cbn [cstep]. rewrite Eph. exists []. apply (R_noop c KExit); [cbn [cstep]; rewrite Eph; reflexivity|reflexivity|exact HR].
  - (* ---------------- draining: closed; the atomic side is ahead by the late pushes *)
    destruct (Pd eq_refl) as (Hclosed & Hst).
    assert (Eph' : c_phase c = RDraining) by exact Eph.
    assert (Hne : c_phase c <> RRunning) by congruence.
    destruct l as [i|i|i|i| | | |].
    + exists []. rewrite (acquire_closed_noop true c i Hclosed).
      apply (R_noop c (KAcquire i)); [apply acquire_closed_noop; exact Hclosed|reflexivity|exact HR].
    + apply sim_fail_closed; assumption.
    + apply sim_push_draining; assumption.
    + apply sim_giveback_closed; assumption.
    + exists []. cbn [cstep]. rewrite Eph. apply (R_noop c KRecv); [cbn [cstep]; rewrite Eph; reflexivity|reflexivity|exact HR].
    + exists []. cbn [cstep]. rewrite Eph. apply (R_noop c KClose); [cbn [cstep]; rewrite Eph; reflexivity|reflexivity|exact HR].
    + (* drain *)
      destruct (R_closed_fields _ _ _ _ Hne HR) as (Rq' & Rs'). cbn [pushes app] in Rq', Rs'.
      cbn [cstep] in Rq', Rs' |- *. rewrite Eph in Rq', Rs' |- *.
      destruct (c_queue c) as [|m q] eqn:Eq;
        [exists []; apply (R_noop c KDrain); [cbn [cstep]; rewrite Eph, Eq; reflexivity|reflexivity|exact HR]|].
      exists [ADrain]. cbn [asteps fold_left astep]. rewrite Rph, Rq'. cbn [app].
      match goal with |- R ?c' _ _ => assert (Hp' : pend c' rest = late c' rest) by (apply pend_other; discriminate) end.
      Rsplit; rewrite ?Hp'; try congruence; try reflexivity; try exact Rs'.
    + (* exit *)
      destruct (R_closed_fields _ _ _ _ Hne HR) as (Rq' & Rs'). cbn [pushes app] in Rq', Rs'.
      cbn [cstep] in Rq', Rs' |- *. rewrite Eph in Rq', Rs' |- *.
      destruct (c_queue c) as [|m q] eqn:Eq;
        [|exists []; apply (R_noop c KExit); [cbn [cstep]; rewrite Eph, Eq; reflexivity|reflexivity|exact HR]].
      cbn [negb orb] in Rq', Rs' |- *.
      destruct (Nat.eqb (c_free c) (c_cap c)) eqn:Ef;
        [|exists []; apply (R_noop c KExit); [cbn [cstep]; rewrite Eph, Eq; cbn [negb orb]; rewrite Ef; reflexivity|reflexivity|exact HR]].
      apply Nat.eqb_eq in Ef.
      set (c' := mkChan (c_cap c) (c_free c) (c_closed c) [] (c_senders c) RExited (c_handled c) (c_dropped c) (c_stranded c)) in *.
      assert (Hc' : c_closed c' = true) by exact Hclosed.
      pose proof (late_le_held rest c' Hc') as Hle. rewrite held_hcount in Hle. cbn [c' c_senders] in Hle.
      rewrite Hst in Pp. cbn [length] in Pp.
      assert (HP : late c' rest = []) by (destruct (late c' rest); [reflexivity|cbn [length] in Hle; lia]).
      rewrite HP in Rq', Rs'. cbn [app] in Rq'.
      exists [AExit]. cbn [asteps fold_left astep]. rewrite Rph, Rq'.
      assert (Hp' : pend c' rest = []) by (rewrite pend_other; [exact HP|discriminate]).
      Rsplit; rewrite ?Hp'; unfold c'; cbn [c_cap c_handled c_dropped c_phase c_closed c_queue c_senders]; try congruence; try reflexivity; try exact Rs'.
  - (* ---------------- exited: nobody holds a permit any more *)
    destruct (Pe eq_refl) as (Hclosed & Hq).
    assert (Hne : c_phase c <> RRunning) by congruence.
    assert (Hh : hcount (c_senders c) = 0) by (rewrite <- held_hcount; apply Pw; reflexivity).
    assert (Hnoheld : forall i s, nth_error (c_senders c) i = Some s -> sn_st s = SHeld -> False).
    { intros i s Ei Es. rewrite (nth_error_split_eq _ _ _ Ei), hcount_app, hcount_cons in Hh. unfold isheld in Hh. rewrite Es in Hh. lia. }
    destruct l as [i|i|i|i| | | |].
    + exists []. rewrite (acquire_closed_noop true c i Hclosed).
      apply (R_noop c (KAcquire i)); [apply acquire_closed_noop; exact Hclosed|reflexivity|exact HR].
    + apply sim_fail_closed; assumption.
    + exists []. cbn [cstep]. destruct (nth_error (c_senders c) i) as [s|] eqn:Ei;
        [|apply (R_noop c (KPush i)); [cbn [cstep]; rewrite Ei; reflexivity|cbn [pushes]; rewrite Ei; reflexivity|exact HR]].
      destruct (sn_st s) eqn:Es; [|exfalso; eapply Hnoheld; eassumption].
      apply (R_noop c (KPush i)); [cbn [cstep]; rewrite Ei, Es; reflexivity|cbn [pushes]; rewrite Ei, Es; reflexivity|exact HR].
    + apply sim_giveback_closed; assumption.
    + exists []. cbn [cstep]. rewrite Eph. apply (R_noop c KRecv); [cbn [cstep]; rewrite Eph; reflexivity|reflexivity|exact HR].
    + exists []. cbn [cstep]. rewrite Eph. apply (R_noop c KClose); [cbn [cstep]; rewrite Eph; reflexivity|reflexivity|exact HR].
    + exists []. cbn [cstep]. rewrite Eph. apply (R_noop c KDrain); [cbn [cstep]; rewrite Eph; reflexivity|reflexivity|exact HR].
    + exists []. cbn [cstep]. rewrite Eph. apply (R_noop c KExit); [cbn [cstep]; rewrite Eph; reflexivity|reflexivity|exact HR].
Qed.

(* ------------------------------------------------------------------ whole executions *)
Lemma sim rest : forall c a,
  pinv true c -> R c rest a -> exists las, R (fold_left (cstep true) rest c) [] (asteps las a).
Proof.
  induction rest as [|l r IH]; intros c a P HR.
  - exists []. exact HR.
  - destruct (sim_step c l r a P HR) as (l1 & H1).
    destruct (IH _ _ (pinv_step true c l P) H1) as (l2 & H2).
    exists (l1 ++ l2). rewrite asteps_app. exact H2.
Qed.

Lemma lrel_nil_map cs : forall ss,
  lrel [] cs ss ->
  map (fun s => (sn_next s, sn_ok s, sn_err s)) cs = map (fun s => (an_next s, an_ok s, an_err s)) ss.
Proof.
  induction cs as [|s cs IH]; intros [|t ss] [Hl Hp]; cbn in Hl; try discriminate; [reflexivity|].
  cbn [map]. f_equal.
  - specialize (Hp 0 s eq_refl). cbn in Hp. injection Hp as ->. reflexivity.
  - apply IH. split; [congruence|]. intros j sj Hj. apply (Hp (S j) sj). exact Hj.
Qed.

Lemma R_view c a : R c [] a -> cview c = aview a.
Proof.
  intros [Rcap Rh Rd Rph Rcl Rq Rs].
  assert (Hp : pend c [] = []) by (unfold pend; destruct (c_phase c); reflexivity).
  rewrite Hp in Rq, Rs. rewrite app_nil_r in Rq.
  unfold cview, aview. rewrite Rh, Rd, Rq, Rcl, Rph, (lrel_nil_map _ _ Rs). reflexivity.
Qed.

(* Every execution of the permit-granularity mailbox, for any capacity, any number of senders and
   any interleaving, under the exit protocol that waits for the permits, shows exactly what some
   execution of the mailbox with atomic sends shows: the same messages handled in the same order,
   the same messages dropped in the same order, the same queue, and every sender the same answers. *)
Theorem chan_refines_atomic cap n ls :
  exists las, cview (crun true cap n ls) = aview (arun cap n las).
Proof.
  destruct (sim ls _ _ (pinv_init true cap n) (R_init cap n ls)) as (las & H).
  exists las. apply R_view. exact H.
Qed.

(* ... which fails for the old protocol: there the fine model reaches a state in which a send has
   returned Ok although its message is neither handled, nor dropped, nor queued - no atomic
   execution shows that (an atomic Ok puts the message into the queue, and it leaves the queue only
   into handled or dropped) *)
Lemma old_protocol_has_no_atomic_counterpart :
  let c := crun false 1 1 strand_witness in
  map sn_ok (c_senders c) = [[0]] /\ c_handled c = [] /\ c_dropped c = [] /\ c_queue c = [].
Proof. repeat split. Qed.

Lemma atomic_ok_is_somewhere las : forall cap n i s k,
  nth_error (ac_senders (arun cap n las)) i = Some s -> In k (an_ok s) ->
  In (i, k) (ac_handled (arun cap n las) ++ ac_dropped (arun cap n las) ++ ac_queue (arun cap n las)).
Proof.
  intros cap n. unfold arun.
  assert (Hinit : forall i s k, nth_error (ac_senders (init_achan cap n)) i = Some s -> In k (an_ok s) ->
            In (i, k) (ac_handled (init_achan cap n) ++ ac_dropped (init_achan cap n) ++ ac_queue (init_achan cap n))).
  { intros i s k H Hk. cbn [init_achan ac_senders] in H. apply nth_error_repeat in H. subst s. destruct Hk. }
  revert Hinit. generalize (init_achan cap n). induction las as [|l las IH]; intros a Ha; [exact Ha|].
  cbn [asteps fold_left]. apply IH. clear IH. intros i s k H Hk.
  assert (Hrep : forall j t t', nth_error (ac_senders a) j = Some t ->
            nth_error (firstn j (ac_senders a) ++ t' :: skipn (S j) (ac_senders a)) i = Some s ->
            (i = j /\ s = t') \/ (i <> j /\ nth_error (ac_senders a) i = Some s)).
  { intros j t t' Ej Hn. destruct (Nat.eq_dec i j) as [->|Hne].
    - left. rewrite (nth_error_replace_same _ _ _ _ Ej) in Hn. injection Hn as <-. auto.
    - right. rewrite (nth_error_replace_other _ _ _ _ _ Ej Hne) in Hn. auto. }
  destruct l as [j|j|j| | | |]; cbn [astep] in H, Hk |- *.
  - destruct (nth_error (ac_senders a) j) as [t|] eqn:Ej; [|apply (Ha _ _ _ H Hk)].
    destruct (negb (ac_closed a) && Nat.ltb (length (ac_queue a)) (ac_cap a)); [|apply (Ha _ _ _ H Hk)].
    cbn [set_asender with_queue ac_senders ac_handled ac_dropped ac_queue] in H |- *.
    destruct (Hrep _ _ _ Ej H) as [(-> & ->)|(Hne & H')].
    + cbn [an_ok] in Hk. destruct Hk as [<-|Hk].
      * rewrite !in_app_iff. right. right. right. left. reflexivity.
      * specialize (Ha _ _ _ Ej Hk). rewrite !in_app_iff in *. tauto.
    + specialize (Ha _ _ _ H' Hk). rewrite !in_app_iff in *. tauto.
  - destruct (nth_error (ac_senders a) j) as [t|] eqn:Ej; [|apply (Ha _ _ _ H Hk)].
    destruct (ac_closed a); [|apply (Ha _ _ _ H Hk)].
    cbn [set_asender ac_senders ac_handled ac_dropped ac_queue] in H |- *.
    destruct (Hrep _ _ _ Ej H) as [(-> & ->)|(Hne & H')]; [cbn [an_ok] in Hk; apply (Ha _ _ _ Ej Hk)|apply (Ha _ _ _ H' Hk)].
  - destruct (nth_error (ac_senders a) j) as [t|] eqn:Ej; [|apply (Ha _ _ _ H Hk)].
    cbn [set_asender ac_senders ac_handled ac_dropped ac_queue] in H |- *.
    destruct (Hrep _ _ _ Ej H) as [(-> & ->)|(Hne & H')]; [cbn [an_ok] in Hk; apply (Ha _ _ _ Ej Hk)|apply (Ha _ _ _ H' Hk)].
  - destruct (ac_phase a); try apply (Ha _ _ _ H Hk). destruct (ac_queue a) as [|m q] eqn:Eq; [rewrite ?Eq; apply (Ha _ _ _ H Hk)|].
    cbn [ac_senders ac_handled ac_dropped ac_queue] in H |- *. specialize (Ha _ _ _ H Hk).
    rewrite !in_app_iff in *. cbn [In] in *. tauto.
  - destruct (ac_phase a); cbn [ac_senders ac_handled ac_dropped ac_queue] in H |- *; apply (Ha _ _ _ H Hk).
  - destruct (ac_phase a); try apply (Ha _ _ _ H Hk). destruct (ac_queue a) as [|m q] eqn:Eq; [rewrite ?Eq; apply (Ha _ _ _ H Hk)|].
    cbn [ac_senders ac_handled ac_dropped ac_queue] in H |- *. specialize (Ha _ _ _ H Hk).
    rewrite !in_app_iff in *. cbn [In] in *. tauto.
  - destruct (ac_phase a); try apply (Ha _ _ _ H Hk). destruct (ac_queue a) as [|m q] eqn:Eq; [|rewrite ?Eq; apply (Ha _ _ _ H Hk)].
    cbn [ac_senders ac_handled ac_dropped ac_queue] in H |- *. specialize (Ha _ _ _ H Hk). exact Ha.
Qed.

Theorem old_protocol_not_atomic :
  ~ exists las, cview (crun false 1 1 strand_witness) = aview (arun 1 1 las).
Proof.
  intros (las & H). unfold cview, aview in H.
  injection H as Hh Hd Hq _ _ Hs. 
  destruct (ac_senders (arun 1 1 las)) as [|t [|? ?]] eqn:Es; cbn in Hs; try discriminate.
  injection Hs as _ Hok _.
  assert (Hin : In (0, 0) (ac_handled (arun 1 1 las) ++ ac_dropped (arun 1 1 las) ++ ac_queue (arun 1 1 las))).
  { apply (atomic_ok_is_somewhere las 1 1 0 t 0); [rewrite Es; reflexivity|rewrite <- Hok; left; reflexivity]. }
  rewrite <- Hh, <- Hd, <- Hq in Hin. destruct Hin.
Qed.
