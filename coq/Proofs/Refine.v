(* Everything the executable reading (Exec.v: director actions, internal successors) can do is a run
   of the LTS: each director action and each internal successor is a finite list of labels applied
   with sys_step.  Hence every state the OCaml driver visits while it accepts a real trace is
   [run f ls] for some label list - and all the theorems of Props/ apply to it. *)
From RS Require Import Tactics Exec.

Definition steps (ls : list label) (s : sys) : sys := fold_left sys_step ls s.

Lemma steps_app l1 l2 s : steps (l1 ++ l2) s = steps l2 (steps l1 s).
Proof. apply fold_left_app. Qed.

Definition reaches (x x' : xstate) : Prop := exists ls, x_sys x' = steps ls (x_sys x).

Lemma reaches_refl x : reaches x x.
Proof. exists []. reflexivity. Qed.
Lemma reaches_same x x' : x_sys x' = x_sys x -> reaches x x'.
Proof. intros E. exists []. exact E. Qed.
Lemma reaches_trans x y z : reaches x y -> reaches y z -> reaches x z.
Proof. intros [l1 E1] [l2 E2]. exists (l1 ++ l2). rewrite steps_app, <- E1. exact E2. Qed.
Lemma reaches_xstep l x : reaches x (xstep l x).
Proof. exists [l]. reflexivity. Qed.

Lemma reaches_iter_tick k x : reaches x (iter k (xstep LTick) x).
Proof.
  revert x. induction k as [|k IH]; intros x; cbn [iter]; [apply reaches_refl|].
  eapply reaches_trans; [apply reaches_xstep|apply IH].
Qed.

(* ---------- director actions ---------- *)
Theorem apply_action_reaches act x : reaches x (apply_action act x).
Proof.
  destruct act; cbn [apply_action]; repeat case_match;
    try apply reaches_refl; try (apply reaches_same; reflexivity);
    try (eapply reaches_trans; [apply reaches_xstep|apply reaches_same; reflexivity]);
    try apply reaches_xstep.
  apply reaches_iter_tick.
Qed.

(* ---------- internal successors ---------- *)
Lemma hook_step_reaches a x x' : hook_step a x = Some x' -> reaches x x'.
Proof.
  unfold hook_step. intros H. repeat case_match_in H; try discriminate; injection H as <-;
    repeat case_match;
    try apply reaches_refl; try (apply reaches_same; reflexivity);
    try (eapply reaches_trans; [apply reaches_same; reflexivity|apply reaches_xstep]);
    try (eapply reaches_trans; [|apply reaches_xstep]; apply reaches_same; reflexivity).
Qed.

Lemma pass_loop_reaches fuel a x : reaches x (pass_loop fuel a x).
Proof.
  revert x. induction fuel as [|fuel IH]; intros x; cbn [pass_loop]; [apply reaches_refl|].
  repeat case_match; try apply reaches_refl;
    (eapply reaches_trans; [|apply IH]);
    try apply reaches_xstep;
    try (eapply reaches_trans; [apply reaches_xstep|apply reaches_same; reflexivity]).
Qed.

Lemma pass_reaches a k x x' : pass a k x = Some x' -> reaches x x'.
Proof.
  unfold pass. intros H. destruct (get_actor (x_sys x) a) as [y|]; [|discriminate].
  destruct (a_pc y); try discriminate.
  assert (E : x' = pass_loop (S (length select_order)) a (xstep (APassBegin a k) x)) by congruence.
  rewrite E. eapply reaches_trans; [apply reaches_xstep|apply pass_loop_reaches].
Qed.

Theorem succs_reach x x' : In x' (succs x) -> reaches x x'.
Proof.
  unfold succs. intros H. apply in_app_or in H. destruct H as [H|H].
  - apply in_flat_map in H. destruct H as (a & _ & H). apply in_app_or in H. destruct H as [H|H].
    + unfold opt_list in H. destruct (hook_step a x) eqn:E; [|destruct H]. destruct H as [<-|[]].
      eapply hook_step_reaches. exact E.
    + apply in_flat_map in H. destruct H as (k & _ & H). unfold opt_list in H.
      destruct (pass a k x) eqn:E; [|destruct H]. destruct H as [<-|[]]. eapply pass_reaches. exact E.
  - apply in_flat_map in H. destruct H as (p & _ & H). destruct (is_done (o_ph p)); [destruct H|].
    destruct H as [<-|[]]. apply reaches_xstep.
Qed.

(* ---------- what the driver explores ---------- *)
(* states reachable from the initial one by director actions and internal successors *)
Inductive explored (f : feats) : xstate -> Prop :=
| Ex_init : explored f (xinit f)
| Ex_action act x : explored f x -> explored f (apply_action act x)
| Ex_succ x x' : explored f x -> In x' (succs x) -> explored f x'.

Theorem explored_is_run f x : explored f x -> exists ls, x_sys x = run f ls.
Proof.
  induction 1 as [|act x _ (ls & IH)|x x' _ (ls & IH) Hin].
  - exists []. reflexivity.
  - destruct (apply_action_reaches act x) as (l2 & E). exists (ls ++ l2).
    unfold run in *. rewrite fold_left_app, <- IH. exact E.
  - destruct (succs_reach x x' Hin) as (l2 & E). exists (ls ++ l2).
    unfold run in *. rewrite fold_left_app, <- IH. exact E.
Qed.
