(* Delivery facts derived from the run invariants (lifecycle, queue, core): properties C01, C02, C09. *)
From RS Require Import Tactics Frame ListFacts Spec Silent Lifecycle LcFacts Queue QueueStep
     ClientFrame NF ActorSpec StepCases CoreInv.

(* the envelopes whose handler was entered, oldest first, read off the hook events *)
Fixpoint handled_events (es : list event) : list oid :=
  match es with
  | [] => []
  | EvHandleEnter _ o _ :: t => o :: handled_events t
  | _ :: t => handled_events t end.

Lemma handled_events_app l1 l2 : handled_events (l1 ++ l2) = handled_events l1 ++ handled_events l2.
Proof. induction l1 as [|e l1 IH]; cbn; [reflexivity|]. destruct e; rewrite ?IH; reflexivity. Qed.

(* handler entries, as logged, are exactly the envelopes the loop dequeued, in that order *)
Definition tl_ok (s : sys) : Prop :=
  forall a x, get_actor s a = Some x ->
    handled_events (hook_events s a) = map fst (envs (a_taken x)).

Lemma tl_local s a x l f fo evs :
  Local s a x l f fo evs ->
  map fst (envs (a_taken (f x))) =
  map fst (envs (a_taken x)) ++ handled_events (filter (hook_ev_of a) (rev evs)).
Proof.
  intros HL. inversion HL; subst;
    try match goal with H : _ \/ _ |- _ => destruct H as [->|[_ ->]] end;
    try match goal with k : okind |- _ => destruct k end;
    unfold stop_f, handle_f, run_f, idf; cbn [a_taken set_a_pc set_a_ustate set_a_idle set_a_term end_f set_a_closed set_a_mbox rev app filter hook_ev_of handled_events];
    rewrite ?taken_take_f, ?envs_snoc, ?Nat.eqb_refl; cbn [is_env snd handled_events filter hook_ev_of];
    rewrite ?map_app, ?app_nil_r; try reflexivity;
    try (destruct (mrec_fields (f_metrics (s_feat s)) x) as (_ & _ & -> & _); rewrite ?app_nil_r; reflexivity);
    try congruence.
Qed.

Theorem tl_ok_step s l : lc_ok s -> tl_ok s -> tl_ok (sys_step s l).
Proof.
  intros [_ Hnone] Hok a y Hy.
  destruct (get_actor s a) as [x|] eqn:Hx.
  - destruct (step_cases s l a x Hx) as (y' & Hy' & HC). rewrite Hy in Hy'. injection Hy' as <-.
    specialize (Hok a x Hx). destruct HC as [E Hev|f fo evs Hl HL -> E|f fo evs HD -> E].
    + destruct (core_fields x y E) as (_ & _ & -> & _). rewrite Hev. exact Hok.
    + rewrite E, hook_events_NF_self, handled_events_app, Hok. symmetry. eapply tl_local. exact HL.
    + rewrite E, hook_events_NF_self, handled_events_app, Hok.
      inversion HD; subst; cbn; rewrite ?Nat.eqb_refl; cbn; rewrite ?app_nil_r.
      * reflexivity.
      * destruct (mrec_fields (f_metrics (s_feat s)) x) as (_ & _ & -> & _). reflexivity.
  - destruct (step_new_actor s l a y Hx Hy) as (cap & -> & Hc & ->).
    cbn [sys_step]. unfold spawn. apply Nat.eqb_neq in Hc. rewrite Hc.
    unfold hook_events. cbn [s_trace emit set_s_trace set_s_next set_s_actors rev].
    rewrite !filter_app. cbn [filter hook_ev_of]. fold (hook_events s a). rewrite (Hnone a Hx).
    cbn. destruct (length (s_actors s) =? a); reflexivity.
Qed.

Lemma tl_ok_init f : tl_ok (init f).
Proof. intros a x H. unfold get_actor in H. cbn in H. destruct a; discriminate. Qed.

Theorem tl_ok_run f ls : tl_ok (run f ls).
Proof.
  unfold run.
  assert (H : lc_ok (init f) /\ tl_ok (init f)) by (split; [apply lc_ok_init|apply tl_ok_init]).
  revert H. generalize (init f).
  induction ls as [|l ls IH]; intros s [H1 H2]; cbn [fold_left]; [exact H2|].
  apply IH. split; [apply lc_ok_step, H1|apply tl_ok_step; assumption].
Qed.

(* ---------- corollaries about one state satisfying the invariants ---------- *)
Lemma oids_app l1 l2 : oids (l1 ++ l2) = oids l1 ++ oids l2.
Proof. unfold oids. apply map_app. Qed.

Lemma taken_prefix x : actor_ok x -> exists rest, a_accepted x = a_taken x ++ rest.
Proof. intros [(d & E & _) _ _ _ _]. exists (a_mbox x ++ d). exact E. Qed.

Lemma taken_nodup x : actor_ok x -> NoDup (oids (a_taken x)).
Proof.
  intros Hok. destruct (taken_prefix x Hok) as (rest & E). destruct Hok as [_ q2 _ _ _].
  rewrite E, oids_app in q2. apply nodup_app in q2. tauto.
Qed.

Lemma envs_incl l : incl (envs l) l.
Proof. intros i Hi. unfold envs in Hi. apply filter_In in Hi. tauto. Qed.

Lemma nodup_map_filter (l : list item) f : NoDup (map fst l) -> NoDup (map fst (filter f l)).
Proof.
  induction l as [|i l IH]; cbn; intros H; [constructor|].
  apply NoDup_cons_iff in H. destruct H as [Hi H]. destruct (f i); cbn; [|apply IH, H].
  constructor; [|apply IH, H]. intros Hin. apply Hi. apply in_map_iff in Hin.
  destruct Hin as (j & E & Hj). apply filter_In in Hj. apply in_map_iff. exists j. tauto.
Qed.

(* ---------- run-level theorems ---------- *)
Section Run.
  Variables (f : feats) (ls : list label).
  Local Notation S := (run f ls).

  Theorem run_handled_is_dequeued a x :
    get_actor S a = Some x -> handled_events (hook_events S a) = map fst (envs (a_taken x)).
  Proof. apply tl_ok_run. Qed.

  Theorem run_handled_at_most_once a : NoDup (handled_events (hook_events S a)).
  Proof.
    destruct (get_actor S a) as [x|] eqn:Hx.
    - rewrite (run_handled_is_dequeued a x Hx). apply nodup_map_filter.
      apply taken_nodup. exact (proj1 (q_ok_run f ls) a x Hx).
    - rewrite (proj2 (lc_ok_run f ls) a Hx). constructor.
  Qed.

  (* dequeue order = acceptance order: what was dequeued is a prefix of what was accepted *)
  Theorem run_fifo a x :
    get_actor S a = Some x -> exists rest, a_accepted x = a_taken x ++ rest.
  Proof. intros Hx. apply taken_prefix. exact (proj1 (q_ok_run f ls) a x Hx). Qed.

  Definition rejected (k : okind) (ph : ophase) : Prop :=
    ph = OPre \/ ph = ODone (RErr ESend) \/ (k = KTell /\ ph = ODone (RErr ETimeout)).

  Theorem run_rejected_never o p x :
    get_op S o = Some p -> get_actor S (o_tgt p) = Some x -> rejected (o_kind p) (o_ph p) ->
    ~ In o (oids (a_accepted x)) /\ ~ In o (handled_events (hook_events S (o_tgt p))).
  Proof.
    intros Hp Hx Hrej.
    assert (Hna : ~ In o (oids (a_accepted x))).
    { intros Hin. unfold oids in Hin. apply in_map_iff in Hin. destruct Hin as ([o' k] & E & Hin). cbn in E. subst o'.
      destruct (accepted_kind S o p x k (q_ok_run f ls) Hp Hx Hin) as (-> & Hacc).
      destruct Hrej as [E|[E|[Ek E]]]; rewrite E in Hacc.
      - destruct (o_kind p); cbn in Hacc; try discriminate. destruct Hacc as [E'|(r & E' & _)]; discriminate.
      - destruct (o_kind p); cbn in Hacc; try discriminate. destruct Hacc as [E'|(r & E' & Hr)]; [discriminate|].
        injection E' as <-. congruence.
      - rewrite Ek in Hacc. cbn in Hacc. discriminate. }
    split; [exact Hna|].
    rewrite (run_handled_is_dequeued _ x Hx). intros Hin. apply Hna.
    destruct (run_fifo _ x Hx) as (rest & E). rewrite E, oids_app. apply in_or_app. left.
    apply in_map_iff in Hin. destruct Hin as (i & Ei & Hi). apply envs_incl in Hi.
    unfold oids. apply in_map_iff. exists i. tauto.
  Qed.

  (* graceful stop: when the marker has been dequeued it is the last thing dequeued; everything
     accepted before it was dequeued - hence had its handler entered - before on_stop, and nothing
     accepted after it is ever dequeued *)
  Theorem run_stop_marker a x om :
    get_actor S a = Some x -> In (om, KStop) (a_taken x) ->
    exists t rest, a_taken x = t ++ [(om, KStop)] /\ a_accepted x = t ++ (om, KStop) :: rest /\
      (forall o k, In (o, k) t -> k <> KStop -> In o (handled_events (hook_events S a))) /\
      (forall i, In i rest -> ~ In i (a_taken x)).
  Proof.
    intros Hx Hin.
    destruct (cores_ok_run f ls a x Hx) as [_ _ _ _ _ k6 _]. destruct (k6 om Hin) as [(t & Et) _].
    destruct (run_fifo a x Hx) as (rest & Ea).
    exists t, rest. split; [exact Et|]. split; [rewrite Ea, Et, <- app_assoc; reflexivity|]. split.
    - intros o k Hi Hk. rewrite (run_handled_is_dequeued a x Hx), Et. apply in_map_iff. exists (o, k).
      split; [reflexivity|]. unfold envs. apply filter_In. split; [apply in_or_app; left; exact Hi|].
      destruct k; [reflexivity|reflexivity|congruence].
    - intros i Hi Hit.
      pose proof (proj1 (q_ok_run f ls) a x Hx) as [_ q2 _ _ _].
      rewrite Ea, oids_app in q2. apply nodup_app in q2. destruct q2 as (_ & _ & q3).
      apply (q3 (fst i)); unfold oids; apply in_map; assumption.
  Qed.

  (* C09 *)
  Theorem run_capacity a x :
    get_actor S a = Some x ->
    length (a_mbox x) + length (a_granted x) <= a_cap x /\
    (a_closed x = false -> a_waiters x <> [] -> length (a_mbox x) + length (a_granted x) = a_cap x) /\
    0 < a_cap x.
  Proof.
    intros Hx. destruct (proj1 (q_ok_run f ls) a x Hx) as [_ _ p1 p2 _].
    destruct (cores_ok_run f ls a x Hx) as [_ _ _ _ _ _ k7]. tauto.
  Qed.

  Theorem run_waiting_not_lost a x o :
    get_actor S a = Some x -> In o (a_waiters x ++ a_granted x) ->
    exists p, get_op S o = Some p /\ o_tgt p = a /\ o_ph p = OPre /\ ~ In o (oids (a_accepted x)).
  Proof.
    intros Hx Hin. destruct (q_ok_run f ls) as (_ & _ & H3).
    destruct (H3 a x o Hx Hin) as (p & Hp & Ht & Hph). exists p. repeat split; try assumption.
    subst a. eapply pre_not_accepted; [apply q_ok_run|exact Hp|exact Hph|exact Hx].
  Qed.
End Run.
