(* Causes of ending, no spontaneous ending, liveness probes, isolation (C07, C11, C12). *)
From RS Require Import Tactics Frame ListFacts SysFrame Spec Silent Lifecycle LcFacts ClientFrame NF ActorSpec
     StepCases CoreInv OpsSpec.

(* ---------- C07: why on_stop is entered ---------- *)
Inductive StopCause (s : sys) (a : aid) (x : actor) (l : label) : bool -> Prop :=
| SCz_kill : a_term x = true -> StopCause s a x l true
| SCz_refs : refs_gone s a x = true -> StopCause s a x l false
| SCz_marker o tl : a_mbox x = (o, KStop) :: tl -> StopCause s a x l false
| SCz_run_err e : l = APoll a (RErrO e) -> StopCause s a x l false.

Lemma local_stop_cause s a x l f fo evs k b :
  Local s a x l f fo evs -> In (EvStopEnter b k) evs -> b = a /\ StopCause s a x l k.
Proof.
  intros HL Hin. inversion HL; subst;
    try match goal with H : _ \/ _ |- _ => destruct H as [->|[_ ->]] end;
    try match goal with k0 : okind |- _ => destruct k0 end;
    cbn [In] in Hin;
    repeat match goal with H : _ \/ _ |- _ => destruct H as [H|H] end;
    try contradiction; try discriminate;
    match goal with H : _ = EvStopEnter b k |- _ => injection H as <- <- end; split; try reflexivity.
  - apply SCz_kill. assumption.
  - apply SCz_refs. assumption.
  - apply SCz_refs. assumption.
  - eapply SCz_marker. eassumption.
  - eapply SCz_run_err. reflexivity.
Qed.

(* on_stop is entered in a step only for one of the four causes: a kill signal was buffered,
   no strong reference is left, the stop marker is at the head of the mailbox, on_run failed *)
Theorem stop_enter_has_cause s l a k :
  In (EvStopEnter a k) (s_trace (sys_step s l)) -> ~ In (EvStopEnter a k) (s_trace s) ->
  exists x, get_actor s a = Some x /\ StopCause s a x l k.
Proof.
  intros Hin Hnot.
  assert (Hsil : silent s (sys_step s l) -> False).
  { intros [_ (es & T & Q)]. rewrite T in Hin. apply in_app_or in Hin. destruct Hin as [Hin|Hin]; [|contradiction].
    unfold quiet_events in Q. rewrite forallb_forall in Q. specialize (Q _ Hin). discriminate. }
  assert (Hactor : forall b, label_actor l = Some b -> exists x, get_actor s a = Some x /\ StopCause s a x l k).
  { intros b Hl. destruct (get_actor s b) as [xb|] eqn:Hxb.
    - destruct (actor_step_nf s l b xb Hl Hxb) as (f & fo & evs & E & HL).
      rewrite E, NF_trace in Hin. apply in_app_or in Hin. destruct Hin as [Hin|Hin]; [|contradiction].
      destruct (local_stop_cause s b xb l f fo evs k a HL Hin) as [-> HC]. eauto.
    - rewrite (actor_step_absent s l b Hl Hxb) in Hin. contradiction. }
  destruct l; try (apply (Hactor a0); reflexivity); exfalso; cbn [sys_step] in *.
  - (* spawn *) unfold spawn in Hin. destruct (cap =? 0); [contradiction|].
    cbn in Hin. destruct Hin as [H|[H|H]]; [discriminate|discriminate|contradiction].
  - (* begin *)
    destruct (begin_shape2 s o k0 a0 caller tmo fn) as [Hs|(c & xc & F & FO & EVS & E & _ & HD)].
    + apply Hsil, Hs.
    + rewrite E, NF_trace in Hin. apply in_app_or in Hin. destruct Hin as [Hin|Hin]; [|contradiction].
      inversion HD; subst; cbn in Hin; destruct Hin as [Hq|[Hq|[Hq|Hq]]]; try discriminate; contradiction.
  - apply Hsil, silent_poll, silent_refl.
  - apply Hsil, silent_cancel, silent_refl.
  - apply Hsil, silent_kill, silent_refl.
  - apply Hsil, silent_ref_clone, silent_refl.
  - apply Hsil, silent_ref_drop, silent_refl.
  - apply Hsil, silent_ref_upgrade, silent_refl.
  - apply Hsil, silent_set_now, silent_refl.
Qed.

(* ---------- C07: an actor never ends on its own ---------- *)
Theorem no_spontaneous_stop s a x ro y :
  get_actor s a = Some x -> get_actor (sys_step s (APoll a ro)) a = Some y ->
  refs_gone s a x = false -> a_term x = false ->
  (forall o tl, a_mbox x <> (o, KStop) :: tl) ->
  (forall e, ro <> RErrO e) -> ro <> RPanicO ->
  (forall k c, a_pc x <> PStop k c) -> ~ ended_pc (a_pc x) ->
  (forall k c, a_pc y <> PStop k c) /\ ~ ended_pc (a_pc y) /\
  (* and a waiting message is handled: independent of whether on_run is still enabled *)
  (forall o k tl rest, a_pc x = PSel (BMail :: rest) -> a_mbox x = (o, k) :: tl -> a_pc y = PHandle o k).
Proof.
  intros Hx Hy Hg Ht Hm He Hp Hns Hne.
  destruct (actor_step_nf s (APoll a ro) a x eq_refl Hx) as (f & fo & evs & E & HL).
  rewrite E, (NF_get_actor_same _ _ _ _ _ _ Hx) in Hy. injection Hy as <-.
  inversion HL; subst; unfold stop_f, handle_f, run_f, idf, end_f;
    cbn [a_pc set_a_pc set_a_ustate set_a_idle set_a_term set_a_closed set_a_mbox];
    try congruence;
    try (exfalso; eapply Hm; eassumption);
    try (exfalso; eapply He; reflexivity).
  - (* noop *) repeat split; try assumption. intros o k tl rest Hpc _.
    match goal with H : guard_fails _ _ |- _ => cbn in H; exfalso; eapply H; exact Hpc end.
  - (* next *) unfold after_branch. repeat split.
    + intros k c. destruct rest; discriminate.
    + intros [[r Er]|Er]; destruct rest; discriminate.
    + intros o k tl rest' Hpc Hmb.
      match goal with H : a_pc x = PSel (?b :: rest) |- _ => rewrite H in Hpc; injection Hpc as -> -> end.
      match goal with H : BMail = BMail -> _ |- _ => destruct (H eq_refl) as [Hmt _] end. congruence.
  - (* envelope taken *) repeat split; try discriminate.
    + intros [[r Er]|Er]; discriminate.
    + intros o' k' tl' rest' _ Hmb.
      match goal with H : a_mbox x = (?o, ?k) :: ?tl |- _ => rewrite H in Hmb; injection Hmb as <- <- <- end. reflexivity.
  - (* run again *) repeat split; try discriminate.
    + intros [[r Er]|Er]; discriminate.
    + intros o k tl rest' Hpc. match goal with H : a_pc x = PSel (BRun :: _) |- _ => rewrite H in Hpc end. discriminate.
  - (* run off *) repeat split; try discriminate.
    + intros [[r Er]|Er]; discriminate.
    + intros o k tl rest' Hpc. match goal with H : a_pc x = PSel (BRun :: _) |- _ => rewrite H in Hpc end. discriminate.
Qed.

(* ---------- C11: liveness probes ---------- *)
Theorem alive_iff_not_ended f ls a x :
  get_actor (run f ls) a = Some x ->
  (is_alive (run f ls) a = false <-> ended_pc (a_pc x)).
Proof.
  intros Hx. unfold is_alive. rewrite Hx. destruct (cores_ok_run f ls a x Hx) as [_ _ _ _ k5 _ _].
  rewrite negb_false_iff. exact k5.
Qed.

Theorem upgrade_iff_strong s a x y :
  get_actor s a = Some x -> get_actor (sys_step s (LUpgrade a)) a = Some y ->
  a_ext y = if refs_gone s a x then a_ext x else S (a_ext x).
Proof.
  intros Hx Hy. cbn [sys_step] in Hy. unfold ref_upgrade, can_upgrade in Hy. rewrite Hx in Hy.
  destruct (refs_gone s a x); cbn [negb] in Hy.
  - rewrite Hx in Hy. injection Hy as <-. reflexivity.
  - rewrite (get_actor_upd_same _ _ _ _ Hx) in Hy. injection Hy as <-. reflexivity.
Qed.

(* sends to an ended actor fail at once (tell / ask: Err(Send) + one dead letter; stop: Ok) *)
Theorem send_to_ended_fails s1 p x :
  get_op s1 (o_id p) = Some p -> o_ph p = OPre -> get_actor s1 (o_tgt p) = Some x -> a_closed x = true ->
  exists p' evs, OpStep s1 (post_inner (o_id p) (try_send p s1)) (o_id p) p p' evs /\
    o_ph p' = match o_kind p with KStop => ODone (ROk 0) | _ => ODone (RErr ESend) end.
Proof.
  intros Hp Hph Hx Hc. destruct (first_poll_spec s1 p Hp Hph (ex_intro _ x Hx)) as (p' & evs & HS & HB).
  exists p', evs. split; [exact HS|].
  inversion HB; subst;
    match goal with H : get_actor s1 (o_tgt p) = Some ?x' |- _ => rewrite Hx in H; injection H as <- end;
    try congruence.
  - destruct (o_kind p); congruence.
  - match goal with H : o_kind p = KStop |- _ => rewrite H end. assumption.
Qed.

(* ---------- C12: a failing actor fails alone ---------- *)
Theorem actor_step_frame s l b a :
  label_actor l = Some b -> a <> b -> get_actor (sys_step s l) a = get_actor s a.
Proof.
  intros Hl Hne. destruct (get_actor s b) as [xb|] eqn:Hxb.
  - destruct (actor_step_nf s l b xb Hl Hxb) as (f & fo & evs & E & _). rewrite E, NF_get_actor.
    apply Nat.eqb_neq in Hne. rewrite Hne. reflexivity.
  - rewrite (actor_step_absent s l b Hl Hxb). reflexivity.
Qed.

Theorem actor_step_globals s l b :
  label_actor l = Some b ->
  s_next (sys_step s l) = s_next s /\ s_graph (sys_step s l) = s_graph s /\
  s_dlcount (sys_step s l) = s_dlcount s /\ s_now (sys_step s l) = s_now s.
Proof.
  intros Hl. destruct (get_actor s b) as [xb|] eqn:Hxb.
  - destruct (actor_step_nf s l b xb Hl Hxb) as (f & fo & evs & E & _). rewrite E. repeat split; reflexivity.
  - rewrite (actor_step_absent s l b Hl Hxb). repeat split; reflexivity.
Qed.

(* the detection panic leaves the wait-for graph exactly as it was: the lock is released first *)
Theorem ddpanic_globals s o k a caller tmo fn c xc F FO EVS :
  begin o k a caller tmo fn s = NF c F FO EVS s -> DdPanic s c xc F FO EVS ->
  s_graph (begin o k a caller tmo fn s) = s_graph s /\ s_next (begin o k a caller tmo fn s) = s_next s /\
  s_dlcount (begin o k a caller tmo fn s) = s_dlcount s.
Proof. intros E _. rewrite E. repeat split; reflexivity. Qed.

(* what a panic does to the actor itself: the task is gone, both channels are closed, the queue
   is dropped; no on_stop follows (the recogniser's LcPanicked is final, see C04) *)
Definition panic_exit (a : aid) (e : event) : Prop :=
  e = EvStartExit a HPanic \/ e = EvRunDone a RPanicO \/ (exists o, e = EvHandleExit a o HPanic) \/ e = EvStopExit a HPanic.

Theorem panic_ends_actor s a x l f fo evs e :
  Local s a x l f fo evs -> In e evs -> panic_exit a e ->
  a_pc (f x) = PPanicked /\ a_closed (f x) = true /\ a_mbox (f x) = [] /\ In (EvEnd a None) evs /\
  forall k, ~ In (EvStopEnter a k) evs.
Proof.
  intros HL Hin Hp. inversion HL; subst;
    try match goal with H : _ \/ _ |- _ => destruct H as [->|[_ ->]] end;
    try match goal with k0 : okind |- _ => destruct k0 end;
    cbn [In] in Hin; repeat (destruct Hin as [Hin|Hin]); try contradiction; subst e;
    destruct Hp as [E|[E|[[o' E]|E]]]; try discriminate; try (exfalso; congruence);
    unfold end_f; cbn [a_pc a_closed a_mbox set_a_pc set_a_closed set_a_term set_a_mbox In];
    (split; [reflexivity|split; [reflexivity|split; [reflexivity|split; [left; reflexivity|]]]]);
    intros k' Hin'; repeat (destruct Hin' as [Hin'|Hin']; try discriminate); contradiction.
Qed.
