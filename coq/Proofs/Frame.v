(* How the primitive state updates act on [get_actor] / [get_op] and on the trace. *)
From RS Require Import Tactics.

Lemma nth_error_upd_nth {A} (f : A -> A) (l : list A) (n m : nat) :
  nth_error (upd_nth n f l) m =
  if m =? n then option_map f (nth_error l m) else nth_error l m.
Proof.
  revert n m; induction l as [|x l IH]; intros n m.
  - destruct n, m; simpl; try reflexivity; destruct (m =? n); reflexivity.
  - destruct n as [|n], m as [|m]; simpl; try reflexivity. apply IH.
Qed.

Lemma length_upd_nth {A} (f : A -> A) (l : list A) n : length (upd_nth n f l) = length l.
Proof. revert n; induction l as [|x l IH]; intros [|n]; simpl; auto. Qed.

Lemma get_actor_upd_actor s a b f :
  get_actor (upd_actor b f s) a =
  if a =? b then option_map f (get_actor s a) else get_actor s a.
Proof. unfold get_actor, upd_actor; simpl. apply nth_error_upd_nth. Qed.

Lemma get_actor_upd_same s a f x :
  get_actor s a = Some x -> get_actor (upd_actor a f s) a = Some (f x).
Proof. intros H. rewrite get_actor_upd_actor, Nat.eqb_refl, H. reflexivity. Qed.

Lemma get_actor_upd_other s a b f :
  a <> b -> get_actor (upd_actor b f s) a = get_actor s a.
Proof. intros H. rewrite get_actor_upd_actor. apply Nat.eqb_neq in H. rewrite H. reflexivity. Qed.

Lemma get_actor_emit s e a : get_actor (emit e s) a = get_actor s a.
Proof. reflexivity. Qed.
Lemma get_actor_upd_op s o f a : get_actor (upd_op o f s) a = get_actor s a.
Proof. reflexivity. Qed.
Lemma trace_upd_actor s a f : s_trace (upd_actor a f s) = s_trace s.
Proof. reflexivity. Qed.
Lemma trace_upd_op s o f : s_trace (upd_op o f s) = s_trace s.
Proof. reflexivity. Qed.
Lemma trace_emit s e : s_trace (emit e s) = e :: s_trace s.
Proof. reflexivity. Qed.
Lemma ops_upd_actor s a f : s_ops (upd_actor a f s) = s_ops s.
Proof. reflexivity. Qed.
Lemma ops_emit s e : s_ops (emit e s) = s_ops s.
Proof. reflexivity. Qed.

(* ---------- get_op under the primitive updates ---------- *)
Lemma find_map_id (f : op -> op) (l : list op) (o : oid) :
  (forall p, o_id (f p) = o_id p) ->
  find (fun p => o_id p =? o) (map f l) = option_map f (find (fun p => o_id p =? o) l).
Proof.
  intros Hf. induction l as [|p l IH]; cbn; [reflexivity|].
  rewrite Hf. destruct (o_id p =? o); [reflexivity|exact IH].
Qed.

Lemma get_op_upd_op s o f o' :
  (forall p, o_id (f p) = o_id p) ->
  get_op (upd_op o f s) o' = if o' =? o then option_map f (get_op s o') else get_op s o'.
Proof.
  intros Hf. unfold get_op, upd_op. cbn [s_ops set_s_ops].
  induction (s_ops s) as [|p l IH]; cbn.
  - destruct (o' =? o); reflexivity.
  - destruct (o_id p =? o) eqn:E1.
    + rewrite Hf. destruct (o_id p =? o') eqn:E2.
      * apply Nat.eqb_eq in E1, E2. assert (o' =? o = true) as -> by (apply Nat.eqb_eq; congruence). reflexivity.
      * exact IH.
    + destruct (o_id p =? o') eqn:E2.
      * apply Nat.eqb_eq in E2. apply Nat.eqb_neq in E1.
        assert (o' =? o = false) as -> by (apply Nat.eqb_neq; congruence). reflexivity.
      * exact IH.
Qed.

Lemma get_op_id s o p : get_op s o = Some p -> o_id p = o.
Proof. unfold get_op. intros H. apply find_some in H. destruct H as [_ H]. apply Nat.eqb_eq in H. exact H. Qed.

Lemma get_op_upd_actor s a f o : get_op (upd_actor a f s) o = get_op s o.
Proof. reflexivity. Qed.
Lemma get_op_emit s e o : get_op (emit e s) o = get_op s o.
Proof. reflexivity. Qed.

Lemma get_op_app s p o :
  get_op (set_s_ops (s_ops s ++ [p]) s) o =
  match get_op s o with Some q => Some q | None => if o_id p =? o then Some p else None end.
Proof.
  unfold get_op. cbn [s_ops set_s_ops]. induction (s_ops s) as [|q l IH]; cbn.
  - reflexivity.
  - destruct (o_id q =? o); [reflexivity|exact IH].
Qed.

Lemma get_op_close_slots s os o :
  get_op (close_slots os s) o =
  option_map (fun p => if existsb (Nat.eqb (o_id p)) os
                       then match o_slot p with SlEmpty => set_o_slot SlClosed p | _ => p end else p)
             (get_op s o).
Proof.
  unfold get_op, close_slots. cbn [s_ops set_s_ops]. apply find_map_id.
  intros p. destruct (existsb (Nat.eqb (o_id p)) os); [destruct (o_slot p)|]; reflexivity.
Qed.
