(* How the primitive state updates act on [get_actor] / [get_op] and on the trace. *)
From RS Require Import Tactics.

Lemma nth_error_upd_nth {A} (f : A -> A) (l : list A) (n m : nat) :
  nth_error (upd_nth n f l) m =
  if m =? n then option_map f (nth_error l m) else nth_error l m.
Proof.
  revert n m; induction l as [|x l IH]; intros n m.
  - destruct n, m; simpl; try reflexivity; destruct (m =? n); reflexivity.
  - destruct n as [|n], m as [|m]; simpl; try reflexivity. apply IH.
Qed.

Lemma length_upd_nth {A} (f : A -> A) (l : list A) n : length (upd_nth n f l) = length l.
Proof. revert n; induction l as [|x l IH]; intros [|n]; simpl; auto. Qed.

Lemma get_actor_upd_actor s a b f :
  get_actor (upd_actor b f s) a =
  if a =? b then option_map f (get_actor s a) else get_actor s a.
Proof. unfold get_actor, upd_actor; simpl. apply nth_error_upd_nth. Qed.

Lemma get_actor_upd_same s a f x :
  get_actor s a = Some x -> get_actor (upd_actor a f s) a = Some (f x).
Proof. intros H. rewrite get_actor_upd_actor, Nat.eqb_refl, H. reflexivity. Qed.

Lemma get_actor_upd_other s a b f :
  a <> b -> get_actor (upd_actor b f s) a = get_actor s a.
Proof. intros H. rewrite get_actor_upd_actor. apply Nat.eqb_neq in H. rewrite H. reflexivity. Qed.

Lemma get_actor_emit s e a : get_actor (emit e s) a = get_actor s a.
Proof. reflexivity. Qed.
Lemma get_actor_upd_op s o f a : get_actor (upd_op o f s) a = get_actor s a.
Proof. reflexivity. Qed.
Lemma trace_upd_actor s a f : s_trace (upd_actor a f s) = s_trace s.
Proof. reflexivity. Qed.
Lemma trace_upd_op s o f : s_trace (upd_op o f s) = s_trace s.
Proof. reflexivity. Qed.
Lemma trace_emit s e : s_trace (emit e s) = e :: s_trace s.
Proof. reflexivity. Qed.
Lemma ops_upd_actor s a f : s_ops (upd_actor a f s) = s_ops s.
Proof. reflexivity. Qed.
Lemma ops_emit s e : s_ops (emit e s) = s_ops s.
Proof. reflexivity. Qed.
