(* Every label preserves the mailbox / permit / phase invariant. *)
From RS Require Import Tactics Frame ListFacts Queue.

Lemma record_dl_get_op s a o f c o' : get_op (record_dl a o f c s) o' = get_op s o'.
Proof.
  unfold record_dl. generalize (dl_sites (site_fn f c) c). intros l. revert s.
  induction l as [|rl l IH]; intros s; cbn [fold_left]; [reflexivity|].
  rewrite IH. unfold record_one. destruct (f_testutils (s_feat s)); reflexivity.
Qed.
Lemma record_dl_get_actor s a o f c b : get_actor (record_dl a o f c s) b = get_actor s b.
Proof.
  unfold record_dl. generalize (dl_sites (site_fn f c) c). intros l. revert s.
  induction l as [|rl l IH]; intros s; cbn [fold_left]; [reflexivity|].
  rewrite IH. unfold record_one. destruct (f_testutils (s_feat s)); reflexivity.
Qed.
Lemma q_ok_record_dl s a o f c : q_ok s -> q_ok (record_dl a o f c s).
Proof. intros H. eapply q_ok_qsame; [apply qsame_record_dl, qsame_refl|exact H]. Qed.

Lemma upd_nth_id {A} (l : list A) n : upd_nth n (fun x => x) l = l.
Proof. revert n. induction l as [|y l IH]; intros [|n]; cbn; try reflexivity. rewrite IH. reflexivity. Qed.
Lemma upd_actor_id s a : upd_actor a (fun x => x) s = s.
Proof. unfold upd_actor. rewrite upd_nth_id. destruct s; reflexivity. Qed.

Lemma accepted_phase_finish_ask k r :
  accepted_phase k OWaitReply -> r <> RErr ESend -> accepted_phase k (ODone r).
Proof. destruct k; cbn; intros H Hr; try discriminate. right. exists r. split; [reflexivity|exact Hr]. Qed.

(* facts about an operation that is not in phase OPre *)
Lemma waiting_is_pre s o p x :
  q_ok s -> get_op s o = Some p -> get_actor s (o_tgt p) = Some x ->
  In o (a_waiters x ++ a_granted x) -> o_ph p = OPre.
Proof.
  intros (_ & _ & H3) Hp Hx Hin. destruct (H3 _ x o Hx Hin) as (p' & Hp' & _ & Hph).
  rewrite Hp in Hp'. injection Hp' as <-. exact Hph.
Qed.

Lemma accepted_kind s o p x k :
  q_ok s -> get_op s o = Some p -> get_actor s (o_tgt p) = Some x ->
  In (o, k) (a_accepted x) -> k = o_kind p /\ accepted_phase k (o_ph p).
Proof.
  intros (_ & H2 & _) Hp Hx Hin. destruct (H2 _ x o k Hx Hin) as (p' & Hp' & _ & Hk & Hph).
  rewrite Hp in Hp'. injection Hp' as <-. split; [congruence|exact Hph].
Qed.

(* the send failed: the envelope never entered the mailbox *)
Lemma q_ok_send_failed s p :
  q_ok s -> get_op s (o_id p) = Some p -> o_ph p = OPre ->
  (forall x, get_actor s (o_tgt p) = Some x -> ~ In (o_id p) (a_waiters x ++ a_granted x)) ->
  q_ok (send_failed p s).
Proof.
  intros Hok Hp Hph Hnw.
  assert (Hfin : forall r s', q_ok s' -> get_op s' (o_id p) = Some p ->
                   (forall b, get_actor s' b = get_actor s b) -> q_ok (finish (o_id p) r s')).
  { intros r s' Hok' Hp' Hact. eapply q_ok_finish; [exact Hok'|exact Hp'| |].
    - intros x Hx. rewrite Hact in Hx. apply Hnw, Hx.
    - intros x Hx Hin. exfalso. eapply (pre_not_accepted s' (o_id p) p x Hok' Hp' Hph Hx).
      unfold oids. apply in_map_iff. exists (o_id p, o_kind p). split; [reflexivity|exact Hin]. }
  unfold send_failed. destruct (o_kind p).
  - apply Hfin; [apply q_ok_record_dl, Hok|rewrite record_dl_get_op; exact Hp|intros b; apply record_dl_get_actor].
  - apply Hfin; [apply q_ok_record_dl, Hok|rewrite record_dl_get_op; exact Hp|intros b; apply record_dl_get_actor].
  - apply Hfin; [exact Hok|exact Hp|reflexivity].
Qed.

Lemma is_granted_in x o : is_granted x o = true <-> In o (a_granted x).
Proof.
  unfold is_granted. rewrite existsb_exists. split.
  - intros (y & Hy & E). apply Nat.eqb_eq in E. subst y. exact Hy.
  - intros H. exists o. split; [exact H|apply Nat.eqb_refl].
Qed.

(* first poll of the send *)
Lemma q_ok_try_send s p :
  q_ok s -> get_op s (o_id p) = Some p -> o_ph p = OPre ->
  (forall x, get_actor s (o_tgt p) = Some x -> ~ In (o_id p) (a_waiters x ++ a_granted x)) ->
  q_ok (try_send p s).
Proof.
  intros Hok Hp Hph Hnw. unfold try_send.
  destruct (get_actor s (o_tgt p)) as [x|] eqn:Hx; [|exact Hok].
  specialize (Hnw x eq_refl).
  destruct (a_closed x) eqn:Hc.
  - apply q_ok_send_failed; try assumption. intros x' Hx'. rewrite Hx in Hx'. injection Hx' as <-. exact Hnw.
  - destruct (free_slot x) eqn:Hf.
    + rewrite <- (upd_actor_id s (o_tgt p)) at 1.
      eapply (q_ok_accept s (o_tgt p) (o_id p) (o_kind p) x p (fun y => y)); try reflexivity; try assumption.
      * intros Hin. apply Hnw, in_or_app. left; exact Hin.
      * right. unfold free_slot in Hf. apply Nat.ltb_lt in Hf. exact Hf.
      * symmetry. apply remove_nat_notin. intros Hin. apply Hnw, in_or_app. right; exact Hin.
    + eapply q_ok_wait; try eassumption. reflexivity.
Qed.

(* dropping the un-wrapped future *)
Lemma q_ok_cancel_inner s o p :
  q_ok s -> get_op s o = Some p -> o_id p = o ->
  q_ok (cancel_inner p s) /\
  (forall o', get_op (cancel_inner p s) o' = get_op s o') /\
  (forall x', get_actor (cancel_inner p s) (o_tgt p) = Some x' ->
      ~ In o (a_waiters x' ++ a_granted x') /\
      exists x, get_actor s (o_tgt p) = Some x /\ a_accepted x' = a_accepted x).
Proof.
  intros Hok Hp Hid. unfold cancel_inner. rewrite Hid.
  destruct (o_ph p) eqn:Hph.
  - destruct (get_actor s (o_tgt p)) as [x|] eqn:Hx.
    + pose proof Hok as (H1 & _). destruct (H1 _ x Hx) as [q1 q2 p1 p2 nd].
      apply nodup_app in nd as nd'. destruct nd' as (n1 & n2 & n3).
      destruct (is_granted x o) eqn:Hg.
      * apply is_granted_in in Hg. split; [eapply q_ok_ungrant_regrant; eassumption|]. split; [reflexivity|].
        intros x' Hx'. unfold ungrant in Hx'. rewrite regrant_is_upd, upd_actor_compose in Hx'.
        rewrite (get_actor_upd_same _ _ _ _ Hx) in Hx'. injection Hx' as <-.
        set (h := set_a_granted (remove_nat o (a_granted x)) x).
        destruct (regrant_f_lists h) as [Ea Ei]. split.
        -- intros Hin. apply Ei in Hin. unfold h in Hin. cbn in Hin. apply in_app_or in Hin.
           destruct Hin as [Hin|Hin]; [apply (n3 o Hin Hg)|apply (not_in_remove_nat o _ Hin)].
        -- exists x. split; [reflexivity|]. rewrite Ea. reflexivity.
      * split; [apply q_ok_unwait, Hok|]. split; [reflexivity|].
        intros x' Hx'. unfold unwait in Hx'. rewrite (get_actor_upd_same _ _ _ _ Hx) in Hx'. injection Hx' as <-.
        split.
        -- cbn. intros Hin. apply in_app_or in Hin. destruct Hin as [Hin|Hin].
           ++ apply (not_in_remove_nat o _ Hin).
           ++ apply is_granted_in in Hin. congruence.
        -- exists x. split; reflexivity.
    + split; [exact Hok|]. split; [reflexivity|]. intros x' Hx'. congruence.
  - split; [exact Hok|]. split; [reflexivity|]. intros x' Hx'. split.
    + intros Hin. pose proof (waiting_is_pre s o p x' Hok Hp Hx' Hin). congruence.
    + exists x'. split; [exact Hx'|reflexivity].
  - split; [exact Hok|]. split; [reflexivity|]. intros x' Hx'. split.
    + intros Hin. pose proof (waiting_is_pre s o p x' Hok Hp Hx' Hin). congruence.
    + exists x'. split; [exact Hx'|reflexivity].
Qed.

(* cancel, then finish with a result other than Err(Send) *)
Lemma q_ok_cancel_finish s o p r (w : sys -> sys) :
  q_ok s -> get_op s o = Some p -> o_id p = o -> r <> RErr ESend ->
  (o_ph p = OPre \/ o_ph p = OWaitReply) ->
  (forall s', q_ok s' -> q_ok (w s')) ->
  (forall s' o', get_op (w s') o' = get_op s' o') ->
  (forall s' b, get_actor (w s') b = get_actor s' b) ->
  q_ok (finish o r (w (cancel_inner p s))).
Proof.
  intros Hok Hp Hid Hr Hph Hw1 Hw2 Hw3.
  destruct (q_ok_cancel_inner s o p Hok Hp Hid) as (Hok1 & Hops & Hact).
  eapply q_ok_finish.
  - apply Hw1, Hok1.
  - rewrite Hw2, Hops. exact Hp.
  - intros x' Hx'. rewrite Hw3 in Hx'. apply (Hact x' Hx').
  - intros x' Hx' Hin. rewrite Hw3 in Hx'. destruct (Hact x' Hx') as (_ & x & Hx & Ea).
    rewrite Ea in Hin. destruct (accepted_kind s o p x _ Hok Hp Hx Hin) as (_ & Hacc).
    destruct Hph as [Hph|Hph]; rewrite Hph in Hacc.
    + destruct (o_kind p); cbn in Hacc; try discriminate. destruct Hacc as [E|(r' & E & _)]; discriminate.
    + apply accepted_phase_finish_ask; assumption.
Qed.

Lemma q_ok_poll_inner s o p :
  q_ok s -> get_op s o = Some p -> o_id p = o -> q_ok (poll_inner p s).
Proof.
  intros Hok Hp Hid. unfold poll_inner. rewrite Hid.
  destruct (get_actor s (o_tgt p)) as [x|] eqn:Hx; [|exact Hok].
  pose proof Hok as (H1 & _). destruct (H1 _ x Hx) as [q1 q2 p1 p2 nd].
  apply nodup_app in nd as nd'. destruct nd' as (n1 & n2 & n3).
  destruct (o_ph p) eqn:Hph.
  - destruct (a_closed x) eqn:Hc.
    + apply q_ok_send_failed.
      * eapply q_ok_closed_remove; eassumption.
      * rewrite Hid. exact Hp.
      * exact Hph.
      * intros x' Hx'. rewrite Hid. unfold unwait, ungrant in Hx'. rewrite upd_actor_compose in Hx'.
        rewrite (get_actor_upd_same _ _ _ _ Hx) in Hx'. injection Hx' as <-. cbn.
        intros Hin. apply in_app_or in Hin. destruct Hin as [Hin|Hin]; apply (not_in_remove_nat o _ Hin).
    + destruct (is_granted x o) eqn:Hg; [|exact Hok].
      apply is_granted_in in Hg. unfold ungrant.
      eapply (q_ok_accept s (o_tgt p) o (o_kind p) x p); try reflexivity; try assumption.
      * intros Hin. apply (n3 o Hin Hg).
      * left; exact Hg.
  - assert (Hnw : forall x', get_actor s (o_tgt p) = Some x' -> ~ In o (a_waiters x' ++ a_granted x')).
    { intros x' Hx' Hin. pose proof (waiting_is_pre s o p x' Hok Hp Hx' Hin). congruence. }
    assert (Hacc : forall r, r <> RErr ESend -> forall x', get_actor s (o_tgt p) = Some x' ->
               In (o, o_kind p) (a_accepted x') -> accepted_phase (o_kind p) (ODone r)).
    { intros r Hr x' Hx' Hin. destruct (accepted_kind s o p x' _ Hok Hp Hx' Hin) as (_ & Ha).
      rewrite Hph in Ha. apply accepted_phase_finish_ask; assumption. }
    destruct (o_slot p).
    + exact Hok.
    + eapply q_ok_finish; [exact Hok|exact Hp|exact Hnw|apply Hacc; discriminate].
    + eapply q_ok_finish.
      * apply q_ok_record_dl, Hok.
      * rewrite record_dl_get_op. exact Hp.
      * intros x' Hx'. rewrite record_dl_get_actor in Hx'. apply Hnw, Hx'.
      * intros x' Hx'. rewrite record_dl_get_actor in Hx'. apply Hacc; [discriminate|exact Hx'].
  - exact Hok.
Qed.

Lemma q_ok_post_inner s o : q_ok s -> q_ok (post_inner o s).
Proof.
  intros Hok. unfold post_inner.
  destruct (get_op s o) as [p|] eqn:Hp; [|exact Hok].
  destruct (is_done (o_ph p)) eqn:Hd; [exact Hok|].
  destruct (expired p s); [|exact Hok].
  pose proof (get_op_id s o p Hp) as Hid.
  apply (q_ok_cancel_finish s o p (RErr ETimeout) (record_dl (o_tgt p) o (o_fn p) CxElapsed)); try assumption.
  - discriminate.
  - destruct (o_ph p); [left|right|discriminate]; reflexivity.
  - intros s' H. apply q_ok_record_dl, H.
  - intros s' o'. apply record_dl_get_op.
  - intros s' b. apply record_dl_get_actor.
Qed.

Lemma q_ok_poll s o : q_ok s -> q_ok (poll o s).
Proof.
  intros Hok. unfold poll. destruct (get_op s o) as [p|] eqn:Hp; [|exact Hok].
  destruct (is_done (o_ph p)); [exact Hok|].
  apply q_ok_post_inner. eapply q_ok_poll_inner; [exact Hok|exact Hp|eapply get_op_id; exact Hp].
Qed.

Lemma q_ok_cancel s o : q_ok s -> q_ok (cancel o s).
Proof.
  intros Hok. unfold cancel. destruct (get_op s o) as [p|] eqn:Hp; [|exact Hok].
  destruct (is_done (o_ph p)) eqn:Hd; [exact Hok|].
  destruct (o_caller p); [exact Hok|].
  pose proof (get_op_id s o p Hp) as Hid.
  apply (q_ok_cancel_finish s o p RCancelled (fun s' => s')); try assumption; try reflexivity.
  - discriminate.
  - destruct (o_ph p); [left|right|discriminate]; reflexivity.
  - intros s' H; exact H.
Qed.

(* ---------- the actor task ---------- *)
Lemma q_ok_finish_task s a r : q_ok s -> q_ok (finish_task a r s).
Proof.
  intros Hok. unfold finish_task.
  eapply q_ok_qsame; [apply qsame_emit, qsame_refl|].
  apply q_ok_end_actor.
  eapply q_ok_qsame; [|exact Hok]. apply qsame_upd_actor; [reflexivity|apply qsame_refl].
Qed.

Lemma q_ok_panic_actor s a : q_ok s -> q_ok (panic_actor a s).
Proof.
  intros Hok. unfold panic_actor. destruct (get_actor s a) as [x|]; [|exact Hok].
  apply q_ok_finish_task. destruct (a_pc x); try exact Hok.
  eapply q_ok_qsame; [|exact Hok]. apply qsame_metrics_record.
  destruct k; try apply qsame_refl. apply qsame_close_slots, qsame_refl.
Qed.

Lemma q_ok_start_done s a out : q_ok s -> q_ok (start_done a out s).
Proof.
  intros Hok. unfold start_done. destruct (get_actor s a) as [x|]; [|exact Hok].
  destruct (a_pc x); try exact Hok. destruct (hop_free x); [|exact Hok].
  destruct out.
  - eapply q_ok_qsame; [|exact Hok]. apply qsame_upd_actor; [reflexivity|apply qsame_emit, qsame_refl].
  - apply q_ok_finish_task. exact Hok.
  - apply q_ok_panic_actor. exact Hok.
  - eapply q_ok_qsame; [|exact Hok]. apply qsame_upd_actor; [reflexivity|apply qsame_emit, qsame_refl].
Qed.

Lemma q_ok_enter_stop s a k c : q_ok s -> q_ok (enter_stop a k c s).
Proof. intros Hok. eapply q_ok_qsame; [apply qsame_enter_stop, qsame_refl|exact Hok]. Qed.

Lemma q_ok_poll_branch s a ro : q_ok s -> q_ok (poll_branch a ro s).
Proof.
  intros Hok. unfold poll_branch. destruct (get_actor s a) as [x|] eqn:Hx; [|exact Hok].
  destruct (a_pc x) as [| |rest| | | |]; try exact Hok. destruct rest as [|b rest]; [exact Hok|].
  assert (Hnext : q_ok (upd_actor a (set_a_pc (after_branch rest)) s)).
  { eapply q_ok_qsame; [|exact Hok]. apply qsame_upd_actor; [reflexivity|apply qsame_refl]. }
  destruct b.
  - destruct (a_term x).
    + apply q_ok_enter_stop. eapply q_ok_qsame; [|exact Hok]. apply qsame_upd_actor; [reflexivity|apply qsame_refl].
    + destruct (refs_gone s a x); [apply q_ok_enter_stop, Hok|exact Hnext].
  - destruct (a_mbox x) as [|[o k] tl] eqn:Hm.
    + destruct (refs_gone s a x); [apply q_ok_enter_stop, Hok|exact Hnext].
    + assert (Htake : q_ok (take a (o, k) tl s)) by (eapply q_ok_take; eassumption).
      destruct k.
      * eapply q_ok_qsame; [|exact Htake]. apply qsame_emit, qsame_upd_actor; [reflexivity|apply qsame_refl].
      * eapply q_ok_qsame; [|exact Htake]. apply qsame_emit, qsame_upd_actor; [reflexivity|apply qsame_refl].
      * apply q_ok_enter_stop, Htake.
  - destruct (run_guarded && negb (a_idle x)); [exact Hnext|].
    destruct ro.
    + eapply q_ok_qsame; [|exact Hok]. apply qsame_upd_actor; [reflexivity|apply qsame_emit, qsame_refl].
    + eapply q_ok_qsame; [|exact Hok]. apply qsame_emit, qsame_upd_actor; [reflexivity|apply qsame_emit, qsame_refl].
    + eapply q_ok_qsame; [|exact Hok]. apply qsame_emit, qsame_upd_actor; [reflexivity|apply qsame_emit, qsame_refl].
    + apply q_ok_enter_stop. eapply q_ok_qsame; [|exact Hok].
      apply qsame_emit, qsame_upd_actor; [reflexivity|apply qsame_emit, qsame_refl].
    + apply q_ok_panic_actor. exact Hok.
Qed.

Lemma q_ok_handle_done s a out : q_ok s -> q_ok (handle_done a out s).
Proof.
  intros Hok. unfold handle_done. destruct (get_actor s a) as [x|]; [|exact Hok].
  destruct (a_pc x); try exact Hok. destruct (hop_free x); [|exact Hok].
  assert (Hgen : q_ok (upd_actor a (set_a_pc PIdle) (metrics_record a
            match k with
            | KAsk => upd_op o (fun p => match o_slot p with SlEmpty => set_o_slot (SlVal (hval out)) p | _ => p end)
                        (emit (EvHandleExit a o out) s)
            | KTell => emit (EvTellResult a o) (emit (EvHandleExit a o out) s)
            | KStop => emit (EvHandleExit a o out) s end))).
  { eapply q_ok_qsame; [|exact Hok]. apply qsame_upd_actor; [reflexivity|]. apply qsame_metrics_record.
    destruct k.
    - apply qsame_emit, qsame_emit, qsame_refl.
    - apply qsame_upd_op; [intros p; destruct (o_slot p); reflexivity|apply qsame_emit, qsame_refl].
    - apply qsame_emit, qsame_refl. }
  destruct out; try exact Hgen. apply q_ok_panic_actor. exact Hok.
Qed.

Lemma q_ok_stop_done s a out : q_ok s -> q_ok (stop_done a out s).
Proof.
  intros Hok. unfold stop_done. destruct (get_actor s a) as [x|]; [|exact Hok].
  destruct (a_pc x); try exact Hok. destruct (hop_free x); [|exact Hok].
  destruct out; try (apply q_ok_finish_task; exact Hok). apply q_ok_panic_actor. exact Hok.
Qed.

Lemma fresh_not_waiting s o b x :
  q_ok s -> get_op s o = None -> get_actor s b = Some x -> ~ In o (a_waiters x ++ a_granted x).
Proof.
  intros (_ & _ & H3) Hf Hx Hin. destruct (H3 b x o Hx Hin) as (p & Hp & _). congruence.
Qed.

Lemma qsame_waiting s s' b x' :
  qsame s s' -> get_actor s' b = Some x' ->
  exists x, get_actor s b = Some x /\ a_waiters x' = a_waiters x /\ a_granted x' = a_granted x.
Proof.
  intros Hq Hx'. destruct (qa_get s s' b x' Hq Hx') as (x & Hx & E). unfold qa in E.
  injection E as E1 E2 E3 E4 E5 E6 E7. exists x. repeat split; assumption.
Qed.

Lemma q_ok_begin s o k a caller tmo fn : q_ok s -> q_ok (begin o k a caller tmo fn s).
Proof.
  intros Hok. unfold begin.
  destruct (get_op s o) eqn:Hfresh; [exact Hok|].
  destruct (get_actor s a) as [x|] eqn:Hx; [|exact Hok].
  destruct (caller_ok s caller && (0 <? a_ext x)); [|exact Hok].
  set (s0 := emit (EvBegin o k a) s).
  assert (Hgen : forall tr g,
            (forall st, qsame st (g st)) ->
            (forall st o', get_op (g st) o' = get_op st o') ->
            let p := mkOp o k a fn caller
                       match tmo with Some d => Some (s_now s0 + d)%N | None => None end OPre SlEmpty tr in
            q_ok (post_inner o (try_send p (set_hop caller o (g (set_s_ops (s_ops s0 ++ [p]) s0)))))).
  { intros tr g Hg1 Hg2 p.
    set (s1 := set_s_ops (s_ops s0 ++ [p]) s0).
    assert (Hok1 : q_ok s1) by (apply (q_ok_add_op s0 p); [exact Hok|exact Hfresh]).
    assert (Hq : qsame s1 (set_hop caller o (g s1))) by (apply qsame_set_hop, Hg1).
    apply q_ok_post_inner. apply q_ok_try_send.
    - eapply q_ok_qsame; [exact Hq|exact Hok1].
    - unfold set_hop. destruct caller; [rewrite get_op_upd_actor|]; rewrite Hg2; unfold s1;
        rewrite get_op_app; change (get_op s0 (o_id p)) with (get_op s o); rewrite Hfresh; cbn; rewrite Nat.eqb_refl; reflexivity.
    - reflexivity.
    - intros x' Hx'. destruct (qsame_waiting _ _ _ x' Hq Hx') as (x1 & Hx1 & Ew & Eg).
      rewrite Ew, Eg. change (get_actor s1 (o_tgt p)) with (get_actor s (o_tgt p)) in Hx1.
      eapply fresh_not_waiting; [exact Hok|exact Hfresh|exact Hx1]. }
  destruct (dd_check s k caller x) as [|b bid|b cyc].
  - apply (Hgen false (fun st => st)); [intros st; apply qsame_refl|reflexivity].
  - apply (Hgen true (fun st => set_s_graph (g_insert bid (a_id x) (s_graph s0)) st));
      [intros st; apply qsame_set_graph, qsame_refl|reflexivity].
  - apply q_ok_panic_actor. exact Hok.
Qed.

Theorem q_ok_step s l : q_ok s -> q_ok (sys_step s l).
Proof.
  intros Hok. destruct l; cbn [sys_step].
  - apply q_ok_spawn, Hok.
  - apply q_ok_begin, Hok.
  - apply q_ok_poll, Hok.
  - apply q_ok_cancel, Hok.
  - eapply q_ok_qsame; [apply qsame_kill, qsame_refl|exact Hok].
  - eapply q_ok_qsame; [apply qsame_ref_clone, qsame_refl|exact Hok].
  - eapply q_ok_qsame; [apply qsame_ref_drop, qsame_refl|exact Hok].
  - eapply q_ok_qsame; [apply qsame_ref_upgrade, qsame_refl|exact Hok].
  - exact Hok.
  - apply q_ok_start_done, Hok.
  - eapply q_ok_qsame; [apply qsame_pass_begin, qsame_refl|exact Hok].
  - apply q_ok_poll_branch, Hok.
  - apply q_ok_handle_done, Hok.
  - apply q_ok_stop_done, Hok.
Qed.

Lemma q_ok_init f : q_ok (init f).
Proof.
  split; [|split]; intros a x; intros; unfold get_actor in *; cbn in *; destruct a; discriminate.
Qed.

Theorem q_ok_run f ls : q_ok (run f ls).
Proof.
  unfold run. generalize (q_ok_init f). generalize (init f).
  induction ls as [|l ls IH]; intros s H; cbn [fold_left]; [exact H|].
  apply IH, q_ok_step, H.
Qed.
