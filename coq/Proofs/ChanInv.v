(* Invariants of the mailbox at permit granularity (Model/Chan.v), for every label sequence:
   permit conservation, nothing stranded when the exit protocol waits for the permits (and a
   stranded envelope when it does not), message conservation / at-most-once / per-sender order at
   this finer grain, and termination of the shutdown loop. *)
From Coq Require Import List Arith Bool Lia.
From RS Require Import Chan.
Import ListNotations.

Definition isheld (s : csender) : bool := match sn_st s with SHeld => true | SIdle => false end.
Definition hcount (l : list csender) : nat := length (filter isheld l).

Lemma held_hcount c : held c = hcount (c_senders c).
Proof. reflexivity. Qed.

Lemma hcount_app a b : hcount (a ++ b) = hcount a + hcount b.
Proof. unfold hcount. rewrite filter_app, app_length. reflexivity. Qed.

Lemma hcount_cons s l : hcount (s :: l) = (if isheld s then 1 else 0) + hcount l.
Proof. unfold hcount. cbn [filter]. destruct (isheld s); reflexivity. Qed.

Lemma nth_error_split_eq {A} (l : list A) i x :
  nth_error l i = Some x -> l = firstn i l ++ x :: skipn (S i) l.
Proof.
  revert i. induction l as [|y l IH]; intros [|i] H; cbn in *; try discriminate.
  - injection H as ->. reflexivity.
  - f_equal. apply IH. exact H.
Qed.

Lemma hcount_replace l i s s' :
  nth_error l i = Some s ->
  hcount (firstn i l ++ s' :: skipn (S i) l) + (if isheld s then 1 else 0)
  = hcount l + (if isheld s' then 1 else 0).
Proof.
  intros H. rewrite (nth_error_split_eq l i s H) at 3.
  rewrite !hcount_app, !hcount_cons. lia.
Qed.

Lemma nth_error_replace_same {A} (l : list A) i x y :
  nth_error l i = Some x -> nth_error (firstn i l ++ y :: skipn (S i) l) i = Some y.
Proof.
  intros H. assert (Hl : i < length l) by (apply nth_error_Some; congruence).
  rewrite nth_error_app2; rewrite firstn_length_le by lia; [|lia].
  rewrite Nat.sub_diag. reflexivity.
Qed.

Lemma nth_error_replace_other {A} (l : list A) i j x y :
  nth_error l i = Some x -> j <> i -> nth_error (firstn i l ++ y :: skipn (S i) l) j = nth_error l j.
Proof.
  intros H Hne. assert (Hl : i < length l) by (apply nth_error_Some; congruence).
  rewrite (nth_error_split_eq l i x H) at 3.
  destruct (Nat.lt_ge_cases j i) as [Hlt|Hge].
  - rewrite !nth_error_app1 by (rewrite firstn_length_le; lia). reflexivity.
  - rewrite !nth_error_app2 by (rewrite firstn_length_le; lia).
    rewrite firstn_length_le by lia. destruct (j - i) as [|d] eqn:E; [lia|]. reflexivity.
Qed.

Lemma replace_length {A} (l : list A) i x y :
  nth_error l i = Some x -> length (firstn i l ++ y :: skipn (S i) l) = length l.
Proof.
  intros H. rewrite (nth_error_split_eq l i x H) at 3. rewrite !app_length. reflexivity.
Qed.

(* ------------------------------------------------------------------ permits and phases *)
Record pinv (w : bool) (c : chan) : Prop := {
  pi_perm : c_free c + length (c_queue c) + held c + length (c_stranded c) = c_cap c;
  pi_run : c_phase c = RRunning -> c_closed c = false /\ c_dropped c = [] /\ c_stranded c = [];
  pi_drain : c_phase c = RDraining -> c_closed c = true /\ c_stranded c = [];
  pi_exit : c_phase c = RExited -> c_closed c = true /\ c_queue c = [];
  pi_waits : w = true -> c_phase c = RExited -> held c = 0;
  pi_nostr : w = true -> c_stranded c = []
}.

Lemma hcount_init n : hcount (repeat (mkSender 0 SIdle [] []) n) = 0.
Proof. induction n as [|n IH]; [reflexivity|]. cbn [repeat]. rewrite hcount_cons, IH. reflexivity. Qed.

Lemma pinv_init w cap n : pinv w (init_chan cap n).
Proof.
  split; unfold init_chan; cbn [c_free c_queue c_cap c_stranded c_phase c_closed c_dropped c_senders length];
    rewrite ?held_hcount; cbn [c_senders]; rewrite ?hcount_init; try discriminate; auto.
  lia.
Qed.

Ltac proj :=
  cbn [c_free c_queue c_cap c_stranded c_phase c_closed c_dropped c_senders c_handled set_sender with_free] in *;
  rewrite ?held_hcount in *;
  cbn [c_free c_queue c_cap c_stranded c_phase c_closed c_dropped c_senders c_handled set_sender with_free] in *.

Ltac keep I0 :=
  first [exact (pi_run _ _ I0) | exact (pi_drain _ _ I0) | exact (pi_exit _ _ I0)
        | exact (pi_nostr _ _ I0) | exact (pi_waits _ _ I0) | assumption].

Ltac use_refl :=
  repeat match goal with
         | H : ?a = ?a -> _ |- _ => specialize (H eq_refl)
         | H : ?a = ?b -> _, E : ?a = ?b |- _ => specialize (H E)
         end.
Ltac pfin :=
  intros; use_refl; repeat match goal with H : _ /\ _ |- _ => destruct H end;
  repeat split; try assumption; try congruence; try lia.
Ltac pcase I0 := split; proj; rewrite ?app_length; cbn [length] in *; try keep I0; pfin.

Lemma pinv_step w c l : pinv w c -> pinv w (cstep w c l).
Proof.
  intros I. pose proof I as I0. destruct I as [Hp Hr Hd He Hw Hn].
  destruct l as [i|i|i|i| | | |]; cbn [cstep].
  - (* acquire *)
    destruct (nth_error (c_senders c) i) as [s|] eqn:E; [|exact I0].
    destruct (sn_st s) eqn:Es; [|exact I0].
    destruct (c_closed c) eqn:Ec; [exact I0|].
    destruct (c_free c) as [|f] eqn:Ef; [exact I0|].
    pose proof (hcount_replace _ i s (mkSender (sn_next s) SHeld (sn_ok s) (sn_err s)) E) as Hc.
    unfold isheld in Hc; cbn [sn_st] in Hc; rewrite Es in Hc.
    pcase I0.
  - (* fail *)
    destruct (nth_error (c_senders c) i) as [s|] eqn:E; [|exact I0].
    destruct (sn_st s) eqn:Es; [|exact I0].
    destruct (c_closed c) eqn:Ec; [|exact I0].
    pose proof (hcount_replace _ i s (mkSender (S (sn_next s)) SIdle (sn_ok s) (sn_next s :: sn_err s)) E) as Hc.
    unfold isheld in Hc; cbn [sn_st] in Hc; rewrite Es in Hc.
    pcase I0.
  - (* push *)
    destruct (nth_error (c_senders c) i) as [s|] eqn:E; [|exact I0].
    destruct (sn_st s) eqn:Es; [exact I0|].
    pose proof (hcount_replace _ i s (mkSender (S (sn_next s)) SIdle (sn_next s :: sn_ok s) (sn_err s)) E) as Hc.
    unfold isheld in Hc; cbn [sn_st] in Hc; rewrite Es in Hc.
    assert (Hpos : 0 < hcount (c_senders c)).
    { rewrite (nth_error_split_eq _ _ _ E), hcount_app, hcount_cons. unfold isheld. rewrite Es. lia. }
    destruct (c_phase c) eqn:Eph; pcase I0.
  - (* give back *)
    destruct (nth_error (c_senders c) i) as [s|] eqn:E; [|exact I0].
    destruct (sn_st s) eqn:Es; [exact I0|].
    pose proof (hcount_replace _ i s (mkSender (S (sn_next s)) SIdle (sn_ok s) (sn_next s :: sn_err s)) E) as Hc.
    unfold isheld in Hc; cbn [sn_st] in Hc; rewrite Es in Hc.
    pcase I0.
  - (* recv *)
    destruct (c_phase c) eqn:Eph; try exact I0.
    destruct (c_queue c) as [|m q] eqn:Eq; [exact I0|].
    pcase I0.
  - (* close *)
    destruct (c_phase c) eqn:Eph; try exact I0.
    pcase I0.
  - (* drain *)
    destruct (c_phase c) eqn:Eph; try exact I0.
    destruct (c_queue c) as [|m q] eqn:Eq; [exact I0|].
    pcase I0.
  - (* exit *)
    destruct (c_phase c) eqn:Eph; try exact I0.
    destruct (c_queue c) as [|m q] eqn:Eq; [|exact I0].
    destruct (negb w || Nat.eqb (c_free c) (c_cap c)) eqn:Ex; [|exact I0].
    pcase I0.
    subst w. cbn in Ex. apply Nat.eqb_eq in Ex. lia.
Qed.

Theorem pinv_run w cap n ls : pinv w (crun w cap n ls).
Proof.
  unfold crun. generalize (pinv_init w cap n). generalize (init_chan cap n).
  induction ls as [|l ls IH]; intros c I; cbn [fold_left]; [exact I|].
  apply IH. apply pinv_step. exact I.
Qed.

Lemma cap_const w c l : c_cap (cstep w c l) = c_cap c.
Proof.
  destruct l as [i|i|i|i| | | |]; cbn [cstep];
    repeat match goal with
           | |- context [match ?e with _ => _ end] => destruct e
           | |- context [if ?e then _ else _] => destruct e
           end; reflexivity.
Qed.

(* ------------------------------------------------------------------ the old protocol strands *)
Definition strand_witness : list clabel := [KAcquire 0; KClose; KExit; KPush 0].

Lemma old_protocol_strands : c_stranded (crun false 1 1 strand_witness) = [(0, 0)].
Proof. reflexivity. Qed.

(* ... and the very same schedule is harmless under the new one: the exit test fails while the
   permit is out, the push lands in the queue, the drain drops it, then the loop exits *)
Lemma new_protocol_same_schedule :
  let c := crun true 1 1 (strand_witness ++ [KDrain; KExit]) in
  c_stranded c = [] /\ c_dropped c = [(0, 0)] /\ c_phase c = RExited.
Proof. repeat split. Qed.

(* ------------------------------------------------------------------ the shutdown loop ends *)
(* measure of the work left for the loop; no step of anybody raises it once the channel is closed,
   every step of a holder or of the drain lowers it, and when it is zero the exit test succeeds *)
Definition drain_measure (c : chan) : nat := 2 * held c + length (c_queue c).

Lemma drain_measure_step w c l :
  pinv w c -> c_phase c = RDraining ->
  drain_measure (cstep w c l) <= drain_measure c /\ (c_phase (cstep w c l) = RDraining \/ c_phase (cstep w c l) = RExited).
Proof.
  intros I Hph. destruct I as [Hp Hr Hd He Hw Hn]. destruct (Hd Hph) as (Hcl & _).
  unfold drain_measure. rewrite !held_hcount.
  destruct l as [i|i|i|i| | | |]; cbn [cstep]; rewrite ?Hph, ?Hcl.
  - destruct (nth_error (c_senders c) i) as [s|]; [|auto]. destruct (sn_st s); auto.
  - destruct (nth_error (c_senders c) i) as [s|] eqn:E; [|auto]. destruct (sn_st s) eqn:Es; [|auto].
    pose proof (hcount_replace _ i s (mkSender (S (sn_next s)) SIdle (sn_ok s) (sn_next s :: sn_err s)) E) as Hc.
    unfold isheld in Hc; cbn [sn_st] in Hc; rewrite Es in Hc. proj. split; [lia|auto].
  - destruct (nth_error (c_senders c) i) as [s|] eqn:E; [|auto]. destruct (sn_st s) eqn:Es; [auto|].
    pose proof (hcount_replace _ i s (mkSender (S (sn_next s)) SIdle (sn_next s :: sn_ok s) (sn_err s)) E) as Hc.
    unfold isheld in Hc; cbn [sn_st] in Hc; rewrite Es in Hc. proj. rewrite app_length. cbn [length]. split; [lia|auto].
  - destruct (nth_error (c_senders c) i) as [s|] eqn:E; [|auto]. destruct (sn_st s) eqn:Es; [auto|].
    pose proof (hcount_replace _ i s (mkSender (S (sn_next s)) SIdle (sn_ok s) (sn_next s :: sn_err s)) E) as Hc.
    unfold isheld in Hc; cbn [sn_st] in Hc; rewrite Es in Hc. proj. split; [lia|auto].
  - auto.
  - auto.
  - destruct (c_queue c) as [|m q] eqn:Eq; [rewrite ?Eq; split; [lia|auto]|]. proj. cbn [length]. split; [lia|auto].
  - destruct (c_queue c) as [|m q] eqn:Eq; [|rewrite ?Eq; split; [lia|auto]].
    destruct (negb w || Nat.eqb (c_free c) (c_cap c)); proj; rewrite ?Eq; split; try lia; auto.
Qed.

Lemma drain_progress w c :
  pinv w c -> c_phase c = RDraining ->
  (drain_measure c = 0 -> c_phase (cstep w c KExit) = RExited) /\
  (0 < length (c_queue c) -> drain_measure (cstep w c KDrain) < drain_measure c) /\
  (forall i s, nth_error (c_senders c) i = Some s -> sn_st s = SHeld ->
               drain_measure (cstep w c (KPush i)) < drain_measure c /\
               drain_measure (cstep w c (KGiveBack i)) < drain_measure c) /\
  (0 < drain_measure c -> 0 < length (c_queue c) \/ exists i s, nth_error (c_senders c) i = Some s /\ sn_st s = SHeld).
Proof.
  intros I Hph. destruct I as [Hp Hr Hd He Hw Hn]. destruct (Hd Hph) as (Hcl & Hst).
  unfold drain_measure. rewrite !held_hcount. repeat split.
  - intros Hz. cbn [cstep]. rewrite Hph. destruct (c_queue c) as [|m q] eqn:Eq; [|cbn in Hz; lia].
    rewrite held_hcount, Hst in Hp. cbn in Hp, Hz.
    assert (Ef : Nat.eqb (c_free c) (c_cap c) = true) by (apply Nat.eqb_eq; lia).
    rewrite Ef, orb_true_r. reflexivity.
  - intros Hq. cbn [cstep]. rewrite Hph. destruct (c_queue c) as [|m q] eqn:Eq; [cbn in Hq; lia|]. proj. cbn [length]. lia.
  - rewrite ?held_hcount. cbn [cstep]. rewrite H, H0, Hph.
    pose proof (hcount_replace _ i s (mkSender (S (sn_next s)) SIdle (sn_next s :: sn_ok s) (sn_err s)) H) as Hc.
    unfold isheld in Hc; cbn [sn_st] in Hc; rewrite H0 in Hc. proj. rewrite app_length. cbn [length]. lia.
  - rewrite ?held_hcount. cbn [cstep]. rewrite H, H0.
    pose proof (hcount_replace _ i s (mkSender (S (sn_next s)) SIdle (sn_ok s) (sn_next s :: sn_err s)) H) as Hc.
    unfold isheld in Hc; cbn [sn_st] in Hc; rewrite H0 in Hc. proj. lia.
  - intros Hpos. destruct (c_queue c) as [|m q]; [right|left; cbn; lia].
    cbn in Hpos. assert (Hh : 0 < hcount (c_senders c)) by lia. clear - Hh.
    induction (c_senders c) as [|s l IH]; [cbn in Hh; lia|].
    rewrite hcount_cons in Hh. destruct (isheld s) eqn:Es.
    + exists 0, s. split; [reflexivity|]. unfold isheld in Es. destruct (sn_st s); [discriminate|reflexivity].
    + destruct IH as (i & s' & Hi & Hs'); [lia|]. exists (S i), s'. split; assumption.
Qed.

(* ------------------------------------------------------------------ messages *)
(* every message ever pushed, in push order *)
Definition call (c : chan) : list cmsg := c_handled c ++ c_dropped c ++ c_queue c ++ c_stranded c.

(* messages of one sender appear with increasing sequence numbers *)
Definition ordered (l : list cmsg) : Prop :=
  forall a b d i k1 k2, l = a ++ (i, k1) :: b ++ (i, k2) :: d -> k1 < k2.

Lemma ordered_nil : ordered [].
Proof. intros a b d i k1 k2 H. destruct a; discriminate. Qed.

Lemma app_eq_snoc {A} (l : list A) x a y d :
  l ++ [x] = a ++ y :: d ->
  (d = [] /\ x = y /\ l = a) \/ (exists d', d = d' ++ [x] /\ l = a ++ y :: d').
Proof.
  intros H. destruct (@exists_last _ (y :: d)) as (d0 & z & E); [discriminate|].
  rewrite E, app_assoc in H. apply app_inj_tail in H. destruct H as (H1 & H2). subst z.
  destruct d0 as [|y0 d0]; cbn [app] in E.
  - left. injection E as E1 E2. subst. rewrite app_nil_r. auto.
  - right. injection E as E1 E2. subst y0. exists d0. split; [exact E2|exact H1].
Qed.

Lemma ordered_snoc l i n :
  ordered l -> (forall k, In (i, k) l -> k < n) -> ordered (l ++ [(i, n)]).
Proof.
  intros Ho Hb a b d j k1 k2 H.
  change (a ++ (j, k1) :: b ++ (j, k2) :: d) with (a ++ (j, k1) :: (b ++ (j, k2) :: d)) in H.
  assert (H' : l ++ [(i, n)] = (a ++ (j, k1) :: b) ++ (j, k2) :: d).
  { rewrite H, <- app_assoc. reflexivity. }
  apply app_eq_snoc in H'. destruct H' as [(Hd & Hx & Hl)|(d' & Hd & Hl)].
  - injection Hx as <- <-. apply Hb. rewrite Hl. apply in_or_app. right. left. reflexivity.
  - eapply Ho. rewrite Hl, <- app_assoc. reflexivity.
Qed.

Lemma ordered_prefix l r : ordered (l ++ r) -> ordered l.
Proof.
  intros Ho a b d i k1 k2 H. eapply (Ho a b (d ++ r)). rewrite H, <- app_assoc. cbn.
  f_equal. rewrite <- app_assoc. reflexivity.
Qed.

Lemma ordered_tail x l : ordered (x :: l) -> ordered l.
Proof. intros Ho a b d i k1 k2 H. eapply (Ho (x :: a) b d). rewrite H. reflexivity. Qed.

Lemma ordered_NoDup l : ordered l -> NoDup l.
Proof.
  induction l as [|[i k] l IH]; intros Ho; constructor.
  - intros Hin. apply in_split in Hin. destruct Hin as (b & d & E).
    specialize (Ho [] b d i k k). cbn in Ho. rewrite E in Ho. specialize (Ho eq_refl). lia.
  - apply IH. eapply ordered_tail. exact Ho.
Qed.

Record minv (c : chan) : Prop := {
  mi_ord : ordered (call c);
  mi_ok : forall i s, nth_error (c_senders c) i = Some s -> forall k, In (i, k) (call c) <-> In k (sn_ok s);
  mi_lt_ok : forall i s, nth_error (c_senders c) i = Some s -> forall k, In k (sn_ok s) -> k < sn_next s;
  mi_lt_err : forall i s, nth_error (c_senders c) i = Some s -> forall k, In k (sn_err s) -> k < sn_next s;
  mi_owner : forall i k, In (i, k) (call c) -> i < length (c_senders c)
}.

Lemma minv_init cap n : minv (init_chan cap n).
Proof.
  split; cbn.
  - apply ordered_nil.
  - intros i s H k. apply nth_error_In, repeat_spec in H. subst s. cbn. tauto.
  - intros i s H k. apply nth_error_In, repeat_spec in H. subst s. cbn. tauto.
  - intros i s H k. apply nth_error_In, repeat_spec in H. subst s. cbn. tauto.
  - intros i k [].
Qed.

(* a step that changes sender i only in its bookkeeping (not in sn_ok) and leaves [call] alone *)
Lemma minv_bookkeeping c c' i s s' :
  minv c -> nth_error (c_senders c) i = Some s ->
  c_senders c' = firstn i (c_senders c) ++ s' :: skipn (S i) (c_senders c) ->
  call c' = call c -> sn_ok s' = sn_ok s -> sn_next s <= sn_next s' ->
  (forall k, In k (sn_err s') -> k < sn_next s') ->
  minv c'.
Proof.
  intros [Ho Hok Hlo Hle Hown] E Es Ec Eok Hn Herr. split.
  - rewrite Ec. exact Ho.
  - intros j t Hj k. rewrite Ec. rewrite Es in Hj. destruct (Nat.eq_dec j i) as [->|Hne].
    + rewrite (nth_error_replace_same _ _ _ _ E) in Hj. injection Hj as <-. rewrite Eok. apply Hok. exact E.
    + rewrite (nth_error_replace_other _ _ _ _ _ E Hne) in Hj. apply Hok. exact Hj.
  - intros j t Hj k Hk. rewrite Es in Hj. destruct (Nat.eq_dec j i) as [->|Hne].
    + rewrite (nth_error_replace_same _ _ _ _ E) in Hj. injection Hj as <-. rewrite Eok in Hk.
      specialize (Hlo _ _ E _ Hk). lia.
    + rewrite (nth_error_replace_other _ _ _ _ _ E Hne) in Hj. eapply Hlo; eassumption.
  - intros j t Hj k Hk. rewrite Es in Hj. destruct (Nat.eq_dec j i) as [->|Hne].
    + rewrite (nth_error_replace_same _ _ _ _ E) in Hj. injection Hj as <-. apply Herr. exact Hk.
    + rewrite (nth_error_replace_other _ _ _ _ _ E Hne) in Hj. eapply Hle; eassumption.
  - intros j k Hk. rewrite Ec in Hk. rewrite Es, (replace_length _ _ _ _ E). eapply Hown. exact Hk.
Qed.

(* a step that only moves the head of the queue to the end of handled / dropped *)
Lemma minv_same_call c c' :
  minv c -> c_senders c' = c_senders c -> call c' = call c -> minv c'.
Proof.
  intros [Ho Hok Hlo Hle Hown] Es Ec. split; rewrite ?Es, ?Ec; assumption.
Qed.

Lemma minv_step w c l : pinv w c -> minv c -> minv (cstep w c l).
Proof.
  intros P I. destruct P as [Hp Hr Hd He Hw Hn].
  destruct l as [i|i|i|i| | | |]; cbn [cstep].
  - destruct (nth_error (c_senders c) i) as [s|] eqn:E; [|exact I].
    destruct (sn_st s) eqn:Es; [|exact I]. destruct (c_closed c); [exact I|].
    destruct (c_free c) as [|f]; [exact I|].
    eapply (minv_bookkeeping c _ i s); try exact I; try exact E; try reflexivity; cbn; auto.
    destruct I as [_ _ _ Hle _]. intros k Hk. eapply Hle; eassumption.
  - destruct (nth_error (c_senders c) i) as [s|] eqn:E; [|exact I].
    destruct (sn_st s) eqn:Es; [|exact I]. destruct (c_closed c); [|exact I].
    eapply (minv_bookkeeping c _ i s); try exact I; try exact E; try reflexivity; cbn; auto.
    destruct I as [_ _ _ Hle _]. intros k [<-|Hk]; [lia|]. specialize (Hle _ _ E _ Hk). lia.
  - (* push *)
    destruct (nth_error (c_senders c) i) as [s|] eqn:E; [|exact I].
    destruct (sn_st s) eqn:Es; [exact I|].
    set (s' := mkSender (S (sn_next s)) SIdle (sn_next s :: sn_ok s) (sn_err s)).
    assert (Hcall : forall c', c_senders c' = firstn i (c_senders c) ++ s' :: skipn (S i) (c_senders c) ->
                               call c' = call c ++ [(i, sn_next s)] -> minv c').
    { intros c' Es' Ec. destruct I as [Ho Hok Hlo Hle Hown]. split.
      - rewrite Ec. apply ordered_snoc; [exact Ho|]. intros k Hk. apply (Hlo _ _ E). apply (Hok _ _ E). exact Hk.
      - intros j t Hj k. rewrite Ec, in_app_iff. rewrite Es' in Hj. destruct (Nat.eq_dec j i) as [->|Hne].
        + rewrite (nth_error_replace_same _ _ _ _ E) in Hj. injection Hj as <-. cbn.
          rewrite (Hok _ _ E k). split.
          * intros [H|[H|[]]]; [right; exact H|left; congruence].
          * intros [H|H]; [right; left; congruence|left; exact H].
        + rewrite (nth_error_replace_other _ _ _ _ _ E Hne) in Hj. rewrite (Hok _ _ Hj k). cbn. split.
          * intros [H|[H|[]]]; [exact H|congruence].
          * intros H. left. exact H.
      - intros j t Hj k Hk. rewrite Es' in Hj. destruct (Nat.eq_dec j i) as [->|Hne].
        + rewrite (nth_error_replace_same _ _ _ _ E) in Hj. injection Hj as <-. cbn in *.
          destruct Hk as [<-|Hk]; [lia|]. specialize (Hlo _ _ E _ Hk). lia.
        + rewrite (nth_error_replace_other _ _ _ _ _ E Hne) in Hj. eapply Hlo; eassumption.
      - intros j t Hj k Hk. rewrite Es' in Hj. destruct (Nat.eq_dec j i) as [->|Hne].
        + rewrite (nth_error_replace_same _ _ _ _ E) in Hj. injection Hj as <-. cbn in *.
          specialize (Hle _ _ E _ Hk). lia.
        + rewrite (nth_error_replace_other _ _ _ _ _ E Hne) in Hj. eapply Hle; eassumption.
      - intros j k Hk. rewrite Ec, in_app_iff in Hk. rewrite Es', (replace_length _ _ _ _ E).
        destruct Hk as [Hk|[Hk|[]]]; [eapply Hown; exact Hk|]. injection Hk as <- _.
        apply nth_error_Some. congruence. }
    destruct (c_phase c) eqn:Eph; apply Hcall; try reflexivity; unfold call; cbn.
    + destruct (Hr eq_refl) as (_ & Hdr & Hst). rewrite Hdr, Hst, !app_nil_r. cbn. rewrite <- !app_assoc. reflexivity.
    + destruct (Hd eq_refl) as (_ & Hst). rewrite Hst, !app_nil_r. rewrite <- !app_assoc. reflexivity.
    + rewrite <- !app_assoc. reflexivity.
  - destruct (nth_error (c_senders c) i) as [s|] eqn:E; [|exact I].
    destruct (sn_st s) eqn:Es; [exact I|].
    eapply (minv_bookkeeping c _ i s); try exact I; try exact E; try reflexivity; cbn; auto.
    destruct I as [_ _ _ Hle _]. intros k [<-|Hk]; [lia|]. specialize (Hle _ _ E _ Hk). lia.
  - destruct (c_phase c) eqn:Eph; try exact I. destruct (c_queue c) as [|m q] eqn:Eq; [exact I|].
    eapply minv_same_call; [exact I|reflexivity|]. unfold call. cbn. rewrite Eq.
    destruct (Hr eq_refl) as (_ & Hdr & _). rewrite Hdr. cbn. rewrite <- app_assoc. reflexivity.
  - destruct (c_phase c); try exact I. eapply minv_same_call; [exact I|reflexivity|reflexivity].
  - destruct (c_phase c) eqn:Eph; try exact I. destruct (c_queue c) as [|m q] eqn:Eq; [exact I|].
    eapply minv_same_call; [exact I|reflexivity|]. unfold call. cbn. rewrite Eq.
    rewrite <- !app_assoc. reflexivity.
  - destruct (c_phase c) eqn:Eph; try exact I. destruct (c_queue c) as [|m q] eqn:Eq; [|exact I].
    destruct (negb w || Nat.eqb (c_free c) (c_cap c)); [|exact I].
    eapply minv_same_call; [exact I|reflexivity|]. unfold call. cbn. rewrite Eq. reflexivity.
Qed.

Theorem minv_run w cap n ls : minv (crun w cap n ls).
Proof.
  unfold crun. generalize (minv_init cap n) (pinv_init w cap n). generalize (init_chan cap n).
  induction ls as [|l ls IH]; intros c I P; cbn [fold_left]; [exact I|].
  apply IH; [apply minv_step; assumption|apply pinv_step; assumption].
Qed.

(* an Err'd sequence number is never an Ok'd one: sn_err only receives sn_next, which is above
   everything in sn_ok, and sn_ok only receives sn_next, which is above everything in sn_err *)
Record dinv (c : chan) : Prop := {
  di_disj : forall i s, nth_error (c_senders c) i = Some s -> forall k, In k (sn_ok s) -> In k (sn_err s) -> False;
  di_lt_ok : forall i s, nth_error (c_senders c) i = Some s -> forall k, In k (sn_ok s) -> k < sn_next s;
  di_lt_err : forall i s, nth_error (c_senders c) i = Some s -> forall k, In k (sn_err s) -> k < sn_next s
}.

Lemma dinv_of_sender_step c c' i s s' :
  dinv c -> nth_error (c_senders c) i = Some s ->
  c_senders c' = firstn i (c_senders c) ++ s' :: skipn (S i) (c_senders c) ->
  sn_next s <= sn_next s' ->
  ((sn_ok s' = sn_ok s /\ sn_err s' = sn_err s) \/
   (sn_next s' = S (sn_next s) /\ sn_ok s' = sn_next s :: sn_ok s /\ sn_err s' = sn_err s) \/
   (sn_next s' = S (sn_next s) /\ sn_ok s' = sn_ok s /\ sn_err s' = sn_next s :: sn_err s)) ->
  dinv c'.
Proof.
  intros [Hdj Hlo Hle] E Es Hn Hcase.
  assert (Hmine : (forall k, In k (sn_ok s') -> In k (sn_err s') -> False) /\
                  (forall k, In k (sn_ok s') -> k < sn_next s') /\ (forall k, In k (sn_err s') -> k < sn_next s')).
  { destruct Hcase as [(E1 & E2)|[(E0 & E1 & E2)|(E0 & E1 & E2)]]; rewrite ?E0, ?E1, ?E2; repeat split.
    - intros k; apply (Hdj _ _ E).
    - intros k Hk. specialize (Hlo _ _ E _ Hk). lia.
    - intros k Hk. specialize (Hle _ _ E _ Hk). lia.
    - intros k [<-|Hk] Hk'; [specialize (Hle _ _ E _ Hk'); lia|eapply Hdj; eassumption].
    - intros k [<-|Hk]; [lia|specialize (Hlo _ _ E _ Hk); lia].
    - intros k Hk. specialize (Hle _ _ E _ Hk). lia.
    - intros k Hk [<-|Hk']; [specialize (Hlo _ _ E _ Hk); lia|eapply Hdj; eassumption].
    - intros k Hk. specialize (Hlo _ _ E _ Hk). lia.
    - intros k [<-|Hk]; [lia|specialize (Hle _ _ E _ Hk); lia]. }
  destruct Hmine as (M1 & M2 & M3).
  split; intros j t Hj; rewrite Es in Hj; (destruct (Nat.eq_dec j i) as [->|Hne];
    [rewrite (nth_error_replace_same _ _ _ _ E) in Hj; injection Hj as <-; assumption
    |rewrite (nth_error_replace_other _ _ _ _ _ E Hne) in Hj]).
  - apply (Hdj _ _ Hj). - apply (Hlo _ _ Hj). - apply (Hle _ _ Hj).
Qed.

Lemma dinv_same c c' : dinv c -> c_senders c' = c_senders c -> dinv c'.
Proof. intros [A B C] E. split; rewrite E; assumption. Qed.

Lemma dinv_init cap n : dinv (init_chan cap n).
Proof.
  split; cbn; intros i s H k; apply nth_error_In, repeat_spec in H; subst s; cbn; tauto.
Qed.

Lemma dinv_step w c l : dinv c -> dinv (cstep w c l).
Proof.
  intros I. destruct l as [i|i|i|i| | | |]; cbn [cstep].
  - destruct (nth_error (c_senders c) i) as [s|] eqn:E; [|exact I].
    destruct (sn_st s); [|exact I]. destruct (c_closed c); [exact I|]. destruct (c_free c); [exact I|].
    eapply (dinv_of_sender_step c _ i s); try exact I; try exact E; try reflexivity; cbn; auto.
  - destruct (nth_error (c_senders c) i) as [s|] eqn:E; [|exact I].
    destruct (sn_st s); [|exact I]. destruct (c_closed c); [|exact I].
    eapply (dinv_of_sender_step c _ i s); try exact I; try exact E; try reflexivity; cbn; auto.
  - destruct (nth_error (c_senders c) i) as [s|] eqn:E; [|exact I].
    destruct (sn_st s); [exact I|].
    destruct (c_phase c); (eapply (dinv_of_sender_step c _ i s); try exact I; try exact E; try reflexivity; cbn; auto).
  - destruct (nth_error (c_senders c) i) as [s|] eqn:E; [|exact I].
    destruct (sn_st s); [exact I|].
    eapply (dinv_of_sender_step c _ i s); try exact I; try exact E; try reflexivity; cbn; auto.
  - destruct (c_phase c); try exact I. destruct (c_queue c); [exact I|]. eapply dinv_same; [exact I|reflexivity].
  - destruct (c_phase c); try exact I. eapply dinv_same; [exact I|reflexivity].
  - destruct (c_phase c); try exact I. destruct (c_queue c); [exact I|]. eapply dinv_same; [exact I|reflexivity].
  - destruct (c_phase c); try exact I. destruct (c_queue c); [|exact I].
    destruct (negb w || Nat.eqb (c_free c) (c_cap c)); [|exact I]. eapply dinv_same; [exact I|reflexivity].
Qed.

Theorem dinv_run w cap n ls : dinv (crun w cap n ls).
Proof.
  unfold crun. generalize (dinv_init cap n). generalize (init_chan cap n).
  induction ls as [|l ls IH]; intros c I; cbn [fold_left]; [exact I|]. apply IH, dinv_step, I.
Qed.

(* ------------------------------------------------------------------ statements for Props/ *)
Lemma cap_run w cap n ls : c_cap (crun w cap n ls) = cap.
Proof.
  unfold crun. assert (H : c_cap (init_chan cap n) = cap) by reflexivity. revert H.
  generalize (init_chan cap n). induction ls as [|l ls IH]; intros c H; cbn [fold_left]; [exact H|].
  apply IH. rewrite cap_const. exact H.
Qed.

Theorem chan_no_stranded cap n ls : c_stranded (crun true cap n ls) = [].
Proof. apply (pi_nostr _ _ (pinv_run true cap n ls)). reflexivity. Qed.

Theorem chan_exit_no_permit cap n ls :
  c_phase (crun true cap n ls) = RExited ->
  held (crun true cap n ls) = 0 /\ c_queue (crun true cap n ls) = [] /\ c_free (crun true cap n ls) = cap.
Proof.
  intros H. pose proof (pinv_run true cap n ls) as [Hp _ _ He Hw Hn].
  specialize (Hw eq_refl H). specialize (Hn eq_refl). destruct (He H) as (_ & Hq).
  rewrite Hw, Hq, Hn, (cap_run true cap n ls) in Hp. cbn in Hp. repeat split; try assumption. lia.
Qed.

Theorem chan_bound w cap n ls :
  length (c_queue (crun w cap n ls)) + held (crun w cap n ls) <= cap.
Proof. pose proof (pi_perm _ _ (pinv_run w cap n ls)) as Hp. rewrite cap_run in Hp. lia. Qed.

Theorem chan_handled_once w cap n ls : NoDup (c_handled (crun w cap n ls)).
Proof.
  pose proof (mi_ord _ (minv_run w cap n ls)) as Ho. apply ordered_NoDup.
  eapply ordered_prefix. exact Ho.
Qed.

Theorem chan_handled_ordered w cap n ls : ordered (c_handled (crun w cap n ls)).
Proof. eapply ordered_prefix. exact (mi_ord _ (minv_run w cap n ls)). Qed.

Theorem chan_taken_iff_ok w cap n ls i s k :
  nth_error (c_senders (crun w cap n ls)) i = Some s ->
  (In (i, k) (call (crun w cap n ls)) <-> In k (sn_ok s)).
Proof. intros H. apply (mi_ok _ (minv_run w cap n ls) _ _ H). Qed.

Theorem chan_rejected_never_taken w cap n ls i s k :
  nth_error (c_senders (crun w cap n ls)) i = Some s -> In k (sn_err s) ->
  ~ In (i, k) (call (crun w cap n ls)).
Proof.
  intros H He Hin. apply (chan_taken_iff_ok w cap n ls i s k H) in Hin.
  exact (di_disj _ (dinv_run w cap n ls) _ _ H _ Hin He).
Qed.

(* under the new exit protocol an Ok'd message is handled, dropped by the drain (its reply
   channel with it, so its asker is told), or still queued in front of a live receiver *)
Theorem chan_ok_accounted cap n ls i s k :
  nth_error (c_senders (crun true cap n ls)) i = Some s -> In k (sn_ok s) ->
  In (i, k) (c_handled (crun true cap n ls)) \/ In (i, k) (c_dropped (crun true cap n ls)) \/
  (In (i, k) (c_queue (crun true cap n ls)) /\ c_phase (crun true cap n ls) <> RExited).
Proof.
  intros H Hk. apply (chan_taken_iff_ok true cap n ls i s k H) in Hk. unfold call in Hk.
  rewrite chan_no_stranded, app_nil_r in Hk. rewrite !in_app_iff in Hk.
  destruct Hk as [Hk|[Hk|Hk]]; auto. right. right. split; [exact Hk|].
  intros He. destruct (pi_exit _ _ (pinv_run true cap n ls) He) as (_ & Hq). rewrite Hq in Hk. destruct Hk.
Qed.

(* every sequence number below sn_next got exactly one answer, except the one in flight *)
Example chan_example_run :
  let c := crun true 2 2 [KAcquire 0; KAcquire 1; KPush 1; KRecv; KAcquire 1; KClose; KPush 0; KFail 0;
                          KDrain; KExit; KGiveBack 1; KExit] in
  c_handled c = [(1, 0)] /\ c_dropped c = [(0, 0)] /\ c_stranded c = [] /\ c_phase c = RExited /\
  map sn_ok (c_senders c) = [[0]; [0]] /\ map sn_err (c_senders c) = [[1]; [1]].
Proof. vm_compute. repeat split. Qed.

(* ------------------------------------------------------------------ enabledness (any state) *)
(* while the channel is open a send cannot fail ... *)
Lemma chan_open_never_fails w c i : c_closed c = false -> cstep w c (KFail i) = c.
Proof.
  intros H. cbn [cstep]. destruct (nth_error (c_senders c) i) as [s|]; [|reflexivity].
  destruct (sn_st s); [|reflexivity]. rewrite H. reflexivity.
Qed.

(* ... and while a permit is free it does not wait: the idle sender's acquire step is enabled *)
Lemma chan_no_wait_while_free w c i s :
  nth_error (c_senders c) i = Some s -> sn_st s = SIdle -> c_closed c = false -> 0 < c_free c ->
  exists s', nth_error (c_senders (cstep w c (KAcquire i))) i = Some s' /\ sn_st s' = SHeld /\
             c_free (cstep w c (KAcquire i)) + 1 = c_free c.
Proof.
  intros E Es Hc Hf. cbn [cstep]. rewrite E, Es, Hc. destruct (c_free c) as [|f] eqn:Ef; [lia|].
  eexists. split; [|split].
  - cbn [set_sender with_free c_senders]. eapply nth_error_replace_same. exact E.
  - reflexivity.
  - cbn [set_sender with_free c_free]. lia.
Qed.

(* a full, open channel makes the sender wait: neither acquire nor fail does anything *)
Lemma chan_full_waits w c i :
  c_closed c = false -> c_free c = 0 -> cstep w c (KAcquire i) = c /\ cstep w c (KFail i) = c.
Proof.
  intros Hc Hf. split; [|apply chan_open_never_fails; exact Hc].
  cbn [cstep]. destruct (nth_error (c_senders c) i) as [s|]; [|reflexivity].
  destruct (sn_st s); [|reflexivity]. rewrite Hc, Hf. reflexivity.
Qed.
