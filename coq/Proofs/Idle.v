(* on_run is an idle handler (C08). *)
From RS Require Import Tactics Frame ListFacts Spec Silent Lifecycle LcFacts ClientFrame NF ActorSpec StepCases CoreInv.

(* scanning the hook events: has on_run returned Ok(false)?  After that no RunDone may follow. *)
Fixpoint idle_scan (seen : bool) (es : list event) : option bool :=
  match es with
  | [] => Some seen
  | EvRunDone _ r :: t =>
      if seen then None
      else idle_scan (match r with RFalse => true | _ => false end) t
  | _ :: t => idle_scan seen t
  end.

Lemma idle_scan_app seen es1 es2 :
  idle_scan seen (es1 ++ es2) = match idle_scan seen es1 with Some b => idle_scan b es2 | None => None end.
Proof.
  revert seen. induction es1 as [|e es1 IH]; intros seen; cbn [app idle_scan]; [reflexivity|].
  destruct e; try apply IH. destruct seen; [reflexivity|apply IH].
Qed.

Definition idle_ok (s : sys) : Prop :=
  forall a x, get_actor s a = Some x -> idle_scan false (hook_events s a) = Some (negb (a_idle x)).

(* the branches still to poll are always a tail of the select's order *)
Definition sel_shape (p : pc) : Prop :=
  match p with
  | PSel rest => rest = [BTerm; BMail; BRun] \/ rest = [BMail; BRun] \/ rest = [BRun]
  | _ => True end.
Definition sel_ok (s : sys) : Prop := forall a x, get_actor s a = Some x -> sel_shape (a_pc x).

Lemma shape_order k : pass_order k = [BTerm; BMail; BRun].
Proof. reflexivity. Qed.
Lemma shape_guard : run_guarded = true.
Proof. reflexivity. Qed.

Lemma local_sel s a x l f fo evs : sel_shape (a_pc x) -> Local s a x l f fo evs -> sel_shape (a_pc (f x)).
Proof.
  intros Hs HL. inversion HL; subst; unfold stop_f, handle_f, run_f, idf, end_f; cbn [a_pc set_a_pc set_a_ustate set_a_idle set_a_term set_a_closed set_a_mbox sel_shape]; try exact I; try exact Hs.
  - left. apply shape_order.
  - rewrite H in Hs. cbn in Hs. unfold after_branch.
    destruct Hs as [E|[E|E]]; injection E as -> ->; cbn; auto.
Qed.

Lemma idle_take_f i tl y : a_idle (take_f i tl y) = a_idle y.
Proof.
  unfold take_f, regrant_f. cbn. destruct (a_waiters y); [reflexivity|].
  match goal with |- context [if ?c then _ else _] => destruct c end; reflexivity.
Qed.
Lemma idle_mrec_f on y : a_idle (mrec_f on y) = a_idle y.
Proof. unfold mrec_f. destruct on; reflexivity. Qed.

Lemma local_idle s a x l f fo evs :
  Local s a x l f fo evs ->
  idle_scan (negb (a_idle x)) (filter (hook_ev_of a) (rev evs)) = Some (negb (a_idle (f x))).
Proof.
  intros HL. inversion HL; subst;
    try match goal with H : _ \/ _ |- _ => destruct H as [->|[_ ->]] end;
    try match goal with k : okind |- _ => destruct k end;
    unfold stop_f, handle_f, run_f, idf, end_f;
    cbn [rev app filter hook_ev_of idle_scan a_idle set_a_pc set_a_ustate set_a_idle set_a_term set_a_closed set_a_mbox];
    rewrite ?Nat.eqb_refl; cbn [idle_scan filter hook_ev_of app];
    rewrite ?idle_take_f, ?idle_mrec_f; try reflexivity;
    match goal with H : (run_guarded && negb (a_idle x)) = false |- _ =>
      rewrite shape_guard in H; cbn in H; apply negb_false_iff in H; rewrite H; reflexivity end.
Qed.

Lemma ddpanic_idle s a x f fo evs :
  DdPanic s a x f fo evs ->
  idle_scan (negb (a_idle x)) (filter (hook_ev_of a) (rev evs)) = Some (negb (a_idle (f x))).
Proof.
  intros HD. inversion HD; subst; unfold end_f;
    cbn [rev app filter hook_ev_of idle_scan a_idle set_a_pc set_a_closed set_a_term set_a_mbox];
    rewrite ?Nat.eqb_refl; cbn [idle_scan filter hook_ev_of app]; rewrite ?idle_mrec_f; reflexivity.
Qed.

Theorem idle_sel_step s l : lc_ok s -> idle_ok s /\ sel_ok s -> idle_ok (sys_step s l) /\ sel_ok (sys_step s l).
Proof.
  intros [_ Hnone] [Hi Hs]. split; intros a y Hy.
  - destruct (get_actor s a) as [x|] eqn:Hx.
    + destruct (step_cases s l a x Hx) as (y' & Hy' & HC). rewrite Hy in Hy'. injection Hy' as <-.
      specialize (Hi a x Hx). destruct HC as [E Hev|f fo evs Hl HL -> E|f fo evs HD -> E].
      * destruct (core_fields x y E) as (_ & _ & _ & _ & -> & _). rewrite Hev. exact Hi.
      * rewrite E, hook_events_NF_self, idle_scan_app, Hi. eapply local_idle. exact HL.
      * rewrite E, hook_events_NF_self, idle_scan_app, Hi. eapply ddpanic_idle. exact HD.
    + destruct (step_new_actor s l a y Hx Hy) as (cap & -> & Hc & ->).
      cbn [sys_step]. unfold spawn. apply Nat.eqb_neq in Hc. rewrite Hc.
      unfold hook_events. cbn [s_trace emit set_s_trace set_s_next set_s_actors rev].
      rewrite !filter_app. cbn [filter hook_ev_of]. fold (hook_events s a). rewrite (Hnone a Hx).
      cbn. destruct (length (s_actors s) =? a); reflexivity.
  - destruct (get_actor s a) as [x|] eqn:Hx.
    + destruct (step_cases s l a x Hx) as (y' & Hy' & HC). rewrite Hy in Hy'. injection Hy' as <-.
      specialize (Hs a x Hx). destruct HC as [E Hev|f fo evs Hl HL -> E|f fo evs HD -> E].
      * destruct (core_fields x y E) as (-> & _). exact Hs.
      * eapply local_sel; eassumption.
      * inversion HD; subst; exact I.
    + destruct (step_new_actor s l a y Hx Hy) as (cap & -> & Hc & ->). exact I.
Qed.

Theorem idle_sel_run f ls : idle_ok (run f ls) /\ sel_ok (run f ls).
Proof.
  unfold run.
  assert (H : lc_ok (init f) /\ idle_ok (init f) /\ sel_ok (init f)).
  { split; [apply lc_ok_init|]. split; intros a x H; unfold get_actor in H; cbn in H; destruct a; discriminate. }
  revert H. generalize (init f).
  induction ls as [|l ls IH]; intros s (H1 & H2); cbn [fold_left]; [exact H2|].
  apply IH. split; [apply lc_ok_step, H1|apply idle_sel_step; assumption].
Qed.

(* after on_run has returned Ok(false), no further completion of on_run is ever logged *)
Lemma idle_scan_after_false es1 a es2 st :
  idle_scan false (es1 ++ EvRunDone a RFalse :: es2) = Some st ->
  forall b r, ~ In (EvRunDone b r) es2.
Proof.
  rewrite idle_scan_app. destruct (idle_scan false es1) as [[|]|]; cbn; try discriminate.
  intros H b r Hin. clear es1.
  induction es2 as [|e es2 IH]; [destruct Hin|].
  destruct Hin as [->|Hin]; [cbn in H; discriminate|].
  apply IH; [|exact Hin]. destruct e; cbn in H; try exact H. discriminate.
Qed.

Theorem run_false_disables f ls a es1 b es2 :
  hook_events (run f ls) a = es1 ++ EvRunDone b RFalse :: es2 ->
  forall c r, ~ In (EvRunDone c r) es2.
Proof.
  intros Hs. destruct (idle_sel_run f ls) as [Hi _].
  destruct (get_actor (run f ls) a) as [x|] eqn:Hx.
  - specialize (Hi a x Hx). rewrite Hs in Hi. eapply idle_scan_after_false. exact Hi.
  - rewrite (proj2 (lc_ok_run f ls) a Hx) in Hs. destruct es1; discriminate.
Qed.

(* ---------- the order of one poll of the select ---------- *)
Section Pass.
  Variables (s : sys) (a : aid) (x : actor).
  Hypothesis Hx : get_actor s a = Some x.
  Hypothesis Hsel : sel_shape (a_pc x).

  (* every poll of the select starts with the termination channel *)
  Theorem pass_begins_with_term k y :
    a_pc x = PIdle -> get_actor (sys_step s (APassBegin a k)) a = Some y -> a_pc y = PSel [BTerm; BMail; BRun].
  Proof.
    intros Hpc Hy. cbn [sys_step] in Hy. unfold pass_begin in Hy. rewrite Hx, Hpc in Hy.
    rewrite (get_actor_upd_same _ _ _ _ Hx) in Hy. injection Hy as <-. reflexivity.
  Qed.

  (* the mailbox branch is reached only after the termination branch found neither a signal nor
     a closed channel; the on_run branch only after the mailbox branch found the queue empty *)
  Theorem poll_order ro y :
    get_actor (sys_step s (APoll a ro)) a = Some y ->
    (a_pc y = PSel [BMail; BRun] -> a_pc x = PSel [BTerm; BMail; BRun] /\ a_term x = false /\ refs_gone s a x = false) /\
    (a_pc y = PSel [BRun] -> a_pc x = PSel [BMail; BRun] /\ a_mbox x = [] /\ refs_gone s a x = false).
  Proof.
    intros Hy. destruct (actor_step_nf s (APoll a ro) a x eq_refl Hx) as (f & fo & evs & E & HL).
    rewrite E, (NF_get_actor_same _ _ _ _ _ _ Hx) in Hy. injection Hy as <-.
    inversion HL; subst; unfold stop_f, handle_f, run_f, idf, end_f; cbn [a_pc set_a_pc set_a_ustate set_a_idle set_a_term set_a_closed set_a_mbox];
      try (split; intros; discriminate).
    - (* noop: the guard fails, so the actor is not inside a poll at all *)
      match goal with H : guard_fails _ _ |- _ =>
        cbn [guard_fails] in H; split; intros Hq; exfalso; eapply H; exact Hq end.
    - match goal with H : a_pc x = PSel (_ :: _) |- _ => rewrite H in Hsel end. cbn in Hsel. unfold after_branch.
      destruct Hsel as [Es|[Es|Es]]; injection Es as -> ->; cbn; split; intros Hq; try discriminate.
      + match goal with H : BTerm = BTerm -> _ |- _ => destruct (H eq_refl) as [? ?] end. auto.
      + match goal with H : BMail = BMail -> _ |- _ => destruct (H eq_refl) as [? ?] end. auto.
  Qed.
End Pass.


Lemma run_err_path e ust es st :
  lc_run (LcRunErr e ust) es = Some st ->
  es = [] \/ exists a t, es = EvStopEnter a false :: t /\
    (t = [] \/ (exists b out, t = [EvStopExit b out] /\
                 (out <> HPanic -> st = LcDone (Failed (Some (HvStop false :: ust)) e
                                                (match out with HErr _ => OnRunThenOnStop | _ => OnRun end) false)))
            \/ (exists b c, t = [EvDeadlock b c])).
Proof.
  intros H. destruct es as [|ev t]; [left; reflexivity|right].
  cbn in H. destruct ev; try discriminate. destruct killed; try discriminate.
  exists a, t. split; [reflexivity|].
  destruct (lc_after_stop_enter _ _ _ _ _ H) as [->|[(b & out & ->)|(b & c & ->)]]; auto.
  - right. left. exists b, out. split; [reflexivity|]. intros Hnp. cbn in H.
    destruct out; try congruence; cbn in H; injection H as <-; reflexivity.
  - right. right. eauto.
Qed.
