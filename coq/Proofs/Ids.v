(* Identity: the id of the n-th spawned actor is n (mod 2^64, starting at 1), it never changes,
   and ids are pairwise distinct as long as fewer than 2^64 - 1 actors were spawned (C11). *)
From RS Require Import Tactics Frame ListFacts SysFrame Spec Silent Lifecycle ClientFrame NF ActorSpec StepCases CoreInv.

Definition id_of_index (a : aid) : N := wrap64 (N.of_nat a + 1).

Definition ids_ok (s : sys) : Prop :=
  s_next s = id_of_index (length (s_actors s)) /\
  forall a x, get_actor s a = Some x -> a_id x = id_of_index a.

Lemma next_step s l : (forall c, l <> LSpawn c) -> s_next (sys_step s l) = s_next s.
Proof.
  intros H. destruct l; try (apply (Q_step s_next); try reflexivity; try exact H; discriminate).
  reflexivity.
Qed.

Lemma take_f_id i tl y : a_id (take_f i tl y) = a_id y.
Proof.
  unfold take_f, regrant_f. cbn. destruct (a_waiters y); [reflexivity|].
  match goal with |- context [if ?c then _ else _] => destruct c end; reflexivity.
Qed.
Lemma mrec_f_id on y : a_id (mrec_f on y) = a_id y.
Proof. unfold mrec_f. destruct on; reflexivity. Qed.

Lemma local_id s a x l f fo evs : Local s a x l f fo evs -> a_id (f x) = a_id x.
Proof.
  intros HL. inversion HL; subst; unfold stop_f, handle_f, run_f, idf, end_f;
    cbn [a_id set_a_pc set_a_ustate set_a_idle set_a_term set_a_closed set_a_mbox];
    rewrite ?take_f_id, ?mrec_f_id; reflexivity.
Qed.
Lemma ddpanic_id s a x f fo evs : DdPanic s a x f fo evs -> a_id (f x) = a_id x.
Proof.
  intros HD. inversion HD; subst; unfold end_f; cbn [a_id set_a_pc set_a_closed set_a_term set_a_mbox];
    rewrite ?mrec_f_id; reflexivity.
Qed.

Lemma wrap64_succ n : wrap64 (wrap64 n + 1) = wrap64 (n + 1).
Proof. unfold wrap64. rewrite N.add_mod_idemp_l; [reflexivity|]. unfold two64. discriminate. Qed.

Theorem ids_ok_step s l : ids_ok s -> ids_ok (sys_step s l).
Proof.
  intros [Hn Hid].
  assert (Hold : forall a y, get_actor (sys_step s l) a = Some y -> forall x, get_actor s a = Some x -> a_id y = a_id x).
  { intros a y Hy x Hx. destruct (step_cases s l a x Hx) as (y' & Hy' & HC). rewrite Hy in Hy'. injection Hy' as <-.
    destruct HC as [E _|f fo evs _ HL -> _|f fo evs HD -> _].
    - destruct (core_fields x y E) as (_ & _ & _ & _ & _ & _ & -> & _). reflexivity.
    - eapply local_id; exact HL.
    - eapply ddpanic_id; exact HD. }
  destruct l as [cap| | | | | | | | | | | | |].
  1: { (* spawn *)
    cbn [sys_step]. unfold spawn. destruct (cap =? 0) eqn:Ec; [split; assumption|].
    split.
    - cbn. rewrite app_length. cbn. rewrite Hn. unfold id_of_index. rewrite wrap64_succ.
      f_equal. lia.
    - intros a y Hy. destruct (get_actor s a) as [x|] eqn:Hx.
      + rewrite <- (Hid a x Hx). apply (Hold a y); [|exact Hx]. cbn [sys_step]. unfold spawn. rewrite Ec. exact Hy.
      + assert (Hy' : get_actor (sys_step s (LSpawn cap)) a = Some y) by (cbn [sys_step]; unfold spawn; rewrite Ec; exact Hy).
        destruct (step_new_actor s (LSpawn cap) a y Hx Hy') as (cap' & _ & _ & ->). cbn.
        unfold get_actor in Hx, Hy. cbn in Hy. apply nth_error_None in Hx.
        rewrite nth_error_app2 in Hy by exact Hx.
        destruct (a - length (s_actors s)) as [|n] eqn:E; [|destruct n; discriminate].
        assert (a = length (s_actors s)) as -> by lia. exact Hn. }
  all: split;
    [ rewrite next_step by (intros c; discriminate); rewrite step_length by (intros c; discriminate); exact Hn
    | intros a' y' Hy'; destruct (get_actor s a') as [x'|] eqn:Hx';
      [ rewrite <- (Hid a' x' Hx'); apply (Hold a' y' Hy' x' Hx')
      | exfalso; destruct (step_new_actor s _ a' y' Hx' Hy') as (cap' & E & _); discriminate ] ].
Qed.

Lemma ids_ok_init f : ids_ok (init f).
Proof. split; [reflexivity|]. intros a x H. unfold get_actor in H. cbn in H. destruct a; discriminate. Qed.

Theorem ids_ok_run f ls : ids_ok (run f ls).
Proof.
  unfold run. generalize (ids_ok_init f). generalize (init f).
  induction ls as [|l ls IH]; intros s H; cbn [fold_left]; [exact H|].
  apply IH, ids_ok_step, H.
Qed.

(* no two actors share an id while fewer than 2^64 - 1 have been spawned *)
Theorem ids_unique f ls a b x y :
  (N.of_nat (length (s_actors (run f ls))) < two64 - 1)%N ->
  get_actor (run f ls) a = Some x -> get_actor (run f ls) b = Some y -> a <> b -> a_id x <> a_id y.
Proof.
  intros Hlen Hx Hy Hne. destruct (ids_ok_run f ls) as [_ Hid].
  rewrite (Hid a x Hx), (Hid b y Hy). unfold id_of_index, wrap64.
  assert (La : a < length (s_actors (run f ls))) by (apply nth_error_Some; unfold get_actor in Hx; congruence).
  assert (Lb : b < length (s_actors (run f ls))) by (apply nth_error_Some; unfold get_actor in Hy; congruence).
  rewrite !N.mod_small by lia. lia.
Qed.

(* an actor's id is fixed at spawn and every later state reports the same one *)
Theorem id_stable f ls ls' a x y :
  get_actor (run f ls) a = Some x -> get_actor (run f (ls ++ ls')) a = Some y -> a_id y = a_id x.
Proof.
  intros Hx Hy. rewrite (proj2 (ids_ok_run f ls) a x Hx), (proj2 (ids_ok_run f (ls ++ ls')) a y Hy). reflexivity.
Qed.
