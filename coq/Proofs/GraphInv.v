(* The wait-for graph holds exactly the edges of the unfinished tracked asks (C14, C15): every edge
   belongs to an ask that an actor's running hook is still awaiting, every such ask has its edge, and
   keys are unique.  Hence no residue once every ask has finished. *)
From RS Require Import Tactics Frame ListFacts Spec NF ActorSpec StepCases OpsSpec OpCases Ids.

Definition ids_inj (s : sys) : Prop :=
  forall b b' xb xb', get_actor s b = Some xb -> get_actor s b' = Some xb' -> a_id xb = a_id xb' -> b = b'.

Record edge_wit (s : sys) (cid tid : N) (o : oid) (p : op) (b : aid) (xb xt : actor) : Prop := mkEW {
  ew_op : get_op s o = Some p; ew_tr : o_tracked p = true; ew_nd : is_done (o_ph p) = false;
  ew_caller : o_caller p = Some b; ew_b : get_actor s b = Some xb; ew_cid : a_id xb = cid;
  ew_hop : a_hop xb = Some o; ew_t : get_actor s (o_tgt p) = Some xt; ew_tid : a_id xt = tid }.

Record graph_core (s : sys) : Prop := mkGC {
  gc_edge : forall cid tid, In (cid, tid) (s_graph s) -> exists o p b xb xt, edge_wit s cid tid o p b xb xt;
  gc_op : forall o p, get_op s o = Some p -> o_tracked p = true ->
          exists b xb xt, edge_wit s (a_id xb) (a_id xt) o p b xb xt /\ In (a_id xb, a_id xt) (s_graph s);
  gc_keys : NoDup (map fst (s_graph s)) }.

Definition gi (s : sys) : Prop := ids_inj s /\ graph_core s.

(* ---------- the parts of the state the invariant reads ---------- *)
Definition ga (x : actor) := (a_id x, a_hop x).
Definition go (p : op) := (o_id p, o_tracked p, is_done (o_ph p), o_caller p, o_tgt p).

Definition gsame (s s' : sys) : Prop :=
  (forall b, option_map ga (get_actor s' b) = option_map ga (get_actor s b)) /\
  (forall o, option_map go (get_op s' o) = option_map go (get_op s o)) /\
  s_graph s' = s_graph s.

Lemma gsame_refl s : gsame s s.
Proof. repeat split. Qed.
Lemma gsame_trans s1 s2 s3 : gsame s1 s2 -> gsame s2 s3 -> gsame s1 s3.
Proof. intros (A1 & O1 & G1) (A2 & O2 & G2). repeat split; intros; congruence. Qed.

Lemma gsame_actor s s' b y : gsame s s' -> get_actor s' b = Some y ->
  exists x, get_actor s b = Some x /\ a_id x = a_id y /\ a_hop x = a_hop y.
Proof.
  intros (A & _) Hy. specialize (A b). rewrite Hy in A. destruct (get_actor s b) as [x|]; [|discriminate].
  cbn in A. unfold ga in A. injection A as E1 E2. eauto.
Qed.
Lemma gsame_actor_fwd s s' b x : gsame s s' -> get_actor s b = Some x ->
  exists y, get_actor s' b = Some y /\ a_id y = a_id x /\ a_hop y = a_hop x.
Proof.
  intros (A & _) Hx. specialize (A b). rewrite Hx in A. destruct (get_actor s' b) as [y|]; [|discriminate].
  cbn in A. unfold ga in A. injection A as E1 E2. eauto.
Qed.
Lemma gsame_op s s' o q : gsame s s' -> get_op s' o = Some q ->
  exists p, get_op s o = Some p /\ go p = go q.
Proof.
  intros (_ & O & _) Hq. specialize (O o). rewrite Hq in O. destruct (get_op s o) as [p|]; [|discriminate].
  cbn in O. injection O as E. eauto.
Qed.
Lemma gsame_op_fwd s s' o p : gsame s s' -> get_op s o = Some p ->
  exists q, get_op s' o = Some q /\ go q = go p.
Proof.
  intros (_ & O & _) Hp. specialize (O o). rewrite Hp in O. destruct (get_op s' o) as [q|]; [|discriminate].
  cbn in O. injection O as E. eauto.
Qed.
Lemma go_fields p q : go p = go q ->
  o_tracked p = o_tracked q /\ is_done (o_ph p) = is_done (o_ph q) /\ o_caller p = o_caller q /\ o_tgt p = o_tgt q.
Proof. unfold go. intros E. injection E as ? ? ? ? ?. auto. Qed.

Lemma edge_wit_gsame s s' cid tid o p b xb xt :
  gsame s s' -> edge_wit s cid tid o p b xb xt -> exists p' xb' xt', edge_wit s' cid tid o p' b xb' xt'.
Proof.
  intros H [W1 W2 W3 W4 W5 W6 W7 W8 W9].
  destruct (gsame_op_fwd _ _ _ _ H W1) as (p' & Hp' & E). destruct (go_fields _ _ E) as (E1 & E2 & E3 & E4).
  destruct (gsame_actor_fwd _ _ _ _ H W5) as (xb' & Hb' & I1 & I2).
  destruct (gsame_actor_fwd _ _ _ _ H W8) as (xt' & Ht' & J1 & _).
  exists p', xb', xt'. constructor; try congruence.
Qed.

Lemma gi_gsame s s' : gsame s s' -> gi s -> gi s'.
Proof.
  intros H [Hinj [He Ho Hk]]. pose proof H as (HA & HO & HG). split.
  - intros b b' yb yb' Hb Hb' E.
    destruct (gsame_actor _ _ _ _ H Hb) as (xb & Hxb & I1 & _). destruct (gsame_actor _ _ _ _ H Hb') as (xb' & Hxb' & I2 & _).
    eapply Hinj; [exact Hxb|exact Hxb'|congruence].
  - constructor.
    + intros cid tid Hin. rewrite HG in Hin. destruct (He cid tid Hin) as (o & p & b & xb & xt & W).
      destruct (edge_wit_gsame _ _ _ _ _ _ _ _ _ H W) as (p' & xb' & xt' & W'). eauto 8.
    + intros o q Hq Htr. destruct (gsame_op _ _ _ _ H Hq) as (p & Hp & E). destruct (go_fields _ _ E) as (E1 & _).
      destruct (Ho o p Hp) as (b & xb & xt & W & Hin); [congruence|].
      destruct (edge_wit_gsame _ _ _ _ _ _ _ _ _ H W) as (p' & xb' & xt' & W').
      pose proof (ew_op _ _ _ _ _ _ _ _ W') as G. rewrite Hq in G. injection G as <-.
      exists b, xb', xt'. rewrite HG. rewrite (ew_cid _ _ _ _ _ _ _ _ W'), (ew_tid _ _ _ _ _ _ _ _ W'). split; [|exact Hin].
      destruct W'. constructor; congruence.
    + rewrite HG. exact Hk.
Qed.

(* ---------- primitives that the invariant does not see ---------- *)
Lemma gsame_emit s0 s e : gsame s0 s -> gsame s0 (emit e s).
Proof. intros H. exact H. Qed.
Lemma gsame_upd_actor s0 s a f : (forall x, ga (f x) = ga x) -> gsame s0 s -> gsame s0 (upd_actor a f s).
Proof.
  intros Hf (A & O & G). repeat split; try assumption. intros b. rewrite get_actor_upd_actor.
  destruct (b =? a); [|apply A]. rewrite <- A. destruct (get_actor s b); cbn; [rewrite Hf|]; reflexivity.
Qed.
Lemma gsame_upd_op s0 s o f :
  (forall p, o_id (f p) = o_id p) -> (forall p, go (f p) = go p) -> gsame s0 s -> gsame s0 (upd_op o f s).
Proof.
  intros Hid Hf (A & O & G). repeat split; try assumption. intros o'. rewrite get_op_upd_op by exact Hid.
  destruct (o' =? o); [|apply O]. rewrite <- O. destruct (get_op s o'); cbn; [rewrite Hf|]; reflexivity.
Qed.
Lemma gsame_ext s0 s s' : s_actors s' = s_actors s -> s_ops s' = s_ops s -> s_graph s' = s_graph s -> gsame s0 s -> gsame s0 s'.
Proof. intros Ea Eo Eg (A & O & G). unfold gsame, get_actor, get_op in *. rewrite Ea, Eo, Eg. auto. Qed.

Ltac gside := intros ?x; cbv beta; repeat case_match; reflexivity.
Ltac gprim := first [ assumption | apply gsame_upd_actor; [gside|] ].
Ltac gauto := repeat (repeat case_match; gprim).

Lemma gsame_record_dl s0 s a o f c : gsame s0 s -> gsame s0 (record_dl a o f c s).
Proof.
  unfold record_dl. generalize (dl_sites (site_fn f c) c). intros l. revert s.
  induction l as [|rl l IH]; intros s H; cbn [fold_left]; [exact H|].
  apply IH. unfold record_one. apply gsame_emit. destruct (f_testutils (s_feat s)); [|exact H].
  eapply gsame_ext; [| | |exact H]; reflexivity.
Qed.
Lemma gsame_push s0 s a o k : gsame s0 s -> gsame s0 (push a o k s).
Proof. intros H. unfold push. apply gsame_emit. gauto. Qed.
Lemma gsame_regrant s0 s a : gsame s0 s -> gsame s0 (regrant a s).
Proof. intros H. unfold regrant. gauto. Qed.
Lemma gsame_unwait s0 s a o : gsame s0 s -> gsame s0 (unwait a o s).
Proof. intros H. unfold unwait. gauto. Qed.
Lemma gsame_ungrant s0 s a o : gsame s0 s -> gsame s0 (ungrant a o s).
Proof. intros H. unfold ungrant. gauto. Qed.
Lemma gsame_cancel_inner s0 s p : gsame s0 s -> gsame s0 (cancel_inner p s).
Proof.
  intros H. unfold cancel_inner. repeat case_match; try exact H.
  - apply gsame_regrant, gsame_ungrant, H.
  - apply gsame_unwait, H.
Qed.

Lemma gi_record_dl s a o f c : gi s -> gi (record_dl a o f c s).
Proof. apply gi_gsame, gsame_record_dl, gsame_refl. Qed.
Lemma gi_push s a o k : gi s -> gi (push a o k s).
Proof. apply gi_gsame, gsame_push, gsame_refl. Qed.
Lemma gi_unwait s a o : gi s -> gi (unwait a o s).
Proof. apply gi_gsame, gsame_unwait, gsame_refl. Qed.
Lemma gi_ungrant s a o : gi s -> gi (ungrant a o s).
Proof. apply gi_gsame, gsame_ungrant, gsame_refl. Qed.
Lemma gi_cancel_inner s p : gi s -> gi (cancel_inner p s).
Proof. apply gi_gsame, gsame_cancel_inner, gsame_refl. Qed.

(* ---------- finish: the one place an edge is removed ---------- *)
Definition clr (o : oid) (y : actor) : actor :=
  match a_hop y with Some o' => if o' =? o then set_a_hop None y else y | None => y end.
Lemma clr_id o y : a_id (clr o y) = a_id y.
Proof. unfold clr. repeat case_match; reflexivity. Qed.
Lemma clr_hop_other o y o' : a_hop y = Some o' -> o' <> o -> a_hop (clr o y) = Some o'.
Proof. intros H Hne. unfold clr. rewrite H. apply Nat.eqb_neq in Hne. rewrite Hne. exact H. Qed.

Lemma g_remove_in k g c t : In (c, t) (g_remove k g) <-> In (c, t) g /\ c <> k.
Proof.
  unfold g_remove. rewrite filter_In. cbn. split; intros [H1 H2]; (split; [exact H1|]).
  - apply negb_true_iff in H2. apply N.eqb_neq in H2. exact H2.
  - apply negb_true_iff. apply N.eqb_neq. exact H2.
Qed.
Lemma g_remove_keys k g : NoDup (map fst g) -> NoDup (map fst (g_remove k g)).
Proof.
  unfold g_remove. induction g as [|e g IH]; cbn; intros H; [constructor|].
  apply NoDup_cons_iff in H. destruct H as [Hn H]. destruct (negb (N.eqb (fst e) k)); cbn; [|apply IH, H].
  constructor; [|apply IH, H]. intros Hin. apply Hn. apply in_map_iff in Hin. destruct Hin as (e' & E & Hin).
  apply filter_In in Hin. apply in_map_iff. exists e'. tauto.
Qed.

(* the state after finish, field by field *)
Lemma finish_graph s o r p :
  get_op s o = Some p ->
  s_graph (finish o r s) =
  if o_tracked p then match o_caller p with
                      | Some b => match get_actor s b with Some y => g_remove (a_id y) (s_graph s) | None => s_graph s end
                      | None => s_graph s end
  else s_graph s.
Proof.
  intros Hp. unfold finish. rewrite Hp. cbn [emit s_graph set_s_trace].
  unfold clear_hop, drop_guard. destruct (o_tracked p); destruct (o_caller p) as [b|]; try reflexivity.
  - change (get_actor (upd_op ?o ?f ?st) b) with (get_actor st b). destruct (get_actor s b); reflexivity.
Qed.
Lemma finish_get_actor s o r p b :
  get_op s o = Some p ->
  get_actor (finish o r s) b =
  match o_caller p with
  | Some c => if b =? c then option_map (clr (o_id p)) (get_actor s b) else get_actor s b
  | None => get_actor s b end.
Proof.
  intros Hp. unfold finish. rewrite Hp. change (get_actor (emit ?e ?st) b) with (get_actor st b).
  unfold clear_hop. destruct (o_caller p) as [c|].
  - rewrite get_actor_upd_actor. unfold drop_guard.
    assert (E : forall st, get_actor (if o_tracked p then match Some c with
                | Some b0 => match get_actor st b0 with Some y => set_s_graph (g_remove (a_id y) (s_graph st)) st | None => st end
                | None => st end else st) b = get_actor st b).
    { intros st. destruct (o_tracked p); [|reflexivity]. destruct (get_actor st c); reflexivity. }
    unfold clr. destruct (b =? c); rewrite E; reflexivity.
  - unfold drop_guard. destruct (o_tracked p); reflexivity.
Qed.

Lemma gi_finish s o r : gi s -> gi (finish o r s).
Proof.
  intros Hgi. destruct (get_op s o) as [p|] eqn:Hp; [|unfold finish; rewrite Hp; exact Hgi].
  pose proof (get_op_id s o p Hp) as Hid.
  destruct Hgi as [Hinj [He Ho Hk]].
  (* actors keep their ids; hops other than Some o survive *)
  assert (Hact : forall b y', get_actor (finish o r s) b = Some y' ->
            exists y, get_actor s b = Some y /\ a_id y' = a_id y /\ (forall o', a_hop y = Some o' -> o' <> o -> a_hop y' = Some o')
                      /\ (forall o', a_hop y' = Some o' -> a_hop y = Some o')).
  { intros b y' Hy'. rewrite (finish_get_actor s o r p b Hp) in Hy'. rewrite Hid in Hy'.
    assert (Hclr : forall y, a_id (clr o y) = a_id y /\ (forall o', a_hop y = Some o' -> o' <> o -> a_hop (clr o y) = Some o') /\
                             (forall o', a_hop (clr o y) = Some o' -> a_hop y = Some o')).
    { intros y. split; [apply clr_id|]. split; [intros; apply clr_hop_other; assumption|].
      intros o' H. unfold clr in H. destruct (a_hop y) as [o2|] eqn:E; [|exact H]. destruct (o2 =? o); [discriminate|congruence]. }
    destruct (o_caller p) as [c|].
    - destruct (b =? c).
      + destruct (get_actor s b) as [y|]; [|discriminate]. cbn in Hy'. injection Hy' as <-. exists y. split; [reflexivity|]. apply Hclr.
      + exists y'. repeat split; auto.
    - exists y'. repeat split; auto. }
  assert (Hact2 : forall b y, get_actor s b = Some y -> exists y', get_actor (finish o r s) b = Some y' /\ a_id y' = a_id y /\
                      (forall o', a_hop y = Some o' -> o' <> o -> a_hop y' = Some o')).
  { intros b y Hy. rewrite (finish_get_actor s o r p b Hp), Hid.
    destruct (o_caller p) as [c|]; [destruct (b =? c)|]; rewrite ?Hy; cbn [option_map]; eexists; split; try reflexivity;
      split; try reflexivity; try apply clr_id; intros; try apply clr_hop_other; assumption. }
  assert (Hops : forall o', o' <> o -> get_op (finish o r s) o' = get_op s o').
  { intros o' Hne. rewrite finish_get_op. apply Nat.eqb_neq in Hne. rewrite Hne. reflexivity. }
  assert (Hop_o : get_op (finish o r s) o = Some (done_f r p)).
  { rewrite finish_get_op, Nat.eqb_refl, Hp. reflexivity. }
  (* an old witness for an operation other than o is a witness afterwards *)
  assert (Hwit : forall cid tid o' p' b xb xt, o' <> o -> edge_wit s cid tid o' p' b xb xt ->
             exists xb' xt', edge_wit (finish o r s) cid tid o' p' b xb' xt').
  { intros cid tid o' p' b xb xt Hne [W1 W2 W3 W4 W5 W6 W7 W8 W9].
    destruct (Hact2 b xb W5) as (xb' & Hb' & I1 & I2). destruct (Hact2 _ xt W8) as (xt' & Ht' & J1 & _).
    exists xb', xt'. constructor; try assumption; try congruence.
    - rewrite Hops by exact Hne. exact W1.
    - apply I2; assumption. }
  split.
  - intros b b' yb yb' Hb Hb' E. destruct (Hact b yb Hb) as (x & Hx & I & _). destruct (Hact b' yb' Hb') as (x' & Hx' & I' & _).
    eapply Hinj; [exact Hx|exact Hx'|congruence].
  - (* which edges survive *)
    assert (Hsub : forall c t, In (c, t) (s_graph (finish o r s)) -> In (c, t) (s_graph s)).
    { intros c t. rewrite (finish_graph s o r p Hp). destruct (o_tracked p); [|auto]. destruct (o_caller p) as [b|]; [|auto].
      destruct (get_actor s b); [|auto]. intros H. apply g_remove_in in H. tauto. }
    constructor.
    + intros cid tid Hin. destruct (He cid tid (Hsub _ _ Hin)) as (o' & p' & b & xb & xt & W).
      destruct (Nat.eqb_spec o' o) as [->|Hne].
      * (* the edge of o itself: it has just been removed *)
        exfalso. destruct W as [W1 W2 W3 W4 W5 W6 W7 W8 W9]. rewrite Hp in W1. injection W1 as <-.
        rewrite (finish_graph s o r p Hp), W2, W4, W5 in Hin. apply g_remove_in in Hin. destruct Hin as [_ Hin]. congruence.
      * destruct (Hwit _ _ _ _ _ _ _ Hne W) as (xb' & xt' & W'). eauto 8.
    + intros o' q Hq Htr. destruct (Nat.eqb_spec o' o) as [->|Hne].
      * rewrite Hop_o in Hq. injection Hq as <-. discriminate.
      * rewrite Hops in Hq by exact Hne. destruct (Ho o' q Hq Htr) as (b & xb & xt & W & Hin).
        destruct (Hwit _ _ _ _ _ _ _ Hne W) as (xb' & xt' & W').
        exists b, xb', xt'. rewrite (ew_cid _ _ _ _ _ _ _ _ W'), (ew_tid _ _ _ _ _ _ _ _ W'). split; [exact W'|].
        (* its edge is not the removed one *)
        rewrite (finish_graph s o r p Hp). destruct (o_tracked p) eqn:Htp; [|exact Hin].
        destruct (o_caller p) as [c|] eqn:Hcp; [|exact Hin]. destruct (get_actor s c) as [yc|] eqn:Hyc; [|exact Hin].
        apply g_remove_in. split; [exact Hin|]. intros Eid.
        (* same key => same caller => both o and o' are that caller's awaited operation *)
        destruct (Ho o p Hp Htp) as (b2 & xb2 & xt2 & W2 & _).
        destruct W as [V1 V2 V3 V4 V5 V6 V7 V8 V9]. destruct W2 as [U1 U2 U3 U4 U5 U6 U7 U8 U9].
        rewrite Hcp in U4. injection U4 as <-. rewrite Hyc in U5. injection U5 as <-.
        assert (b = c) by (eapply Hinj; [exact V5|exact Hyc|exact Eid]). subst b.
        rewrite Hyc in V5. injection V5 as <-. congruence.
    + rewrite (finish_graph s o r p Hp). destruct (o_tracked p); [|exact Hk]. destruct (o_caller p) as [b|]; [|exact Hk].
      destruct (get_actor s b); [|exact Hk]. apply g_remove_keys, Hk.
Qed.

(* ---------- the composite client functions ---------- *)
Lemma gi_after_push s o k : gi s -> gi (after_push o k s).
Proof.
  intros H. unfold after_push. destruct k; try (apply gi_finish; exact H).
  eapply gi_gsame; [|exact H]. apply gsame_upd_op; [reflexivity| |apply gsame_refl].
  intros p. unfold go. cbn. (* OPre -> OWaitReply: neither is done *)
Abort.
