(* The wait-for graph holds exactly the edges of the unfinished tracked asks (C14, C15): every edge
   belongs to an ask that an actor's running hook is still awaiting, every such ask has its edge, and
   keys are unique.  Hence no residue once every ask has finished. *)
From RS Require Import Tactics Frame ListFacts Spec SysFrame NF ActorSpec StepCases OpsSpec OpCases Ids Reply RealTime Graph.

Definition ids_inj (s : sys) : Prop :=
  forall b b' xb xb', get_actor s b = Some xb -> get_actor s b' = Some xb' -> a_id xb = a_id xb' -> b = b'.

Record edge_wit (s : sys) (cid tid : N) (o : oid) (p : op) (b : aid) (xb xt : actor) : Prop := mkEW {
  ew_op : get_op s o = Some p; ew_tr : o_tracked p = true; ew_nd : is_done (o_ph p) = false;
  ew_caller : o_caller p = Some b; ew_b : get_actor s b = Some xb; ew_cid : a_id xb = cid;
  ew_hop : a_hop xb = Some o; ew_t : get_actor s (o_tgt p) = Some xt; ew_tid : a_id xt = tid }.

Record graph_core (s : sys) : Prop := mkGC {
  gc_edge : forall cid tid, In (cid, tid) (s_graph s) -> exists o p b xb xt, edge_wit s cid tid o p b xb xt;
  gc_op : forall o p, get_op s o = Some p -> o_tracked p = true ->
          exists b xb xt, edge_wit s (a_id xb) (a_id xt) o p b xb xt /\ In (a_id xb, a_id xt) (s_graph s);
  gc_keys : NoDup (map fst (s_graph s)) }.

Definition gi (s : sys) : Prop := ids_inj s /\ graph_core s.

(* ---------- the parts of the state the invariant reads ---------- *)
Definition ga (x : actor) := (a_id x, a_hop x).
(* whether an untracked operation is finished does not matter to the graph *)
Definition go (p : op) := (o_id p, o_tracked p, o_tracked p && is_done (o_ph p), o_caller p, o_tgt p).

Definition gsame (s s' : sys) : Prop :=
  (forall b, option_map ga (get_actor s' b) = option_map ga (get_actor s b)) /\
  (forall o, option_map go (get_op s' o) = option_map go (get_op s o)) /\
  s_graph s' = s_graph s.

Lemma gsame_refl s : gsame s s.
Proof. repeat split. Qed.
Lemma gsame_trans s1 s2 s3 : gsame s1 s2 -> gsame s2 s3 -> gsame s1 s3.
Proof. intros (A1 & O1 & G1) (A2 & O2 & G2). repeat split; intros; congruence. Qed.

Lemma gsame_actor s s' b y : gsame s s' -> get_actor s' b = Some y ->
  exists x, get_actor s b = Some x /\ a_id x = a_id y /\ a_hop x = a_hop y.
Proof.
  intros (A & _) Hy. specialize (A b). rewrite Hy in A. destruct (get_actor s b) as [x|]; [|discriminate].
  cbn in A. unfold ga in A. injection A as E1 E2. eauto.
Qed.
Lemma gsame_actor_fwd s s' b x : gsame s s' -> get_actor s b = Some x ->
  exists y, get_actor s' b = Some y /\ a_id y = a_id x /\ a_hop y = a_hop x.
Proof.
  intros (A & _) Hx. specialize (A b). rewrite Hx in A. destruct (get_actor s' b) as [y|]; [|discriminate].
  cbn in A. unfold ga in A. injection A as E1 E2. eauto.
Qed.
Lemma gsame_op s s' o q : gsame s s' -> get_op s' o = Some q ->
  exists p, get_op s o = Some p /\ go p = go q.
Proof.
  intros (_ & O & _) Hq. specialize (O o). rewrite Hq in O. destruct (get_op s o) as [p|]; [|discriminate].
  cbn [option_map] in O. assert (E : go p = go q) by congruence. eauto.
Qed.
Lemma gsame_op_fwd s s' o p : gsame s s' -> get_op s o = Some p ->
  exists q, get_op s' o = Some q /\ go q = go p.
Proof.
  intros (_ & O & _) Hp. specialize (O o). rewrite Hp in O. destruct (get_op s' o) as [q|]; [|discriminate].
  cbn [option_map] in O. assert (E : go q = go p) by congruence. eauto.
Qed.
Lemma go_fields p q : go p = go q ->
  o_tracked p = o_tracked q /\ (o_tracked p = true -> is_done (o_ph p) = is_done (o_ph q)) /\
  o_caller p = o_caller q /\ o_tgt p = o_tgt q.
Proof.
  unfold go. intros E. injection E as E1 E2 E3 E4 E5. repeat split; auto.
  intros Ht. destruct (o_tracked p); [|discriminate]. destruct (o_tracked q); [|discriminate]. exact E3.
Qed.

Lemma edge_wit_gsame s s' cid tid o p b xb xt :
  gsame s s' -> edge_wit s cid tid o p b xb xt -> exists p' xb' xt', edge_wit s' cid tid o p' b xb' xt'.
Proof.
  intros H [W1 W2 W3 W4 W5 W6 W7 W8 W9].
  destruct (gsame_op_fwd _ _ _ _ H W1) as (p' & Hp' & E). destruct (go_fields _ _ E) as (E1 & E2 & E3 & E4).
  destruct (gsame_actor_fwd _ _ _ _ H W5) as (xb' & Hb' & I1 & I2).
  destruct (gsame_actor_fwd _ _ _ _ H W8) as (xt' & Ht' & J1 & _).
  exists p', xb', xt'. constructor; try congruence.
  rewrite E2 by congruence. exact W3.
Qed.

Lemma gi_gsame s s' : gsame s s' -> gi s -> gi s'.
Proof.
  intros H [Hinj [He Ho Hk]]. pose proof H as (HA & HO & HG). split.
  - intros b b' yb yb' Hb Hb' E.
    destruct (gsame_actor _ _ _ _ H Hb) as (xb & Hxb & I1 & _). destruct (gsame_actor _ _ _ _ H Hb') as (xb' & Hxb' & I2 & _).
    eapply Hinj; [exact Hxb|exact Hxb'|congruence].
  - constructor.
    + intros cid tid Hin. rewrite HG in Hin. destruct (He cid tid Hin) as (o & p & b & xb & xt & W).
      destruct (edge_wit_gsame _ _ _ _ _ _ _ _ _ H W) as (p' & xb' & xt' & W'). eauto 8.
    + intros o q Hq Htr. destruct (gsame_op _ _ _ _ H Hq) as (p & Hp & E). destruct (go_fields _ _ E) as (E1 & _).
      destruct (Ho o p Hp) as (b & xb & xt & W & Hin); [congruence|].
      destruct (edge_wit_gsame _ _ _ _ _ _ _ _ _ H W) as (p' & xb' & xt' & W').
      pose proof (ew_op _ _ _ _ _ _ _ _ W') as G. rewrite Hq in G. injection G as <-.
      exists b, xb', xt'. rewrite HG. rewrite (ew_cid _ _ _ _ _ _ _ _ W'), (ew_tid _ _ _ _ _ _ _ _ W'). split; [|exact Hin].
      destruct W'. constructor; congruence.
    + rewrite HG. exact Hk.
Qed.

(* ---------- primitives that the invariant does not see ---------- *)
Lemma gsame_emit s0 s e : gsame s0 s -> gsame s0 (emit e s).
Proof. intros H. exact H. Qed.
Lemma gsame_upd_actor s0 s a f : (forall x, ga (f x) = ga x) -> gsame s0 s -> gsame s0 (upd_actor a f s).
Proof.
  intros Hf (A & O & G). repeat split; try assumption. intros b. rewrite get_actor_upd_actor.
  destruct (b =? a); [|apply A]. rewrite <- A. destruct (get_actor s b); cbn; [rewrite Hf|]; reflexivity.
Qed.
Lemma gsame_upd_op s0 s o f :
  (forall p, o_id (f p) = o_id p) -> (forall p, go (f p) = go p) -> gsame s0 s -> gsame s0 (upd_op o f s).
Proof.
  intros Hid Hf (A & O & G). repeat split; try assumption. intros o'. rewrite get_op_upd_op by exact Hid.
  destruct (o' =? o); [|apply O]. rewrite <- O. destruct (get_op s o'); cbn; [rewrite Hf|]; reflexivity.
Qed.
Lemma gsame_ext s0 s s' : s_actors s' = s_actors s -> s_ops s' = s_ops s -> s_graph s' = s_graph s -> gsame s0 s -> gsame s0 s'.
Proof. intros Ea Eo Eg (A & O & G). unfold gsame, get_actor, get_op in *. rewrite Ea, Eo, Eg. auto. Qed.

Ltac gside := intros ?x; cbv beta; repeat case_match; reflexivity.
Ltac gprim := first [ assumption | apply gsame_upd_actor; [gside|] ].
Ltac gauto := repeat (repeat case_match; gprim).

Lemma gsame_record_dl s0 s a o f c : gsame s0 s -> gsame s0 (record_dl a o f c s).
Proof.
  unfold record_dl. generalize (dl_sites (site_fn f c) c). intros l. revert s.
  induction l as [|rl l IH]; intros s H; cbn [fold_left]; [exact H|].
  apply IH. unfold record_one. apply gsame_emit. destruct (f_testutils (s_feat s)); [|exact H].
  eapply gsame_ext; [| | |exact H]; reflexivity.
Qed.
Lemma gsame_push s0 s a o k : gsame s0 s -> gsame s0 (push a o k s).
Proof. intros H. unfold push. apply gsame_emit. gauto. Qed.
Lemma gsame_regrant s0 s a : gsame s0 s -> gsame s0 (regrant a s).
Proof. intros H. unfold regrant. gauto. Qed.
Lemma gsame_unwait s0 s a o : gsame s0 s -> gsame s0 (unwait a o s).
Proof. intros H. unfold unwait. gauto. Qed.
Lemma gsame_ungrant s0 s a o : gsame s0 s -> gsame s0 (ungrant a o s).
Proof. intros H. unfold ungrant. gauto. Qed.
Lemma gsame_cancel_inner s0 s p : gsame s0 s -> gsame s0 (cancel_inner p s).
Proof.
  intros H. unfold cancel_inner. repeat case_match; try exact H.
  - apply gsame_regrant, gsame_ungrant, H.
  - apply gsame_unwait, H.
Qed.

Lemma gi_record_dl s a o f c : gi s -> gi (record_dl a o f c s).
Proof. apply gi_gsame, gsame_record_dl, gsame_refl. Qed.
Lemma gi_push s a o k : gi s -> gi (push a o k s).
Proof. apply gi_gsame, gsame_push, gsame_refl. Qed.
Lemma gi_unwait s a o : gi s -> gi (unwait a o s).
Proof. apply gi_gsame, gsame_unwait, gsame_refl. Qed.
Lemma gi_ungrant s a o : gi s -> gi (ungrant a o s).
Proof. apply gi_gsame, gsame_ungrant, gsame_refl. Qed.
Lemma gi_cancel_inner s p : gi s -> gi (cancel_inner p s).
Proof. apply gi_gsame, gsame_cancel_inner, gsame_refl. Qed.

(* ---------- finish: the one place an edge is removed ---------- *)
Definition clr (o : oid) (y : actor) : actor :=
  match a_hop y with Some o' => if o' =? o then set_a_hop None y else y | None => y end.
Lemma clr_id o y : a_id (clr o y) = a_id y.
Proof. unfold clr. repeat case_match; reflexivity. Qed.
Lemma clr_hop_other o y o' : a_hop y = Some o' -> o' <> o -> a_hop (clr o y) = Some o'.
Proof. intros H Hne. unfold clr. rewrite H. apply Nat.eqb_neq in Hne. rewrite Hne. exact H. Qed.

Lemma g_remove_in k g c t : In (c, t) (g_remove k g) <-> In (c, t) g /\ c <> k.
Proof.
  unfold g_remove. rewrite filter_In. cbn. split; intros [H1 H2]; (split; [exact H1|]).
  - apply negb_true_iff in H2. apply N.eqb_neq in H2. exact H2.
  - apply negb_true_iff. apply N.eqb_neq. exact H2.
Qed.
Lemma g_remove_keys k g : NoDup (map fst g) -> NoDup (map fst (g_remove k g)).
Proof.
  unfold g_remove. induction g as [|e g IH]; cbn; intros H; [constructor|].
  apply NoDup_cons_iff in H. destruct H as [Hn H]. destruct (negb (N.eqb (fst e) k)); cbn; [|apply IH, H].
  constructor; [|apply IH, H]. intros Hin. apply Hn. apply in_map_iff in Hin. destruct Hin as (e' & E & Hin).
  apply filter_In in Hin. apply in_map_iff. exists e'. tauto.
Qed.

(* the state after finish, field by field *)
Lemma finish_graph s o r p :
  get_op s o = Some p ->
  s_graph (finish o r s) =
  if o_tracked p then match o_caller p with
                      | Some b => match get_actor s b with Some y => g_remove (a_id y) (s_graph s) | None => s_graph s end
                      | None => s_graph s end
  else s_graph s.
Proof.
  intros Hp. unfold finish. rewrite Hp. cbn [emit s_graph set_s_trace].
  unfold clear_hop, drop_guard. destruct (o_tracked p); destruct (o_caller p) as [b|]; try reflexivity.
  - change (get_actor (upd_op ?o ?f ?st) b) with (get_actor st b). destruct (get_actor s b); reflexivity.
Qed.
Lemma get_actor_drop_guard p st b : get_actor (drop_guard p st) b = get_actor st b.
Proof. unfold drop_guard. repeat case_match; reflexivity. Qed.
Lemma finish_get_actor s o r p b :
  get_op s o = Some p ->
  get_actor (finish o r s) b =
  match o_caller p with
  | Some c => if b =? c then option_map (clr (o_id p)) (get_actor s b) else get_actor s b
  | None => get_actor s b end.
Proof.
  intros Hp. unfold finish. rewrite Hp. change (get_actor (emit ?e ?st) b) with (get_actor st b).
  unfold clear_hop. destruct (o_caller p) as [c|].
  - rewrite get_actor_upd_actor, get_actor_drop_guard. reflexivity.
  - rewrite get_actor_drop_guard. reflexivity.
Qed.

Lemma gi_finish s o r : gi s -> gi (finish o r s).
Proof.
  intros Hgi. destruct (get_op s o) as [p|] eqn:Hp; [|unfold finish; rewrite Hp; exact Hgi].
  pose proof (get_op_id s o p Hp) as Hid.
  destruct Hgi as [Hinj [He Ho Hk]].
  (* actors keep their ids; hops other than Some o survive *)
  assert (Hact : forall b y', get_actor (finish o r s) b = Some y' ->
            exists y, get_actor s b = Some y /\ a_id y' = a_id y /\ (forall o', a_hop y = Some o' -> o' <> o -> a_hop y' = Some o')
                      /\ (forall o', a_hop y' = Some o' -> a_hop y = Some o')).
  { intros b y' Hy'. rewrite (finish_get_actor s o r p b Hp) in Hy'. rewrite Hid in Hy'.
    assert (Hclr : forall y, a_id (clr o y) = a_id y /\ (forall o', a_hop y = Some o' -> o' <> o -> a_hop (clr o y) = Some o') /\
                             (forall o', a_hop (clr o y) = Some o' -> a_hop y = Some o')).
    { intros y. split; [apply clr_id|]. split; [intros; apply clr_hop_other; assumption|].
      intros o' H. unfold clr in H. destruct (a_hop y) as [o2|] eqn:E; [|congruence]. destruct (o2 =? o); [discriminate|congruence]. }
    destruct (o_caller p) as [c|].
    - destruct (b =? c).
      + destruct (get_actor s b) as [y|]; [|discriminate]. cbn in Hy'. injection Hy' as <-. exists y. split; [reflexivity|]. apply Hclr.
      + exists y'. repeat split; auto.
    - exists y'. repeat split; auto. }
  assert (Hact2 : forall b y, get_actor s b = Some y -> exists y', get_actor (finish o r s) b = Some y' /\ a_id y' = a_id y /\
                      (forall o', a_hop y = Some o' -> o' <> o -> a_hop y' = Some o')).
  { intros b y Hy. rewrite (finish_get_actor s o r p b Hp), Hid.
    destruct (o_caller p) as [c|]; [destruct (b =? c)|]; rewrite ?Hy; cbn [option_map]; eexists; split; try reflexivity;
      split; try reflexivity; try apply clr_id; intros; try apply clr_hop_other; assumption. }
  assert (Hops : forall o', o' <> o -> get_op (finish o r s) o' = get_op s o').
  { intros o' Hne. rewrite finish_get_op. apply Nat.eqb_neq in Hne. rewrite Hne. reflexivity. }
  assert (Hop_o : get_op (finish o r s) o = Some (done_f r p)).
  { rewrite finish_get_op, Nat.eqb_refl, Hp. reflexivity. }
  (* an old witness for an operation other than o is a witness afterwards *)
  assert (Hwit : forall cid tid o' p' b xb xt, o' <> o -> edge_wit s cid tid o' p' b xb xt ->
             exists xb' xt', edge_wit (finish o r s) cid tid o' p' b xb' xt').
  { intros cid tid o' p' b xb xt Hne [W1 W2 W3 W4 W5 W6 W7 W8 W9].
    destruct (Hact2 b xb W5) as (xb' & Hb' & I1 & I2). destruct (Hact2 _ xt W8) as (xt' & Ht' & J1 & _).
    exists xb', xt'. constructor; try assumption; try congruence.
    - rewrite Hops by exact Hne. exact W1.
    - apply I2; assumption. }
  split.
  - intros b b' yb yb' Hb Hb' E. destruct (Hact b yb Hb) as (x & Hx & I & _). destruct (Hact b' yb' Hb') as (x' & Hx' & I' & _).
    eapply Hinj; [exact Hx|exact Hx'|congruence].
  - (* which edges survive *)
    assert (Hsub : forall c t, In (c, t) (s_graph (finish o r s)) -> In (c, t) (s_graph s)).
    { intros c t. rewrite (finish_graph s o r p Hp). destruct (o_tracked p); [|auto]. destruct (o_caller p) as [b|]; [|auto].
      destruct (get_actor s b); [|auto]. intros H. apply g_remove_in in H. tauto. }
    constructor.
    + intros cid tid Hin. destruct (He cid tid (Hsub _ _ Hin)) as (o' & p' & b & xb & xt & W).
      destruct (Nat.eqb_spec o' o) as [->|Hne].
      * (* the edge of o itself: it has just been removed *)
        exfalso. destruct W as [W1 W2 W3 W4 W5 W6 W7 W8 W9]. rewrite Hp in W1. injection W1 as <-.
        rewrite (finish_graph s o r p Hp), W2, W4, W5 in Hin. apply g_remove_in in Hin. destruct Hin as [_ Hin]. congruence.
      * destruct (Hwit _ _ _ _ _ _ _ Hne W) as (xb' & xt' & W'). eauto 8.
    + intros o' q Hq Htr. destruct (Nat.eqb_spec o' o) as [->|Hne].
      * rewrite Hop_o in Hq. injection Hq as <-. discriminate.
      * rewrite Hops in Hq by exact Hne. destruct (Ho o' q Hq Htr) as (b & xb & xt & W & Hin).
        destruct (Hwit _ _ _ _ _ _ _ Hne W) as (xb' & xt' & W').
        exists b, xb', xt'. rewrite (ew_cid _ _ _ _ _ _ _ _ W'), (ew_tid _ _ _ _ _ _ _ _ W'). split; [exact W'|].
        (* its edge is not the removed one *)
        rewrite (finish_graph s o r p Hp). destruct (o_tracked p) eqn:Htp; [|exact Hin].
        destruct (o_caller p) as [c|] eqn:Hcp; [|exact Hin]. destruct (get_actor s c) as [yc|] eqn:Hyc; [|exact Hin].
        apply g_remove_in. split; [exact Hin|]. intros Eid.
        (* same key => same caller => both o and o' are that caller's awaited operation *)
        destruct (Ho o p Hp Htp) as (b2 & xb2 & xt2 & W2 & _).
        destruct W as [V1 V2 V3 V4 V5 V6 V7 V8 V9]. destruct W2 as [U1 U2 U3 U4 U5 U6 U7 U8 U9].
        rewrite Hcp in U4. injection U4 as <-. rewrite Hyc in U5. injection U5 as <-.
        assert (b = c) by (eapply Hinj; [exact V5|exact Hyc|exact Eid]). subst b.
        rewrite Hyc in V5. injection V5 as <-. congruence.
    + rewrite (finish_graph s o r p Hp). destruct (o_tracked p); [|exact Hk]. destruct (o_caller p) as [b|]; [|exact Hk].
      destruct (get_actor s b); [|exact Hk]. apply g_remove_keys, Hk.
Qed.


(* ---------- the composite client functions ---------- *)
Lemma tracked_not_done s o p : gi s -> get_op s o = Some p -> o_tracked p && is_done (o_ph p) = false.
Proof.
  intros [_ [_ Ho _]] Hp. destruct (o_tracked p) eqn:Ht; [|reflexivity].
  destruct (Ho o p Hp Ht) as (b & xb & xt & W & _). rewrite (ew_nd _ _ _ _ _ _ _ _ W). reflexivity.
Qed.

Lemma gi_set_waitreply s o : gi s -> gi (upd_op o (set_o_ph OWaitReply) s).
Proof.
  intros H. eapply gi_gsame; [|exact H]. repeat split.
  intros o'. rewrite get_op_upd_op by reflexivity. destruct (Nat.eqb_spec o' o) as [->|]; [|reflexivity].
  destruct (get_op s o) as [p|] eqn:Hp; [|reflexivity]. cbn [option_map]. f_equal. unfold go.
  cbn [o_id o_tracked o_ph o_caller o_tgt set_o_ph is_done]. rewrite (tracked_not_done s o p H Hp), andb_false_r. reflexivity.
Qed.

Lemma gi_after_push s o k : gi s -> gi (after_push o k s).
Proof. intros H. unfold after_push. destruct k; try (apply gi_finish; exact H). apply gi_set_waitreply, H. Qed.
Lemma gi_send_failed s p : gi s -> gi (send_failed p s).
Proof. intros H. unfold send_failed. destruct (o_kind p); apply gi_finish; try apply gi_record_dl; exact H. Qed.
Lemma gi_try_send s p : gi s -> gi (try_send p s).
Proof.
  intros H. unfold try_send. repeat case_match; try exact H.
  - apply gi_send_failed, H.
  - apply gi_after_push, gi_push, H.
  - eapply gi_gsame; [|exact H]. apply gsame_upd_actor; [reflexivity|apply gsame_refl].
Qed.
Lemma gi_poll_inner s p : gi s -> gi (poll_inner p s).
Proof.
  intros H. unfold poll_inner. repeat case_match; try exact H.
  - apply gi_send_failed, gi_unwait, gi_ungrant, H.
  - apply gi_after_push, gi_push, gi_ungrant, H.
  - apply gi_finish, H.
  - apply gi_finish, gi_record_dl, H.
Qed.
Lemma gi_post_inner s o : gi s -> gi (post_inner o s).
Proof.
  intros H. unfold post_inner. repeat case_match; try exact H.
  apply gi_finish, gi_record_dl, gi_cancel_inner, H.
Qed.
Lemma gi_poll s o : gi s -> gi (poll o s).
Proof. intros H. unfold poll. repeat case_match; try exact H. apply gi_post_inner, gi_poll_inner, H. Qed.
Lemma gi_cancel s o : gi s -> gi (cancel o s).
Proof. intros H. unfold cancel. repeat case_match; try exact H. apply gi_finish, gi_cancel_inner, H. Qed.

(* ---------- begin: the one place an edge is inserted ---------- *)
Lemma get_actor_set_hop s c o b :
  get_actor (set_hop c o s) b =
  match c with Some c' => if b =? c' then option_map (set_a_hop (Some o)) (get_actor s b) else get_actor s b
             | None => get_actor s b end.
Proof. unfold set_hop. destruct c; [apply get_actor_upd_actor|reflexivity]. Qed.

Section Add.
  Variables (s : sys) (o : oid) (q : op) (caller : option aid) (gr : list (N * N)).
  Hypothesis Hgi : gi s.
  Hypothesis Hfresh : get_op s o = None.
  Hypothesis Hid : o_id q = o.
  Hypothesis Hcaller : o_caller q = caller.
  Hypothesis Hcok : caller_ok s caller = true.
  Let s1 := set_hop caller o (set_s_graph gr (set_s_ops (s_ops s ++ [q]) s)).

  Lemma add_get_op_old o' : o' <> o -> get_op s1 o' = get_op s o'.
  Proof.
    intros Hne. unfold s1, set_hop. destruct caller; [rewrite get_op_upd_actor|];
      change (get_op (set_s_graph gr ?st) o') with (get_op st o'); rewrite get_op_app;
      destruct (get_op s o'); try reflexivity; rewrite Hid; apply Nat.eqb_neq in Hne; rewrite Nat.eqb_sym, Hne; reflexivity.
  Qed.
  Lemma add_get_op_new : get_op s1 o = Some q.
  Proof.
    unfold s1, set_hop. destruct caller; [rewrite get_op_upd_actor|];
      change (get_op (set_s_graph gr ?st) o) with (get_op st o); rewrite get_op_app, Hfresh, Hid, Nat.eqb_refl; reflexivity.
  Qed.
  Lemma add_get_actor b :
    get_actor s1 b = match caller with
                     | Some c => if b =? c then option_map (set_a_hop (Some o)) (get_actor s b) else get_actor s b
                     | None => get_actor s b end.
  Proof. unfold s1. rewrite get_actor_set_hop. reflexivity. Qed.
  Lemma add_graph : s_graph s1 = gr.
  Proof. unfold s1, set_hop. destruct caller; reflexivity. Qed.

  Lemma add_actor_fwd b x : get_actor s b = Some x ->
    exists y, get_actor s1 b = Some y /\ a_id y = a_id x /\ (caller <> Some b -> a_hop y = a_hop x).
  Proof.
    intros Hx. rewrite add_get_actor. destruct caller as [c|].
    - destruct (Nat.eqb_spec b c) as [->|Hne]; rewrite Hx; cbn [option_map]; eexists; split; try reflexivity; split; try reflexivity.
      + intros H. congruence.
    - exists x. auto.
  Qed.
  Lemma add_actor_bwd b y : get_actor s1 b = Some y -> exists x, get_actor s b = Some x /\ a_id y = a_id x.
  Proof.
    rewrite add_get_actor. destruct caller as [c|]; [destruct (b =? c)|]; intros H; try (exists y; auto; fail).
    destruct (get_actor s b) as [x|]; [|discriminate]. cbn in H. injection H as <-. exists x. auto.
  Qed.

  (* a hook that is about to begin an operation awaits nothing: no edge is its own *)
  Lemma caller_has_no_wit cid tid o' p' b xb xt : edge_wit s cid tid o' p' b xb xt -> caller <> Some b.
  Proof.
    intros [W1 W2 W3 W4 W5 W6 W7 W8 W9] E. pose proof Hcok as Hc'. rewrite E in Hc'. unfold caller_ok in Hc'. rewrite W5 in Hc'.
    apply andb_prop in Hc'. destruct Hc' as [_ Hh]. unfold hop_free in Hh. rewrite W7 in Hh. discriminate.
  Qed.

  Lemma add_wit cid tid o' p' b xb xt :
    edge_wit s cid tid o' p' b xb xt -> exists xb' xt', edge_wit s1 cid tid o' p' b xb' xt'.
  Proof.
    intros W. pose proof (caller_has_no_wit _ _ _ _ _ _ _ W) as Hnc. destruct W as [W1 W2 W3 W4 W5 W6 W7 W8 W9].
    assert (Hne : o' <> o) by (intros ->; congruence).
    destruct (add_actor_fwd b xb W5) as (xb' & Hb' & I1 & I2). destruct (add_actor_fwd _ xt W8) as (xt' & Ht' & J1 & _).
    exists xb', xt'. constructor; try assumption; try congruence.
    - rewrite add_get_op_old by exact Hne. exact W1.
    - rewrite I2 by exact Hnc. exact W7.
  Qed.

  Lemma add_ids : ids_inj s1.
  Proof.
    destruct Hgi as [Hinj _]. intros b b' yb yb' Hb Hb' E.
    destruct (add_actor_bwd b yb Hb) as (x & Hx & I). destruct (add_actor_bwd b' yb' Hb') as (x' & Hx' & I').
    eapply Hinj; [exact Hx|exact Hx'|congruence].
  Qed.
End Add.

Lemma gi_add_untracked s o q caller :
  gi s -> get_op s o = None -> o_id q = o -> o_caller q = caller -> caller_ok s caller = true -> o_tracked q = false ->
  gi (set_hop caller o (set_s_ops (s_ops s ++ [q]) s)).
Proof.
  intros Hgi Hfresh Hid Hcaller Hcok Hut.
  change (gi (set_hop caller o (set_s_graph (s_graph s) (set_s_ops (s_ops s ++ [q]) s)))).
  set (gr := s_graph s).
  split; [apply (add_ids s o q caller gr Hgi Hcaller Hcok)|]. destruct Hgi as [Hinj [He Ho Hk]]. constructor.
  - intros cid tid Hin. rewrite (add_graph s o q caller gr Hcaller Hcok) in Hin. destruct (He cid tid Hin) as (o' & p' & b & xb & xt & W).
    destruct (add_wit s o q caller gr Hfresh Hid Hcaller Hcok _ _ _ _ _ _ _ W) as (xb' & xt' & W'). eauto 8.
  - intros o' p' Hp' Htr. destruct (Nat.eqb_spec o' o) as [->|Hne].
    + rewrite (add_get_op_new s o q caller gr Hfresh Hid Hcaller Hcok) in Hp'. injection Hp' as <-. congruence.
    + rewrite (add_get_op_old s o q caller gr Hid Hcaller Hcok o' Hne) in Hp'.
      destruct (Ho o' p' Hp' Htr) as (b & xb & xt & W & Hin).
      destruct (add_wit s o q caller gr Hfresh Hid Hcaller Hcok _ _ _ _ _ _ _ W) as (xb' & xt' & W').
      exists b, xb', xt'. rewrite (ew_cid _ _ _ _ _ _ _ _ W'), (ew_tid _ _ _ _ _ _ _ _ W'), (add_graph s o q caller gr Hcaller Hcok). auto.
  - rewrite (add_graph s o q caller gr Hcaller Hcok). exact Hk.
Qed.

Lemma gi_add_tracked s o q b y xa :
  gi s -> get_op s o = None -> o_id q = o -> o_caller q = Some b -> caller_ok s (Some b) = true ->
  o_tracked q = true -> o_ph q = OPre -> get_actor s b = Some y -> get_actor s (o_tgt q) = Some xa ->
  gi (set_hop (Some b) o (set_s_graph (g_insert (a_id y) (a_id xa) (s_graph s)) (set_s_ops (s_ops s ++ [q]) s))).
Proof.
  intros Hgi Hfresh Hid Hcaller Hcok Htr Hph Hy Hxa.
  set (gr := g_insert (a_id y) (a_id xa) (s_graph s)).
  split; [apply (add_ids s o q (Some b) gr Hgi Hcaller Hcok)|]. pose proof Hgi as [Hinj [He Ho Hk]].
  pose proof (add_graph s o q (Some b) gr Hcaller Hcok) as Hgr.
  (* the new record's witness *)
  destruct (add_actor_fwd s o q (Some b) gr Hcaller Hcok b y Hy) as (y' & Hy' & Iy & _).
  assert (Hhop' : a_hop y' = Some o).
  { rewrite (add_get_actor s o q (Some b) gr), Nat.eqb_refl, Hy in Hy'. cbn in Hy'. injection Hy' as <-. reflexivity. }
  destruct (add_actor_fwd s o q (Some b) gr Hcaller Hcok _ xa Hxa) as (xa' & Hxa' & Ia & _).
  assert (Wnew : edge_wit (set_hop (Some b) o (set_s_graph gr (set_s_ops (s_ops s ++ [q]) s))) (a_id y) (a_id xa) o q b y' xa').
  { constructor; try assumption.
    - apply (add_get_op_new s o q (Some b) gr Hfresh Hid Hcaller Hcok).
    - rewrite Hph. reflexivity. }
  (* an old edge has another key *)
  assert (Hother : forall cid tid o' p' b' xb xt, edge_wit s cid tid o' p' b' xb xt -> cid <> a_id y).
  { intros cid tid o' p' b' xb xt W E. pose proof (caller_has_no_wit s (Some b) Hcok _ _ _ _ _ _ _ W) as Hnc.
    destruct W as [W1 W2 W3 W4 W5 W6 W7 W8 W9]. apply Hnc. f_equal. symmetry. eapply Hinj; [exact W5|exact Hy|congruence]. }
  constructor.
  - intros cid tid Hin. rewrite Hgr in Hin. unfold gr, g_insert in Hin. destruct Hin as [E|Hin].
    + injection E as <- <-. eauto 8.
    + apply g_remove_in in Hin. destruct Hin as [Hin _]. destruct (He cid tid Hin) as (o' & p' & b' & xb & xt & W).
      destruct (add_wit s o q (Some b) gr Hfresh Hid Hcaller Hcok _ _ _ _ _ _ _ W) as (xb' & xt' & W'). eauto 8.
  - intros o' p' Hp' Htr'. destruct (Nat.eqb_spec o' o) as [->|Hne].
    + rewrite (add_get_op_new s o q (Some b) gr Hfresh Hid Hcaller Hcok) in Hp'. injection Hp' as <-.
      exists b, y', xa'. rewrite Iy, Ia, Hgr. split; [exact Wnew|]. left. reflexivity.
    + rewrite (add_get_op_old s o q (Some b) gr Hid Hcaller Hcok o' Hne) in Hp'.
      destruct (Ho o' p' Hp' Htr') as (b' & xb & xt & W & Hin).
      destruct (add_wit s o q (Some b) gr Hfresh Hid Hcaller Hcok _ _ _ _ _ _ _ W) as (xb' & xt' & W').
      exists b', xb', xt'. rewrite (ew_cid _ _ _ _ _ _ _ _ W'), (ew_tid _ _ _ _ _ _ _ _ W'), Hgr. split; [exact W'|].
      right. apply g_remove_in. split; [exact Hin|]. eapply Hother. exact W.
  - rewrite Hgr. unfold gr, g_insert. cbn [map fst]. constructor; [|apply g_remove_keys, Hk].
    intros Hin. apply in_map_iff in Hin. destruct Hin as ([c t] & E & Hin). cbn in E. subst c.
    apply g_remove_in in Hin. destruct Hin as [_ Hin]. congruence.
Qed.

(* ---------- the actor's own steps never touch what the invariant reads ---------- *)
Lemma gsame_NF s a x f fo evs :
  get_actor s a = Some x -> ga (f x) = ga x -> (forall p, o_id (fo p) = o_id p) -> (forall p, go (fo p) = go p) ->
  gsame s (NF a f fo evs s).
Proof.
  intros Hx Hf Hid Hfo. repeat split.
  - intros b. rewrite NF_get_actor. destruct (Nat.eqb_spec b a) as [->|]; [|reflexivity]. rewrite Hx. cbn. rewrite Hf. reflexivity.
  - intros o. rewrite NF_get_op by exact Hid. destruct (get_op s o); cbn; [rewrite Hfo|]; reflexivity.
Qed.

Lemma hop_take_f i tl y : a_hop (take_f i tl y) = a_hop y /\ a_id (take_f i tl y) = a_id y.
Proof.
  unfold take_f, regrant_f. cbn. destruct (a_waiters y); [split; reflexivity|].
  match goal with |- context [if ?c then _ else _] => destruct c end; split; reflexivity.
Qed.
Lemma ga_mrec_f on y : ga (mrec_f on y) = ga y.
Proof. unfold mrec_f. destruct on; reflexivity. Qed.

Lemma local_ga s a x l f fo evs : Local s a x l f fo evs -> ga (f x) = ga x.
Proof.
  intros HL. inversion HL; subst; unfold ga, stop_f, handle_f, run_f, idf, end_f;
    cbn [a_id a_hop set_a_pc set_a_ustate set_a_idle set_a_term set_a_closed set_a_mbox];
    rewrite ?(proj1 (hop_take_f _ _ _)), ?(proj2 (hop_take_f _ _ _)); try reflexivity;
    try (change (ga (mrec_f (f_metrics (s_feat s)) x) = ga x); apply ga_mrec_f).
Qed.
Lemma ddpanic_ga s a x f fo evs : DdPanic s a x f fo evs -> ga (f x) = ga x.
Proof.
  intros HD. inversion HD; subst; unfold ga, end_f; cbn [a_id a_hop set_a_pc set_a_closed set_a_term set_a_mbox]; try reflexivity.
  change (ga (mrec_f (f_metrics (s_feat s)) x) = ga x). apply ga_mrec_f.
Qed.
Lemma slot_case_go p p' evs : SlotCase p p' evs -> go p' = go p.
Proof. intros [->|a out _ -> _ _|_ ->]; reflexivity. Qed.

(* ---------- one step ---------- *)
Theorem gi_step s l : gi s -> ids_inj (sys_step s l) -> gi (sys_step s l).
Proof.
  intros H Hinj'.
  assert (Hactor : forall b, label_actor l = Some b -> gi (sys_step s l)).
  { intros b Hl. destruct (get_actor s b) as [xb|] eqn:Hxb.
    - destruct (actor_step_nf s l b xb Hl Hxb) as (f & fo & evs & E & HL). rewrite E.
      eapply gi_gsame; [|exact H]. apply (gsame_NF s b xb); [exact Hxb|eapply local_ga; exact HL| |].
      + intros p. eapply fo_preserves_id. exact HL.
      + intros p. eapply slot_case_go. eapply local_slot_case. exact HL.
    - rewrite (actor_step_absent s l b Hl Hxb). exact H. }
  assert (Hupd : forall a f, (forall x, ga (f x) = ga x) -> gi (upd_actor a f s)).
  { intros a f Hf. eapply gi_gsame; [|exact H]. apply gsame_upd_actor; [exact Hf|apply gsame_refl]. }
  destruct l; try (apply (Hactor a); reflexivity); cbn [sys_step] in *.
  - (* spawn *)
    split; [exact Hinj'|]. destruct H as [_ [He Ho Hk]].
    assert (Hw : forall cid tid o p b xb xt, edge_wit s cid tid o p b xb xt -> edge_wit (spawn cap s) cid tid o p b xb xt).
    { intros cid tid o p b xb xt [W1 W2 W3 W4 W5 W6 W7 W8 W9]. constructor; try assumption.
      - unfold get_op. rewrite spawn_ops. exact W1.
      - apply spawn_get_old, W5.
      - apply spawn_get_old, W8. }
    assert (Hg : s_graph (spawn cap s) = s_graph s) by (unfold spawn; destruct (cap =? 0); reflexivity).
    constructor.
    + intros cid tid Hin. rewrite Hg in Hin. destruct (He cid tid Hin) as (o & p & b & xb & xt & W). eauto 8.
    + intros o p Hp Htr. unfold get_op in Hp. rewrite spawn_ops in Hp. destruct (Ho o p Hp Htr) as (b & xb & xt & W & Hin).
      exists b, xb, xt. rewrite Hg. auto.
    + rewrite Hg. exact Hk.
  - (* begin *)
    unfold begin. destruct (get_op s o) eqn:Hfresh; [exact H|].
    destruct (get_actor s a) as [xa|] eqn:Hxa; [|exact H].
    destruct (caller_ok s caller && (0 <? a_ext xa)) eqn:Hc; [|exact H].
    apply andb_prop in Hc. destruct Hc as [Hc _].
    assert (H0 : gi (emit (EvBegin o k a) s)) by (eapply gi_gsame; [apply gsame_emit, gsame_refl|exact H]).
    destruct (dd_check s k caller xa) as [|c bid|c cyc] eqn:Hdd.
    + apply gi_post_inner, gi_try_send.
      apply (gi_add_untracked (emit (EvBegin o k a) s) o _ caller H0 Hfresh); try reflexivity. exact Hc.
    + unfold dd_check in Hdd. destruct k; try discriminate. destruct caller as [c'|]; try discriminate.
      destruct (f_dd (s_feat s)); try discriminate. destruct (get_actor s c') as [xc|] eqn:Hxc; try discriminate.
      destruct (N.eqb (a_id xc) (a_id xa) || has_path (s_graph s) (a_id xa) (a_id xc)); try discriminate.
      injection Hdd as <- <-. apply gi_post_inner, gi_try_send.
      apply (gi_add_tracked (emit (EvBegin o KAsk a) s) o _ c' xc xa H0 Hfresh); try reflexivity; assumption.
    + destruct (begin_panic_nf s o k a caller xa c cyc Hxa Hc Hdd) as (xc & F & FO & EVS & Hxc & HD & E).
      rewrite E. eapply gi_gsame; [|exact H].
      apply (gsame_NF s c xc); [exact Hxc|eapply ddpanic_ga; exact HD| |].
      * intros p. eapply fo_preserves_id_dd. exact HD.
      * intros p. eapply slot_case_go. eapply ddpanic_slot_case. exact HD.
  - apply gi_poll, H.
  - apply gi_cancel, H.
  - unfold kill. repeat case_match; try exact H. eapply gi_gsame; [|exact H].
    apply gsame_emit, gsame_upd_actor; [|apply gsame_refl]. intros y. destruct (a_closed y); reflexivity.
  - unfold ref_clone. repeat case_match; try exact H. apply Hupd. reflexivity.
  - unfold ref_drop. repeat case_match; try exact H. apply Hupd. reflexivity.
  - unfold ref_upgrade. repeat case_match; try exact H. apply Hupd. reflexivity.
  - eapply gi_gsame; [|exact H]. eapply gsame_ext; [| | |apply gsame_refl]; reflexivity.
Qed.

(* ---------- every reachable state (fewer than 2^64 - 1 spawns, so that ids are unique) ---------- *)
Definition few (s : sys) : Prop := (N.of_nat (length (s_actors s)) < two64 - 1)%N.

Lemma gi_init f : gi (init f).
Proof.
  split.
  - intros b b' xb xb' Hb. unfold get_actor in Hb. cbn in Hb. destruct b; discriminate.
  - constructor.
    + intros cid tid [].
    + intros o p Hp. unfold get_op in Hp. cbn in Hp. discriminate.
    + constructor.
Qed.

Lemma ids_inj_run f ls : few (run f ls) -> ids_inj (run f ls).
Proof.
  intros Hfew b b' xb xb' Hb Hb' E. destruct (Nat.eq_dec b b') as [|Hne]; [assumption|].
  exfalso. exact (ids_unique f ls b b' xb xb' Hfew Hb Hb' Hne E).
Qed.

Lemma few_mono s l : few (sys_step s l) -> few s.
Proof.
  unfold few. intros H.
  assert (Hle : length (s_actors s) <= length (s_actors (sys_step s l))).
  { destruct (le_lt_dec (length (s_actors s)) (length (s_actors (sys_step s l)))) as [|Hlt]; [assumption|exfalso].
    destruct (nth_error (s_actors s) (length (s_actors (sys_step s l)))) as [x|] eqn:Hx.
    - destruct (accepted_grows_step s l _ x Hx) as (y & d & Hy & _). unfold get_actor in Hy.
      assert (Hn : nth_error (s_actors (sys_step s l)) (length (s_actors (sys_step s l))) = None) by (apply nth_error_None; lia).
      congruence.
    - apply nth_error_None in Hx. lia. }
  lia.
Qed.

Theorem gi_run f ls : few (run f ls) -> gi (run f ls).
Proof.
  induction ls as [|l ls IH] using rev_ind; intros Hfew; [apply gi_init|].
  unfold run in *. rewrite fold_left_app in *. cbn [fold_left] in *.
  apply gi_step; [apply IH, (few_mono _ l), Hfew|].
  pose proof (ids_inj_run f (ls ++ [l])) as Hi. unfold run in Hi. rewrite fold_left_app in Hi. apply Hi, Hfew.
Qed.

Section Run.
  Variables (f : feats) (ls : list label).
  Local Notation S := (run f ls).
  Hypothesis Hfew : few S.

  (* every edge of the wait-for graph is an operation that the running hook of the actor with the
     key's id has begun and is still awaiting (it has not returned to that hook yet), sent to the
     actor with the value's id *)
  Theorem run_edge_is_awaited cid tid :
    In (cid, tid) (s_graph S) -> exists o p b xb xt, edge_wit S cid tid o p b xb xt.
  Proof. destruct (gi_run f ls Hfew) as [_ [He _ _]]. apply He. Qed.

  (* and every tracked operation that has not returned has its edge *)
  Theorem run_tracked_has_edge o p :
    get_op S o = Some p -> o_tracked p = true ->
    exists b xb xt, edge_wit S (a_id xb) (a_id xt) o p b xb xt /\ In (a_id xb, a_id xt) (s_graph S).
  Proof. destruct (gi_run f ls Hfew) as [_ [_ Ho _]]. apply Ho. Qed.

  Theorem run_graph_functional : NoDup (map fst (s_graph S)).
  Proof. destruct (gi_run f ls Hfew) as [_ [_ _ Hk]]. exact Hk. Qed.

  (* no residue: once every operation has returned, the graph is empty *)
  Theorem run_no_residue :
    (forall o p, get_op S o = Some p -> is_done (o_ph p) = true) -> s_graph S = [].
  Proof.
    intros Hall. destruct (s_graph S) as [|[c t] g] eqn:E; [reflexivity|exfalso].
    destruct (run_edge_is_awaited c t) as (o & p & b & xb & xt & W); [rewrite E; left; reflexivity|].
    pose proof (ew_nd _ _ _ _ _ _ _ _ W) as Hnd. rewrite (Hall o p (ew_op _ _ _ _ _ _ _ _ W)) in Hnd. discriminate.
  Qed.

  (* an actor whose hook awaits nothing has no outgoing edge *)
  Theorem run_no_edge_when_not_awaiting b xb tid :
    get_actor S b = Some xb -> a_hop xb = None -> ~ In (a_id xb, tid) (s_graph S).
  Proof.
    intros Hb Hh Hin. destruct (run_edge_is_awaited _ _ Hin) as (o & p & b' & xb' & xt & [W1 W2 W3 W4 W5 W6 W7 W8 W9]).
    assert (b' = b) by (eapply (ids_inj_run f ls Hfew); eassumption). subst b'. congruence.
  Qed.
End Run.

(* ---------- with the detector on, every unfinished ask begun by a hook is tracked ---------- *)
Lemma feat_step' s l : s_feat (sys_step s l) = s_feat s.
Proof.
  destruct l; try (apply (Q_step s_feat); try reflexivity; discriminate); cbn [sys_step].
  - unfold spawn. destruct (cap =? 0); reflexivity.
  - reflexivity.
Qed.

Definition tr_ok (s : sys) : Prop :=
  f_dd (s_feat s) = true ->
  forall o p b, get_op s o = Some p -> o_kind p = KAsk -> o_caller p = Some b -> is_done (o_ph p) = false ->
                o_tracked p = true.

Lemma op_static_fields p q : op_static p = op_static q -> o_kind p = o_kind q /\ o_caller p = o_caller q /\ o_tgt p = o_tgt q.
Proof. unfold op_static. intros E. injection E as ? ? ? ? ? ?. auto. Qed.

Theorem tr_ok_step s l : tr_ok s -> tr_ok (sys_step s l).
Proof.
  intros H Hdd o p' b Hp' Hk Hc Hnd. rewrite feat_step' in Hdd. specialize (H Hdd).
  destruct (get_op s o) as [p|] eqn:Hp.
  - destruct (op_step_cases s l o p Hp) as (p'' & Hp'' & HC). rewrite Hp' in Hp''. injection Hp'' as <-.
    destruct HC as [->|evs _ Hnd0 HS _|_ _ ->|evs _ HC].
    + apply (H o p b Hp); assumption.
    + destruct (op_static_fields _ _ (os_static _ _ _ _ _ _ HS)) as (E1 & E2 & _).
      rewrite (os_tracked _ _ _ _ _ _ HS Hnd). apply (H o p b Hp); [congruence|congruence|exact Hnd0].
    + discriminate.
    + destruct HC as [->|a out _ -> _ _|_ ->]; cbn in *; apply (H o p b Hp); assumption.
  - destruct (step_new_op s l o p' Hp Hp') as (k & a & caller & tmo & fn & q & s1 & evs & -> & Hid & Hkq & Ht & Hcq & Hqph & Hqsl & HS & HB & _ & _ & _ & _ & Htrk & _).
    destruct (op_static_fields _ _ (os_static _ _ _ _ _ _ HS)) as (E1 & E2 & _).
    rewrite (os_tracked _ _ _ _ _ _ HS Hnd). apply Htrk; [exact Hdd|congruence|exists b; congruence].
Qed.

Theorem tr_ok_run f ls : tr_ok (run f ls).
Proof.
  unfold run. assert (H : tr_ok (init f)) by (intros _ o p b Hp; unfold get_op in Hp; cbn in Hp; discriminate).
  revert H. generalize (init f). induction ls as [|l ls IH]; intros s H; cbn [fold_left]; [exact H|].
  apply IH, tr_ok_step, H.
Qed.

(* ---------- completeness over real in-flight asks (C14) ---------- *)
Lemma g_get_in g k v : NoDup (map fst g) -> In (k, v) g -> g_get g k = Some v.
Proof.
  induction g as [|[k' v'] g IH]; cbn; intros Hnd Hin; [destruct Hin|].
  apply NoDup_cons_iff in Hnd. destruct Hnd as [Hn Hnd]. destruct Hin as [E|Hin].
  - injection E as -> ->. rewrite N.eqb_refl. reflexivity.
  - destruct (N.eqb_spec k' k) as [->|]; [|apply IH; assumption].
    exfalso. apply Hn. apply in_map_iff. exists (k, v). auto.
Qed.

Section Complete.
  Variables (f : feats) (ls : list label).
  Local Notation S := (run f ls).
  Hypothesis Hfew : few S.
  Hypothesis Hdd : f_dd (s_feat S) = true.

  (* the running hook of actor b has begun an ask to actor c that has not returned to it *)
  Definition awaits (b c : aid) : Prop :=
    exists o p, get_op S o = Some p /\ o_kind p = KAsk /\ o_caller p = Some b /\ o_tgt p = c /\ is_done (o_ph p) = false.

  Inductive reaches : aid -> aid -> Prop :=
  | R_one b c : awaits b c -> reaches b c
  | R_more b c d : awaits b c -> reaches c d -> reaches b d.

  Lemma awaits_edge b c :
    awaits b c -> exists xb xc, get_actor S b = Some xb /\ get_actor S c = Some xc /\
                                g_get (s_graph S) (a_id xb) = Some (a_id xc).
  Proof.
    intros (o & p & Hp & Hk & Hc & Ht & Hnd).
    pose proof (tr_ok_run f ls Hdd o p b Hp Hk Hc Hnd) as Htr.
    destruct (run_tracked_has_edge f ls Hfew o p Hp Htr) as (b' & xb & xt & [W1 W2 W3 W4 W5 W6 W7 W8 W9] & Hin).
    rewrite Hc in W4. injection W4 as <-. rewrite Ht in W8. exists xb, xt. repeat split; try assumption.
    apply g_get_in; [apply (run_graph_functional f ls Hfew)|exact Hin].
  Qed.

  Lemma reaches_iter b d :
    reaches b d -> exists xb xd k, get_actor S b = Some xb /\ get_actor S d = Some xd /\ 1 <= k /\
                                   iter_edge (s_graph S) k (a_id xb) = Some (a_id xd).
  Proof.
    induction 1 as [b c Ha|b c d Ha _ IH].
    - destruct (awaits_edge b c Ha) as (xb & xc & Hb & Hc & Hg). exists xb, xc, 1. repeat split; try assumption; [lia|].
      cbn. rewrite Hg. reflexivity.
    - destruct (awaits_edge b c Ha) as (xb & xc & Hb & Hc & Hg). destruct IH as (xc' & xd & k & Hc' & Hd & Hk & Hi).
      rewrite Hc in Hc'. injection Hc' as <-. exists xb, xd, (Datatypes.S k). repeat split; try assumption; [lia|].
      cbn. rewrite Hg. exact Hi.
  Qed.

  (* if the callee (transitively) awaits the caller - through hooks of any actors, any number of
     hops - or the caller asks itself, the ask panics instead of waiting *)
  Theorem run_detects_cycle k caller x b y c :
    k = KAsk -> caller = Some b -> get_actor S b = Some y -> get_actor S c = Some x ->
    (b = c \/ reaches c b) ->
    exists cyc, dd_check S k caller x = DDPanic b cyc.
  Proof.
    intros Hk Hcl Hy Hx Hcyc. apply (dd_check_spec S k caller x b y Hdd Hk Hcl Hy).
    destruct Hcyc as [->|Hr].
    - left. congruence.
    - right. destruct (reaches_iter c b Hr) as (xc & xb & n & Hc & Hb & Hn & Hi).
      rewrite Hx in Hc. injection Hc as <-. rewrite Hy in Hb. injection Hb as <-. eauto.
  Qed.
End Complete.

Lemma g_get_some_in g k v : g_get g k = Some v -> In (k, v) g.
Proof.
  induction g as [|[k' v'] g IH]; cbn; [discriminate|]. destruct (N.eqb_spec k' k) as [->|].
  - intros E. injection E as ->. left. reflexivity.
  - intros H. right. apply IH, H.
Qed.
