(* Timeouts (C10) and dead letters (C13): consequences of the poll specification. *)
From RS Require Import Tactics Frame ListFacts OpsSpec Result.

Definition deadline_passed (p : op) (s : sys) : Prop :=
  exists d, o_deadline p = Some d /\ (d <= s_now s)%N.

Lemma expired_iff p s : expired p s = true <-> deadline_passed p s.
Proof.
  unfold expired, deadline_passed. destruct (o_deadline p) as [d|].
  - rewrite N.leb_le. split; [intros H; exists d; split; [reflexivity|exact H]|intros (d' & E & H); congruence].
  - split; [discriminate|intros (d' & E & _); discriminate].
Qed.

Section Poll.
  Variables (s : sys) (o : oid) (p : op).
  Hypothesis Hp : get_op s o = Some p.
  Hypothesis Hnd : is_done (o_ph p) = false.

  (* Err(Timeout) is returned only if the deadline has passed, and only if the wrapped operation,
     polled first in that same poll, was still pending *)
  Theorem poll_timeout_not_early p' :
    get_op (sys_step s (LPoll o)) o = Some p' -> o_ph p' = ODone (RErr ETimeout) ->
    deadline_passed p s /\ (o_ph p = OPre \/ (o_ph p = OWaitReply /\ (get_actor s (o_tgt p) <> None -> o_slot p = SlEmpty))).
  Proof.
    intros Hp' Hph. destruct (poll_spec s o p Hp Hnd) as (q & evs & [G _ _ _ _ _] & HC).
    cbn [sys_step] in Hp'. rewrite G in Hp'. injection Hp' as <-.
    inversion HC; subst; try congruence.
    - rewrite H in Hph. rewrite Hph in Hnd. discriminate.
    - split; [apply expired_iff; assumption|].
      destruct (o_ph p) eqn:E; [left; reflexivity|right; split; [reflexivity|apply H2; reflexivity]|discriminate].
  Qed.

  (* by the deadline the call has returned: a poll at or after the deadline never leaves it pending *)
  Theorem poll_not_late :
    deadline_passed p s -> exists p', get_op (sys_step s (LPoll o)) o = Some p' /\ is_done (o_ph p') = true.
  Proof.
    intros Hd. apply expired_iff in Hd. destruct (poll_spec s o p Hp Hnd) as (q & evs & [G _ _ _ _ _] & HC).
    exists q. split; [exact G|]. inversion HC; subst; try congruence;
      match goal with H : o_ph q = _ |- _ => rewrite H; reflexivity end.
  Qed.

  (* anything other than Err(Timeout) is the wrapped operation's own outcome, reported as itself
     in the poll where it occurs, whatever the deadline *)
  Theorem poll_passthrough p' :
    get_op (sys_step s (LPoll o)) o = Some p' -> o_ph p' <> ODone (RErr ETimeout) ->
    (o_ph p' = o_ph p /\ ~ deadline_passed p s)                              (* still pending *)
    \/ (o_ph p = OPre /\ o_kind p = KAsk /\ o_ph p' = OWaitReply)             (* envelope accepted *)
    \/ (o_ph p = OPre /\ o_ph p' = ODone (ROk 0))                            (* tell / stop done *)
    \/ (o_ph p = OPre /\ o_ph p' = ODone (RErr ESend))                       (* actor stopped *)
    \/ (exists v, o_slot p = SlVal v /\ o_ph p' = ODone (ROk v))             (* the reply *)
    \/ (o_slot p = SlClosed /\ o_ph p' = ODone (RErr EReceive)).             (* reply dropped *)
  Proof.
    intros Hp' Hph. destruct (poll_spec s o p Hp Hnd) as (q & evs & [G _ _ _ _ _] & HC).
    cbn [sys_step] in Hp'. rewrite G in Hp'. injection Hp' as <-.
    inversion HC; subst; try congruence.
    - left. split; [assumption|]. intros Hd. apply expired_iff in Hd. congruence.
    - right; left. auto.
    - right; right; left. auto.
    - right; right; right; left. auto.
    - right; right; left. auto.
    - right; right; right; right; left. eauto.
    - right; right; right; right; right. auto.
  Qed.

  (* polling never changes the deadline *)
  Theorem poll_keeps_deadline p' :
    get_op (sys_step s (LPoll o)) o = Some p' -> o_deadline p' = o_deadline p.
  Proof.
    intros Hp'. destruct (poll_spec s o p Hp Hnd) as (q & evs & [G _ St _ _ _] & _).
    cbn [sys_step] in Hp'. rewrite G in Hp'. injection Hp' as <-. unfold op_static in St. congruence.
  Qed.
End Poll.

(* ---------- dead letters ---------- *)
Inductive family := FamTell | FamAsk | FamOther.
Definition fn_family (f : fnname) : family :=
  match f with FTell | FTellTo | FBTell | FBTellTo => FamTell | FAsk | FAskTo | FBAsk | FBAskTo => FamAsk | FStop => FamOther end.
Definition label_family (lb : dllabel) : family :=
  match lb with LbTell | LbBlockingTell => FamTell | LbAsk | LbBlockingAsk => FamAsk | LbOther => FamOther end.
Definition reason_of (c : dlctx) : dlreason :=
  match c with CxSend => DActorStopped | CxReply => DReplyDropped | CxElapsed => DTimeout end.
(* which failing branches exist in which send path *)
Definition valid_site (f : fnname) (c : dlctx) : bool :=
  match f, c with
  | FStop, _ => false
  | (FTell | FBTell), CxSend => true
  | (FTellTo | FBTellTo), (CxSend | CxElapsed) => true
  | (FAsk | FBAsk), (CxSend | CxReply) => true
  | (FAskTo | FBAskTo), _ => true
  | _, _ => false end.

Definition all_fns := [FTell; FTellTo; FAsk; FAskTo; FStop; FBTell; FBTellTo; FBAsk; FBAskTo].
Definition all_ctx := [CxSend; CxReply; CxElapsed].

Definition site_ok (f : fnname) (c : dlctx) : bool :=
  negb (valid_site f c) ||
  match dl_sites (site_fn f c) c with
  | [(r, lb)] => reason_eqb r (reason_of c) &&
                 match label_family lb, fn_family f with
                 | FamTell, FamTell | FamAsk, FamAsk => true | _, _ => false end
  | _ => false end.

Lemma dl_table_checked : forallb (fun f => forallb (site_ok f) all_ctx) all_fns = true.
Proof. vm_compute. reflexivity. Qed.

(* every failing branch of every send path records exactly one dead letter, with the reason that
   matches the error and a label of the operation's family (uses the generated call-site table) *)
Theorem dl_table_exact f c :
  valid_site f c = true ->
  exists lb, dl_sites (site_fn f c) c = [(reason_of c, lb)] /\ label_family lb = fn_family f.
Proof.
  intros Hv. pose proof dl_table_checked as H. rewrite forallb_forall in H.
  assert (Hf : In f all_fns) by (destruct f; cbn; tauto).
  specialize (H f Hf). rewrite forallb_forall in H.
  assert (Hc : In c all_ctx) by (destruct c; cbn; tauto).
  specialize (H c Hc). unfold site_ok in H. rewrite Hv in H. cbn [negb orb] in H.
  destruct (dl_sites (site_fn f c) c) as [|[r lb] [|]]; try discriminate.
  apply andb_prop in H. destruct H as [Hr Hl].
  exists lb. split.
  - f_equal. f_equal. destruct r, (reason_of c); try discriminate; reflexivity.
  - destruct (label_family lb), (fn_family f); try discriminate; reflexivity.
Qed.

Definition is_dl (e : event) : bool := match e with EvDeadLetter _ _ _ _ => true | _ => false end.

Lemma filter_dl_events a o f c : filter is_dl (dl_events a o f c) = dl_events a o f c.
Proof.
  unfold dl_events. generalize (dl_sites (site_fn f c) c). intros l.
  induction l as [|rl l IH]; cbn; [reflexivity|].
  rewrite filter_app, IH. reflexivity.
Qed.

(* one poll: the dead letters it records are exactly those its outcome calls for - none for a
   success or while pending, the records of the failing branch for a failure *)
Theorem poll_dead_letters s p p' evs :
  is_done (o_ph p) = false -> PollCase s p p' evs ->
  filter is_dl evs =
  match o_ph p' with
  | ODone (RErr ESend) => dl_events (o_tgt p) (o_id p) (o_fn p) CxSend
  | ODone (RErr EReceive) => dl_events (o_tgt p) (o_id p) (o_fn p) CxReply
  | ODone (RErr ETimeout) => dl_events (o_tgt p) (o_id p) (o_fn p) CxElapsed
  | _ => [] end.
Proof.
  intros Hnd HC. inversion HC; subst;
    repeat match goal with H : o_ph p' = _ |- _ => rewrite H end; cbn [filter is_dl]; rewrite ?filter_dl_events; try reflexivity.
  - destruct (o_ph p); try reflexivity. discriminate.
  - rewrite filter_app, filter_dl_events.
    match goal with H : _ \/ _ |- _ => destruct H as [->|(_ & _ & ->)] end; cbn; rewrite app_nil_r; reflexivity.
Qed.

Theorem begin_dead_letters s p p' evs :
  BeginCase s p p' evs ->
  filter is_dl evs =
  match o_ph p' with
  | ODone (RErr ESend) => dl_events (o_tgt p) (o_id p) (o_fn p) CxSend
  | ODone (RErr ETimeout) => dl_events (o_tgt p) (o_id p) (o_fn p) CxElapsed
  | _ => [] end.
Proof.
  intros HC. inversion HC; subst;
    repeat match goal with H : o_ph p' = _ |- _ => rewrite H end; cbn [filter is_dl]; rewrite ?filter_dl_events; try reflexivity.
  rewrite filter_app, filter_dl_events.
  match goal with H : _ \/ _ |- _ => destruct H as [->|(_ & ->)] end; cbn; rewrite app_nil_r; reflexivity.
Qed.

(* the test-utils counter moves by exactly the number of records *)
Lemma record_dl_count s a o f c :
  s_dlcount (record_dl a o f c s) =
  if f_testutils (s_feat s)
  then fold_left (fun n _ => wrap64 (n + 1)) (dl_sites (site_fn f c) c) (s_dlcount s)
  else s_dlcount s.
Proof.
  unfold record_dl. generalize (dl_sites (site_fn f c) c). intros l. revert s.
  induction l as [|rl l IH]; intros s; cbn [fold_left].
  - destruct (f_testutils (s_feat s)); reflexivity.
  - rewrite IH. unfold record_one. destruct (f_testutils (s_feat s)) eqn:E; cbn; rewrite ?E; reflexivity.
Qed.
