(* Optional features never change messaging or lifecycle behaviour (C18): erasing the feature
   state (metrics counters, dead-letter counter, wait-for graph, guard flags, the feature record
   itself) commutes with every step that is not a detection panic. *)
From RS Require Import Tactics Frame ListFacts NF.

Definition erase_actor (x : actor) : actor := set_a_mcount 0%N x.
Definition erase_op (p : op) : op := set_o_tracked false p.
Definition erase (s : sys) : sys :=
  mkSys (map erase_actor (s_actors s)) (map erase_op (s_ops s)) (s_next s) [] (s_now s) 0%N no_feats (s_trace s).

(* the steps excluded: an ask refused by the cycle detector *)
Definition detects (s : sys) (l : label) : bool :=
  match l with
  | LBegin o k a caller tmo fn =>
      match get_op s o, get_actor s a with
      | None, Some x =>
          caller_ok s caller && (0 <? a_ext x) &&
          match dd_check s k caller x with DDPanic _ _ => true | _ => false end
      | _, _ => false end
  | _ => false end.

Lemma get_actor_erase s a : get_actor (erase s) a = option_map erase_actor (get_actor s a).
Proof. unfold get_actor, erase. cbn. apply nth_error_map. Qed.

Lemma get_op_erase s o : get_op (erase s) o = option_map erase_op (get_op s o).
Proof. unfold get_op, erase. cbn. apply find_map_id. reflexivity. Qed.

Lemma upd_nth_map {A} (e f g : A -> A) (l : list A) n :
  (forall x, e (f x) = g (e x)) -> map e (upd_nth n f l) = upd_nth n g (map e l).
Proof. intros H. revert n. induction l as [|y l IH]; intros [|n]; cbn; try reflexivity; [rewrite H|rewrite IH]; reflexivity. Qed.

Lemma erase_upd_actor s a f g :
  (forall x, erase_actor (f x) = g (erase_actor x)) -> erase (upd_actor a f s) = upd_actor a g (erase s).
Proof. intros H. unfold erase, upd_actor. cbn. rewrite (upd_nth_map erase_actor f g) by exact H. reflexivity. Qed.

Lemma erase_upd_op s o f g :
  (forall p, erase_op (f p) = g (erase_op p)) -> erase (upd_op o f s) = upd_op o g (erase s).
Proof.
  intros H. unfold erase, upd_op. cbn. rewrite !map_map. unfold set_s_ops. cbn. f_equal.
  apply map_ext. intros p. cbn. destruct (o_id p =? o); [apply H|reflexivity].
Qed.

Lemma erase_emit s e : erase (emit e s) = emit e (erase s).
Proof. reflexivity. Qed.
Lemma erase_set_graph s v : erase (set_s_graph v s) = erase s.
Proof. reflexivity. Qed.
Lemma erase_set_dlcount s v : erase (set_s_dlcount v s) = erase s.
Proof. reflexivity. Qed.
Lemma erase_set_now s v : erase (set_s_now v s) = set_s_now v (erase s).
Proof. reflexivity. Qed.

Lemma erase_record_dl s a o f c : erase (record_dl a o f c s) = record_dl a o f c (erase s).
Proof.
  unfold record_dl. generalize (dl_sites (site_fn f c) c). intros l. revert s.
  induction l as [|rl l IH]; intros s; cbn [fold_left]; [reflexivity|].
  rewrite IH. f_equal. unfold record_one. cbn [s_feat erase no_feats f_testutils].
  destruct (f_testutils (s_feat s)); reflexivity.
Qed.

Lemma erase_drop_guard s p : erase (drop_guard p s) = erase s.
Proof. unfold drop_guard. repeat case_match; reflexivity. Qed.
Lemma drop_guard_erased st p : drop_guard (erase_op p) st = st.
Proof. reflexivity. Qed.

Lemma erase_clear_hop s p : erase (clear_hop p s) = clear_hop (erase_op p) (erase s).
Proof.
  unfold clear_hop. cbn [o_caller erase_op set_o_tracked o_id]. destruct (o_caller p); [|reflexivity].
  apply erase_upd_actor. intros x. cbn. destruct (a_hop x) as [o'|]; [|reflexivity].
  destruct (o' =? o_id p); reflexivity.
Qed.

Lemma erase_finish s o r : erase (finish o r s) = finish o r (erase s).
Proof.
  unfold finish. rewrite get_op_erase. destruct (get_op s o) as [p|]; cbn [option_map]; [|reflexivity].
  rewrite erase_emit, erase_clear_hop, erase_drop_guard, drop_guard_erased.
  rewrite (erase_upd_op s o _ (fun q => set_o_tracked false (set_o_ph (ODone r) q))) by reflexivity. reflexivity.
Qed.

Lemma erase_push s a o k : erase (push a o k s) = push a o k (erase s).
Proof. unfold push. rewrite erase_emit. f_equal. apply erase_upd_actor. reflexivity. Qed.

Lemma erase_after_push s o k : erase (after_push o k s) = after_push o k (erase s).
Proof. unfold after_push. destruct k; try apply erase_finish. apply erase_upd_op. reflexivity. Qed.

Lemma erase_send_failed s p : erase (send_failed p s) = send_failed (erase_op p) (erase s).
Proof.
  unfold send_failed. cbn [o_kind o_id o_tgt o_fn erase_op set_o_tracked].
  destruct (o_kind p); rewrite erase_finish, ?erase_record_dl; reflexivity.
Qed.

Lemma erase_regrant s a : erase (regrant a s) = regrant a (erase s).
Proof. unfold regrant. apply erase_upd_actor. intros x. cbn. destruct (a_waiters x); [reflexivity|].
  unfold free_slot. cbn. match goal with |- context [if ?c then _ else _] => destruct c end; reflexivity. Qed.
Lemma erase_unwait s a o : erase (unwait a o s) = unwait a o (erase s).
Proof. unfold unwait. apply erase_upd_actor. reflexivity. Qed.
Lemma erase_ungrant s a o : erase (ungrant a o s) = ungrant a o (erase s).
Proof. unfold ungrant. apply erase_upd_actor. reflexivity. Qed.

Lemma erase_try_send s p : erase (try_send p s) = try_send (erase_op p) (erase s).
Proof.
  unfold try_send. cbn [o_tgt o_id o_kind erase_op set_o_tracked]. rewrite get_actor_erase.
  destruct (get_actor s (o_tgt p)) as [x|]; cbn [option_map]; [|reflexivity].
  change (a_closed (erase_actor x)) with (a_closed x). change (free_slot (erase_actor x)) with (free_slot x).
  destruct (a_closed x); [apply erase_send_failed|].
  destruct (free_slot x); [rewrite erase_after_push, erase_push; reflexivity|].
  apply erase_upd_actor. reflexivity.
Qed.

Lemma erase_poll_inner s p : erase (poll_inner p s) = poll_inner (erase_op p) (erase s).
Proof.
  unfold poll_inner. cbn [o_tgt o_id o_kind o_ph o_slot o_fn erase_op set_o_tracked]. rewrite get_actor_erase.
  destruct (get_actor s (o_tgt p)) as [x|]; cbn [option_map]; [|reflexivity].
  change (a_closed (erase_actor x)) with (a_closed x). change (is_granted (erase_actor x)) with (is_granted x).
  destruct (o_ph p); [| |reflexivity].
  - destruct (a_closed x); [rewrite erase_send_failed, erase_unwait, erase_ungrant; reflexivity|].
    destruct (is_granted x (o_id p)); [rewrite erase_after_push, erase_push, erase_ungrant; reflexivity|reflexivity].
  - destruct (o_slot p); [reflexivity|apply erase_finish|rewrite erase_finish, erase_record_dl; reflexivity].
Qed.

Lemma erase_cancel_inner s p : erase (cancel_inner p s) = cancel_inner (erase_op p) (erase s).
Proof.
  unfold cancel_inner. cbn [o_tgt o_id o_ph erase_op set_o_tracked]. rewrite get_actor_erase.
  destruct (o_ph p); try reflexivity.
  destruct (get_actor s (o_tgt p)) as [x|]; cbn [option_map]; [|reflexivity].
  change (is_granted (erase_actor x)) with (is_granted x).
  destruct (is_granted x (o_id p)); [rewrite erase_regrant, erase_ungrant; reflexivity|apply erase_unwait].
Qed.

Lemma expired_erase p s : expired (erase_op p) (erase s) = expired p s.
Proof. reflexivity. Qed.

Lemma erase_post_inner s o : erase (post_inner o s) = post_inner o (erase s).
Proof.
  unfold post_inner. rewrite get_op_erase. destruct (get_op s o) as [p|]; cbn [option_map]; [|reflexivity].
  change (is_done (o_ph (erase_op p))) with (is_done (o_ph p)). destruct (is_done (o_ph p)); [reflexivity|].
  rewrite expired_erase. destruct (expired p s); [|reflexivity].
  rewrite erase_finish, erase_record_dl, erase_cancel_inner. reflexivity.
Qed.

Lemma erase_poll s o : erase (poll o s) = poll o (erase s).
Proof.
  unfold poll. rewrite get_op_erase. destruct (get_op s o) as [p|]; cbn [option_map]; [|reflexivity].
  change (is_done (o_ph (erase_op p))) with (is_done (o_ph p)). destruct (is_done (o_ph p)); [reflexivity|].
  rewrite erase_post_inner, erase_poll_inner. reflexivity.
Qed.

Lemma erase_cancel s o : erase (cancel o s) = cancel o (erase s).
Proof.
  unfold cancel. rewrite get_op_erase. destruct (get_op s o) as [p|]; cbn [option_map]; [|reflexivity].
  change (is_done (o_ph (erase_op p))) with (is_done (o_ph p)). destruct (is_done (o_ph p)); [reflexivity|].
  change (o_caller (erase_op p)) with (o_caller p). destruct (o_caller p); [reflexivity|].
  rewrite erase_finish, erase_cancel_inner. reflexivity.
Qed.

Lemma erase_kill s a : erase (kill a s) = kill a (erase s).
Proof.
  unfold kill. rewrite get_actor_erase. destruct (get_actor s a) as [x|]; cbn [option_map]; [|reflexivity].
  change (a_ext (erase_actor x)) with (a_ext x). destruct (0 <? a_ext x); [|reflexivity].
  rewrite erase_emit. f_equal. apply erase_upd_actor. intros y. cbn. destruct (a_closed y); reflexivity.
Qed.
Lemma erase_ref_clone s a : erase (ref_clone a s) = ref_clone a (erase s).
Proof.
  unfold ref_clone. rewrite get_actor_erase. destruct (get_actor s a) as [x|]; cbn [option_map]; [|reflexivity].
  change (a_ext (erase_actor x)) with (a_ext x). destruct (0 <? a_ext x); [|reflexivity]. apply erase_upd_actor. reflexivity.
Qed.
Lemma erase_ref_drop s a : erase (ref_drop a s) = ref_drop a (erase s).
Proof.
  unfold ref_drop. rewrite get_actor_erase. destruct (get_actor s a) as [x|]; cbn [option_map]; [|reflexivity].
  apply erase_upd_actor. reflexivity.
Qed.

Lemma forallb_map' {A B} (g : A -> B) (h : B -> bool) (l : list A) :
  forallb h (map g l) = forallb (fun x => h (g x)) l.
Proof. induction l as [|x l IH]; cbn; [reflexivity|]. rewrite IH. reflexivity. Qed.
Lemma ops_idle_erase s a : ops_idle (erase s) a = ops_idle s a.
Proof. unfold ops_idle, erase. cbn. rewrite forallb_map'. reflexivity. Qed.
Lemma refs_gone_erase s a x : refs_gone (erase s) a (erase_actor x) = refs_gone s a x.
Proof. unfold refs_gone. rewrite ops_idle_erase. reflexivity. Qed.

Lemma erase_ref_upgrade s a : erase (ref_upgrade a s) = ref_upgrade a (erase s).
Proof.
  unfold ref_upgrade, can_upgrade. rewrite get_actor_erase. destruct (get_actor s a) as [x|]; cbn [option_map]; [|reflexivity].
  rewrite refs_gone_erase. destruct (refs_gone s a x); cbn [negb]; [reflexivity|]. apply erase_upd_actor. reflexivity.
Qed.

Lemma erase_spawn s cap : erase (spawn cap s) = spawn cap (erase s).
Proof.
  unfold spawn. destruct (cap =? 0); [reflexivity|]. unfold erase. cbn. rewrite map_app, map_length. reflexivity.
Qed.

Lemma erase_close_slots s os : erase (close_slots os s) = close_slots os (erase s).
Proof.
  unfold erase, close_slots, set_s_ops. cbn. rewrite !map_map. f_equal. apply map_ext. intros p. cbn.
  destruct (existsb (Nat.eqb (o_id p)) os); [destruct (o_slot p)|]; reflexivity.
Qed.

Lemma erase_metrics_record s a : erase (metrics_record a s) = erase s.
Proof.
  unfold metrics_record. destruct (f_metrics (s_feat s)); [|reflexivity].
  rewrite (erase_upd_actor s a _ (fun y => y)) by reflexivity.
  unfold upd_actor. rewrite upd_nth_id. destruct (erase s); reflexivity.
Qed.

Lemma metrics_record_erased st a : metrics_record a (erase st) = erase st.
Proof. reflexivity. Qed.

Lemma erase_end_actor s a : erase (end_actor a s) = end_actor a (erase s).
Proof.
  unfold end_actor. rewrite get_actor_erase. destruct (get_actor s a) as [x|]; cbn [option_map]; [|reflexivity].
  change (a_mbox (erase_actor x)) with (a_mbox x). rewrite erase_close_slots. f_equal. apply erase_upd_actor. reflexivity.
Qed.

Lemma erase_finish_task s a r : erase (finish_task a r s) = finish_task a r (erase s).
Proof. unfold finish_task. rewrite erase_emit, erase_end_actor. do 2 f_equal. apply erase_upd_actor. reflexivity. Qed.

Lemma erase_panic_actor s a : erase (panic_actor a s) = panic_actor a (erase s).
Proof.
  unfold panic_actor. rewrite get_actor_erase. destruct (get_actor s a) as [x|]; cbn [option_map]; [|reflexivity].
  change (a_pc (erase_actor x)) with (a_pc x). rewrite erase_finish_task. f_equal.
  destruct (a_pc x); try reflexivity.
  rewrite erase_metrics_record. destruct k; try reflexivity. apply erase_close_slots.
Qed.

Lemma erase_enter_stop s a k c : erase (enter_stop a k c s) = enter_stop a k c (erase s).
Proof. unfold enter_stop. rewrite erase_emit. f_equal. apply erase_upd_actor. reflexivity. Qed.

Lemma erase_take s a i tl : erase (take a i tl s) = take a i tl (erase s).
Proof. unfold take. rewrite erase_regrant. f_equal. apply erase_upd_actor. reflexivity. Qed.

Lemma erase_start_done s a out : erase (start_done a out s) = start_done a out (erase s).
Proof.
  unfold start_done. rewrite get_actor_erase. destruct (get_actor s a) as [x|]; cbn [option_map]; [|reflexivity].
  change (a_pc (erase_actor x)) with (a_pc x). change (hop_free (erase_actor x)) with (hop_free x).
  destruct (a_pc x); try reflexivity. destruct (hop_free x); [|reflexivity].
  destruct out; rewrite ?erase_panic_actor, ?erase_finish_task; try reflexivity;
    rewrite (erase_upd_actor _ a _ (fun y => set_a_pc PIdle (set_a_ustate [HvStart] y))) by reflexivity; reflexivity.
Qed.

Lemma erase_pass_begin s a k : erase (pass_begin a k s) = pass_begin a k (erase s).
Proof.
  unfold pass_begin. rewrite get_actor_erase. destruct (get_actor s a) as [x|]; cbn [option_map]; [|reflexivity].
  change (a_pc (erase_actor x)) with (a_pc x). destruct (a_pc x); try reflexivity. apply erase_upd_actor. reflexivity.
Qed.

Lemma erase_poll_branch s a ro : erase (poll_branch a ro s) = poll_branch a ro (erase s).
Proof.
  unfold poll_branch. rewrite get_actor_erase. destruct (get_actor s a) as [x|]; cbn [option_map]; [|reflexivity].
  change (a_pc (erase_actor x)) with (a_pc x). destruct (a_pc x) as [| |rest| | | |]; try reflexivity.
  destruct rest as [|b rest]; [reflexivity|].
  change (a_term (erase_actor x)) with (a_term x). change (a_mbox (erase_actor x)) with (a_mbox x).
  change (a_idle (erase_actor x)) with (a_idle x). rewrite refs_gone_erase.
  assert (Hnext : erase (upd_actor a (set_a_pc (after_branch rest)) s) = upd_actor a (set_a_pc (after_branch rest)) (erase s))
    by (apply erase_upd_actor; reflexivity).
  destruct b.
  - destruct (a_term x).
    + rewrite erase_enter_stop. f_equal. apply erase_upd_actor. reflexivity.
    + destruct (refs_gone s a x); [apply erase_enter_stop|exact Hnext].
  - destruct (a_mbox x) as [|[o k] tl].
    + destruct (refs_gone s a x); [apply erase_enter_stop|exact Hnext].
    + destruct k.
      * rewrite erase_emit, <- erase_take. f_equal. apply erase_upd_actor. reflexivity.
      * rewrite erase_emit, <- erase_take. f_equal. apply erase_upd_actor. reflexivity.
      * rewrite erase_enter_stop, erase_take. reflexivity.
  - destruct (run_guarded && negb (a_idle x)); [exact Hnext|].
    destruct ro.
    + rewrite (erase_upd_actor _ a _ (set_a_pc (after_branch rest))) by reflexivity. reflexivity.
    + rewrite erase_emit. f_equal. rewrite (erase_upd_actor _ a _ (fun y => set_a_pc PIdle (set_a_ustate (HvRun :: a_ustate y) y))) by reflexivity. reflexivity.
    + rewrite erase_emit. f_equal. rewrite (erase_upd_actor _ a _ (fun y => set_a_pc PIdle (set_a_idle false (set_a_ustate (HvRun :: a_ustate y) y)))) by reflexivity. reflexivity.
    + rewrite erase_enter_stop, erase_emit. do 2 f_equal.
      rewrite (erase_upd_actor _ a _ (fun y => set_a_ustate (HvRun :: a_ustate y) y)) by reflexivity. reflexivity.
    + rewrite erase_panic_actor. reflexivity.
Qed.

Lemma erase_handle_done s a out : erase (handle_done a out s) = handle_done a out (erase s).
Proof.
  unfold handle_done. rewrite get_actor_erase. destruct (get_actor s a) as [x|]; cbn [option_map]; [|reflexivity].
  change (a_pc (erase_actor x)) with (a_pc x). change (hop_free (erase_actor x)) with (hop_free x).
  destruct (a_pc x); try reflexivity. destruct (hop_free x); [|reflexivity].
  assert (Hgen : forall st st', erase st = st' ->
             erase (upd_actor a (set_a_pc PIdle) (metrics_record a st)) = upd_actor a (set_a_pc PIdle) (metrics_record a st')).
  { intros st st' <-. rewrite (erase_upd_actor _ a _ (set_a_pc PIdle)) by reflexivity. rewrite erase_metrics_record. reflexivity. }
  destruct out; try (rewrite erase_panic_actor; reflexivity);
    apply Hgen; destruct k; try reflexivity; apply erase_upd_op; intros p; cbn [o_slot erase_op set_o_tracked]; destruct (o_slot p); reflexivity.
Qed.

Lemma erase_stop_done s a out : erase (stop_done a out s) = stop_done a out (erase s).
Proof.
  unfold stop_done. rewrite get_actor_erase. destruct (get_actor s a) as [x|]; cbn [option_map]; [|reflexivity].
  change (a_pc (erase_actor x)) with (a_pc x). change (hop_free (erase_actor x)) with (hop_free x).
  change (a_ustate (erase_actor x)) with (a_ustate x).
  destruct (a_pc x); try reflexivity. destruct (hop_free x); [|reflexivity].
  destruct out; rewrite ?erase_panic_actor, ?erase_finish_task; reflexivity.
Qed.

Lemma caller_ok_erase s c : caller_ok (erase s) c = caller_ok s c.
Proof. unfold caller_ok. destruct c; [|reflexivity]. rewrite get_actor_erase. destruct (get_actor s a); reflexivity. Qed.

Lemma erase_set_hop s c o : erase (set_hop c o s) = set_hop c o (erase s).
Proof. unfold set_hop. destruct c; [|reflexivity]. apply erase_upd_actor. reflexivity. Qed.

Lemma erase_add_op s p : erase (set_s_ops (s_ops s ++ [p]) s) = set_s_ops (s_ops (erase s) ++ [erase_op p]) (erase s).
Proof. unfold erase, set_s_ops. cbn. rewrite map_app. reflexivity. Qed.

Lemma erase_begin s o k a caller tmo fn :
  detects s (LBegin o k a caller tmo fn) = false ->
  erase (begin o k a caller tmo fn s) = begin o k a caller tmo fn (erase s).
Proof.
  intros Hd. unfold begin, detects in *. rewrite get_op_erase, get_actor_erase.
  destruct (get_op s o); cbn [option_map]; [reflexivity|].
  destruct (get_actor s a) as [x|]; cbn [option_map]; [|reflexivity].
  rewrite caller_ok_erase. change (a_ext (erase_actor x)) with (a_ext x).
  destruct (caller_ok s caller && (0 <? a_ext x)); [|reflexivity]. cbn [andb] in Hd.
  assert (Hnone : dd_check (erase s) k caller (erase_actor x) = DDNone).
  { unfold dd_check. destruct k, caller; reflexivity. }
  rewrite Hnone.
  destruct (dd_check s k caller x) as [|b bid|b cyc]; [| |discriminate].
  - rewrite erase_post_inner, erase_try_send, erase_set_hop, erase_add_op. reflexivity.
  - rewrite erase_post_inner, erase_try_send, erase_set_hop.
    change (erase (set_s_graph ?g ?st)) with (erase st). rewrite erase_add_op. reflexivity.
Qed.

(* the simulation: erasing commutes with every step that is not a detection panic *)
Theorem erase_step s l : detects s l = false -> erase (sys_step s l) = sys_step (erase s) l.
Proof.
  intros Hd. destruct l; cbn [sys_step].
  - apply erase_spawn.
  - apply erase_begin, Hd.
  - apply erase_poll.
  - apply erase_cancel.
  - apply erase_kill.
  - apply erase_ref_clone.
  - apply erase_ref_drop.
  - apply erase_ref_upgrade.
  - reflexivity.
  - apply erase_start_done.
  - apply erase_pass_begin.
  - apply erase_poll_branch.
  - apply erase_handle_done.
  - apply erase_stop_done.
Qed.

Fixpoint no_detection (s : sys) (ls : list label) : bool :=
  match ls with
  | [] => true
  | l :: t => negb (detects s l) && no_detection (sys_step s l) t
  end.

Lemma erase_init f : erase (init f) = init no_feats.
Proof. reflexivity. Qed.

(* for every feature set and every run without a detection panic: the feature-free part of the
   final state - every actor, operation, the clock, the whole trace - is what the run with no
   feature produces *)
Theorem features_transparent f ls :
  no_detection (init f) ls = true -> erase (run f ls) = run no_feats ls.
Proof.
  unfold run. rewrite <- (erase_init f). generalize (init f). induction ls as [|l ls IH]; intros s H; cbn [fold_left].
  - reflexivity.
  - cbn [no_detection] in H. apply andb_prop in H. destruct H as [H1 H2]. apply negb_true_iff in H1.
    rewrite IH by exact H2. rewrite erase_step by exact H1. reflexivity.
Qed.
