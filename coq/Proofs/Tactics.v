(* Small tactics and arithmetic settings shared by the proof files. *)
From Coq Require Export List Arith NArith Bool Lia.
From RS Require Export Base Setters Shape Sys.
Export ListNotations.

Arguments N.add : simpl never.
Arguments N.sub : simpl never.
Arguments N.mul : simpl never.
Arguments N.modulo : simpl never.
Arguments N.eqb : simpl never.
Arguments N.leb : simpl never.
Arguments N.ltb : simpl never.
Arguments wrap64 : simpl never.
Arguments remove_nat : simpl never.

Ltac inv H := inversion H; subst; clear H.

(* destruct the scrutinee of the first match / if in the goal *)
Ltac case_match :=
  match goal with
  | |- context [match ?e with _ => _ end] => destruct e eqn:?
  | |- context [if ?e then _ else _] => destruct e eqn:?
  end.
Ltac case_match_in H :=
  match type of H with
  | context [match ?e with _ => _ end] => destruct e eqn:?
  | context [if ?e then _ else _] => destruct e eqn:?
  end.

(* oid / aid are nat: make lia see through the abbreviations *)
Ltac nlia := unfold oid, aid in *; lia.
