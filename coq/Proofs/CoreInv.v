(* State invariants over the fields only the actor task itself changes. *)
From RS Require Import Tactics Frame ListFacts ClientFrame NF ActorSpec StepCases.

Fixpoint hv_handled (ust : list hookev) : list oid :=
  match ust with
  | [] => []
  | HvHandle o :: t => o :: hv_handled t
  | _ :: t => hv_handled t end.

Definition envs (l : list item) : list item := filter is_env l.

Definition ended_pc (p : pc) : Prop := (exists r, p = PDone r) \/ p = PPanicked.

Record core_ok (x : actor) : Prop := mkCOK {
  ck_handled : hv_handled (a_ustate x) = rev (map fst (envs (a_taken x)));
  ck_start : a_pc x = PStart -> a_taken x = [] /\ a_ustate x = [];
  ck_handle : forall o k, a_pc x = PHandle o k -> k <> KStop /\ exists t, a_taken x = t ++ [(o, k)];
  ck_killed : forall k c, a_pc x = PStop k c -> (k = true <-> c = CKill);
  ck_closed : a_closed x = true <-> ended_pc (a_pc x);
  ck_marker : forall o, In (o, KStop) (a_taken x) ->
              (exists t, a_taken x = t ++ [(o, KStop)]) /\
              (a_pc x = PStop false CStopMark \/ ended_pc (a_pc x));
  ck_cap : 0 < a_cap x
}.

Definition cores_ok (s : sys) : Prop := forall a x, get_actor s a = Some x -> core_ok x.

Lemma core_ok_core x y : core y = core x -> core_ok x -> core_ok y.
Proof.
  intros E [k1 k2 k3 k4 k5 k6 k7]. destruct (core_fields x y E) as (e1 & e2 & e3 & e4 & e5 & e6 & e7 & e8).
  constructor; rewrite ?e1, ?e2, ?e3, ?e4, ?e6; assumption.
Qed.

Lemma envs_snoc l i : envs (l ++ [i]) = if is_env i then envs l ++ [i] else envs l.
Proof. unfold envs. rewrite filter_app. cbn. destruct (is_env i); [reflexivity|apply app_nil_r]. Qed.

Lemma taken_take_f i tl y : a_taken (take_f i tl y) = a_taken y ++ [i].
Proof.
  unfold take_f, regrant_f. cbn. destruct (a_waiters y); [reflexivity|].
  match goal with |- context [if ?c then _ else _] => destruct c end; reflexivity.
Qed.
Lemma ustate_take_f i tl y : a_ustate (take_f i tl y) = a_ustate y.
Proof.
  unfold take_f, regrant_f. cbn. destruct (a_waiters y); [reflexivity|].
  match goal with |- context [if ?c then _ else _] => destruct c end; reflexivity.
Qed.
Lemma pc_take_f i tl y : a_pc (take_f i tl y) = a_pc y.
Proof.
  unfold take_f, regrant_f. cbn. destruct (a_waiters y); [reflexivity|].
  match goal with |- context [if ?c then _ else _] => destruct c end; reflexivity.
Qed.
Lemma closed_take_f i tl y : a_closed (take_f i tl y) = a_closed y.
Proof.
  unfold take_f, regrant_f. cbn. destruct (a_waiters y); [reflexivity|].
  match goal with |- context [if ?c then _ else _] => destruct c end; reflexivity.
Qed.
Lemma cap_take_f i tl y : a_cap (take_f i tl y) = a_cap y.
Proof.
  unfold take_f, regrant_f. cbn. destruct (a_waiters y); [reflexivity|].
  match goal with |- context [if ?c then _ else _] => destruct c end; reflexivity.
Qed.

Lemma mrec_fields on y :
  a_pc (mrec_f on y) = a_pc y /\ a_ustate (mrec_f on y) = a_ustate y /\ a_taken (mrec_f on y) = a_taken y /\
  a_closed (mrec_f on y) = a_closed y /\ a_cap (mrec_f on y) = a_cap y.
Proof. unfold mrec_f. destruct on; repeat split; reflexivity. Qed.

(* a step that ends the task keeps ustate/taken and satisfies the closed/ended clauses *)
Lemma core_ok_end x p' g :
  core_ok x -> ended_pc p' ->
  a_ustate (g x) = a_ustate x -> a_taken (g x) = a_taken x -> a_cap (g x) = a_cap x ->
  core_ok (end_f (set_a_pc p' (g x))).
Proof.
  intros [k1 k2 k3 k4 k5 k6 k7] He E1 E2 E3.
  constructor; cbn; rewrite ?E1, ?E2, ?E3; try assumption.
  - intros ->. destruct He as [[r E]|E]; discriminate.
  - intros o k ->. destruct He as [[r E]|E]; discriminate.
  - intros k c ->. destruct He as [[r E]|E]; discriminate.
  - split; [intros _; exact He|reflexivity].
  - intros o Hin. destruct (k6 o Hin) as [Ht _]. split; [exact Ht|right; exact He].
Qed.

Lemma hv_handled_unchanged_stop k ust : hv_handled (HvStop k :: ust) = hv_handled ust.
Proof. reflexivity. Qed.

Lemma not_ended_running x :
  core_ok x -> a_closed x = false -> ~ ended_pc (a_pc x).
Proof. intros [_ _ _ _ k5 _ _] Hc He. apply k5 in He. congruence. Qed.

Lemma core_ok_local s a x l f fo evs :
  core_ok x -> Local s a x l f fo evs -> core_ok (f x).
Proof.
  intros Hok HL. pose proof Hok as [k1 k2 k3 k4 k5 k6 k7].
  assert (Hrun : forall p', a_pc x = p' -> ~ ended_pc p' -> a_closed x = false).
  { intros p' Hp Hne. destruct (a_closed x) eqn:E; [|reflexivity]. exfalso. apply Hne. rewrite <- Hp. apply k5. reflexivity. }
  inversion HL; subst; clear HL.
  - (* noop *) exact Hok.
  - (* start ok *)
    destruct (k2 H) as [Et Eu].
    constructor; cbn; rewrite ?Et; try assumption.
    + reflexivity.
    + discriminate.
    + discriminate.
    + discriminate.
    + split.
      * intros Hc. exfalso. rewrite (Hrun PStart H) in Hc; [discriminate|]. intros [[r E]|E]; discriminate.
      * intros [[r E]|E]; discriminate.
    + intros o [].
  - (* start err *) apply (core_ok_end x _ (fun y => y)); try reflexivity; [exact Hok|left; eauto].
  - (* start panic *) apply (core_ok_end x _ (fun y => y)); try reflexivity; [exact Hok|right; reflexivity].
  - (* pass begin *)
    constructor; cbn; try assumption; try discriminate.
    + split; [intros Hc; exfalso; rewrite (Hrun PIdle H) in Hc; [discriminate|intros [[r E]|E]; discriminate]|intros [[r E]|E]; discriminate].
    + intros o Hin. destruct (k6 o Hin) as [Ht [Hp|He]]; [split; [exact Ht|]|split; [exact Ht|]].
      * rewrite H in Hp. discriminate.
      * rewrite H in He. destruct He as [[r E]|E]; discriminate.
  - (* next *)
    destruct rest as [|b' rest']; unfold after_branch;
      (constructor; cbn; try assumption; try discriminate;
       [split; [intros Hc; exfalso; rewrite (Hrun _ H) in Hc; [discriminate|intros [[r0 E0]|E0]; discriminate]|intros [[r0 E0]|E0]; discriminate]
       |intros o Hin; destruct (k6 o Hin) as [Ht [Hp|He]]; (split; [exact Ht|]);
          [rewrite H in Hp; discriminate|rewrite H in He; destruct He as [[r0 E0]|E0]; discriminate]]).
  - (* kill *)
    constructor; cbn; try assumption; try discriminate.
    + intros k c E. injection E as <- <-. tauto.
    + split; [intros Hc; exfalso; rewrite (Hrun _ H) in Hc; [discriminate|intros [[r0 E0]|E0]; discriminate]|intros [[r0 E0]|E0]; discriminate].
    + intros o Hin. destruct (k6 o Hin) as [Ht [Hp|He]]; (split; [exact Ht|]);
        [rewrite H in Hp; discriminate|rewrite H in He; destruct He as [[r0 E0]|E0]; discriminate].
  - (* refs gone at branch 1 *)
    constructor; cbn; try assumption; try discriminate.
    + intros k c E. injection E as <- <-. split; discriminate.
    + split; [intros Hc; exfalso; rewrite (Hrun _ H) in Hc; [discriminate|intros [[r0 E0]|E0]; discriminate]|intros [[r0 E0]|E0]; discriminate].
    + intros o Hin. destruct (k6 o Hin) as [Ht [Hp|He]]; (split; [exact Ht|]);
        [rewrite H in Hp; discriminate|rewrite H in He; destruct He as [[r0 E0]|E0]; discriminate].
  - (* mailbox none *)
    constructor; cbn; try assumption; try discriminate.
    + intros k c E. injection E as <- <-. split; discriminate.
    + split; [intros Hc; exfalso; rewrite (Hrun _ H) in Hc; [discriminate|intros [[r0 E0]|E0]; discriminate]|intros [[r0 E0]|E0]; discriminate].
    + intros o Hin. destruct (k6 o Hin) as [Ht [Hp|He]]; (split; [exact Ht|]);
        [rewrite H in Hp; discriminate|rewrite H in He; destruct He as [[r0 E0]|E0]; discriminate].
  - (* stop marker taken *)
    constructor; unfold stop_f; cbn [a_ustate a_taken a_pc a_closed a_cap set_a_pc set_a_ustate];
      rewrite ?taken_take_f, ?ustate_take_f, ?closed_take_f, ?cap_take_f; try assumption; try discriminate.
    + rewrite envs_snoc. cbn. exact k1.
    + intros k c E. injection E as <- <-. split; discriminate.
    + split; [intros Hc; exfalso; rewrite (Hrun _ H) in Hc; [discriminate|intros [[r0 E0]|E0]; discriminate]|intros [[r0 E0]|E0]; discriminate].
    + intros o' Hin. apply in_app_or in Hin. destruct Hin as [Hin|[E|[]]].
      * exfalso. destruct (k6 o' Hin) as [_ [Hp|He]]; [rewrite H in Hp; discriminate|rewrite H in He; destruct He as [[r0 E0]|E0]; discriminate].
      * injection E as <-. split; [eauto|left; reflexivity].
  - (* envelope taken *)
    constructor; unfold handle_f; cbn [a_ustate a_taken a_pc a_closed a_cap set_a_pc set_a_ustate];
      rewrite ?taken_take_f, ?ustate_take_f, ?closed_take_f, ?cap_take_f; try assumption; try discriminate.
    + rewrite envs_snoc. assert (is_env (o, k) = true) as -> by (destruct k; [reflexivity|reflexivity|congruence]).
      rewrite map_app, rev_app_distr. cbn. rewrite k1. reflexivity.
    + intros o' k' E. injection E as <- <-. split; [assumption|eauto].
    + split; [intros Hc; exfalso; rewrite (Hrun _ H) in Hc; [discriminate|intros [[r0 E0]|E0]; discriminate]|intros [[r0 E0]|E0]; discriminate].
    + intros o' Hin. apply in_app_or in Hin. destruct Hin as [Hin|[E|[]]].
      * exfalso. destruct (k6 o' Hin) as [_ [Hp|He]]; [rewrite H in Hp; discriminate|rewrite H in He; destruct He as [[r0 E0]|E0]; discriminate].
      * injection E as E1 E2. exfalso. congruence.
  - (* run again *)
    constructor; cbn; try assumption; try discriminate.
    + split; [intros Hc; exfalso; rewrite (Hrun _ H) in Hc; [discriminate|intros [[r0 E0]|E0]; discriminate]|intros [[r0 E0]|E0]; discriminate].
    + intros o Hin. destruct (k6 o Hin) as [Ht [Hp|He]]; (split; [exact Ht|]);
        [rewrite H in Hp; discriminate|rewrite H in He; destruct He as [[r0 E0]|E0]; discriminate].
  - (* run off *)
    constructor; cbn; try assumption; try discriminate.
    + split; [intros Hc; exfalso; rewrite (Hrun _ H) in Hc; [discriminate|intros [[r0 E0]|E0]; discriminate]|intros [[r0 E0]|E0]; discriminate].
    + intros o Hin. destruct (k6 o Hin) as [Ht [Hp|He]]; (split; [exact Ht|]);
        [rewrite H in Hp; discriminate|rewrite H in He; destruct He as [[r0 E0]|E0]; discriminate].
  - (* run err *)
    constructor; cbn; try assumption; try discriminate.
    + intros k c E. injection E as <- <-. split; discriminate.
    + split; [intros Hc; exfalso; rewrite (Hrun _ H) in Hc; [discriminate|intros [[r0 E0]|E0]; discriminate]|intros [[r0 E0]|E0]; discriminate].
    + intros o Hin. destruct (k6 o Hin) as [Ht [Hp|He]]; (split; [exact Ht|]);
        [rewrite H in Hp; discriminate|rewrite H in He; destruct He as [[r0 E0]|E0]; discriminate].
  - (* run panic *) apply (core_ok_end x _ (fun y => y)); try reflexivity; [exact Hok|right; reflexivity].
  - (* handle done *)
    destruct (mrec_fields (f_metrics (s_feat s)) x) as (m1 & m2 & m3 & m4 & m5).
    constructor; cbn; rewrite ?m2, ?m3, ?m4, ?m5; try assumption; try discriminate.
    + split; [intros Hc; exfalso; rewrite (Hrun _ H) in Hc; [discriminate|intros [[r0 E0]|E0]; discriminate]|intros [[r0 E0]|E0]; discriminate].
    + intros o' Hin. destruct (k6 o' Hin) as [Ht [Hp|He]]; (split; [exact Ht|]);
        [rewrite H in Hp; discriminate|rewrite H in He; destruct He as [[r0 E0]|E0]; discriminate].
  - (* handle panic *)
    destruct (mrec_fields (f_metrics (s_feat s)) x) as (m1 & m2 & m3 & m4 & m5).
    apply (core_ok_end x _ (mrec_f (f_metrics (s_feat s)))); try assumption. right; reflexivity.
  - (* stop done *) apply (core_ok_end x _ (fun y => y)); try reflexivity; [exact Hok|left; eauto].
  - (* stop panic *) apply (core_ok_end x _ (fun y => y)); try reflexivity; [exact Hok|right; reflexivity].
Qed.

Lemma core_ok_ddpanic s a x f fo evs : core_ok x -> DdPanic s a x f fo evs -> core_ok (f x).
Proof.
  intros Hok HD. inversion HD; subst.
  - apply (core_ok_end x _ (fun y => y)); try reflexivity; [exact Hok|right; reflexivity].
  - destruct (mrec_fields (f_metrics (s_feat s)) x) as (m1 & m2 & m3 & m4 & m5).
    apply (core_ok_end x _ (mrec_f (f_metrics (s_feat s)))); try assumption. right; reflexivity.
Qed.

Lemma spawn_new_actor s cap a y :
  get_actor s a = None -> get_actor (spawn cap s) a = Some y ->
  cap <> 0 /\ y = mkActor (s_next s) cap [] [] [] false false 1 true PStart None [] 0%N [] [].
Proof.
  intros Hn Hy. unfold spawn in Hy. destruct (cap =? 0) eqn:E; [congruence|].
  apply Nat.eqb_neq in E. split; [exact E|].
  unfold get_actor in *. cbn in Hy. apply nth_error_None in Hn.
  rewrite nth_error_app2 in Hy by exact Hn.
  destruct (a - length (s_actors s)) as [|n]; cbn in Hy; [congruence|destruct n; discriminate].
Qed.

Lemma step_new_actor s l a y :
  get_actor s a = None -> get_actor (sys_step s l) a = Some y ->
  exists cap, l = LSpawn cap /\ cap <> 0 /\
              y = mkActor (s_next s) cap [] [] [] false false 1 true PStart None [] 0%N [] [].
Proof.
  intros Hn Hy.
  assert (Hgen : (forall c, l <> LSpawn c) -> False).
  { intros Hl. pose proof (step_length s l Hl) as L. unfold get_actor in *. apply nth_error_None in Hn.
    assert (Hs : nth_error (s_actors (sys_step s l)) a <> None) by congruence.
    apply nth_error_Some in Hs. lia. }
  destruct l; try (exfalso; apply Hgen; intros c; discriminate).
  cbn [sys_step] in Hy. destruct (spawn_new_actor s cap a y Hn Hy) as [Hc E]. eauto.
Qed.

Theorem cores_ok_step s l : cores_ok s -> cores_ok (sys_step s l).
Proof.
  intros Hok a y Hy.
  destruct (get_actor s a) as [x|] eqn:Hx.
  - destruct (step_cases s l a x Hx) as (y' & Hy' & HC). rewrite Hy in Hy'. injection Hy' as <-.
    specialize (Hok a x Hx). destruct HC as [E|f fo evs Hl HL -> _|f fo evs HD -> _].
    + eapply core_ok_core; eassumption.
    + eapply core_ok_local; eassumption.
    + eapply core_ok_ddpanic; eassumption.
  - destruct (step_new_actor s l a y Hx Hy) as (cap & -> & Hc & ->).
    constructor; cbn; try discriminate; try tauto.
    + split; [discriminate|intros [[r E]|E]; discriminate].
    + lia.
Qed.

Lemma cores_ok_init f : cores_ok (init f).
Proof. intros a x H. unfold get_actor in H. cbn in H. destruct a; discriminate. Qed.

Theorem cores_ok_run f ls : cores_ok (run f ls).
Proof.
  unfold run. generalize (cores_ok_init f). generalize (init f).
  induction ls as [|l ls IH]; intros s H; cbn [fold_left]; [exact H|].
  apply IH, cores_ok_step, H.
Qed.
