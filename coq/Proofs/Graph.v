(* The wait-for graph walk (src/lib.rs has_path): with |graph| steps of fuel it decides
   reachability in the functional graph exactly (C14, C15). *)
From RS Require Import Tactics Frame ListFacts.

Fixpoint iter_edge (g : list (N * N)) (k : nat) (x : N) : option N :=
  match k with
  | 0 => Some x
  | S k' => match g_get g x with Some y => iter_edge g k' y | None => None end
  end.

Lemma iter_edge_add g i m x :
  iter_edge g (i + m) x = match iter_edge g i x with Some y => iter_edge g m y | None => None end.
Proof.
  revert x. induction i as [|i IH]; intros x; cbn; [reflexivity|].
  destruct (g_get g x); [apply IH|reflexivity].
Qed.

Lemma walk_sound n g cur to :
  walk n g cur to = true -> exists k, 1 <= k <= n /\ iter_edge g k cur = Some to.
Proof.
  revert cur. induction n as [|n IH]; intros cur H; cbn in H; [discriminate|].
  destruct (g_get g cur) as [y|] eqn:E; [|discriminate].
  destruct (N.eqb_spec y to) as [->|Hne].
  - exists 1. split; [lia|]. cbn. rewrite E. reflexivity.
  - destruct (IH y H) as (k & Hk & Hi). exists (S k). split; [lia|]. cbn. rewrite E. exact Hi.
Qed.

Lemma walk_complete n g cur to k :
  1 <= k <= n -> iter_edge g k cur = Some to -> walk n g cur to = true.
Proof.
  revert cur k. induction n as [|n IH]; intros cur k Hk Hi; [lia|].
  destruct k as [|k]; [lia|]. cbn in Hi. cbn. destruct (g_get g cur) as [y|] eqn:E; [|discriminate].
  destruct (N.eqb_spec y to) as [->|Hne]; [reflexivity|].
  destruct k as [|k]; [cbn in Hi; congruence|].
  apply (IH y (S k)); [lia|exact Hi].
Qed.

(* the first k nodes of the walk from x *)
Fixpoint path (g : list (N * N)) (k : nat) (x : N) : list N :=
  match k with
  | 0 => []
  | S k' => x :: match g_get g x with Some y => path g k' y | None => [] end
  end.

Lemma g_get_in g x y : g_get g x = Some y -> In x (map fst g).
Proof.
  induction g as [|[k v] g IH]; cbn; [discriminate|].
  destruct (N.eqb_spec k x) as [->|Hne]; [left; reflexivity|]. intros H. right. apply IH, H.
Qed.

Lemma path_keys g k x to : iter_edge g k x = Some to -> length (path g k x) = k /\ incl (path g k x) (map fst g).
Proof.
  revert x. induction k as [|k IH]; intros x H; cbn; [split; [reflexivity|intros y []]|].
  cbn in H. destruct (g_get g x) as [y|] eqn:E; [|discriminate].
  destruct (IH y H) as [L I]. split; [cbn; rewrite L; reflexivity|].
  intros z [<-|Hz]; [eapply g_get_in; exact E|apply I, Hz].
Qed.

Lemma path_nth g k x i :
  i < k -> (exists to, iter_edge g k x = Some to) -> nth_error (path g k x) i = iter_edge g i x.
Proof.
  revert x i. induction k as [|k IH]; intros x i Hi [to H]; [lia|].
  cbn in H. destruct (g_get g x) as [y|] eqn:E; [|discriminate].
  destruct i as [|i]; cbn; [reflexivity|]. rewrite E. apply IH; [lia|eauto].
Qed.

(* a list without NoDup has two equal positions (equality on N is decidable) *)
Lemma dup_positions (l : list N) :
  ~ NoDup l -> exists i j x, i < j /\ j < length l /\ nth_error l i = Some x /\ nth_error l j = Some x.
Proof.
  induction l as [|a l IH]; intros H; [exfalso; apply H; constructor|].
  destruct (in_dec N.eq_dec a l) as [Hin|Hnin].
  - apply In_nth_error in Hin. destruct Hin as (j & Hj). exists 0, (S j), a. cbn.
    assert (j < length l) by (apply nth_error_Some; congruence).
    split; [lia|]. split; [lia|]. split; [reflexivity|exact Hj].
  - assert (Hl : ~ NoDup l) by (intros Hn; apply H; constructor; assumption).
    destruct (IH Hl) as (i & j & x & Hij & Hj & Hi' & Hj'). exists (S i), (S j), x. cbn.
    split; [lia|]. split; [lia|]. split; assumption.
Qed.

(* pigeonhole: a walk that reaches [to] reaches it within |g| steps *)
Lemma iter_edge_bounded g k x to :
  1 <= k -> iter_edge g k x = Some to -> exists k', 1 <= k' <= length g /\ iter_edge g k' x = Some to.
Proof.
  revert x. induction k as [k IH] using lt_wf_ind. intros x Hk H.
  destruct (le_lt_dec k (length g)) as [Hle|Hgt]; [exists k; split; [lia|exact H]|].
  destruct (path_keys g k x to H) as [L I].
  assert (Hnd : ~ NoDup (path g k x)).
  { intros Hnd. pose proof (NoDup_incl_length Hnd I) as Hlen. rewrite map_length in Hlen. lia. }
  destruct (dup_positions _ Hnd) as (i & j & y & Hij & Hj & Hi' & Hj'). rewrite L in Hj.
  rewrite (path_nth g k x i) in Hi' by (try lia; eauto).
  rewrite (path_nth g k x j) in Hj' by (try lia; eauto).
  (* cut the loop between positions i and j *)
  assert (Hcut : iter_edge g (i + (k - j)) x = Some to).
  { rewrite iter_edge_add, Hi'.
    replace k with (j + (k - j)) in H by lia. rewrite iter_edge_add, Hj' in H. exact H. }
  apply (IH (i + (k - j))); [lia|lia|exact Hcut].
Qed.

Theorem has_path_spec g from to :
  has_path g from to = true <-> exists k, 1 <= k /\ iter_edge g k from = Some to.
Proof.
  unfold has_path. split.
  - intros H. destruct (walk_sound _ _ _ _ H) as (k & Hk & Hi). exists k. split; [lia|exact Hi].
  - intros (k & Hk & Hi). destruct (iter_edge_bounded g k from to Hk Hi) as (k' & Hk' & Hi').
    eapply walk_complete; eassumption.
Qed.

(* ---------- the check made by ask ---------- *)
Definition closes_cycle (g : list (N * N)) (caller callee : N) : Prop :=
  caller = callee \/ exists k, 1 <= k /\ iter_edge g k callee = Some caller.

Theorem dd_check_spec s k caller x b y :
  f_dd (s_feat s) = true -> k = KAsk -> caller = Some b -> get_actor s b = Some y ->
  (closes_cycle (s_graph s) (a_id y) (a_id x) <->
   exists cyc, dd_check s k caller x = DDPanic b cyc) /\
  (~ closes_cycle (s_graph s) (a_id y) (a_id x) <-> dd_check s k caller x = DDTrack b (a_id y)).
Proof.
  intros Hf -> -> Hy. unfold dd_check. rewrite Hf, Hy. unfold closes_cycle.
  destruct (N.eqb_spec (a_id y) (a_id x)) as [E|Hne]; cbn [orb].
  - split; split; intros H; eauto; try discriminate. exfalso. apply H. left; exact E.
  - destruct (has_path (s_graph s) (a_id x) (a_id y)) eqn:Hp.
    + apply has_path_spec in Hp. split; split; intros H; eauto; try discriminate. exfalso. apply H. right; exact Hp.
    + assert (Hn : ~ exists k, 1 <= k /\ iter_edge (s_graph s) k (a_id x) = Some (a_id y)).
      { intros H. apply has_path_spec in H. congruence. }
      split; split; intros H; try reflexivity.
      * destruct H as [H|H]; [congruence|contradiction].
      * destruct H as [cyc H]. discriminate.
      * intros [H'|H']; [congruence|contradiction].
Qed.

(* callers outside an actor's hooks are never tracked, and without the feature nobody is *)
Theorem dd_check_untracked s k x :
  dd_check s k None x = DDNone /\ (f_dd (s_feat s) = false -> forall c, dd_check s k c x = DDNone).
Proof.
  split; [destruct k; reflexivity|]. intros H c. unfold dd_check. rewrite H. destruct k, c; reflexivity.
Qed.
