(* C18 - optional features never change messaging or lifecycle behaviour.
   With deadlock-detection, "no ask cycle" does not imply "no detection panic" because of the
   stale-edge known finding (see C15); the theorem's premise is the absence of a detection panic. *)
From RS Require Import Tactics Features.

(* one step: erasing the feature state (metrics counters, dead-letter counter, wait-for graph,
   guard flags, the feature record) commutes with every step that is not a detection panic *)
Theorem C18_step : forall s l, detects s l = false -> erase (sys_step s l) = sys_step (erase s) l.
Proof. exact erase_step. Qed.

(* whole runs: for every combination of features and every label list (schedule, environment)
   in which the detector never fires, the feature-free part of the final state - every actor's
   mailbox, queue, lifecycle position and user state, every operation and its result, the clock,
   and the complete event trace (delivery, ordering, replies, timeouts, hook sequence, final
   results, dead letters) - is exactly what the run with default features produces *)
Theorem C18_features_transparent : forall f ls,
  no_detection (init f) ls = true -> erase (run f ls) = run no_feats ls.
Proof. exact features_transparent. Qed.

(* non-vacuity: all four features on, a run with messages, a timeout and a kill *)
Definition all_feats := mkFeats true true true true.
Definition c18_example : list label :=
  [LSpawn 1; AStartDone 0 HOk; LBegin 1 KTell 0 None None FTell; APassBegin 0 0; APoll 0 RPending; APoll 0 RPending;
   LBegin 2 KAsk 0 None (Some 1%N) FAskTo; LBegin 3 KTell 0 None None FTell; LTick; LPoll 2; LKill 0;
   AHandleDone 0 HOk; APassBegin 0 0; APoll 0 RPending; AStopDone 0 HOk; LPoll 3].
Example C18_example_run :
  no_detection (init all_feats) c18_example = true /\
  s_dlcount (run all_feats c18_example) = 2%N /\
  option_map a_mcount (get_actor (run all_feats c18_example) 0) = Some 1%N /\
  s_trace (run all_feats c18_example) = s_trace (run no_feats c18_example).
Proof. vm_compute. repeat split; reflexivity. Qed.

Check C18_step. Check C18_features_transparent.
Print Assumptions C18_step.
Print Assumptions C18_features_transparent.
Print Assumptions C18_example_run.
