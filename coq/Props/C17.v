(* C17 - the blocking API is the async API seen from a thread.
   In the model a blocking call is the same operation future driven from another agent: the same
   label, the same mailbox, the same reply slot; only the name of the send path differs, which
   selects the dead-letter label.  Hence every theorem about tell / ask (C01-C03, C09, C10, C13)
   - all of which quantify over the send path [o_fn] - holds verbatim for the blocking variants.
   What the model cannot exhibit: thread blocking, the helper thread + private runtime of the
   timeout variants, wall-clock margins (observed with bounds on real threads). *)
From RS Require Import Tactics Exec OpsSpec Timeouts Queue QueueStep.

(* the desugaring table *)
Theorem C17_desugar :
  (forall k t, desugar FlAsync k t = (fn_of k t, t)) /\
  desugar FlBlocking KTell None = (FBTell, None) /\
  (forall d, desugar FlBlocking KTell (Some d) = (FBTellTo, Some d)) /\
  desugar FlBlocking KAsk None = (FBAsk, None) /\
  (forall d, desugar FlBlocking KAsk (Some d) = (FBAskTo, Some d)).
Proof. repeat split; reflexivity. Qed.

(* the deprecated aliases ignore their timeout argument: they are blocking_x(msg, None) *)
Theorem C17_deprecated_ignore_timeout : forall k t1 t2,
  desugar FlDeprecated k t1 = desugar FlDeprecated k t2 /\
  desugar FlDeprecated k t1 = desugar FlBlocking k None.
Proof. intros k t1 t2. destruct k, t1, t2; split; reflexivity. Qed.

(* the same delivery / ordering / capacity invariant, whatever mix of send paths produced the run *)
Theorem C17_same_queue_rules : forall f ls, q_ok (run f ls).
Proof. exact q_ok_run. Qed.

(* the same poll rules (reply integrity, errors, timeouts) for an operation of ANY send path *)
Theorem C17_same_poll_rules : forall s o p,
  get_op s o = Some p -> is_done (o_ph p) = false ->
  exists p' evs, OpStep s (poll o s) o p p' evs /\ PollCase s p p' evs.
Proof. exact poll_spec. Qed.

(* dead letters of the blocking paths: exactly one record per failing branch, the reason matches
   the error, the label belongs to the operation's family *)
Theorem C17_blocking_dead_letters : forall f c,
  In f [FBTell; FBTellTo; FBAsk; FBAskTo] -> valid_site f c = true ->
  exists lb, dl_sites (site_fn f c) c = [(reason_of c, lb)] /\ label_family lb = fn_family f.
Proof. intros f c _. exact (dl_table_exact f c). Qed.

(* given a timeout, a blocking call returns by the deadline even if the actor never responds or
   the mailbox stays full (on the model's clock) *)
Theorem C17_returns_by_deadline : forall s o p,
  get_op s o = Some p -> is_done (o_ph p) = false -> deadline_passed p s ->
  exists p', get_op (sys_step s (LPoll o)) o = Some p' /\ is_done (o_ph p') = true.
Proof. exact poll_not_late. Qed.

Check C17_desugar. Check C17_deprecated_ignore_timeout. Check C17_same_queue_rules.
Check C17_same_poll_rules. Check C17_blocking_dead_letters. Check C17_returns_by_deadline.
Print Assumptions C17_desugar.
Print Assumptions C17_deprecated_ignore_timeout.
Print Assumptions C17_same_queue_rules.
Print Assumptions C17_same_poll_rules.
Print Assumptions C17_blocking_dead_letters.
Print Assumptions C17_returns_by_deadline.
