(* C10 - timeouts are exact: never early, never late, never masking other outcomes.
   Statements are about one poll of an unfinished operation in ANY state s (no reachability
   premise is needed), so they cover every schedule and every moment the timer may fire.
   The clock is the model's virtual clock; that tokio's timer wakes the task at the deadline, and
   the wall-clock behaviour of the blocking variants' helper thread, are outside the model. *)
From RS Require Import Tactics OpsSpec Timeouts Result LcFacts.

Theorem C10_not_early : forall s o p p',
  get_op s o = Some p -> is_done (o_ph p) = false ->
  get_op (sys_step s (LPoll o)) o = Some p' -> o_ph p' = ODone (RErr ETimeout) ->
  deadline_passed p s /\
  (o_ph p = OPre \/ (o_ph p = OWaitReply /\ (get_actor s (o_tgt p) <> None -> o_slot p = SlEmpty))).
Proof. intros s o p p' H1 H2. exact (poll_timeout_not_early s o p H1 H2 p'). Qed.

Theorem C10_not_late : forall s o p,
  get_op s o = Some p -> is_done (o_ph p) = false -> deadline_passed p s ->
  exists p', get_op (sys_step s (LPoll o)) o = Some p' /\ is_done (o_ph p') = true.
Proof. exact poll_not_late. Qed.

Theorem C10_passthrough : forall s o p p',
  get_op s o = Some p -> is_done (o_ph p) = false ->
  get_op (sys_step s (LPoll o)) o = Some p' -> o_ph p' <> ODone (RErr ETimeout) ->
  (o_ph p' = o_ph p /\ ~ deadline_passed p s)
  \/ (o_ph p = OPre /\ o_kind p = KAsk /\ o_ph p' = OWaitReply)
  \/ (o_ph p = OPre /\ o_ph p' = ODone (ROk 0))
  \/ (o_ph p = OPre /\ o_ph p' = ODone (RErr ESend))
  \/ (exists v, o_slot p = SlVal v /\ o_ph p' = ODone (ROk v))
  \/ (o_slot p = SlClosed /\ o_ph p' = ODone (RErr EReceive)).
Proof. intros s o p p' H1 H2. exact (poll_passthrough s o p H1 H2 p'). Qed.

Theorem C10_deadline_fixed : forall s o p p',
  get_op s o = Some p -> is_done (o_ph p) = false ->
  get_op (sys_step s (LPoll o)) o = Some p' -> o_deadline p' = o_deadline p.
Proof. intros s o p p' H1 H2. exact (poll_keeps_deadline s o p H1 H2 p'). Qed.

(* the first poll happens in the same step that fixes the deadline at begin time + d, and obeys
   the same rule: it reports Timeout only if that deadline has already passed (d = 0) *)
Theorem C10_first_poll : forall s1 p,
  get_op s1 (o_id p) = Some p -> o_ph p = OPre -> (exists x, get_actor s1 (o_tgt p) = Some x) ->
  exists p' evs, OpStep s1 (post_inner (o_id p) (try_send p s1)) (o_id p) p p' evs /\ BeginCase s1 p p' evs.
Proof. exact first_poll_spec. Qed.

(* Timeout is the only retryable error (uses the generated list of matched variants) *)
Theorem C10_retryable : forall e, is_retryable e = true <-> e = ETimeout.
Proof. exact retryable_iff_timeout. Qed.

(* non-vacuity: an ask with timeout 2 on a gated handler times out exactly at tick 2 *)
Definition c10_example (ticks : list label) : list label :=
  [LSpawn 2; AStartDone 0 HOk; LBegin 1 KAsk 0 None (Some 2%N) FAskTo; APassBegin 0 0; APoll 0 RPending; APoll 0 RPending]
  ++ ticks ++ [LPoll 1].
Example C10_example_run :
  option_map o_ph (get_op (run no_feats (c10_example [LTick])) 1) = Some OWaitReply /\
  option_map o_ph (get_op (run no_feats (c10_example [LTick; LTick])) 1) = Some (ODone (RErr ETimeout)).
Proof. vm_compute. split; reflexivity. Qed.

Check C10_not_early. Check C10_not_late. Check C10_passthrough. Check C10_deadline_fixed. Check C10_first_poll. Check C10_retryable.
Print Assumptions C10_not_early.
Print Assumptions C10_not_late.
Print Assumptions C10_passthrough.
Print Assumptions C10_deadline_fixed.
Print Assumptions C10_first_poll.
Print Assumptions C10_retryable.
Print Assumptions C10_example_run.
