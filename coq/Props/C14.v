(* C14 - deadlock detection is complete for sequential ask cycles.
   Proved here: the walk decides reachability in the wait-for graph exactly (no step bound is
   too small, whatever the cycle length), and ask panics - instead of waiting - exactly when the
   new edge would close a cycle in the tracked graph, the lock being released first.  That the
   tracked graph contains the edge of every in-flight ask made from a hook is tied by the
   correspondence (the graph is read through the verification hook at every quiescent point). *)
From RS Require Import Tactics Graph StepCases Refs NF.

Theorem C14_has_path_spec : forall g from to,
  has_path g from to = true <-> exists k, 1 <= k /\ iter_edge g k from = Some to.
Proof. exact has_path_spec. Qed.

(* an ask from inside a hook of actor b to the actor with state x panics iff the edge b -> x
   would close a cycle (self-ask, two actors, or any longer chain); otherwise it is tracked *)
Theorem C14_complete : forall s k caller x b y,
  f_dd (s_feat s) = true -> k = KAsk -> caller = Some b -> get_actor s b = Some y ->
  (closes_cycle (s_graph s) (a_id y) (a_id x) <-> exists cyc, dd_check s k caller x = DDPanic b cyc) /\
  (~ closes_cycle (s_graph s) (a_id y) (a_id x) <-> dd_check s k caller x = DDTrack b (a_id y)).
Proof. exact dd_check_spec. Qed.

(* the panicking asker does not wait: its task ends (and nothing of it is left in the graph by
   this step), so no participant waits on it forever - its pending senders get errors (C03) *)
Theorem C14_panic_is_not_a_wait : forall s o k a caller tmo fn c xc F FO EVS,
  begin o k a caller tmo fn s = NF c F FO EVS s -> DdPanic s c xc F FO EVS ->
  a_pc (F xc) = PPanicked /\ a_closed (F xc) = true /\ s_graph (begin o k a caller tmo fn s) = s_graph s.
Proof.
  intros s o k a caller tmo fn c xc F FO EVS E HD. split; [|split].
  - inversion HD; subst; reflexivity.
  - inversion HD; subst; reflexivity.
  - rewrite E. reflexivity.
Qed.

(* non-vacuity: a three-actor cycle A -> B -> C -> A, the closing ask panics with the cycle text *)
Definition dd_feats := mkFeats true false false false.
Definition c14_example : list label :=
  [LSpawn 2; LSpawn 2; LSpawn 2; AStartDone 0 HOk; AStartDone 1 HOk; AStartDone 2 HOk;
   LBegin 1 KTell 0 None None FTell; APassBegin 0 0; APoll 0 RPending; APoll 0 RPending;
   LBegin 2 KAsk 1 (Some 0) None FAsk; APassBegin 1 0; APoll 1 RPending; APoll 1 RPending;
   LBegin 3 KAsk 2 (Some 1) None FAsk; APassBegin 2 0; APoll 2 RPending; APoll 2 RPending;
   LBegin 4 KAsk 0 (Some 2) None FAsk].
Example C14_example_run :
  In (EvDeadlock 2 [3; 1; 2; 3]%N) (s_trace (run dd_feats c14_example)) /\
  option_map a_pc (get_actor (run dd_feats c14_example) 2) = Some PPanicked.
Proof. vm_compute. split; [tauto|reflexivity]. Qed.

Check C14_has_path_spec. Check C14_complete. Check C14_panic_is_not_a_wait.
Print Assumptions C14_has_path_spec.
Print Assumptions C14_complete.
Print Assumptions C14_panic_is_not_a_wait.
Print Assumptions C14_example_run.
