(* C14 - deadlock detection is complete for sequential ask cycles.
   Proved here: the walk decides reachability in the wait-for graph exactly (no step bound is
   too small, whatever the cycle length), and ask panics - instead of waiting - exactly when the
   new edge would close a cycle in the tracked graph, the lock being released first; and, for every
   reachable state, the tracked graph contains the edge of every ask begun by a hook that has not
   yet returned to it, so a chain of such asks of any length leading back to the asker is detected
   (C14_complete_run).  Uniqueness of ids (fewer than 2^64 - 1 spawns) is a premise: the graph is
   keyed by id. *)
From RS Require Import Tactics Graph StepCases Refs NF GraphInv.

Theorem C14_has_path_spec : forall g from to,
  has_path g from to = true <-> exists k, 1 <= k /\ iter_edge g k from = Some to.
Proof. exact has_path_spec. Qed.

(* an ask from inside a hook of actor b to the actor with state x panics iff the edge b -> x
   would close a cycle (self-ask, two actors, or any longer chain); otherwise it is tracked *)
Theorem C14_complete : forall s k caller x b y,
  f_dd (s_feat s) = true -> k = KAsk -> caller = Some b -> get_actor s b = Some y ->
  (closes_cycle (s_graph s) (a_id y) (a_id x) <-> exists cyc, dd_check s k caller x = DDPanic b cyc) /\
  (~ closes_cycle (s_graph s) (a_id y) (a_id x) <-> dd_check s k caller x = DDTrack b (a_id y)).
Proof. exact dd_check_spec. Qed.

(* the panicking asker does not wait: its task ends (and nothing of it is left in the graph by
   this step), so no participant waits on it forever - its pending senders get errors (C03) *)
Theorem C14_panic_is_not_a_wait : forall s o k a caller tmo fn c xc F FO EVS,
  begin o k a caller tmo fn s = NF c F FO EVS s -> DdPanic s c xc F FO EVS ->
  a_pc (F xc) = PPanicked /\ a_closed (F xc) = true /\ s_graph (begin o k a caller tmo fn s) = s_graph s.
Proof.
  intros s o k a caller tmo fn c xc F FO EVS E HD. split; [|split].
  - inversion HD; subst; reflexivity.
  - inversion HD; subst; reflexivity.
  - rewrite E. reflexivity.
Qed.

(* with the detector on, an unfinished ask begun by a hook is tracked ... *)
Theorem C14_inflight_asks_are_tracked : forall f ls, tr_ok (run f ls).
Proof. exact tr_ok_run. Qed.

(* ... and a tracked operation that has not returned has its edge in the graph, whose keys are unique *)
Theorem C14_tracked_has_edge : forall f ls, few (run f ls) -> forall o p,
  get_op (run f ls) o = Some p -> o_tracked p = true ->
  exists b xb xt, edge_wit (run f ls) (a_id xb) (a_id xt) o p b xb xt /\ In (a_id xb, a_id xt) (s_graph (run f ls)).
Proof. exact run_tracked_has_edge. Qed.

(* completeness over the real wait-for relation: if actor c (transitively, through hooks of any
   actors and any number of hops) awaits actor b, or b = c, then an ask from b's hook to c panics *)
Theorem C14_complete_run : forall f ls, few (run f ls) -> f_dd (s_feat (run f ls)) = true ->
  forall k caller x b y c,
  k = KAsk -> caller = Some b -> get_actor (run f ls) b = Some y -> get_actor (run f ls) c = Some x ->
  (b = c \/ reaches f ls c b) ->
  exists cyc, dd_check (run f ls) k caller x = DDPanic b cyc.
Proof. exact run_detects_cycle. Qed.

(* non-vacuity: a three-actor cycle A -> B -> C -> A, the closing ask panics with the cycle text *)
Definition dd_feats := mkFeats true false false false.
Definition c14_example : list label :=
  [LSpawn 2; LSpawn 2; LSpawn 2; AStartDone 0 HOk; AStartDone 1 HOk; AStartDone 2 HOk;
   LBegin 1 KTell 0 None None FTell; APassBegin 0 0; APoll 0 RPending; APoll 0 RPending;
   LBegin 2 KAsk 1 (Some 0) None FAsk; APassBegin 1 0; APoll 1 RPending; APoll 1 RPending;
   LBegin 3 KAsk 2 (Some 1) None FAsk; APassBegin 2 0; APoll 2 RPending; APoll 2 RPending;
   LBegin 4 KAsk 0 (Some 2) None FAsk].
Example C14_example_run :
  In (EvDeadlock 2 [3; 1; 2; 3]%N) (s_trace (run dd_feats c14_example)) /\
  option_map a_pc (get_actor (run dd_feats c14_example) 2) = Some PPanicked.
Proof. vm_compute. split; [tauto|reflexivity]. Qed.

(* in the state before the closing ask: actor 0 awaits 1, 1 awaits 2 - so 0 reaches 2 *)
Example C14_example_reaches :
  let s := run dd_feats (removelast c14_example) in
  s_graph s = [(2, 3); (1, 2)]%N /\
  map (fun o => option_map (fun p => (o_caller p, o_tgt p, is_done (o_ph p), o_tracked p)) (get_op s o)) [2; 3] =
  [Some (Some 0, 1, false, true); Some (Some 1, 2, false, true)].
Proof. vm_compute. split; reflexivity. Qed.

Check C14_has_path_spec. Check C14_complete. Check C14_panic_is_not_a_wait.
Check C14_inflight_asks_are_tracked. Check C14_tracked_has_edge. Check C14_complete_run.
Print Assumptions C14_inflight_asks_are_tracked.
Print Assumptions C14_tracked_has_edge.
Print Assumptions C14_complete_run.
Print Assumptions C14_example_reaches.
Print Assumptions C14_has_path_spec.
Print Assumptions C14_complete.
Print Assumptions C14_panic_is_not_a_wait.
Print Assumptions C14_example_run.
