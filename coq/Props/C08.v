(* C08 - on_run is an idle handler: messages first, Ok(false) disables it for good.
   C08_order is about the mailbox as polled in that pass: on a multi-thread runtime a message may
   arrive between the mailbox poll and the on_run poll of the same pass (outside the model). *)
From RS Require Import Tactics Spec Lifecycle LcFacts NF ActorSpec StepCases Idle.

(* the branches still to be polled are always a tail of [termination; mailbox; on_run]
   (uses the generated bias / order) *)
Theorem C08_branch_order : forall f ls a x,
  get_actor (run f ls) a = Some x -> sel_shape (a_pc x).
Proof. intros f ls. exact (proj2 (idle_sel_run f ls)). Qed.

(* a poll of the select starts at the termination channel; the mailbox branch is reached only
   after that found no kill signal, the on_run branch only after the mailbox was found empty *)
Theorem C08_order : forall s a x ro y,
  get_actor s a = Some x -> sel_shape (a_pc x) ->
  get_actor (sys_step s (APoll a ro)) a = Some y ->
  (a_pc y = PSel [BMail; BRun] -> a_pc x = PSel [BTerm; BMail; BRun] /\ a_term x = false /\ refs_gone s a x = false) /\
  (a_pc y = PSel [BRun] -> a_pc x = PSel [BMail; BRun] /\ a_mbox x = [] /\ refs_gone s a x = false).
Proof. intros s a x ro y Hx Hs. exact (poll_order s a x Hx Hs ro y). Qed.

Theorem C08_pass_begins_with_term : forall s a x k y,
  get_actor s a = Some x -> a_pc x = PIdle ->
  get_actor (sys_step s (APassBegin a k)) a = Some y -> a_pc y = PSel [BTerm; BMail; BRun].
Proof. intros s a x k y Hx. exact (pass_begins_with_term s a x Hx k y). Qed.

(* after Ok(false) the body of on_run never completes again, in any continuation *)
Theorem C08_false_disables_for_good : forall f ls a es1 b es2,
  hook_events (run f ls) a = es1 ++ EvRunDone b RFalse :: es2 ->
  forall c r, ~ In (EvRunDone c r) es2.
Proof. exact run_false_disables. Qed.

(* after Err the next hook event is on_stop(killed = false) and the result is a run-time failure
   carrying on_run's error (recogniser = oracle, see C04/C05) *)
Theorem C08_error_path : forall e ust es st,
  lc_run (LcRunErr e ust) es = Some st ->
  es = [] \/ exists a t, es = EvStopEnter a false :: t /\
    (t = [] \/ (exists b out, t = [EvStopExit b out] /\
                 (out <> HPanic -> st = LcDone (Failed (Some (HvStop false :: ust)) e
                                                (match out with HErr _ => OnRunThenOnStop | _ => OnRun end) false)))
            \/ (exists b c, t = [EvDeadlock b c])).
Proof. exact run_err_path. Qed.

(* non-vacuity *)
Definition c08_example : list label :=
  [LSpawn 2; AStartDone 0 HOk; APassBegin 0 0; APoll 0 RPending; APoll 0 RPending; APoll 0 RTrue;
   LBegin 1 KTell 0 None None FTell;
   APassBegin 0 0; APoll 0 RPending; APoll 0 RPending; AHandleDone 0 HOk;
   APassBegin 0 0; APoll 0 RPending; APoll 0 RPending; APoll 0 RFalse;
   APassBegin 0 0; APoll 0 RPending; APoll 0 RPending; APoll 0 RTrue].
Example C08_example_run :
  hook_events (run no_feats c08_example) 0 =
    [EvStartEnter 0; EvStartExit 0 HOk; EvRunDone 0 RTrue; EvHandleEnter 0 1 KTell;
     EvHandleExit 0 1 (HReply 1001) ; EvTellResult 0 1; EvRunDone 0 RFalse] \/
  hook_events (run no_feats c08_example) 0 =
    [EvStartEnter 0; EvStartExit 0 HOk; EvRunDone 0 RTrue; EvHandleEnter 0 1 KTell;
     EvHandleExit 0 1 HOk; EvTellResult 0 1; EvRunDone 0 RFalse].
Proof. vm_compute. right. reflexivity. Qed.

Check C08_branch_order. Check C08_order. Check C08_pass_begins_with_term.
Check C08_false_disables_for_good. Check C08_error_path.
Print Assumptions C08_branch_order.
Print Assumptions C08_order.
Print Assumptions C08_pass_begins_with_term.
Print Assumptions C08_false_disables_for_good.
Print Assumptions C08_error_path.
Print Assumptions C08_example_run.
