(* C06 - kill() pre-empts the mailbox and never blocks.  Property theorems only.
   kill is one label that is enabled in every state and never fails (C06_kill_total); a pass of the
   loop that begins with the signal buffered takes the termination branch and enters on_stop(true)
   (C06_pass_after_kill, which uses the select's generated bias and order); and over whole runs, with
   any number of queued messages and whatever anybody does afterwards, at most one further handler
   is entered once the signal is buffered - none unless the loop was already past the termination
   branch of the pass in progress (C06_at_most_one_more_handler).  An actor that is running on_stop
   or has ended never enters a handler again (C06_budget with n = 0). *)
From RS Require Import Tactics KillStep Delivery KillBudget.

Theorem C06_kill_total : forall s a x,
  get_actor s a = Some x -> 0 < a_ext x ->
  let s' := sys_step s (LKill a) in
  s_trace s' = EvKill a :: s_trace s /\
  s_ops s' = s_ops s /\ s_graph s' = s_graph s /\ s_now s' = s_now s /\
  (forall b, b <> a -> get_actor s' b = get_actor s b) /\
  get_actor s' a = Some (if a_closed x then x else set_a_term true x).
Proof. exact kill_total. Qed.

Theorem C06_pass_after_kill : forall s a x k ro,
  get_actor s a = Some x -> a_pc x = PIdle -> a_term x = true ->
  let s' := sys_step (sys_step s (APassBegin a k)) (APoll a ro) in
  exists y, get_actor s' a = Some y /\
    a_pc y = PStop true CKill /\ a_term y = false /\
    a_mbox y = a_mbox x /\ a_taken y = a_taken x /\
    s_trace s' = EvStopEnter a true :: s_trace s /\
    s_ops s' = s_ops s.
Proof. exact pass_after_kill. Qed.

(* the number of handler entries still possible is bounded by the state's budget, in every continuation *)
Theorem C06_budget : forall f ls ls2 a x n,
  get_actor (run f ls) a = Some x -> kbudget x = Some n ->
  exists y m, get_actor (run f (ls ++ ls2)) a = Some y /\ kbudget y = Some m /\
              nh (run f (ls ++ ls2)) a + m <= nh (run f ls) a + n.
Proof. exact run_budget. Qed.

Theorem C06_at_most_one_more_handler : forall f ls ls2 a x,
  get_actor (run f ls) a = Some x -> a_term x = true ->
  nh (run f (ls ++ ls2)) a <= nh (run f ls) a + 1 /\
  ((forall rest, a_pc x <> PSel (BMail :: rest)) -> nh (run f (ls ++ ls2)) a <= nh (run f ls) a).
Proof. exact run_after_kill_at_most_one. Qed.

(* non-vacuity: capacity 3, the handler of message 1 is running, 2 and 3 are queued, then kill:
   however the run continues, no further handler is entered and on_stop(true) follows *)
Definition c06_example : list label :=
  [LSpawn 3; AStartDone 0 HOk; LBegin 1 KTell 0 None None FTell; LBegin 2 KTell 0 None None FTell;
   LBegin 3 KTell 0 None None FTell; APassBegin 0 0; APoll 0 RPending; APoll 0 RPending; LKill 0].
Definition c06_rest : list label :=
  [AHandleDone 0 HOk; APassBegin 0 0; APoll 0 RPending; APoll 0 RPending; APoll 0 RPending; AStopDone 0 HOk].
Example C06_example_run :
  option_map (fun x => (a_term x, a_pc x, a_mbox x)) (get_actor (run no_feats c06_example) 0)
    = Some (true, PHandle 1 KTell, [(2, KTell); (3, KTell)]) /\
  nh (run no_feats c06_example) 0 = 1 /\ nh (run no_feats (c06_example ++ c06_rest)) 0 = 1 /\
  option_map a_pc (get_actor (run no_feats (c06_example ++ c06_rest)) 0)
    = Some (PDone (Completed [HvStop true; HvHandle 1; HvStart] true)).
Proof. vm_compute. repeat split; reflexivity. Qed.

Check C06_kill_total.
Check C06_pass_after_kill.
Check C06_budget. Check C06_at_most_one_more_handler.
Print Assumptions C06_budget.
Print Assumptions C06_at_most_one_more_handler.
Print Assumptions C06_example_run.
Print Assumptions C06_kill_total.
Print Assumptions C06_pass_after_kill.
