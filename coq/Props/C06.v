(* C06 - kill() pre-empts the mailbox and never blocks.  Property theorems only. *)
From RS Require Import Tactics KillStep.

Theorem C06_kill_total : forall s a x,
  get_actor s a = Some x -> 0 < a_ext x ->
  let s' := sys_step s (LKill a) in
  s_trace s' = EvKill a :: s_trace s /\
  s_ops s' = s_ops s /\ s_graph s' = s_graph s /\ s_now s' = s_now s /\
  (forall b, b <> a -> get_actor s' b = get_actor s b) /\
  get_actor s' a = Some (if a_closed x then x else set_a_term true x).
Proof. exact kill_total. Qed.

Theorem C06_pass_after_kill : forall s a x k ro,
  get_actor s a = Some x -> a_pc x = PIdle -> a_term x = true ->
  let s' := sys_step (sys_step s (APassBegin a k)) (APoll a ro) in
  exists y, get_actor s' a = Some y /\
    a_pc y = PStop true CKill /\ a_term y = false /\
    a_mbox y = a_mbox x /\ a_taken y = a_taken x /\
    s_trace s' = EvStopEnter a true :: s_trace s /\
    s_ops s' = s_ops s.
Proof. exact pass_after_kill. Qed.

Check C06_kill_total.
Check C06_pass_after_kill.
Print Assumptions C06_kill_total.
Print Assumptions C06_pass_after_kill.
