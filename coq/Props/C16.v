(* C16 - type-erased handles are transparent.
   Static half (this file): over the table of forwarders and conversions regenerated from
   src/handler.rs and src/actor_control.rs on every run, every trait method is present exactly
   once and forwards verbatim - same inherent method, same arguments in the same order, only a
   boxing / identity wrap - and every From conversion moves an owned reference and clones a
   borrowed one.  Dynamic half (tools/props.py extra_erased): the same scripts run direct and with
   every operation routed through the trait objects must give identical observations, accepted by
   the model.  With a verbatim forwarder the erased call IS the inherent call, so every theorem
   about tell / ask / stop / kill / clone / downgrade / upgrade applies unchanged. *)
From RS Require Import Tactics Erased.

Theorem C16_forwarders_verbatim : forallb verbatim forwarders = true.
Proof. vm_compute. reflexivity. Qed.

Theorem C16_forwarders_complete :
  forallb (fun tm => count_fwd (fst tm) (snd tm) =? 1) required = true /\
  length forwarders = length required.
Proof. vm_compute. split; reflexivity. Qed.

Theorem C16_conversions :
  forallb conv_ok conversions = true /\
  forallb (fun tb => count_conv (fst tb) (snd tb) =? 1) required_conv = true /\
  length conversions = length required_conv.
Proof. vm_compute. repeat split; reflexivity. Qed.

(* lifted to every entry: a strong handle built by a conversion owns exactly one strong reference
   more than before when it was built from a borrowed ActorRef, none more when built from an owned
   one; weak conversions never add a strong reference *)
Theorem C16_conversion_refcount : forall c, In c conversions ->
  conv_strong_delta c = match cv_from c, cv_borrowed c with OnRef, true => 1 | _, _ => 0 end.
Proof.
  intros c Hin. pose proof (proj1 C16_conversions) as H. rewrite forallb_forall in H. specialize (H c Hin).
  unfold conv_ok in H. apply andb_prop in H. destruct H as [Hm _]. unfold conv_strong_delta.
  destruct (cv_from c), (cv_borrowed c), (cv_mode c); try discriminate; reflexivity.
Qed.

Theorem C16_every_forwarder : forall f, In f forwarders ->
  fw_target f = expected_target (fw_meth f) /\ fw_args_verbatim f = true /\
  fw_wrap f = expected_wrap (fw_meth f) /\ fw_recv f = trait_recv (fw_trait f).
Proof.
  intros f Hin. pose proof C16_forwarders_verbatim as H. rewrite forallb_forall in H. specialize (H f Hin).
  unfold verbatim in H. repeat (apply andb_prop in H; destruct H as [H ?]).
  repeat split.
  - destruct (fw_target f), (expected_target (fw_meth f)); try discriminate; reflexivity.
  - assumption.
  - destruct (fw_wrap f), (expected_wrap (fw_meth f)); try discriminate; reflexivity.
  - destruct (fw_recv f), (trait_recv (fw_trait f)); try discriminate; reflexivity.
Qed.

Check C16_forwarders_verbatim. Check C16_forwarders_complete. Check C16_conversions.
Check C16_conversion_refcount. Check C16_every_forwarder.
Print Assumptions C16_forwarders_verbatim.
Print Assumptions C16_forwarders_complete.
Print Assumptions C16_conversions.
Print Assumptions C16_conversion_refcount.
Print Assumptions C16_every_forwarder.
