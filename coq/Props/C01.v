(* C01 - accepted messages are handled exactly once; rejected ones never.  Property theorems only.
   "Handled" is read off the logged hook events (EvHandleEnter); "accepted" is the ghost list of
   everything the mailbox ever took in.  Every statement holds in every reachable state of every
   run (any schedule, fault pattern, capacity, number of actors and agents). *)
From RS Require Import Tactics Spec Lifecycle Queue QueueStep CoreInv Delivery OpsSpec DeadLetters Exec Refine Chan ChanInv.

(* the handler entries logged for an actor are exactly the envelopes its loop dequeued, in order *)
Theorem C01_handled_is_dequeued : forall f ls a x,
  get_actor (run f ls) a = Some x ->
  handled_events (hook_events (run f ls) a) = map fst (envs (a_taken x)).
Proof. exact run_handled_is_dequeued. Qed.

Theorem C01_at_most_once : forall f ls a, NoDup (handled_events (hook_events (run f ls) a)).
Proof. exact run_handled_at_most_once. Qed.

(* an operation that has not entered the mailbox, a tell/ask that returned Err(Send), a tell that
   returned Err(Timeout): its message is not in the mailbox history and was never handled *)
Theorem C01_rejected_never : forall f ls o p x,
  get_op (run f ls) o = Some p -> get_actor (run f ls) (o_tgt p) = Some x ->
  rejected (o_kind p) (o_ph p) ->
  ~ In o (oids (a_accepted x)) /\ ~ In o (handled_events (hook_events (run f ls) (o_tgt p))).
Proof. exact run_rejected_never. Qed.

(* an operation's result, once returned, never changes *)
Theorem C01_result_stable : forall f ls ls2 o p,
  get_op (run f ls) o = Some p -> is_done (o_ph p) = true ->
  exists p', get_op (run f (ls ++ ls2)) o = Some p' /\ o_ph p' = o_ph p /\ op_static p' = op_static p.
Proof. exact run_result_stable. Qed.

(* hence a message whose send returned Err(Send), or a tell that returned Err(Timeout), is not
   handled now nor at any later time *)
Theorem C01_rejected_never_later : forall f ls ls2 o p x,
  get_op (run f ls) o = Some p ->
  (o_ph p = ODone (RErr ESend) \/ (o_kind p = KTell /\ o_ph p = ODone (RErr ETimeout))) ->
  get_actor (run f (ls ++ ls2)) (o_tgt p) = Some x ->
  ~ In o (oids (a_accepted x)) /\ ~ In o (handled_events (hook_events (run f (ls ++ ls2)) (o_tgt p))).
Proof.
  intros f ls ls2 o p x Hp Hrej Hx.
  destruct (run_result_stable f ls ls2 o p Hp) as (p' & Hp' & Eph & Est).
  { destruct Hrej as [->|[_ ->]]; reflexivity. }
  assert (Ek : o_kind p' = o_kind p /\ o_tgt p' = o_tgt p) by (unfold op_static in Est; injection Est as ? ? ? ? ? ?; auto).
  destruct Ek as [Ek Et]. rewrite <- Et in *.
  apply (run_rejected_never f (ls ++ ls2) o p' x Hp' Hx). unfold rejected. rewrite Eph, Ek.
  destruct Hrej as [->|[Hk ->]]; auto.
Qed.

(* what the mailbox accepted is dequeued in acceptance order, never skipping *)
Theorem C01_dequeued_prefix_of_accepted : forall f ls a x,
  get_actor (run f ls) a = Some x -> exists rest, a_accepted x = a_taken x ++ rest.
Proof. exact run_fifo. Qed.

(* graceful stop: once the stop marker is dequeued, everything accepted before it has had its
   handler entered, and nothing accepted after it is ever dequeued *)
Theorem C01_stop_marker_drains : forall f ls a x om,
  get_actor (run f ls) a = Some x -> In (om, KStop) (a_taken x) ->
  exists t rest, a_taken x = t ++ [(om, KStop)] /\ a_accepted x = t ++ (om, KStop) :: rest /\
    (forall o k, In (o, k) t -> k <> KStop -> In o (handled_events (hook_events (run f ls) a))) /\
    (forall i, In i rest -> ~ In i (a_taken x)).
Proof. exact run_stop_marker. Qed.

(* the tie's own theorem (stated here once, used by every check): whatever the executable reading of
   the model - director actions and internal successors, which is all the OCaml driver can apply -
   reaches from the initial state is a run of the LTS, so every theorem above and in the other
   property files holds of every state the driver matches against a real observation *)
Theorem C01_driver_states_are_runs : forall f x, explored f x -> exists ls, x_sys x = run f ls.
Proof. exact explored_is_run. Qed.

(* non-vacuity: two tells, a stop, a late tell; references dropped right after the sends *)
Definition c01_example : list label :=
  [LSpawn 4; LBegin 1 KTell 0 None None FTell; LBegin 2 KTell 0 None None FTell;
   LBegin 3 KStop 0 None None FStop; LBegin 4 KTell 0 None None FTell; LDrop 0; AStartDone 0 HOk;
   APassBegin 0 0; APoll 0 RPending; APoll 0 RPending; AHandleDone 0 HOk;
   APassBegin 0 0; APoll 0 RPending; APoll 0 RPending; AHandleDone 0 HOk;
   APassBegin 0 0; APoll 0 RPending; APoll 0 RPending; AStopDone 0 HOk].
Example C01_example_run :
  handled_events (hook_events (run no_feats c01_example) 0) = [1; 2] /\
  option_map (fun x => oids (a_accepted x)) (get_actor (run no_feats c01_example) 0) = Some [1; 2; 3; 4] /\
  option_map a_pc (get_actor (run no_feats c01_example) 0)
    = Some (PDone (Completed [HvStop false; HvHandle 2; HvHandle 1; HvStart] false)).
Proof. vm_compute. repeat split; reflexivity. Qed.

(* ---- the same at permit granularity (Model/Chan.v: a send is "obtain a permit" then "push", with
   anything in between, including the actor closing, draining and leaving) *)

(* no message is taken twice *)
Theorem C01_fine_at_most_once : forall w cap n ls, NoDup (c_handled (crun w cap n ls)).
Proof. exact chan_handled_once. Qed.

(* a message is ever in the channel exactly if its send returned Ok ... *)
Theorem C01_fine_taken_iff_ok : forall w cap n ls i s k,
  nth_error (c_senders (crun w cap n ls)) i = Some s ->
  (In (i, k) (call (crun w cap n ls)) <-> In k (sn_ok s)).
Proof. exact chan_taken_iff_ok. Qed.

(* ... so one whose send returned Err (closed, or abandoned by a timeout) is never handled *)
Theorem C01_fine_rejected_never_taken : forall w cap n ls i s k,
  nth_error (c_senders (crun w cap n ls)) i = Some s -> In k (sn_err s) ->
  ~ In (i, k) (call (crun w cap n ls)).
Proof. exact chan_rejected_never_taken. Qed.

(* and, with the exit protocol of the source, one whose send returned Ok was handled, was dropped by
   the shutdown drain (its reply channel with it), or is still queued before a live receiver -
   never lost *)
Theorem C01_fine_ok_accounted : forall cap n ls i s k,
  nth_error (c_senders (crun exit_waits_for_permits cap n ls)) i = Some s -> In k (sn_ok s) ->
  In (i, k) (c_handled (crun exit_waits_for_permits cap n ls)) \/
  In (i, k) (c_dropped (crun exit_waits_for_permits cap n ls)) \/
  (In (i, k) (c_queue (crun exit_waits_for_permits cap n ls)) /\ c_phase (crun exit_waits_for_permits cap n ls) <> RExited).
Proof. exact chan_ok_accounted. Qed.

Check C01_handled_is_dequeued. Check C01_at_most_once. Check C01_rejected_never.
Check C01_result_stable. Check C01_rejected_never_later. Check C01_driver_states_are_runs.
Print Assumptions C01_driver_states_are_runs.
Print Assumptions C01_result_stable.
Print Assumptions C01_rejected_never_later.
Check C01_dequeued_prefix_of_accepted. Check C01_stop_marker_drains.
Print Assumptions C01_handled_is_dequeued.
Print Assumptions C01_at_most_once.
Print Assumptions C01_rejected_never.
Print Assumptions C01_dequeued_prefix_of_accepted.
Print Assumptions C01_stop_marker_drains.
Print Assumptions C01_example_run.
Check C01_fine_at_most_once. Check C01_fine_taken_iff_ok. Check C01_fine_rejected_never_taken. Check C01_fine_ok_accounted.
Print Assumptions C01_fine_at_most_once.
Print Assumptions C01_fine_taken_iff_ok.
Print Assumptions C01_fine_rejected_never_taken.
Print Assumptions C01_fine_ok_accounted.
