(* C13 - exactly one dead letter per failed delivery, none per success. *)
From RS Require Import Tactics OpsSpec Timeouts.

(* static half, over the call-site table generated from src/actor_ref.rs: in every send path,
   every failing branch has exactly one record call, whose reason matches the error of that branch
   and whose label belongs to the operation's family *)
Theorem C13_table : forall f c,
  valid_site f c = true ->
  exists lb, dl_sites (site_fn f c) c = [(reason_of c, lb)] /\ label_family lb = fn_family f.
Proof. exact dl_table_exact. Qed.

(* dynamic half: what one poll of an unfinished operation records, in any state *)
Theorem C13_poll_exact : forall s p p' evs,
  is_done (o_ph p) = false -> PollCase s p p' evs ->
  filter is_dl evs =
  match o_ph p' with
  | ODone (RErr ESend) => dl_events (o_tgt p) (o_id p) (o_fn p) CxSend
  | ODone (RErr EReceive) => dl_events (o_tgt p) (o_id p) (o_fn p) CxReply
  | ODone (RErr ETimeout) => dl_events (o_tgt p) (o_id p) (o_fn p) CxElapsed
  | _ => [] end.
Proof. exact poll_dead_letters. Qed.

Theorem C13_poll_spec : forall s o p,
  get_op s o = Some p -> is_done (o_ph p) = false ->
  exists p' evs, OpStep s (poll o s) o p p' evs /\ PollCase s p p' evs.
Proof. exact poll_spec. Qed.

Theorem C13_first_poll_exact : forall s p p' evs,
  BeginCase s p p' evs ->
  filter is_dl evs =
  match o_ph p' with
  | ODone (RErr ESend) => dl_events (o_tgt p) (o_id p) (o_fn p) CxSend
  | ODone (RErr ETimeout) => dl_events (o_tgt p) (o_id p) (o_fn p) CxElapsed
  | _ => [] end.
Proof. exact begin_dead_letters. Qed.

(* the counter (test-utils) moves by exactly the number of records *)
Theorem C13_counter : forall s a o f c,
  s_dlcount (record_dl a o f c s) =
  if f_testutils (s_feat s)
  then fold_left (fun n _ => wrap64 (n + 1)) (dl_sites (site_fn f c) c) (s_dlcount s)
  else s_dlcount s.
Proof. exact record_dl_count. Qed.

(* non-vacuity: a tell parked on a full mailbox fails with Send when the actor is killed; one
   record, reason ActorStopped, label tell *)
Definition c13_example : list label :=
  [LSpawn 1; AStartDone 0 HOk; LBegin 1 KTell 0 None None FTell; APassBegin 0 0; APoll 0 RPending; APoll 0 RPending;
   LBegin 2 KTell 0 None None FTell; LBegin 3 KTell 0 None None FTell; LKill 0; AHandleDone 0 HOk;
   APassBegin 0 0; APoll 0 RPending; AStopDone 0 HOk; LPoll 3].
Example C13_example_run :
  filter is_dl (s_trace (run no_feats c13_example)) = [EvDeadLetter 0 3 DActorStopped LbTell] /\
  option_map o_ph (get_op (run no_feats c13_example) 3) = Some (ODone (RErr ESend)).
Proof. vm_compute. split; reflexivity. Qed.

Check C13_table. Check C13_poll_exact. Check C13_poll_spec. Check C13_first_poll_exact. Check C13_counter.
Print Assumptions C13_table.
Print Assumptions C13_poll_exact.
Print Assumptions C13_poll_spec.
Print Assumptions C13_first_poll_exact.
Print Assumptions C13_counter.
Print Assumptions C13_example_run.
