(* C13 - exactly one dead letter per failed delivery, none per success. *)
From RS Require Import Tactics OpsSpec Timeouts DeadLetters.

(* static half, over the call-site table generated from src/actor_ref.rs: in every send path,
   every failing branch has exactly one record call, whose reason matches the error of that branch
   and whose label belongs to the operation's family *)
Theorem C13_table : forall f c,
  valid_site f c = true ->
  exists lb, dl_sites (site_fn f c) c = [(reason_of c, lb)] /\ label_family lb = fn_family f.
Proof. exact dl_table_exact. Qed.

(* dynamic half: what one poll of an unfinished operation records, in any state *)
Theorem C13_poll_exact : forall s p p' evs,
  is_done (o_ph p) = false -> PollCase s p p' evs ->
  filter is_dl evs =
  match o_ph p' with
  | ODone (RErr ESend) => dl_events (o_tgt p) (o_id p) (o_fn p) CxSend
  | ODone (RErr EReceive) => dl_events (o_tgt p) (o_id p) (o_fn p) CxReply
  | ODone (RErr ETimeout) => dl_events (o_tgt p) (o_id p) (o_fn p) CxElapsed
  | _ => [] end.
Proof. exact poll_dead_letters. Qed.

Theorem C13_poll_spec : forall s o p,
  get_op s o = Some p -> is_done (o_ph p) = false ->
  exists p' evs, OpStep s (poll o s) o p p' evs /\ PollCase s p p' evs.
Proof. exact poll_spec. Qed.

Theorem C13_first_poll_exact : forall s p p' evs,
  BeginCase s p p' evs ->
  filter is_dl evs =
  match o_ph p' with
  | ODone (RErr ESend) => dl_events (o_tgt p) (o_id p) (o_fn p) CxSend
  | ODone (RErr ETimeout) => dl_events (o_tgt p) (o_id p) (o_fn p) CxElapsed
  | _ => [] end.
Proof. exact begin_dead_letters. Qed.

(* the counter (test-utils) moves by exactly the number of records *)
Theorem C13_counter : forall s a o f c,
  s_dlcount (record_dl a o f c s) =
  if f_testutils (s_feat s)
  then fold_left (fun n _ => wrap64 (n + 1)) (dl_sites (site_fn f c) c) (s_dlcount s)
  else s_dlcount s.
Proof. exact record_dl_count. Qed.

(* ---------- over whole runs ---------- *)
(* in every reachable state, the records logged for an operation are exactly those its present
   outcome calls for (none while pending, after Ok, after a cancellation) *)
Theorem C13_run_exact : forall f ls o p,
  get_op (run f ls) o = Some p -> dls o (s_trace (run f ls)) = expected_dl p.
Proof. exact run_dead_letters_exact. Qed.

Theorem C13_run_none_without_operation : forall f ls o,
  get_op (run f ls) o = None -> dls o (s_trace (run f ls)) = [].
Proof. exact run_no_op_no_dead_letter. Qed.

Theorem C13_run_none_per_success : forall f ls o p,
  get_op (run f ls) o = Some p -> (forall e, o_ph p <> ODone (RErr e)) -> dls o (s_trace (run f ls)) = [].
Proof. exact run_success_no_dead_letter. Qed.

(* exactly one per failed delivery, with the reason of the failing branch and a label of the
   operation's family - for every run whose begin labels name a function consistent with the
   operation's kind and timeout (which is all the public API can produce) *)
Theorem C13_run_one_per_failure : forall f ls o p e,
  Forall wf_label ls -> get_op (run f ls) o = Some p -> o_ph p = ODone (RErr e) ->
  exists lb, dls o (s_trace (run f ls)) = [EvDeadLetter (o_tgt p) o (reason_of (ctx_of e)) lb] /\
             label_family lb = fn_family (o_fn p).
Proof. exact run_one_dead_letter_per_failure. Qed.

(* non-vacuity: a tell parked on a full mailbox fails with Send when the actor is killed; one
   record, reason ActorStopped, label tell *)
Definition c13_example : list label :=
  [LSpawn 1; AStartDone 0 HOk; LBegin 1 KTell 0 None None FTell; APassBegin 0 0; APoll 0 RPending; APoll 0 RPending;
   LBegin 2 KTell 0 None None FTell; LBegin 3 KTell 0 None None FTell; LKill 0; AHandleDone 0 HOk;
   APassBegin 0 0; APoll 0 RPending; AStopDone 0 HOk; LPoll 3].
Example C13_example_run :
  filter is_dl (s_trace (run no_feats c13_example)) = [EvDeadLetter 0 3 DActorStopped LbTell] /\
  option_map o_ph (get_op (run no_feats c13_example) 3) = Some (ODone (RErr ESend)).
Proof. vm_compute. split; reflexivity. Qed.

Example C13_example_wf : Forall wf_label c13_example /\
  dls 3 (s_trace (run no_feats c13_example)) = [EvDeadLetter 0 3 DActorStopped LbTell] /\
  dls 1 (s_trace (run no_feats c13_example)) = [] /\ dls 2 (s_trace (run no_feats c13_example)) = [].
Proof.
  split; [repeat constructor; cbn; try (intros H; exfalso; apply H; reflexivity)|vm_compute; repeat split; reflexivity].
Qed.

Check C13_run_exact. Check C13_run_none_without_operation. Check C13_run_none_per_success. Check C13_run_one_per_failure.
Print Assumptions C13_run_exact.
Print Assumptions C13_run_none_without_operation.
Print Assumptions C13_run_none_per_success.
Print Assumptions C13_run_one_per_failure.
Print Assumptions C13_example_wf.
Check C13_table. Check C13_poll_exact. Check C13_poll_spec. Check C13_first_poll_exact. Check C13_counter.
Print Assumptions C13_table.
Print Assumptions C13_poll_exact.
Print Assumptions C13_poll_spec.
Print Assumptions C13_first_poll_exact.
Print Assumptions C13_counter.
Print Assumptions C13_example_run.
