(* C20 - metrics count what happened.  Real durations are compared by inequality only (they are
   wall-clock values); the arithmetic of the collector is proved over all duration lists. *)
From RS Require Import Tactics Spec CoreInv Metrics MetricsFacts.

(* placement: the collector has recorded exactly the user messages whose handler was entered and
   has returned or unwound - stop markers and unhandled leftovers never count; while a handler is
   in progress the count lags the number of entered handlers by exactly one *)
Theorem C20_count : forall f ls a x,
  get_actor (run f ls) a = Some x ->
  a_mcount x = if f_metrics (s_feat (run f ls))
               then wrap64 (N.of_nat (length (envs (a_taken x)) - in_handler (a_pc x))) else 0%N.
Proof. exact mcount_ok_run. Qed.

(* collector arithmetic, for every list of recorded durations *)
Theorem C20_closed_forms : forall ds,
  m_count (records ds) = N.modulo (N.of_nat (length ds)) (u64max + 1) /\
  m_total (records ds) = N.min (sumN (map clamp ds)) u64max /\
  m_max (records ds) = maxN (map clamp ds).
Proof. exact records_closed. Qed.

Theorem C20_avg_le_max : forall ds,
  ds <> [] -> (N.of_nat (length ds) <= u64max)%N -> (avg (records ds) <= m_max (records ds))%N.
Proof. exact avg_le_max. Qed.

Theorem C20_count_monotone : forall ds d,
  (N.of_nat (length ds) < u64max)%N -> (m_count (records ds) < m_count (records (ds ++ [d])))%N.
Proof. exact count_monotone. Qed.

Theorem C20_max_covers_every_handler : forall ds d, In d ds -> (clamp d <= m_max (records ds))%N.
Proof. exact max_ge_each. Qed.

(* the snapshot is the accessors *)
Theorem C20_snapshot : forall c, snapshot c = (m_count c, avg c, m_max c).
Proof. reflexivity. Qed.

Check C20_count. Check C20_closed_forms. Check C20_avg_le_max. Check C20_count_monotone.
Check C20_max_covers_every_handler. Check C20_snapshot.
Print Assumptions C20_count.
Print Assumptions C20_closed_forms.
Print Assumptions C20_avg_le_max.
Print Assumptions C20_count_monotone.
Print Assumptions C20_max_covers_every_handler.
Print Assumptions C20_snapshot.
