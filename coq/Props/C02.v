(* C02 - handling order respects mailbox acceptance order.  Property theorems only. *)
From RS Require Import Tactics Spec Lifecycle Queue QueueStep CoreInv Delivery.

(* FIFO: the sequence of handler entries is the sequence of envelopes in acceptance order,
   cut at some point - there is one queue, and handlers run inline in the loop *)
Theorem C02_fifo : forall f ls a x,
  get_actor (run f ls) a = Some x ->
  exists rest, map fst (envs (a_accepted x)) =
               handled_events (hook_events (run f ls) a) ++ map fst (envs rest).
Proof.
  intros f ls a x Hx. destruct (run_fifo f ls a x Hx) as (rest & E). exists rest.
  rewrite (run_handled_is_dequeued f ls a x Hx), E. unfold envs. rewrite filter_app, map_app. reflexivity.
Qed.

(* stop() takes its place in the same order *)
Theorem C02_stop_in_order : forall f ls a x om,
  get_actor (run f ls) a = Some x -> In (om, KStop) (a_taken x) ->
  exists t rest, a_taken x = t ++ [(om, KStop)] /\ a_accepted x = t ++ (om, KStop) :: rest /\
    (forall o k, In (o, k) t -> k <> KStop -> In o (handled_events (hook_events (run f ls) a))) /\
    (forall i, In i rest -> ~ In i (a_taken x)).
Proof. exact run_stop_marker. Qed.

(* all senders - tell, ask, their timeout / blocking / erased variants, stop - share the one queue:
   an accepted item belongs to an operation of the matching kind that targets this actor *)
Theorem C02_one_queue : forall f ls a x o k,
  get_actor (run f ls) a = Some x -> In (o, k) (a_accepted x) ->
  exists p, get_op (run f ls) o = Some p /\ o_tgt p = a /\ o_kind p = k /\ accepted_phase k (o_ph p).
Proof. intros f ls. exact (proj1 (proj2 (q_ok_run f ls))). Qed.

Check C02_fifo. Check C02_stop_in_order. Check C02_one_queue.
Print Assumptions C02_fifo.
Print Assumptions C02_stop_in_order.
Print Assumptions C02_one_queue.
