(* C02 - handling order respects mailbox acceptance order.  Property theorems only. *)
From RS Require Import Tactics Spec Lifecycle Queue QueueStep CoreInv Delivery AccTrace Reply RealTime Chan ChanInv.

(* FIFO: the sequence of handler entries is the sequence of envelopes in acceptance order,
   cut at some point - there is one queue, and handlers run inline in the loop *)
Theorem C02_fifo : forall f ls a x,
  get_actor (run f ls) a = Some x ->
  exists rest, map fst (envs (a_accepted x)) =
               handled_events (hook_events (run f ls) a) ++ map fst (envs rest).
Proof.
  intros f ls a x Hx. destruct (run_fifo f ls a x Hx) as (rest & E). exists rest.
  rewrite (run_handled_is_dequeued f ls a x Hx), E. unfold envs. rewrite filter_app, map_app. reflexivity.
Qed.

(* stop() takes its place in the same order *)
Theorem C02_stop_in_order : forall f ls a x om,
  get_actor (run f ls) a = Some x -> In (om, KStop) (a_taken x) ->
  exists t rest, a_taken x = t ++ [(om, KStop)] /\ a_accepted x = t ++ (om, KStop) :: rest /\
    (forall o k, In (o, k) t -> k <> KStop -> In o (handled_events (hook_events (run f ls) a))) /\
    (forall i, In i rest -> ~ In i (a_taken x)).
Proof. exact run_stop_marker. Qed.

(* all senders - tell, ask, their timeout / blocking / erased variants, stop - share the one queue:
   an accepted item belongs to an operation of the matching kind that targets this actor *)
Theorem C02_one_queue : forall f ls a x o k,
  get_actor (run f ls) a = Some x -> In (o, k) (a_accepted x) ->
  exists p, get_op (run f ls) o = Some p /\ o_tgt p = a /\ o_kind p = k /\ accepted_phase k (o_ph p).
Proof. intros f ls. exact (proj1 (proj2 (q_ok_run f ls))). Qed.

(* the mailbox history is exactly the sequence of acceptances in the global trace *)
Theorem C02_accepted_iff_logged : forall f ls a x o k,
  get_actor (run f ls) a = Some x ->
  (In (o, k) (a_accepted x) <-> In (EvAccept a o k) (s_trace (run f ls))).
Proof. exact accepted_iff_logged. Qed.

(* a send that has completed successfully (tell returned Ok, ask is waiting for or has got its
   reply) is in the mailbox history of its target *)
Theorem C02_sent_is_accepted : forall f ls o p,
  get_op (run f ls) o = Some p -> sent_ok p ->
  exists x, get_actor (run f ls) (o_tgt p) = Some x /\ In (o, o_kind p) (a_accepted x).
Proof. exact run_sent_is_accepted. Qed.

(* real-time order, any two senders: if o1's send had completed before o2 was begun, then o1 sits
   before o2 in the mailbox history whatever happens afterwards (ls2); with C02_fifo, o1's handler
   is entered first.  A single sender's program order is the special case where the sender begins
   its next send after the previous one returned. *)
Theorem C02_realtime_order : forall f ls ls2 o1 p1 o2 k2 y,
  get_op (run f ls) o1 = Some p1 -> sent_ok p1 -> get_op (run f ls) o2 = None ->
  get_actor (run f (ls ++ ls2)) (o_tgt p1) = Some y -> In (o2, k2) (a_accepted y) ->
  exists l1 l2 l3, a_accepted y = l1 ++ (o1, o_kind p1) :: l2 ++ (o2, k2) :: l3.
Proof. exact run_realtime_order. Qed.

(* non-vacuity: capacity 1; tell 1 is accepted, tell 2 and ask 3 are begun while the mailbox is full
   and overtake nothing: handled 1, 2, 3 *)
Definition c02_example : list label :=
  [LSpawn 1; AStartDone 0 HOk; LBegin 1 KTell 0 None None FTell; LBegin 2 KTell 0 None None FTell;
   APassBegin 0 0; APoll 0 RPending; APoll 0 RPending; LPoll 2; LBegin 3 KAsk 0 None None FAsk;
   AHandleDone 0 HOk; APassBegin 0 0; APoll 0 RPending; APoll 0 RPending; LPoll 3; AHandleDone 0 HOk;
   APassBegin 0 0; APoll 0 RPending; APoll 0 RPending; AHandleDone 0 (HReply 7); LPoll 3].
Example C02_example_run :
  handled_events (hook_events (run no_feats c02_example) 0) = [1; 2; 3] /\
  option_map (fun x => oids (a_accepted x)) (get_actor (run no_feats c02_example) 0) = Some [1; 2; 3] /\
  option_map o_ph (get_op (run no_feats c02_example) 3) = Some (ODone (ROk 7)).
Proof. vm_compute. repeat split; reflexivity. Qed.

(* ---- at permit granularity (Model/Chan.v): whatever happens between a sender obtaining its permit
   and pushing, the messages of one sender are taken in its program order *)
Theorem C02_fine_per_sender_order : forall w cap n ls a b d i k1 k2,
  c_handled (crun w cap n ls) = a ++ (i, k1) :: b ++ (i, k2) :: d -> k1 < k2.
Proof. exact chan_handled_ordered. Qed.

Check C02_fifo. Check C02_stop_in_order. Check C02_one_queue.
Check C02_accepted_iff_logged. Check C02_sent_is_accepted. Check C02_realtime_order.
Print Assumptions C02_accepted_iff_logged.
Print Assumptions C02_sent_is_accepted.
Print Assumptions C02_realtime_order.
Print Assumptions C02_example_run.
Print Assumptions C02_fifo.
Print Assumptions C02_stop_in_order.
Print Assumptions C02_one_queue.
Check C02_fine_per_sender_order.
Print Assumptions C02_fine_per_sender_order.
