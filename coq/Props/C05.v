(* C05 - ActorResult truthfully reports how the actor ended.  Property theorems only. *)
From RS Require Import Tactics Spec Lifecycle LcFacts Result.

(* the JoinHandle's value is the one the recogniser computes from the hook events alone:
   Completed vs Failed, the phase, killed, which error value, and the state left by every hook
   that ran (res_of / lc_step in Model/Spec.v are the oracle) *)
Theorem C05_result : forall f ls a x r,
  get_actor (run f ls) a = Some x -> a_pc x = PDone r ->
  lc_run LcInit (hook_events (run f ls) a) = Some (LcDone r).
Proof. exact run_result. Qed.

(* a panic in any hook surfaces as a panic, never as a normal result (and conversely) *)
Theorem C05_panic : forall f ls a x,
  get_actor (run f ls) a = Some x ->
  (a_pc x = PPanicked <-> lc_run LcInit (hook_events (run f ls) a) = Some LcPanicked).
Proof. exact run_panicked. Qed.

(* the oracle itself: what the recogniser reports when on_stop returns *)
Theorem C05_oracle_cases : forall ust killed out,
  out <> HPanic ->
  (forall e, res_of ust killed (Some e) out =
     match out with HErr _ => Failed (Some ust) e OnRunThenOnStop false
                  | _ => Failed (Some ust) e OnRun false end) /\
  res_of ust killed None out =
     match out with HErr e2 => Failed (Some ust) e2 OnStop killed | _ => Completed ust killed end.
Proof. intros ust killed out H. split; [intros e|]; destruct out; try reflexivity; congruence. Qed.

(* query methods and conversions agree with the variant's fields, for every value *)
Theorem C05_accessors : forall r,
  is_failed r = negb (is_completed r) /\
  (stopped_normally r = is_completed r && negb (was_killed r)) /\
  (has_actor r = match r_actor r with Some _ => true | None => false end) /\
  (is_completed r = true -> r_error r = None /\ r_phase r = None /\ has_actor r = true) /\
  (is_failed r = true -> exists e ph, r_error r = Some e /\ r_phase r = Some ph /\
      is_startup_failed r = match ph with OnStart => true | _ => false end /\
      is_runtime_failed r = match ph with OnRun | OnRunThenOnStop => true | _ => false end /\
      is_cleanup_failed r = match ph with OnRunThenOnStop => true | _ => false end /\
      is_stop_failed r = match ph with OnStop => true | _ => false end) /\
  (to_tuple r = (r_actor r, r_error r)) /\
  (to_result r = match r_error r with Some e => inr e | None =>
                   match r_actor r with Some st => inl st | None => inr 0%N end end).
Proof. exact accessor_laws. Qed.

(* non-vacuity: on_run fails, then on_stop fails too: the on_run error is reported *)
Definition c05_example : list label :=
  [LSpawn 1; AStartDone 0 HOk; APassBegin 0 0; APoll 0 RPending; APoll 0 RPending;
   APoll 0 (RErrO 7); AStopDone 0 (HErr 9)].
Example C05_example_run :
  option_map a_pc (get_actor (run no_feats c05_example) 0)
    = Some (PDone (Failed (Some [HvStop false; HvRun; HvStart]) 7 OnRunThenOnStop false)).
Proof. vm_compute. reflexivity. Qed.

Check C05_result. Check C05_panic. Check C05_oracle_cases. Check C05_accessors.
Print Assumptions C05_result.
Print Assumptions C05_panic.
Print Assumptions C05_oracle_cases.
Print Assumptions C05_accessors.
Print Assumptions C05_example_run.
