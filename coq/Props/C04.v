(* C04 - lifecycle hooks run in order: on_start once, work, then on_stop at most once.
   Property theorems only; proofs are in Proofs/Lifecycle.v and Proofs/LcFacts.v.
   All statements quantify over every feature set f and every label list ls (every schedule,
   environment behaviour, fault point, number of actors and agents). *)
From RS Require Import Tactics Spec Lifecycle LcFacts.

(* the hook history of every actor, in every reachable state, is accepted by the lifecycle
   recogniser and ends in the state the actor is in *)
Theorem C04_lifecycle : forall f ls a x,
  get_actor (run f ls) a = Some x ->
  lc_run LcInit (hook_events (run f ls) a) = Some (lc_of_actor x).
Proof. exact run_lifecycle. Qed.

Theorem C04_start_once_first : forall f ls a,
  let es := hook_events (run f ls) a in
  es = [] \/ exists b t, es = EvStartEnter b :: t /\ existsb is_start_enter t = false.
Proof. exact run_start_once_first. Qed.

Theorem C04_start_before_work : forall f ls a b t,
  hook_events (run f ls) a = EvStartEnter b :: t ->
  t = [] \/ (exists c out t', t = EvStartExit c out :: t' /\
               match out with HPanic | HErr _ => t' = [] | _ => True end)
        \/ (exists c cyc, t = [EvDeadlock c cyc]).
Proof. exact run_start_before_work. Qed.

Theorem C04_stop_at_most_once : forall f ls a,
  length (filter is_stop_enter (hook_events (run f ls) a)) <= 1.
Proof. exact run_stop_at_most_once. Qed.

Theorem C04_stop_is_last : forall f ls a es1 b k es2,
  hook_events (run f ls) a = es1 ++ EvStopEnter b k :: es2 ->
  es2 = [] \/ (exists c out, es2 = [EvStopExit c out]) \/ (exists c cyc, es2 = [EvDeadlock c cyc]).
Proof. exact run_stop_is_last. Qed.

Theorem C04_nothing_after_end : forall f ls a es1 e es2 st,
  hook_events (run f ls) a = es1 ++ e :: es2 ->
  lc_run LcInit es1 = Some st -> lc_ended st = false.
Proof. exact run_nothing_after_end. Qed.

(* non-vacuity: a concrete run in which an actor starts, handles a message, is killed, runs
   on_stop(true) and ends *)
Definition c04_example : list label :=
  [LSpawn 2; AStartDone 0 HOk; LBegin 1 KTell 0 None None FTell; APassBegin 0 0; APoll 0 RPending;
   APoll 0 RPending; AHandleDone 0 (HReply 5); LKill 0; APassBegin 0 0; APoll 0 RPending; AStopDone 0 HOk].
Example C04_example_run :
  hook_events (run no_feats c04_example) 0 =
    [EvStartEnter 0; EvStartExit 0 HOk; EvHandleEnter 0 1 KTell; EvHandleExit 0 1 (HReply 5);
     EvTellResult 0 1; EvStopEnter 0 true; EvStopExit 0 HOk] /\
  option_map a_pc (get_actor (run no_feats c04_example) 0)
    = Some (PDone (Completed [HvStop true; HvHandle 1; HvStart] true)).
Proof. vm_compute. split; reflexivity. Qed.

Check C04_lifecycle. Check C04_start_once_first. Check C04_start_before_work.
Check C04_stop_at_most_once. Check C04_stop_is_last. Check C04_nothing_after_end.
Print Assumptions C04_lifecycle.
Print Assumptions C04_start_once_first.
Print Assumptions C04_start_before_work.
Print Assumptions C04_stop_at_most_once.
Print Assumptions C04_stop_is_last.
Print Assumptions C04_nothing_after_end.
Print Assumptions C04_example_run.
