(* C03 - ask: the reply belongs to the request, and ask never hangs on a dead actor.
   Property theorems only.  Each holds in every reachable state of every run: any number of
   concurrent askers, any capacity, any schedule, and every way and moment an actor can end
   (stop, kill, all references dropped, start-up failure, on_run error, panic - including the
   deadlock detector's panic), with asks queued, in flight, or blocked on a full mailbox.

   What is NOT in the model: (1) the task spawned by an ask_join handler and tokio's JoinHandle
   are user code plus tokio; ask_join itself is a pure function of the underlying ask's result and
   of how the task ended (Model/Join.v, C03_ask_join_exact), compared case by case with the real
   crate by the join_probe binary.
   (2) That tokio wakes the asking task when the oneshot is completed or dropped and when the
   channel closes: the model has a poll label and the theorems say what that poll returns; the
   correspondence check (paused-clock runs to quiescence) is what ties "is woken" to the code.
   (3) The typed downcast of the boxed reply (the harness uses one reply type per request id). *)
From RS Require Import Tactics Spec Lifecycle Queue QueueStep CoreInv Delivery OpsSpec OpCases AccTrace Reply Join Chan ChanInv AChan ChanRefine.

(* Ok(v) returned by an ask is the value sitting in that request's own reply slot, put there by a
   handler that ran for that very request id and did not panic *)
Theorem C03_reply_integrity : forall f ls o p v,
  get_op (run f ls) o = Some p -> o_kind p = KAsk -> o_ph p = ODone (ROk v) ->
  o_slot p = SlVal v /\
  exists a out, In (EvHandleExit a o out) (s_trace (run f ls)) /\ hval out = v /\ out <> HPanic.
Proof. exact run_reply_integrity. Qed.

(* that handler outcome is unique (a request's handler returns at most once) ... *)
Theorem C03_exit_unique : forall f ls a o out1 out2,
  In (EvHandleExit a o out1) (s_trace (run f ls)) -> In (EvHandleExit a o out2) (s_trace (run f ls)) -> out1 = out2.
Proof. exact run_exit_unique. Qed.

(* ... and was logged by the actor the request was sent to *)
Theorem C03_exit_by_target : forall f ls a o out p,
  In (EvHandleExit a o out) (s_trace (run f ls)) -> get_op (run f ls) o = Some p -> o_tgt p = a.
Proof. exact run_exit_by_target. Qed.

(* the invariant behind it, for use by other statements *)
Theorem C03_invariant : forall f ls, ask_ok (run f ls).
Proof. exact ask_ok_run. Qed.

(* no hang, part 1: once the target has ended (its task returned or unwound), an ask that was
   accepted is never left waiting on an untouched reply slot - the reply is there or the sender
   was dropped *)
Theorem C03_ended_slot_settled : forall f ls o p x,
  get_op (run f ls) o = Some p -> o_ph p = OWaitReply ->
  get_actor (run f ls) (o_tgt p) = Some x -> ended_pc (a_pc x) -> o_slot p <> SlEmpty.
Proof. exact run_ended_slot. Qed.

(* no hang, part 2: whatever state an unfinished operation is in (waiting for a permit of a full
   mailbox, permit granted, accepted and waiting for the reply), its next poll after the target has
   ended finishes it; an ask gets an Err unless the handler had already replied *)
Theorem C03_poll_on_ended_completes : forall f ls o p x,
  get_op (run f ls) o = Some p -> is_done (o_ph p) = false ->
  get_actor (run f ls) (o_tgt p) = Some x -> ended_pc (a_pc x) ->
  exists p' evs r, OpStep (run f ls) (sys_step (run f ls) (LPoll o)) o p p' evs /\ o_ph p' = ODone r /\
    (r = RErr ESend \/ r = RErr EReceive \/ r = RErr ETimeout \/
     (o_kind p = KStop /\ r = ROk 0) \/
     (exists v, r = ROk v /\ o_ph p = OWaitReply /\ o_slot p = SlVal v)).
Proof. exact run_poll_on_ended_completes. Qed.

(* no hang, part 3: every later operation on the ended actor fails in its first poll *)
Theorem C03_begin_on_ended : forall f ls o k a caller tmo fn x p',
  get_op (run f ls) o = None -> get_actor (run f ls) a = Some x -> ended_pc (a_pc x) ->
  get_op (sys_step (run f ls) (LBegin o k a caller tmo fn)) o = Some p' ->
  o_ph p' = match k with KStop => ODone (ROk 0) | _ => ODone (RErr ESend) end.
Proof. exact run_begin_on_ended. Qed.

(* ended <-> channel closed, so "ended" above is the same thing is_alive reports *)
Theorem C03_ended_iff_closed : forall f ls a x,
  get_actor (run f ls) a = Some x -> (a_closed x = true <-> ended_pc (a_pc x)).
Proof. intros f ls a x Hx. destruct (cores_ok_run f ls a x Hx) as [_ _ _ _ k5 _ _]. exact k5. Qed.

(* ask_join returns exactly the task's output, or its join error, and passes the ask's own errors
   through; it never returns Ok unless the ask succeeded and the task returned that value *)
Theorem C03_ask_join_exact : forall ask t r, ask_join ask t = Some r ->
  (forall v, r = JOk v <-> (exists h, ask = ROk h) /\ t = TVal v) /\
  (forall e, r = JErr e <-> ask = RErr e) /\
  (r = JJoin JPanicked <-> (exists h, ask = ROk h) /\ t = TPanic) /\
  (r = JJoin JCancelled <-> (exists h, ask = ROk h) /\ t = TAborted).
Proof.
  intros ask t r H. destruct ask as [h|e|]; cbn in H; [|injection H as <-|discriminate].
  - destruct t; injection H as <-; repeat split; intros; try discriminate; try congruence; eauto;
      try (match goal with H : _ /\ _ |- _ => destruct H as [_ H]; try discriminate; try congruence end).
  - repeat split; intros; try discriminate; try congruence;
      try (match goal with H : (exists _, _) /\ _ |- _ => destruct H as [[? H] _]; discriminate end).
Qed.

(* ---------- non-vacuity ---------- *)
(* two concurrent asks 1 and 2, answered 11 and 22: each asker gets its own value *)
Definition c03_two_asks : list label :=
  [LSpawn 4; AStartDone 0 HOk; LBegin 1 KAsk 0 None None FAsk; LBegin 2 KAsk 0 None None FAsk;
   APassBegin 0 0; APoll 0 RPending; APoll 0 RPending; AHandleDone 0 (HReply 11);
   APassBegin 0 0; APoll 0 RPending; APoll 0 RPending; AHandleDone 0 (HReply 22);
   LPoll 2; LPoll 1].
Example C03_two_asks_run :
  option_map o_ph (get_op (run no_feats c03_two_asks) 1) = Some (ODone (ROk 11)) /\
  option_map o_ph (get_op (run no_feats c03_two_asks) 2) = Some (ODone (ROk 22)).
Proof. vm_compute. split; reflexivity. Qed.

(* capacity 1: ask 1 is being handled, ask 2 is queued, ask 3 is blocked on the full mailbox when
   the handler panics.  1 and 2 lose their reply senders, 3 finds the channel closed, and a later
   ask 4 fails at once *)
Definition c03_die_with_pending : list label :=
  [LSpawn 1; AStartDone 0 HOk; LBegin 1 KAsk 0 None None FAsk;
   APassBegin 0 0; APoll 0 RPending; APoll 0 RPending;
   LBegin 2 KAsk 0 None None FAsk; LBegin 3 KAsk 0 None None FAsk;
   AHandleDone 0 HPanic; LPoll 1; LPoll 2; LPoll 3; LBegin 4 KAsk 0 None None FAsk].
Example C03_die_with_pending_run :
  map (fun o => option_map o_ph (get_op (run no_feats c03_die_with_pending) o)) [1; 2; 3; 4] =
  [Some (ODone (RErr EReceive)); Some (ODone (RErr EReceive)); Some (ODone (RErr ESend)); Some (ODone (RErr ESend))] /\
  option_map a_pc (get_actor (run no_feats c03_die_with_pending) 0) = Some PPanicked.
Proof. vm_compute. split; reflexivity. Qed.

(* before the polls, the three asks are exactly in the three pending states the theorem covers *)
Example C03_pending_states :
  let s := run no_feats (firstn 9 c03_die_with_pending) in
  map (fun o => option_map o_ph (get_op s o)) [1; 2; 3] = [Some OWaitReply; Some OWaitReply; Some OPre].
Proof. vm_compute. reflexivity. Qed.

(* ---- the gap between obtaining a permit and pushing (Model/Chan.v: the mailbox at permit
   granularity, compared step by step with the real tokio channel by chan_probe).  The exit protocol
   of the actor task is read from the source by the translator (Shape.exit_waits_for_permits,
   Shape.exit_on_unwind); these theorems are stated for exactly that protocol, so a tree whose
   protocol does not wait for the permits does not prove them. *)

(* no hang, part 4: for any capacity, any number of senders and any interleaving of their two-step
   sends with the actor taking, closing, draining and leaving, no envelope is ever pushed into a
   channel whose receiver is gone (such an envelope holds a Sender of its own channel, is never
   freed, and its asker waits for ever) *)
Theorem C03_no_stranded_envelope : forall cap n ls,
  c_stranded (crun exit_waits_for_permits cap n ls) = [].
Proof. exact chan_no_stranded. Qed.

(* ... because the task leaves only when every permit is back *)
Theorem C03_exit_leaves_no_permit_out : forall cap n ls,
  c_phase (crun exit_waits_for_permits cap n ls) = RExited ->
  held (crun exit_waits_for_permits cap n ls) = 0 /\ c_queue (crun exit_waits_for_permits cap n ls) = [] /\
  c_free (crun exit_waits_for_permits cap n ls) = cap.
Proof. exact chan_exit_no_permit. Qed.

(* the shutdown code runs on every exit path of the task, the unwinding one included *)
Theorem C03_shutdown_on_every_exit_path : exit_on_unwind = true.
Proof. reflexivity. Qed.

(* the protocol of the tree before the repair (leave as soon as the queue is empty) does strand an
   envelope: one sender, capacity 1, four steps - the schedule late_push_probe hits about once in
   5000 racing asks on that tree *)
Theorem C03_old_exit_protocol_strands : c_stranded (crun false 1 1 strand_witness) = [(0, 0)].
Proof. exact old_protocol_strands. Qed.

(* the shutdown loop ends: while it runs no step of anybody raises 2*permits-out + queued, every
   step of a permit holder or of the drain lowers it, some such step is enabled while it is
   positive, and at zero the exit test succeeds (that an enabled step of another task is eventually
   taken is the scheduler's fairness, as for C07) *)
Theorem C03_shutdown_loop_measure : forall w c l,
  pinv w c -> c_phase c = RDraining ->
  drain_measure (cstep w c l) <= drain_measure c /\
  (c_phase (cstep w c l) = RDraining \/ c_phase (cstep w c l) = RExited).
Proof. exact drain_measure_step. Qed.

Theorem C03_shutdown_loop_progress : forall w c,
  pinv w c -> c_phase c = RDraining ->
  (drain_measure c = 0 -> c_phase (cstep w c KExit) = RExited) /\
  (0 < length (c_queue c) -> drain_measure (cstep w c KDrain) < drain_measure c) /\
  (forall i s, nth_error (c_senders c) i = Some s -> sn_st s = SHeld ->
               drain_measure (cstep w c (KPush i)) < drain_measure c /\
               drain_measure (cstep w c (KGiveBack i)) < drain_measure c) /\
  (0 < drain_measure c -> 0 < length (c_queue c) \/ exists i s, nth_error (c_senders c) i = Some s /\ sn_st s = SHeld).
Proof. exact drain_progress. Qed.

(* the invariant is the one every run satisfies *)
Theorem C03_chan_invariant : forall w cap n ls, pinv w (crun w cap n ls).
Proof. exact pinv_run. Qed.

(* the send of the rest of this development is one step (permit and push together).  That is
   justified: every execution at permit granularity, under the exit protocol of the source, shows
   exactly what some execution of the mailbox with atomic sends (Model/AChan.v) shows - the same
   messages handled and dropped in the same order, the same queue, every sender the same answers;
   a push that lands after close() is an acceptance just before it (forward simulation in which the
   atomic side runs ahead by the late pushes, Proofs/ChanRefine.v) *)
Theorem C03_permit_granularity_refines_atomic_sends : forall cap n ls,
  exists las, cview (crun exit_waits_for_permits cap n ls) = aview (arun cap n las).
Proof. exact chan_refines_atomic. Qed.

(* ... and not under the old protocol: its stranded envelope has no atomic counterpart *)
Theorem C03_old_protocol_not_atomic :
  ~ exists las, cview (crun false 1 1 strand_witness) = aview (arun 1 1 las).
Proof. exact old_protocol_not_atomic. Qed.

Example C03_chan_example :
  let c := crun true 2 2 [KAcquire 0; KAcquire 1; KPush 1; KRecv; KAcquire 1; KClose; KPush 0; KFail 0;
                          KDrain; KExit; KGiveBack 1; KExit] in
  c_handled c = [(1, 0)] /\ c_dropped c = [(0, 0)] /\ c_stranded c = [] /\ c_phase c = RExited /\
  map sn_ok (c_senders c) = [[0]; [0]] /\ map sn_err (c_senders c) = [[1]; [1]].
Proof. exact chan_example_run. Qed.

Check C03_reply_integrity. Check C03_exit_unique. Check C03_exit_by_target. Check C03_invariant.
Check C03_ended_slot_settled. Check C03_poll_on_ended_completes. Check C03_begin_on_ended. Check C03_ended_iff_closed.
Check C03_ask_join_exact.
Print Assumptions C03_ask_join_exact.
Print Assumptions C03_reply_integrity.
Print Assumptions C03_exit_unique.
Print Assumptions C03_exit_by_target.
Print Assumptions C03_invariant.
Print Assumptions C03_ended_slot_settled.
Print Assumptions C03_poll_on_ended_completes.
Print Assumptions C03_begin_on_ended.
Print Assumptions C03_ended_iff_closed.
Print Assumptions C03_two_asks_run.
Print Assumptions C03_die_with_pending_run.
Print Assumptions C03_pending_states.
Check C03_no_stranded_envelope. Check C03_exit_leaves_no_permit_out. Check C03_shutdown_on_every_exit_path. Check C03_old_exit_protocol_strands.
Check C03_shutdown_loop_measure. Check C03_shutdown_loop_progress. Check C03_chan_invariant.
Print Assumptions C03_no_stranded_envelope.
Print Assumptions C03_exit_leaves_no_permit_out.
Print Assumptions C03_shutdown_on_every_exit_path.
Print Assumptions C03_old_exit_protocol_strands.
Print Assumptions C03_shutdown_loop_measure.
Print Assumptions C03_shutdown_loop_progress.
Print Assumptions C03_chan_invariant.
Print Assumptions C03_chan_example.
Check C03_permit_granularity_refines_atomic_sends. Check C03_old_protocol_not_atomic.
Print Assumptions C03_permit_granularity_refines_atomic_sends.
Print Assumptions C03_old_protocol_not_atomic.
