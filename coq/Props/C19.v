(* C19 - macro-generated code means what the hand-written code would.
   The decision logic of the proc macro is modelled in Model/Macro.v (function decide) and tied to
   the real macros by compiling and running a generated corpus (macro/).  rustc and the expansion
   itself are exercised, not modelled. *)
From RS Require Import Tactics Macro NF ActorSpec.
From Coq Require Import String.

(* the documented table, for EVERY signature / attribute: unknown option, result+no_log, or
   result without a return type are compile errors; otherwise Reply is the return type (or ()),
   and Err values are logged iff no_log is absent and (result is given or the last path segment of
   the return type is `Result`) *)
Theorem C19_table : forall a r,
  decide a r =
  match a with
  | AfNameValue => CompileError
  | AfPath => Impl r (is_result_type r)
  | AfList opts =>
      if has_opt OUnknown opts then CompileError
      else if has_opt OResult opts && has_opt ONoLog opts then CompileError
      else if has_opt OResult opts && match r with RtNone => true | _ => false end && negb (has_opt ONoLog opts)
           then CompileError
      else Impl r (negb (has_opt ONoLog opts) && (has_opt OResult opts || is_result_type r))
  end.
Proof.
  intros a r. destruct a as [|opts|]; try reflexivity. unfold decide.
  destruct (has_opt OUnknown opts); [reflexivity|].
  destruct (has_opt OResult opts) eqn:E1, (has_opt ONoLog opts) eqn:E2; cbn; try reflexivity.
  destruct r; reflexivity.
Qed.

(* Reply is exactly the written return type whenever the macro accepts the handler *)
Theorem C19_reply_is_return_type : forall a r r' l, decide a r = Impl r' l -> r' = r.
Proof.
  intros a r r' l. destruct a as [|opts|]; cbn; try discriminate.
  - intros H; injection H as <- _. reflexivity.
  - unfold decide. repeat case_match; try discriminate; intros H; injection H as <- _; reflexivity.
Qed.

(* non-Result returns and no_log never log; a plain handler logs iff it syntactically returns Result *)
Theorem C19_logging_rule : forall r,
  decide AfPath r = Impl r (is_result_type r) /\
  decide (AfList [ONoLog]) r = Impl r false /\
  (r <> RtNone -> decide (AfList [OResult]) r = Impl r true) /\
  decide (AfList [OResult; ONoLog]) r = CompileError /\ decide (AfList [OUnknown]) r = CompileError /\
  decide (AfList [OResult]) RtNone = CompileError.
Proof. intros r. repeat split; try reflexivity. intros H. destruct r; try reflexivity. congruence. Qed.

(* is_result_type looks at the LAST path segment only *)
Theorem C19_result_detection :
  is_result_type (RtPath ["Result"%string]) = true /\
  is_result_type (RtPath ["std"%string; "result"%string; "Result"%string]) = true /\
  is_result_type (RtPath ["my_mod"%string; "Result"%string]) = true /\
  is_result_type (RtPath ["MyAlias"%string]) = false /\
  is_result_type (RtPath ["Result"%string; "Inner"%string]) = false /\
  is_result_type RtRef = false /\ is_result_type RtTuple = false /\ is_result_type RtNone = false.
Proof. repeat split; reflexivity. Qed.

(* run time: when a handler returns, on_tell_result is called exactly once for a tell and never
   for an ask; an ask gets the value on its reply channel instead *)
Theorem C19_tell_result_once : forall s a x o k out f fo evs,
  Local s a x (AHandleDone a out) f fo evs -> a_pc x = PHandle o k -> hop_free x = true -> out <> HPanic ->
  evs = (match k with KTell => [EvTellResult a o; EvHandleExit a o out] | _ => [EvHandleExit a o out] end) /\
  fo = (match k with KAsk => reply_fo o (hval out) | _ => ido end).
Proof.
  intros s a x o k out f fo evs HL Hpc Hh Hnp. inversion HL; subst.
  - match goal with H : guard_fails _ _ |- _ => cbn in H; destruct H as [H|H]; [exfalso; eapply H; exact Hpc|congruence] end.
  - match goal with H : a_pc x = PHandle ?o' ?k' |- _ => rewrite Hpc in H; injection H as <- <- end. split; reflexivity.
  - congruence.
Qed.

(* #[derive(Actor)]: on_start returns its argument unchanged and cannot fail *)
Theorem C19_derive : forall (A : Type) (args : A), derive_on_start args = inl args.
Proof. reflexivity. Qed.

Check C19_table. Check C19_reply_is_return_type. Check C19_logging_rule. Check C19_result_detection.
Check C19_tell_result_once. Check C19_derive.
Print Assumptions C19_table.
Print Assumptions C19_reply_is_return_type.
Print Assumptions C19_logging_rule.
Print Assumptions C19_result_detection.
Print Assumptions C19_tell_result_once.
Print Assumptions C19_derive.
