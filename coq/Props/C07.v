(* C07 - actors end when stopped or unreferenced, and only then.
   Proved: the four causes of on_stop; no spontaneous ending (on_run's flag plays no role);
   weak references are not references (they are not part of the state [refs_gone] reads).
   The "eventually ends" half is a ranking argument (the C07_rank theorems): once a stop request is queued the
   actor's state has a rank that nothing raises, that every enabled step of the actor lowers (or
   on_stop is entered / the actor ends), and some step of the actor is enabled unless its hook is
   blocked on an operation - so on_stop is entered after at most [rank] steps of the actor.  What
   turns "enabled" into "taken" is the fairness of the tokio scheduler (a woken task is
   eventually polled), which is outside the model (partial). *)
From RS Require Import Tactics Spec Lifecycle CoreInv StepCases Delivery Refs ActorSpec Idle Rank.

(* on_stop is entered only because: a kill signal was buffered (killed = true); or no strong
   reference is left anywhere - table refs, queued envelopes or stop markers, unfinished
   operations, the running hook -; or the stop marker reached the head of the mailbox; or on_run
   failed (all three: killed = false) *)
Theorem C07_causes : forall s l a k,
  In (EvStopEnter a k) (s_trace (sys_step s l)) -> ~ In (EvStopEnter a k) (s_trace s) ->
  exists x, get_actor s a = Some x /\ StopCause s a x l k.
Proof. exact stop_enter_has_cause. Qed.

(* while a strong reference exists and no stop marker is at the head of the queue, no kill is
   buffered and on_run does not fail, one poll neither stops nor ends the actor, and a waiting
   message is handled - whether or not on_run is still enabled *)
Theorem C07_no_spontaneous_end : forall s a x ro y,
  get_actor s a = Some x -> get_actor (sys_step s (APoll a ro)) a = Some y ->
  refs_gone s a x = false -> a_term x = false ->
  (forall o tl, a_mbox x <> (o, KStop) :: tl) ->
  (forall e, ro <> RErrO e) -> ro <> RPanicO ->
  (forall k c, a_pc x <> PStop k c) -> ~ ended_pc (a_pc x) ->
  (forall k c, a_pc y <> PStop k c) /\ ~ ended_pc (a_pc y) /\
  (forall o k tl rest, a_pc x = PSel (BMail :: rest) -> a_mbox x = (o, k) :: tl -> a_pc y = PHandle o k).
Proof. exact no_spontaneous_stop. Qed.

(* work accepted before the stop marker is finished first (the marker is in-band, FIFO) *)
Theorem C07_stop_after_backlog : forall f ls a x om,
  get_actor (run f ls) a = Some x -> In (om, KStop) (a_taken x) ->
  exists t rest, a_taken x = t ++ [(om, KStop)] /\ a_accepted x = t ++ (om, KStop) :: rest /\
    (forall o k, In (o, k) t -> k <> KStop -> In o (handled_events (hook_events (run f ls) a))) /\
    (forall i, In i rest -> ~ In i (a_taken x)).
Proof. exact run_stop_marker. Qed.

(* queued work keeps the actor referenced: "no reference left" implies an empty mailbox, no
   unfinished operation and no running handler - by definition of what owns an ActorRef *)
Theorem C07_refs_gone_means_drained : forall s a x,
  refs_gone s a x = true ->
  a_ext x = 0 /\ a_mbox x = [] /\ ops_idle s a = true /\
  (forall o k, a_pc x <> PHandle o k) /\ a_pc x <> PStart.
Proof.
  intros s a x H. unfold refs_gone in H. apply andb_prop in H. destruct H as [H H4].
  apply andb_prop in H. destruct H as [H H3]. apply andb_prop in H. destruct H as [H1 H2].
  apply Nat.eqb_eq in H1, H2. repeat split; try assumption.
  - destruct (a_mbox x); [reflexivity|discriminate].
  - intros o k E. rewrite E in H4. discriminate.
  - intros E. rewrite E in H4. discriminate.
Qed.

(* an upgrade succeeds exactly while a strong reference exists; weak handles add none *)
Theorem C07_upgrade : forall s a x y,
  get_actor s a = Some x -> get_actor (sys_step s (LUpgrade a)) a = Some y ->
  a_ext y = if refs_gone s a x then a_ext x else S (a_ext x).
Proof. exact upgrade_iff_strong. Qed.

(* ranking: one step of the whole system, from any state whose select shapes are well-formed (every
   reachable state is: sel_ok) *)
Theorem C07_rank_step : forall s l a x r,
  sel_ok s -> get_actor s a = Some x -> rank x = Some r ->
  exists y, get_actor (sys_step s l) a = Some y /\ (rank y = Some r \/ lower y r) /\
            (label_actor l = Some a -> ~ guard_fails l x -> lower y r).
Proof. exact rank_step. Qed.

Theorem C07_rank_own_step_enabled : forall (a : aid) x r,
  rank x = Some r -> sel_shape (a_pc x) -> (in_hook x = true -> hop_free x = true) ->
  exists l, label_actor l = Some a /\ ~ guard_fails l x.
Proof. exact own_step_enabled. Qed.

Theorem C07_rank_never_increases : forall f ls ls2 a x r,
  get_actor (run f ls) a = Some x -> rank x = Some r ->
  exists y, get_actor (run f (ls ++ ls2)) a = Some y /\
            ((exists r', rank y = Some r' /\ r' <= r) \/ stopping (a_pc y)).
Proof. exact run_rank_never_increases. Qed.

(* non-vacuity: two tells and a stop are queued while on_start runs: rank 4*2+4 = 12; twelve steps
   of the actor later it is in on_stop, later sends notwithstanding *)
Definition c07_rank_example : list label :=
  [LSpawn 4; LBegin 1 KTell 0 None None FTell; LBegin 2 KTell 0 None None FTell; LBegin 3 KStop 0 None None FStop].
Definition c07_rank_steps : list label :=
  [AStartDone 0 HOk; APassBegin 0 0; APoll 0 RPending; LBegin 4 KTell 0 None None FTell; APoll 0 RPending; AHandleDone 0 HOk;
   APassBegin 0 0; APoll 0 RPending; APoll 0 RPending; AHandleDone 0 HOk;
   APassBegin 0 0; APoll 0 RPending; APoll 0 RPending].
Example C07_rank_example_run :
  option_map rank (get_actor (run no_feats c07_rank_example) 0) = Some (Some 12) /\
  option_map a_pc (get_actor (run no_feats (c07_rank_example ++ c07_rank_steps)) 0) = Some (PStop false CStopMark) /\
  length (filter (fun l => match label_actor l with Some _ => true | None => false end) c07_rank_steps) = 12.
Proof. vm_compute. repeat split; reflexivity. Qed.

Check C07_causes. Check C07_no_spontaneous_end. Check C07_stop_after_backlog.
Check C07_rank_step. Check C07_rank_own_step_enabled. Check C07_rank_never_increases.
Print Assumptions C07_rank_step.
Print Assumptions C07_rank_own_step_enabled.
Print Assumptions C07_rank_never_increases.
Print Assumptions C07_rank_example_run.
Check C07_refs_gone_means_drained. Check C07_upgrade.
Print Assumptions C07_causes.
Print Assumptions C07_no_spontaneous_end.
Print Assumptions C07_stop_after_backlog.
Print Assumptions C07_refs_gone_means_drained.
Print Assumptions C07_upgrade.
