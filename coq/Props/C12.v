(* C12 - a failing actor fails alone. *)
From RS Require Import Tactics Spec Lifecycle LcFacts NF ActorSpec StepCases CoreInv Refs.

(* whatever the task of actor b does - return an error, panic, anything - no other actor's
   state changes in that step *)
Theorem C12_frame : forall s l b a,
  label_actor l = Some b -> a <> b -> get_actor (sys_step s l) a = get_actor s a.
Proof. exact actor_step_frame. Qed.

(* nor do the framework-wide pieces: id counter, wait-for graph, dead-letter counter, clock *)
Theorem C12_globals : forall s l b,
  label_actor l = Some b ->
  s_next (sys_step s l) = s_next s /\ s_graph (sys_step s l) = s_graph s /\
  s_dlcount (sys_step s l) = s_dlcount s /\ s_now (sys_step s l) = s_now s.
Proof. exact actor_step_globals. Qed.

(* the deliberate panic of the cycle detector happens after the graph lock was released: the
   graph and the counters are exactly as before *)
Theorem C12_detection_panic_globals : forall s o k a caller tmo fn c xc F FO EVS,
  begin o k a caller tmo fn s = NF c F FO EVS s -> DdPanic s c xc F FO EVS ->
  s_graph (begin o k a caller tmo fn s) = s_graph s /\ s_next (begin o k a caller tmo fn s) = s_next s /\
  s_dlcount (begin o k a caller tmo fn s) = s_dlcount s.
Proof. exact ddpanic_globals. Qed.

(* the victim: a panic in any hook ends that actor - task gone, channels closed, queue dropped,
   EvEnd with no result - and on_stop does not run *)
Theorem C12_victim : forall s a x l f fo evs e,
  Local s a x l f fo evs -> In e evs -> panic_exit a e ->
  a_pc (f x) = PPanicked /\ a_closed (f x) = true /\ a_mbox (f x) = [] /\ In (EvEnd a None) evs /\
  forall k, ~ In (EvStopEnter a k) evs.
Proof. exact panic_ends_actor. Qed.

(* ... and never later either: a panicked history is final (no hook event follows) *)
Theorem C12_victim_final : forall f ls a es1 e es2 st,
  hook_events (run f ls) a = es1 ++ e :: es2 ->
  lc_run LcInit es1 = Some st -> lc_ended st = false.
Proof. exact run_nothing_after_end. Qed.

(* every invariant of C01-C11 is stated over arbitrary label lists of the whole system, panics of
   other actors included, so survivors keep satisfying them; e.g. the lifecycle of every actor *)
Theorem C12_survivors_lifecycle : forall f ls a x,
  get_actor (run f ls) a = Some x ->
  lc_run LcInit (hook_events (run f ls) a) = Some (lc_of_actor x).
Proof. exact run_lifecycle. Qed.

Check C12_frame. Check C12_globals. Check C12_detection_panic_globals. Check C12_victim.
Check C12_victim_final. Check C12_survivors_lifecycle.
Print Assumptions C12_frame.
Print Assumptions C12_globals.
Print Assumptions C12_detection_panic_globals.
Print Assumptions C12_victim.
Print Assumptions C12_victim_final.
Print Assumptions C12_survivors_lifecycle.
