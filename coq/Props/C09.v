(* C09 - mailbox capacity is a hard bound with waiting (not dropping) back-pressure. *)
From RS Require Import Tactics Spec Lifecycle Queue QueueStep CoreInv Delivery Config Chan ChanInv.

(* accepted-but-not-taken items (a queued stop request included) plus reserved slots never
   exceed the capacity; a sender waits only while no slot is free; capacity is positive *)
Theorem C09_bound : forall f ls a x,
  get_actor (run f ls) a = Some x ->
  length (a_mbox x) + length (a_granted x) <= a_cap x /\
  (a_closed x = false -> a_waiters x <> [] -> length (a_mbox x) + length (a_granted x) = a_cap x) /\
  0 < a_cap x.
Proof. exact run_capacity. Qed.

(* a waiting sender is neither failed, nor dropped, nor overwritten: its operation is still
   in flight and its message is not (yet) in the mailbox *)
Theorem C09_waiting_not_lost : forall f ls a x o,
  get_actor (run f ls) a = Some x -> In o (a_waiters x ++ a_granted x) ->
  exists p, get_op (run f ls) o = Some p /\ o_tgt p = a /\ o_ph p = OPre /\ ~ In o (oids (a_accepted x)).
Proof. exact run_waiting_not_lost. Qed.

(* capacity 0 is rejected: no actor is created and no id is consumed *)
Theorem C09_zero_rejected : forall s, sys_step s (LSpawn 0) = s.
Proof. reflexivity. Qed.

(* the structural facts about capacities read from the source *)
Theorem C09_shape : mailbox_capacity_is_param = true /\ default_capacity = 32 /\ term_capacity = 1.
Proof. repeat split; reflexivity. Qed.

(* the process-wide default: 0 is rejected, a non-zero value is accepted exactly once, and spawn()
   uses the configured value, else 32 *)
Theorem C09_default_config : forall ns c,
  (set_default 0 c = (c, false)) /\
  (forall n, n <> 0 -> set_default n None = (Some n, true)) /\
  (forall n m, set_default n (Some m) = (Some m, false)) /\
  default_cap None = 32 /\ (forall m, default_cap (Some m) = m) /\
  (length (filter (fun b => b) (snd (run_sets ns None))) <= 1).
Proof.
  intros ns c. repeat split.
  - intros n Hn. unfold set_default. apply Nat.eqb_neq in Hn. rewrite Hn. reflexivity.
  - intros n m. unfold set_default. destruct (n =? 0); reflexivity.
  - assert (Hsome : forall l m, filter (fun b => b) (snd (run_sets l (Some m))) = []).
    { induction l as [|n l IH]; intros m; cbn; [reflexivity|].
      unfold set_default. destruct (n =? 0); cbn;
        destruct (run_sets l (Some m)) as [c2 rs] eqn:E; cbn; specialize (IH m); rewrite E in IH; exact IH. }
    induction ns as [|n ns IH]; cbn; [lia|].
    unfold set_default. destruct (n =? 0); cbn.
    + destruct (run_sets ns None) as [c2 rs]; cbn in *. exact IH.
    + destruct (run_sets ns (Some n)) as [c2 rs] eqn:E; cbn. specialize (Hsome ns n). rewrite E in Hsome. cbn in Hsome.
      rewrite Hsome. cbn. lia.
Qed.

(* non-vacuity: capacity 1, handler gated: the 3rd unanswered send waits, the 2nd does not *)
Definition c09_example : list label :=
  [LSpawn 1; AStartDone 0 HOk; LBegin 1 KTell 0 None None FTell; APassBegin 0 0; APoll 0 RPending; APoll 0 RPending;
   LBegin 2 KTell 0 None None FTell; LBegin 3 KTell 0 None None FTell].
Example C09_example_run :
  option_map (fun x => (a_mbox x, a_waiters x, a_taken x)) (get_actor (run no_feats c09_example) 0)
    = Some ([(2, KTell)], [3], [(1, KTell)]).
Proof. vm_compute. reflexivity. Qed.

(* ---- at permit granularity (Model/Chan.v): queued messages plus permits handed out never exceed
   the capacity, under any interleaving *)
Theorem C09_fine_bound : forall w cap n ls,
  length (c_queue (crun w cap n ls)) + held (crun w cap n ls) <= cap.
Proof. exact chan_bound. Qed.

(* ... while the channel is open a send never fails, while a permit is free it does not wait, and
   into a full open channel it waits (any state of the permit-granularity model) *)
Theorem C09_fine_open_never_fails : forall w c i, c_closed c = false -> cstep w c (KFail i) = c.
Proof. exact chan_open_never_fails. Qed.

Theorem C09_fine_no_wait_while_free : forall w c i s,
  nth_error (c_senders c) i = Some s -> sn_st s = SIdle -> c_closed c = false -> 0 < c_free c ->
  exists s', nth_error (c_senders (cstep w c (KAcquire i))) i = Some s' /\ sn_st s' = SHeld /\
             c_free (cstep w c (KAcquire i)) + 1 = c_free c.
Proof. exact chan_no_wait_while_free. Qed.

Theorem C09_fine_full_waits : forall w c i,
  c_closed c = false -> c_free c = 0 -> cstep w c (KAcquire i) = c /\ cstep w c (KFail i) = c.
Proof. exact chan_full_waits. Qed.

Check C09_bound. Check C09_waiting_not_lost. Check C09_zero_rejected. Check C09_shape. Check C09_default_config.
Print Assumptions C09_bound.
Print Assumptions C09_waiting_not_lost.
Print Assumptions C09_zero_rejected.
Print Assumptions C09_shape.
Print Assumptions C09_default_config.
Print Assumptions C09_example_run.
Check C09_fine_bound.
Print Assumptions C09_fine_bound.
Check C09_fine_open_never_fails. Check C09_fine_no_wait_while_free. Check C09_fine_full_waits.
Print Assumptions C09_fine_open_never_fails.
Print Assumptions C09_fine_no_wait_while_free.
Print Assumptions C09_fine_full_waits.
