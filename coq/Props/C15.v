(* C15 - deadlock detection is sound and leaves no residue.
   The full statement is FALSE of the faithful model and of the code (KNOWN FINDING, DESIGN.md 7):
   C15_refuted exhibits a run in which the detector panics although the only edge of the reported
   chain belongs to an ask that has already been answered.  Proved: soundness with respect to the
   tracked graph; every edge of the tracked graph, in every reachable state, is an operation begun
   by the running hook of the key's actor that has not yet RETURNED to that hook (it may have been
   answered - that is exactly the finding); callers outside a hook are never tracked; and no
   residue: once every operation has returned the graph is empty, an actor whose hook awaits
   nothing has no edge.  Uniqueness of ids (fewer than 2^64 - 1 spawns) is a premise. *)
From RS Require Import Tactics Graph C14 GraphInv.

(* a detection panic implies a chain of TRACKED edges from the asked actor back to the asker
   (or a self-ask) - sound modulo edges whose ask was answered but whose asker was not yet resumed *)
Theorem C15_sound_wrt_tracked_graph_partial : forall s k caller x b y cyc,
  f_dd (s_feat s) = true -> k = KAsk -> caller = Some b -> get_actor s b = Some y ->
  dd_check s k caller x = DDPanic b cyc -> closes_cycle (s_graph s) (a_id y) (a_id x).
Proof.
  intros s k caller x b y cyc Hf Hk Hc Hy H.
  apply (proj1 (dd_check_spec s k caller x b y Hf Hk Hc Hy)). eauto.
Qed.

Theorem C15_untracked : forall s k x,
  dd_check s k None x = DDNone /\ (f_dd (s_feat s) = false -> forall c, dd_check s k c x = DDNone).
Proof. exact dd_check_untracked. Qed.

(* every edge (in particular every edge of a reported cycle, which follows g_get) belongs to an
   operation that its caller's hook has begun and that has not yet returned to it *)
Theorem C15_every_edge_is_unreturned_ask : forall f ls, few (run f ls) -> forall cid tid,
  g_get (s_graph (run f ls)) cid = Some tid ->
  exists o p b xb xt, edge_wit (run f ls) cid tid o p b xb xt.
Proof. intros f ls Hfew cid tid H. apply (run_edge_is_awaited f ls Hfew), g_get_some_in, H. Qed.

(* no residue *)
Theorem C15_no_residue : forall f ls, few (run f ls) ->
  (forall o p, get_op (run f ls) o = Some p -> is_done (o_ph p) = true) -> s_graph (run f ls) = [].
Proof. exact run_no_residue. Qed.

Theorem C15_idle_actor_has_no_edge : forall f ls, few (run f ls) -> forall b xb tid,
  get_actor (run f ls) b = Some xb -> a_hop xb = None -> ~ In (a_id xb, tid) (s_graph (run f ls)).
Proof. exact run_no_edge_when_not_awaiting. Qed.

Theorem C15_graph_functional : forall f ls, few (run f ls) -> NoDup (map fst (s_graph (run f ls))).
Proof. exact run_graph_functional. Qed.

(* the witness: A's handler asks B; B answers (reply sent, A not yet resumed); B's next handler asks
   A and the detector panics on the stale edge A -> B *)
Definition c15_witness : list label :=
  [LSpawn 2; LSpawn 2; AStartDone 0 HOk; AStartDone 1 HOk;
   LBegin 2 KTell 0 None None FTell; APassBegin 0 0; APoll 0 RPending; APoll 0 RPending;
   LBegin 1 KAsk 1 (Some 0) None FAsk;
   LBegin 3 KTell 1 None None FTell;
   APassBegin 1 0; APoll 1 RPending; APoll 1 RPending; AHandleDone 1 (HReply 42);
   APassBegin 1 0; APoll 1 RPending; APoll 1 RPending;
   LBegin 4 KAsk 0 (Some 1) None FAsk].

Definition answered (s : sys) (o : oid) : bool :=
  match get_op s o with Some p => match o_slot p with SlVal _ => true | _ => false end | None => false end.

Theorem C15_refuted :
  exists ls, In (EvDeadlock 1 [2; 1; 2]%N) (s_trace (run dd_feats ls)) /\
             (* the chain 1 -> 2 reported is the edge of ask 1, which was answered before the panic *)
             answered (run dd_feats (removelast ls)) 1 = true /\
             s_graph (run dd_feats (removelast ls)) = [(1, 2)]%N.
Proof. exists c15_witness. vm_compute. repeat split; tauto. Qed.

(* non-vacuity of no-residue: the same run continued - A polls its answered ask (edge removed), and
   the graph is empty again once all four operations have returned *)
Example C15_residue_example :
  s_graph (run dd_feats (firstn 14 c15_witness)) = [(1, 2)]%N /\
  s_graph (run dd_feats (firstn 14 c15_witness ++ [LPoll 1])) = [] /\
  few (run dd_feats (firstn 14 c15_witness ++ [LPoll 1])).
Proof. vm_compute. repeat split; reflexivity. Qed.

Check C15_sound_wrt_tracked_graph_partial. Check C15_untracked. Check C15_refuted.
Check C15_every_edge_is_unreturned_ask. Check C15_no_residue. Check C15_idle_actor_has_no_edge. Check C15_graph_functional.
Print Assumptions C15_every_edge_is_unreturned_ask.
Print Assumptions C15_no_residue.
Print Assumptions C15_idle_actor_has_no_edge.
Print Assumptions C15_graph_functional.
Print Assumptions C15_residue_example.
Print Assumptions C15_sound_wrt_tracked_graph_partial.
Print Assumptions C15_untracked.
Print Assumptions C15_refuted.
