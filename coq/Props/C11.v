(* C11 - identity is unique and stable; is_alive / upgrade tell the truth. *)
From RS Require Import Tactics Spec Lifecycle CoreInv StepCases OpsSpec Ids Refs.

(* the n-th spawned actor has id n (mod 2^64, from 1): fetch_add is one atomic label, so this
   holds for every interleaving of spawns *)
Theorem C11_id_of_index : forall f ls a x,
  get_actor (run f ls) a = Some x -> a_id x = id_of_index a.
Proof. intros f ls. exact (proj2 (ids_ok_run f ls)). Qed.

Theorem C11_unique : forall f ls a b x y,
  (N.of_nat (length (s_actors (run f ls))) < two64 - 1)%N ->
  get_actor (run f ls) a = Some x -> get_actor (run f ls) b = Some y -> a <> b -> a_id x <> a_id y.
Proof. exact ids_unique. Qed.

Theorem C11_stable : forall f ls ls' a x y,
  get_actor (run f ls) a = Some x -> get_actor (run f (ls ++ ls')) a = Some y -> a_id y = a_id x.
Proof. exact id_stable. Qed.

(* is_alive is false exactly when the task has returned or unwound *)
Theorem C11_alive : forall f ls a x,
  get_actor (run f ls) a = Some x ->
  (is_alive (run f ls) a = false <-> ended_pc (a_pc x)).
Proof. exact alive_iff_not_ended. Qed.

(* after that every send fails at once *)
Theorem C11_sends_fail_after_end : forall s1 p x,
  get_op s1 (o_id p) = Some p -> o_ph p = OPre -> get_actor s1 (o_tgt p) = Some x -> a_closed x = true ->
  exists p' evs, OpStep s1 (post_inner (o_id p) (try_send p s1)) (o_id p) p p' evs /\
    o_ph p' = match o_kind p with KStop => ODone (ROk 0) | _ => ODone (RErr ESend) end.
Proof. exact send_to_ended_fails. Qed.

(* upgrade returns a reference exactly while a strong one (or queued message, unfinished
   operation, running handler) exists, and what it returns is an ordinary strong reference *)
Theorem C11_upgrade : forall s a x y,
  get_actor s a = Some x -> get_actor (sys_step s (LUpgrade a)) a = Some y ->
  a_ext y = if refs_gone s a x then a_ext x else S (a_ext x).
Proof. exact upgrade_iff_strong. Qed.

Check C11_id_of_index. Check C11_unique. Check C11_stable. Check C11_alive.
Check C11_sends_fail_after_end. Check C11_upgrade.
Print Assumptions C11_id_of_index.
Print Assumptions C11_unique.
Print Assumptions C11_stable.
Print Assumptions C11_alive.
Print Assumptions C11_sends_fail_after_end.
Print Assumptions C11_upgrade.
