(* Extraction of the executable model.  Only ExtrOcamlBasic's directives are used. *)
Require Extraction.
Require Import ExtrOcamlBasic.
From RS Require Import Base Setters Shape Sys Exec Result Config Macro Join Chan.
Extraction Language OCaml.
Extraction "../ocaml/model.ml" apply_action succs view_of strip xinit mkFeats run has_path format_cycle
  all_shapes is_completed is_failed was_killed stopped_normally is_startup_failed is_runtime_failed
  is_cleanup_failed is_stop_failed has_actor r_actor r_error to_result to_tuple is_retryable run_sets default_cap decide ask_join all_join_cases cstep init_chan.
