(* Extraction of the executable model.  Only ExtrOcamlBasic's directives are used. *)
Require Extraction.
Require Import ExtrOcamlBasic.
From RS Require Import Base Setters Shape Sys Exec.
Extraction Language OCaml.
Extraction "../ocaml/model.ml" apply_action succs view_of strip xinit mkFeats run has_path format_cycle.
