#!/bin/sh
# Runs every seeded change (seeded/<id>/patch.diff) against the check of its own property and writes
# seeded/MATRIX.txt.  /repo is patched and restored for each one; do not run other checks meanwhile.
cd /verif
OUT=seeded/MATRIX.txt
: > $OUT.tmp
for d in seeded/C*; do
  id=$(basename $d)
  git -C /repo apply /verif/$d/patch.diff || { echo "$id patch-does-not-apply" >> $OUT.tmp; continue; }
  line=$(python3 tools/check.py $id 2>&1 | grep -E "^(OK|VIOLATION|KNOWN)" | tr '\n' ' ')
  git -C /repo checkout -- .
  echo "$id $line" >> $OUT.tmp
done
python3 tools/extract_shape.py coq/Gen/Shape.v >/dev/null
git -C /repo status --short | head -3
mv $OUT.tmp $OUT
