#!/bin/sh
# Runs every seeded change (seeded/, seeded2/, seeded3/, seeded4/, seeded5/, seeded6/: rounds 1-6) against
# the check of its own property and writes seeded/MATRIX.txt.  /repo is patched and restored for each
# one; do not run other checks meanwhile.
cd /verif
export VERIF_EVIDENCE_DIR=/verif/.cache/seed_evidence; mkdir -p $VERIF_EVIDENCE_DIR
OUT=${MATRIX_OUT:-seeded/MATRIX.txt}
: > $OUT.tmp
for d in seeded/C* seeded2/C* seeded3/A* seeded4/B* seeded5/D* seeded6/E*; do
  id=$(basename $d)
  round=$(dirname $d)
  case $id in A*|B*|D*|E*) id=$(python3 -c "import json;print(json.load(open('/verif/$d/meta.json'))['property'])");; esac
  git -C /repo apply /verif/$d/patch.diff || { echo "$round $(basename $d) patch-does-not-apply" >> $OUT.tmp; continue; }
  line=$(python3 tools/check.py $id 2>&1 | grep -E "^(OK|VIOLATION)" | tr '\n' ' ')
  git -C /repo checkout -- .
  git -C /repo clean -fdq -- src rsactor-derive 2>/dev/null
  echo "$round $(basename $d) $line" >> $OUT.tmp
done
python3 tools/extract_shape.py coq/Gen/Shape.v >/dev/null
git -C /repo status --short | head -3
mv $OUT.tmp $OUT
