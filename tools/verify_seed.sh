#!/bin/sh
# usage: tools/verify_seed.sh <worktree> <seeddir>
# Confirms a seeded change in a scratch worktree: (1) builds with all features, (2) its demo test
# fails with the patch, (3) the unedited suite passes with the patch, (4) the demo passes without it.
# Prints one line of key=value results.
W="$1"; S="$2"
export CARGO_NET_OFFLINE=true
cd "$W" || exit 2
git checkout -q -- src rsactor-derive 2>/dev/null
rm -f tests/seeded_demo.rs
git apply "$S/patch.diff" || { echo "apply=failed"; exit 1; }
cargo build --offline --all-features >/dev/null 2>&1 && B=ok || B=fail
cp "$S/seeded_demo.rs" tests/seeded_demo.rs
cargo test --offline --all-features --test seeded_demo >/dev/null 2>&1; D1=$?
mv tests/seeded_demo.rs /tmp/.seeded_demo_$$.rs
cargo test --workspace --offline --no-fail-fast >/tmp/.suite_$$.log 2>&1; S1=$?
NOK=$(grep -c "^test result: ok" /tmp/.suite_$$.log)
mv /tmp/.seeded_demo_$$.rs tests/seeded_demo.rs
git checkout -q -- src rsactor-derive
cargo test --offline --all-features --test seeded_demo >/dev/null 2>&1; D0=$?
rm -f /tmp/.suite_$$.log
echo "build_all_features=$B demo_with_patch_exit=$D1 suite_with_patch_exit=$S1 suite_ok_binaries=$NOK demo_without_patch_exit=$D0"
