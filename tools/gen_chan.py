#!/usr/bin/env python3
"""Random label scripts for the permit-granularity mailbox model (coq/Model/Chan.v).
usage: gen_chan.py <seed> <count> <out>"""
import random
import sys


def script(rng):
    waits = rng.choice([0, 1, 1])
    cap = rng.choice([1, 1, 2, 2, 3, 4])
    n = rng.choice([1, 2, 2, 3, 4])
    ln = rng.randint(3, 40)
    close_at = rng.randint(0, ln) if rng.random() < 0.85 else ln + 1
    toks = []
    closed = False
    for j in range(ln):
        if j == close_at:
            toks.append("c")
            closed = True
            continue
        r = rng.random()
        i = rng.randrange(n + (1 if rng.random() < 0.03 else 0))   # sometimes an index out of range
        if not closed:
            if r < 0.35:
                toks.append("a%d" % i)
            elif r < 0.65:
                toks.append("p%d" % i)
            elif r < 0.85:
                toks.append("r")
            elif r < 0.90:
                toks.append("g%d" % i)
            elif r < 0.93:
                toks.append("f%d" % i)
            elif r < 0.96:
                toks.append("d")
            else:
                toks.append("x")
        else:
            if r < 0.20:
                toks.append("p%d" % i)
            elif r < 0.40:
                toks.append("x")
            elif r < 0.60:
                toks.append("d")
            elif r < 0.72:
                toks.append("g%d" % i)
            elif r < 0.84:
                toks.append("f%d" % i)
            elif r < 0.92:
                toks.append("a%d" % i)
            elif r < 0.96:
                toks.append("r")
            else:
                toks.append("c")
    return "%d %d %d : %s" % (waits, cap, n, " ".join(toks))


def fixed():
    """the committed corner cases: the stranding schedule under both protocols, a permit handed back
    after close, pushes after close and after exit"""
    return [
        "0 1 1 : a0 c x p0",
        "1 1 1 : a0 c x p0 d x",
        "1 2 2 : a0 a1 p1 r a1 c p0 f0 d x g1 x",
        "0 2 2 : a0 a1 c x p0 p1 a0 f0",
        "1 1 2 : a0 a1 p0 a1 r a1 p1 c d x",
        "1 3 3 : a0 a1 a2 c g0 p1 x d x p2 x d x f0 f1 f2",
    ]


def write(seed, count, out):
    rng = random.Random(seed)
    lines = fixed() + [script(rng) for _ in range(count)]
    open(out, "w").write("\n".join(lines) + "\n")
    stats = {}
    for l in lines:
        for t in l.split(":")[1].split():
            stats[t[0]] = stats.get(t[0], 0) + 1
    return lines, stats


def main():
    seed, count, out = int(sys.argv[1]), int(sys.argv[2]), sys.argv[3]
    lines, stats = write(seed, count, out)
    print(len(lines), " ".join("%s=%d" % kv for kv in sorted(stats.items())))


if __name__ == "__main__":
    main()
