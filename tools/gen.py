#!/usr/bin/env python3
"""Seeded generator of director scripts (families of DESIGN.md section 4.4).

Every random choice derives from the one `random.Random(seed)`; a script is a list of text lines in
the language parsed by harness/src/script.rs and ocaml/driver.ml.  The generator keeps a light
abstract state (which slots probably hold strong / weak references, which actors exist) so that
most actions are meaningful; a separate 'hostile' stream ignores it.
"""
import random

FEATS = ("dd", "metrics", "testutils", "tracing")


def feat_line(feats):
    return "feat " + " ".join(f"{k}={1 if k in feats else 0}" for k in FEATS)


class Gen:
    def __init__(self, rng, family, feats=()):
        self.r = rng
        self.family = family
        self.feats = tuple(feats)
        self.lines = [feat_line(self.feats)] + (["mode realtime"] if family == "block" else [])
        self.nact = 0
        self.strong = {}   # slot -> actor (believed strong)
        self.weak = {}
        self.next_slot = 8
        self.oid = 0
        self.auto = {}
        self.ops = []
        self.stats = {}

    def emit(self, l):
        self.lines.append(l)
        k = l.split()[0]
        self.stats[k] = self.stats.get(k, 0) + 1

    def new_oid(self):
        self.oid += 1
        return self.oid

    def spawn(self, cap=None, auto=None):
        r = self.r
        if cap is None:
            cap = r.choice([1, 1, 2, 2, 3]) if self.family not in ("time", "block") else r.choice([1, 1, 1, 2])
        if auto is None:
            auto = r.random() < (0.6 if self.family not in ("time", "block") else 0.3)
        self.emit(f"spawn {cap} {1 if auto else 0}")
        if cap > 0:
            self.strong[self.nact] = self.nact
            self.auto[self.nact] = auto
            self.nact += 1

    def pick_strong(self, hostile=False):
        if hostile or not self.strong:
            return self.r.randrange(0, 12)
        return self.r.choice(list(self.strong))

    def tmo(self):
        if self.family == "block":
            return self.r.choice(["-", "-", "1", "1", "2", "0"])
        if self.family in ("time",) or self.r.random() < 0.1:
            return self.r.choice(["-", "0", "1", "1", "2", "3"])
        return "-"

    def hook_outcome(self, fault):
        r = self.r
        x = r.random()
        if fault and x < 0.25:
            return r.choice(["panic", f"err:{r.randrange(1, 90)}"])
        if x < 0.5:
            return f"reply:{r.randrange(1, 500)}"
        return "ok"

    def step(self):
        r = self.r
        fam = self.family
        fault = fam in ("fault", "multi")
        hostile = fam == "hostile"
        x = r.random()
        if self.nact == 0 or (fam in ("multi",) and self.nact < 3 and x < 0.12) or (hostile and x < 0.05):
            self.spawn(cap=(0 if hostile and r.random() < 0.3 else None))
            return
        a = r.randrange(self.nact)
        if x < 0.38:
            k = r.choice(["tell", "tell", "ask", "ask", "stop"] if r.random() < 0.25 else ["tell", "tell", "ask"])
            o = self.new_oid()
            t = self.tmo() if k != "stop" else "-"
            fl = ""
            if fam == "block" and k != "stop":
                fl = " " + r.choice(["b", "b", "s", "d", "b"] + (["i"] if t != "-" else []))
                if r.random() < 0.25:
                    fl = ""
            if fam == "block" and t == "0" and fl.strip() != "d":
                # a zero timeout races with the reply on real threads (both outcomes are legal);
                # only the deprecated aliases, which ignore it, are deterministic
                t = "1"
            self.emit(f"op {o} {k} {self.pick_strong(hostile)} {t}{fl}")
            self.ops.append(o)
        elif x < 0.52:
            it = self.hook_outcome(fault)
            if fam == "multi" and r.random() < 0.5 and self.strong:
                k = r.choice(["tell", "ask", "ask", "ask"])
                it = f"do:{self.new_oid()}:{k}:{self.pick_strong()}:{self.tmo()}"
            elif r.random() < 0.05:
                it = f"kill:{self.pick_strong(hostile)}"
            self.emit(f"hook {a} {it}")
        elif x < 0.60:
            self.emit(f"auto {a} {r.choice([0, 1, 1])}")
        elif x < 0.66:
            out = r.choice(["true", "true", "false", "true"])
            if fault and r.random() < 0.3:
                out = r.choice(["panic", f"err:{r.randrange(1, 90)}"])
            elif r.random() < 0.08:
                out = f"err:{r.randrange(1, 90)}"
            if out.startswith("err") and r.random() < 0.5:
                # script the cleanup on_stop that follows the on_run error
                self.emit(f"hook {a} {self.hook_outcome(True)}")
            self.emit(f"run {a} {out}")
        elif x < 0.71:
            self.emit(f"kill {self.pick_strong(hostile)}")
        elif x < 0.79:
            if self.strong or self.weak:
                pool = list(self.strong) + list(self.weak)
                s = r.choice(pool) if not hostile else r.randrange(0, 12)
                self.emit(f"drop {s}")
                self.strong.pop(s, None)
                self.weak.pop(s, None)
        elif x < 0.85:
            if self.strong:
                s = self.pick_strong()
                d = self.next_slot
                self.next_slot += 1
                if r.random() < 0.5:
                    self.emit(f"clone {s} {d}")
                    self.strong[d] = self.strong.get(s, 0)
                else:
                    self.emit(f"downgrade {s} {d}")
                    self.weak[d] = self.strong.get(s, 0)
        elif x < 0.89:
            if self.weak:
                s = r.choice(list(self.weak))
                d = self.next_slot
                self.next_slot += 1
                self.emit(f"upgrade {s} {d}")
                self.strong[d] = self.weak[s]
        elif x < 0.95:
            if fam == "block":
                if self.stats.get("advance", 0) < 2:
                    self.emit("advance 1")
            else:
                self.emit(f"advance {r.choice([1, 1, 1, 2])}")
        elif x < 0.97 and self.ops and fam != "block":
            self.emit(f"abort {r.choice(self.ops)}")
        else:
            self.emit(f"hook {a} {self.hook_outcome(fault)}")

    def finish(self):
        """Drive the script towards termination so that join results are exercised.  The ending
        is itself randomised: stop / kill / dropping every reference arrive in any order, possibly
        while a hook is still gated, and only then are the gates opened."""
        r = self.r
        gated_end = r.random() < 0.5
        if not gated_end:
            for a in range(self.nact):
                self.emit(f"auto {a} 1")
        enders = []
        for a in range(self.nact):
            x = r.random()
            if x < 0.45 and a in self.strong:
                enders.append(f"op {self.new_oid()} stop {a} -")
            if r.random() < 0.35 and a in self.strong:
                enders.append(f"kill {a}")
        if r.random() < 0.5:
            for sl in list(self.strong) + list(self.weak):
                enders.append(f"drop {sl}")
        r.shuffle(enders)
        # dropping a slot before using it turns the later use into a recorded no-op: fine
        for e in enders:
            self.emit(e)
            if gated_end and r.random() < 0.3:
                a = r.randrange(max(1, self.nact))
                self.emit(f"hook {a} {self.hook_outcome(self.family in ('fault', 'multi'))}")
        if gated_end:
            for a in range(self.nact):
                if r.random() < 0.3:
                    self.emit(f"hook {a} {self.hook_outcome(self.family in ('fault', 'multi'))}")
            for a in range(self.nact):
                self.emit(f"auto {a} 1")
        self.emit("advance 2" if self.family == "block" else "advance 4")


EXH_ALPHABET = [
    "op {o} tell 0 -", "op {o} ask 0 -", "op {o} ask 0 1", "op {o} stop 0 -", "kill 0", "drop 0",
    "hook 0 ok", "hook 0 panic", "hook 0 err:5", "run 0 true", "run 0 err:3", "advance 1",
]


def exhaustive_scripts(length, feats=(), caps=(1, 2)):
    """Every sequence of `length` director actions over EXH_ALPHABET, for one actor whose hooks are
    gated, per capacity: small-scope exhaustive enumeration (all short schedules, not a sample)."""
    import itertools
    out = []
    for cap in caps:
        for seq in itertools.product(range(len(EXH_ALPHABET)), repeat=length):
            lines = [feat_line(feats), "spawn %d 0" % cap]
            o = 0
            for i in seq:
                a = EXH_ALPHABET[i]
                if "{o}" in a:
                    o += 1
                    a = a.replace("{o}", str(o))
                lines.append(a)
            lines += ["auto 0 1", "advance 2"]
            out.append(lines)
    return out


def endings_scripts(feats=(), caps=(1, 2)):
    """Every combination of (on_run history) x (messages handled before) x (termination cause) x
    (on_stop outcome), per capacity - the quantifier of C05 ("every combination of termination
    cause and hook outcome") enumerated rather than sampled.  Hooks are automatic (Ok unless an
    outcome is posted); the outcome posted before the cause is consumed by the next hook that
    runs, i.e. on_stop."""
    out = []
    for cap in caps:
        for runs in ([], ["true"], ["false"], ["true", "false"], ["true", "true"]):
            for msgs in (0, 1, 2):
                for cause in ("stop", "kill", "drop", "run 0 err:3", "run 0 panic"):
                    for stopout in ("ok", "err:7", "panic"):
                        lines = [feat_line(feats), "spawn %d 1" % cap]
                        lines += ["run 0 %s" % r for r in runs]
                        o = 0
                        for _ in range(msgs):
                            o += 1
                            lines.append("op %d tell 0 -" % o)
                        lines.append("hook 0 %s" % stopout)
                        if cause == "stop":
                            lines.append("op %d stop 0 -" % (o + 1))
                        elif cause == "kill":
                            lines.append("kill 0")
                        elif cause == "drop":
                            lines.append("drop 0")
                        else:
                            lines.append(cause)
                        lines.append("advance 1")
                        out.append(lines)
        # the same endings reached in one go: the messages and the stop request pile up behind a
        # gated first handler and are then released together (nothing runs dry in between)
        for runs in ([], ["false"]):
            for msgs in (1, 2, 3):
                for cause in ("stop", "drop"):
                    for stopout in ("ok", "err:7", "panic"):
                        lines = [feat_line(feats), "spawn %d 1" % (cap + 4)]
                        lines += ["run 0 %s" % r for r in runs]
                        lines.append("auto 0 0")
                        for o in range(1, msgs + 1):
                            lines.append("op %d tell 0 -" % o)
                        lines.append("op %d stop 0 -" % (msgs + 1) if cause == "stop" else "drop 0")
                        lines += ["hook 0 ok"] * msgs + ["hook 0 " + stopout]
                        lines += ["auto 0 1", "advance 1"]
                        out.append(lines)
    return out


def gen_script(seed, family, length=None, feats=()):
    rng = random.Random(seed)
    g = Gen(rng, family, feats)
    n = length or (rng.randrange(6, 12) if family == "block" else rng.randrange(8, 30))
    if family == "multi":
        for _ in range(rng.choice([2, 2, 3, 4])):
            g.spawn(auto=rng.random() < 0.7)
    elif family == "core" and rng.random() < 0.04:
        # a long burst behind a gated handler, released in one go: exercises anything that counts
        # messages (fairness yields, batching) at thresholds up to ~100.  Capacity exceeds the burst
        # (no sender waits, which would multiply the interleavings the model side has to explore).
        # (a third of the bursts exceed tokio's cooperative budget of 128 receptions per task poll)
        big = rng.random() < 0.34
        g.spawn(cap=512 if big else 128, auto=True)
        g.emit("auto 0 0")
        for _ in range(rng.randrange(130, 300) if big else rng.randrange(33, 100)):
            g.emit(f"op {g.new_oid()} tell 0 -")
        g.emit("auto 0 1")
        g.emit("hook 0 ok")
        if rng.random() < 0.5:
            g.emit("run 0 true")
        g.emit("advance 1")
        return g.lines, g.stats
    else:
        g.spawn()
    for _ in range(n):
        g.step()
    g.finish()
    return g.lines, g.stats


if __name__ == "__main__":
    import sys
    fam = sys.argv[1] if len(sys.argv) > 1 else "core"
    seed = int(sys.argv[2]) if len(sys.argv) > 2 else 1
    lines, _ = gen_script(seed, fam)
    print("\n".join(lines))
