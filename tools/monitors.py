"""Property monitors applied to traces of the REAL implementation (no model involved).

They are the search for a concrete failing input (DESIGN.md 2.3) and supporting evidence; the claim
rests on the theorems.  Each monitor takes a `Run` (script + observed rounds, with the director's
reference table replayed) and returns a list of failure strings.
"""
import re
from vlib import tok, events


class Run:
    def __init__(self, script_lines, rounds):
        self.lines = [l for l in script_lines if l.strip() and not l.startswith(("#", "feat", "mode"))]
        self.realtime = any(l.startswith("mode realtime") for l in script_lines)
        self.rounds = rounds
        self.ops = {}          # oid -> dict(kind, target, tmo, round, tick, hook(bool))
        self.kills = []        # (round, target actor, by_hook)
        self.nact_at = []
        self.caps = []
        self.now_at = []       # clock after each round
        self.drop_rounds = {}  # actor -> round at which its last table ref went away (strong count of table = 0)
        self._replay()

    def _replay(self):
        slots = {}
        nact = 0
        now = 0
        pending_hook_items = {}   # actor -> list of (round, item)
        for r, line in enumerate(self.lines):
            w = line.split()
            prev = self.rounds[r - 1] if r > 0 and r - 1 < len(self.rounds) else {}
            if w[0] == "spawn":
                if int(w[1]) > 0:
                    slots[nact] = ("s", nact)
                    self.caps.append(int(w[1]))
                    nact += 1
            elif w[0] == "op":
                o, k, sl, t = int(w[1]), w[2], int(w[3]), w[4]
                if len(w) > 5 and w[5] == "d":
                    t = "-"          # the deprecated aliases ignore their timeout
                if o not in self.ops:
                    tgt = slots.get(sl)
                    self.ops[o] = dict(kind=k, target=tgt[1] if tgt and tgt[0] == "s" else None,
                                       tmo=None if t == "-" else int(t), round=r, tick=now, hook=False)
            elif w[0] == "kill":
                tgt = slots.get(int(w[1]))
                if tgt and tgt[0] == "s":
                    self.kills.append((r, tgt[1], False))
            elif w[0] == "clone":
                s, d = int(w[1]), int(w[2])
                if s in slots and d not in slots:
                    slots[d] = slots[s]
            elif w[0] == "drop":
                slots.pop(int(w[1]), None)
            elif w[0] == "downgrade":
                s, d = int(w[1]), int(w[2])
                if s in slots and slots[s][0] == "s" and d not in slots:
                    slots[d] = ("w", slots[s][1])
            elif w[0] == "upgrade":
                s, d = int(w[1]), int(w[2])
                if s in slots and slots[s][0] == "w" and d not in slots:
                    a = slots[s][1]
                    up = tok(prev.get("A%d" % a, []), "up=")
                    if up == "1":
                        slots[d] = ("s", a)
            elif w[0] == "hook":
                for item in w[2].split("+"):
                    it = item.split(":")
                    if it[0] == "do":
                        o = int(it[1])
                        if o not in self.ops:
                            # the target is resolved when the item is executed; the table as it is now is
                            # recorded as an approximation (hook_target), target stays None for the
                            # monitors that need certainty
                            tgt = slots.get(int(it[3]))
                            self.ops[o] = dict(kind=it[2], target=None, tmo=None if it[4] == "-" else int(it[4]),
                                               round=None, tick=None, hook=True, slot=int(it[3]), by=int(w[1]),
                                               hook_target=tgt[1] if tgt and tgt[0] == "s" else None, posted=r)
                    elif it[0] == "kill":
                        self.kills.append((r, None, True))
            elif w[0] == "advance":
                now += int(w[1])
            self.nact_at.append(nact)
            self.now_at.append(now)
            for a in range(nact):
                if not any(v == ("s", a) for v in slots.values()):
                    self.drop_rounds.setdefault(a, r)
                else:
                    self.drop_rounds.pop(a, None)
        self.nact = nact
        self.final_slots = slots

    # ---- helpers over rounds
    def aline(self, r, a):
        return self.rounds[r].get("A%d" % a, []) if 0 <= r < len(self.rounds) else []

    def ev(self, r, a):
        return events(self.aline(r, a))

    def res(self, r, o):
        if 0 <= r < len(self.rounds):
            t = self.rounds[r].get("O%d" % o)
            if t:
                return tok(t, "r=")
        return None

    def last(self):
        return len(self.rounds) - 1

    def first_round_with(self, a, pred):
        for r in range(len(self.rounds)):
            if any(pred(e) for e in self.ev(r, a)):
                return r
        return None

    def result_round(self, o):
        for r in range(len(self.rounds)):
            v = self.res(r, o)
            if v is not None and v not in ("pending",):
                return r, v
        return None, None


def he_of(evs):
    return [int(e[2:]) for e in evs if e.startswith("HE")]


def idx(evs, e):
    return evs.index(e) if e in evs else None


def crashed(evs, join):
    return join == "panic" or any(e in ("SX:panic",) or e.startswith("SX:err") or e == "RD:panic"
                                  or (e.startswith("HX") and e.endswith(":panic")) or e == "SP:panic"
                                  or e.startswith("DLK") for e in evs)


# ------------------------------------------------------------------------------ C01
def m_C01(run):
    f = []
    L = run.last()
    if L < 0:
        return f
    all_he = {}
    for a in range(run.nact):
        evs = run.ev(L, a)
        hs = he_of(evs)
        for o in set(hs):
            if hs.count(o) > 1:
                f.append("message %d handled %d times by actor %d" % (o, hs.count(o), a))
            all_he.setdefault(o, []).append(a)
    for o, As in all_he.items():
        if len(As) > 1:
            f.append("message %d handled by several actors %s" % (o, As))
    for o, m in run.ops.items():
        _, v = run.result_round(o)
        if v is None:
            continue
        if (v == "send" or (v == "timeout" and m["kind"] == "tell")) and o in all_he:
            f.append("op %d (%s) returned %s but its message was handled" % (o, m["kind"], v))
    # accepted before a graceful stop / before the references went away => handled before on_stop
    for a in range(run.nact):
        evs = run.ev(L, a)
        join = tok(run.aline(L, a), "join=")
        if "ST0" not in evs or crashed(evs, join) or "ST1" in evs or any(e.startswith("RD:err") for e in evs):
            continue
        st_round = run.first_round_with(a, lambda e: e == "ST0")
        # the cause: first stop op to a that returned ok, or the drop of the last table reference
        cause_round = st_round
        for o, m in run.ops.items():
            if m["kind"] == "stop" and m["target"] == a and m["round"] is not None:
                cause_round = min(cause_round, m["round"])
        if a in run.drop_rounds:
            cause_round = min(cause_round, run.drop_rounds[a])
        hs = he_of(evs[:evs.index("ST0")])
        for o, m in run.ops.items():
            if m["target"] != a or m["kind"] not in ("tell", "ask") or m["hook"]:
                continue
            rr, v = run.result_round(o)
            if rr is not None and rr < cause_round and v.startswith("ok") and o not in hs:
                f.append("op %d returned %s in round %d, before the stop cause (round %d) of actor %d, "
                         "but was not handled before on_stop" % (o, v, rr + 1, cause_round + 1, a))
        # ... whatever became of the caller afterwards (its timeout elapsed, its future was dropped)
        for o, r_acc in accepted_by_capacity(run, a).items():
            if r_acc < cause_round and o not in hs:
                rr, v = run.result_round(o)
                f.append("op %d was in the mailbox of actor %d by round %d (everything sent by then fitted into it), "
                         "before the stop cause (round %d), but was not handled before on_stop (its caller got %s)"
                         % (o, a, r_acc + 1, cause_round + 1, v))
    f += skipped_in_queue(run)
    return f


def accepted_by_capacity(run, a):
    """Operations that must be in a's mailbox by the end of the round they began in: at that
    quiescent point every operation sent to a and not yet taken by it fits into the mailbox together,
    and nobody waits while a slot is free (C09) - so they were all accepted, whatever their callers
    were told later.  Conservative: operations of hooks make the count uncertain (skip the actor),
    finished operations whose fate is unknown are counted as still queued."""
    out = {}
    if run.realtime or a >= len(run.caps):
        return out
    if any(m["hook"] and m.get("hook_target") in (a, None) for m in run.ops.values()):
        return out
    ops_a = [(o, m) for o, m in run.ops.items() if m["target"] == a and not m["hook"] and m["round"] is not None]
    for o, m in ops_a:
        if m["kind"] not in ("tell", "ask"):
            continue
        r = m["round"]
        if r >= len(run.rounds):
            continue
        line = run.aline(r, a)
        evs = events(line)
        if tok(line, "join=") != "running" or "ST0" in evs or "ST1" in evs:
            continue
        taken = set(he_of(evs))
        pending = 0
        for o2, m2 in ops_a:
            if m2["round"] > r:
                continue
            if m2["kind"] in ("tell", "ask") and o2 in taken:
                continue
            if run.res(r, o2) == "send":
                continue
            pending += 1
        if pending <= run.caps[a]:
            out[o] = r
    return out


def skipped_in_queue(run, order_too=False):
    """o2 was still pending at the end of a round in which a later-begun o3 to the same actor was already
    accepted (a tell that returned Ok, or a handler entry).  tokio's channel and its permit queue are
    FIFO, so o2 was accepted before o3: if o3's handler was entered, o2's must have been entered
    before it - whatever became of o2's caller afterwards (timeout, cancellation)."""
    f = []
    L = run.last()
    if L < 0 or run.realtime:
        return f
    for a in range(run.nact):
        final = he_of(run.ev(L, a))
        ops_a = [(o, m) for o, m in run.ops.items()
                 if m["target"] == a and not m["hook"] and m["round"] is not None and m["kind"] in ("tell", "ask")]
        for o3, m3 in ops_a:
            if o3 not in final:
                continue
            for o2, m2 in ops_a:
                if m2["round"] >= m3["round"]:
                    continue
                ahead = False
                for r in range(m3["round"], len(run.rounds)):
                    acc3 = (m3["kind"] == "tell" and run.res(r, o3) == "ok0") or o3 in he_of(run.ev(r, a))
                    if acc3:
                        ahead = run.res(r, o2) == "pending"
                        break
                if not ahead:
                    continue
                if o2 not in final:
                    f.append("op %d was queued ahead of op %d at actor %d, %d was handled and %d never was" % (o2, o3, a, o3, o2))
                elif order_too and final.index(o2) > final.index(o3):
                    f.append("op %d was queued ahead of op %d at actor %d but handled after it" % (o2, o3, a))
    return f


# ------------------------------------------------------------------------------ C02
def hook_program_order(run):
    """Operations one hook performs one after the other (`hook a do:o1:..+do:o2:..`: each is awaited
    before the next begins) and that end up at the same actor are handled there in that order."""
    f = []
    L = run.last()
    if L < 0:
        return f
    for line in run.lines:
        w = line.split()
        if len(w) < 3 or w[0] != "hook":
            continue
        seq = []
        for item in w[2].split("+"):
            it = item.split(":")
            if it[0] == "do" and len(it) >= 3 and it[2] in ("tell", "ask"):
                seq.append(int(it[1]))
        if len(seq) < 2:
            continue
        for a in range(run.nact):
            hs = he_of(run.ev(L, a))
            mine = [o for o in seq if o in hs]
            idx = [hs.index(o) for o in mine]
            if idx != sorted(idx):
                f.append("the hook of actor %s performed operations %s one after the other, actor %d handled them in the order %s"
                         % (w[1], mine, a, [o for o in hs if o in mine]))
    return f


def m_C02(run):
    f = hook_program_order(run)
    L = run.last()
    for a in range(run.nact):
        hs = he_of(run.ev(L, a))
        pos = {o: i for i, o in enumerate(hs)}
        ops = [(o, m) for o, m in run.ops.items() if m["target"] == a and not m["hook"] and m["kind"] in ("tell", "ask")]
        done = {}
        for o, m in ops:
            rr, v = run.result_round(o)
            done[o] = (rr, v)
        for o1, m1 in ops:
            r1, v1 = done[o1]
            if r1 is None or not v1.startswith("ok"):
                continue
            for o2, m2 in ops:
                if o2 == o1 or m2["round"] is None or m2["round"] <= r1:
                    continue
                # o1 completed before o2 began
                if o2 in pos and o1 not in pos:
                    f.append("actor %d handled %d (begun round %d) but not %d (completed round %d)" % (a, o2, m2["round"] + 1, o1, r1 + 1))
                if o1 in pos and o2 in pos and pos[o1] > pos[o2]:
                    f.append("actor %d handled %d before %d although %d completed before %d began" % (a, o2, o1, o1, o2))
        # nothing accepted after stop() returned is handled
        for o, m in run.ops.items():
            if m["kind"] == "stop" and m["target"] == a and not m["hook"]:
                rs, vs = run.result_round(o)
                if rs is None:
                    continue
                for o2, m2 in ops:
                    if m2["round"] is not None and m2["round"] > rs and o2 in pos:
                        f.append("actor %d handled %d, begun after stop() %d had returned" % (a, o2, o))
    return f


# ------------------------------------------------------------------------------ C03
def m_C03(run):
    f = []
    L = run.last()
    hx = {}
    for a in range(run.nact):
        for e in run.ev(L, a):
            m = re.match(r"HX(\d+):(reply|err)(\d+)$", e)
            if m:
                hx[int(m.group(1))] = int(m.group(3))
    for o, m in run.ops.items():
        if m["kind"] != "ask":
            continue
        _, v = run.result_round(o)
        if v and v.startswith("ok"):
            val = int(v[2:])
            if o not in hx:
                f.append("ask %d returned %s but its handler never produced a value" % (o, v))
            elif hx[o] != val:
                f.append("ask %d returned %d but its handler produced %d" % (o, val, hx[o]))
    # no ask may still be pending on an ended actor
    for o, m in run.ops.items():
        if m["kind"] != "ask" or m["target"] is None:
            continue
        v = run.res(L, o)
        a = m["target"]
        join = tok(run.aline(L, a), "join=")
        if v == "pending" and join and join != "running":
            f.append("ask %d still pending although actor %d has ended (%s)" % (o, a, join))
    # every round of a paused-clock run ends at quiescence: an ask can then only be pending if its
    # target is inside a hook (the proviso of the property).  An idle loop that does not serve its
    # mailbox, or does not notice that it should end, shows up here as a hang.
    if not run.realtime:
        for r in range(len(run.rounds)):
            for o, m in run.ops.items():
                if m["kind"] != "ask" or m["target"] is None or m["hook"]:
                    continue
                a = m["target"]
                if run.res(r, o) != "pending":
                    continue
                join = tok(run.aline(r, a), "join=")
                if join == "running" and not in_hook(run.ev(r, a)):
                    f.append("ask %d still pending at the quiescent end of round %d although actor %d is idle (inside no hook)" % (o, r + 1, a))
                    return f
    return f


def in_hook(evs):
    st = False
    for e in evs:
        if e == "SE" or e.startswith("HE") or e in ("ST0", "ST1"):
            st = True
        elif e.startswith(("SX:", "HX", "SP:", "DLK")):
            st = False
    return st


# ------------------------------------------------------------------------------ C04
def lifecycle_ok(evs):
    st = "init"
    for e in evs:
        if e.startswith("TR") or e.startswith("DLK"):
            continue
        if st == "init":
            if e == "SE":
                st = "start"
            else:
                return "first hook event is %s" % e
        elif st == "start":
            if e.startswith("SX:"):
                st = "end" if (e == "SX:panic" or e.startswith("SX:err")) else "run"
            else:
                return "%s during on_start" % e
        elif st == "run":
            if e.startswith("HE"):
                st = "handle" + e[2:]
            elif e.startswith("RD:"):
                if e == "RD:panic":
                    st = "end"
                elif e.startswith("RD:err"):
                    st = "runerr"
            elif e in ("ST0", "ST1"):
                st = "stop"
            else:
                return "%s while idle" % e
        elif st.startswith("handle"):
            if e.startswith("HX" + st[6:] + ":"):
                st = "end" if e.endswith(":panic") else "run"
            else:
                return "%s during handler %s" % (e, st[6:])
        elif st == "runerr":
            if e == "ST0":
                st = "stop"
            else:
                return "%s after on_run error" % e
        elif st == "stop":
            if e.startswith("SP:"):
                st = "end"
            else:
                return "%s during on_stop" % e
        elif st == "end":
            return "%s after the end" % e
    return None


def m_C04(run):
    f = []
    L = run.last()
    for a in range(run.nact):
        evs = run.ev(L, a)
        r = lifecycle_ok(evs)
        if r:
            f.append("actor %d: %s" % (a, r))
        # killed flag iff a kill was issued at all
        if "ST1" in evs and not run.kills:
            f.append("actor %d: on_stop(killed=true) without any kill()" % a)
        # on_stop runs exactly when the actor ends normally: a task that returned a result after a
        # successful on_start (no panic) must have entered on_stop
        join = tok(run.aline(L, a), "join=")
        if join in ("completed", "failed") and not crashed(evs, join) and "SX:ok" in evs \
                and "ST0" not in evs and "ST1" not in evs:
            f.append("actor %d ended (%s) without running on_stop" % (a, join))
    f += m_C19(run)
    return f


def m_C19(run):
    """on_tell_result is called exactly once after a tell's handler returned, never after an ask."""
    f = []
    L = run.last()
    for a in range(run.nact):
        evs = run.ev(L, a)
        for i, e in enumerate(evs):
            if not e.startswith("TR"):
                continue
            o = int(e[2:])
            m = run.ops.get(o)
            if m and m["kind"] == "ask":
                f.append("actor %d: on_tell_result ran for ask %d" % (a, o))
            if evs[:i].count(e) > 0:
                f.append("actor %d: on_tell_result ran twice for %d" % (a, o))
        for e in evs:
            if e.startswith("HX") and not e.endswith(":panic"):
                o = int(e[2:].split(":")[0])
                m = run.ops.get(o)
                if m and m["kind"] == "tell" and ("TR%d" % o) not in evs and not crashed(evs, tok(run.aline(L, a), "join=")):
                    f.append("actor %d: handler of tell %d returned but on_tell_result never ran" % (a, o))
    return f


# ------------------------------------------------------------------------------ C05
def spec_join(evs):
    """Expected join tokens from the hook events."""
    ust = []
    runerr = None
    killed = None
    for e in evs:
        if e == "SX:panic" or e == "RD:panic" or e == "SP:panic" or (e.startswith("HX") and e.endswith(":panic")) or e.startswith("DLK"):
            return {"join": "panic"}
        if e.startswith("SX:err"):
            return {"join": "failed", "jk": "0", "jph": "OnStart", "jerr": e[6:], "jst": "none"}
        if e.startswith("SX:"):
            ust.append("S")
        elif e.startswith("HE"):
            ust.append("H" + e[2:])
        elif e.startswith("RD:"):
            ust.append("R")
            if e.startswith("RD:err"):
                runerr = e[6:]
        elif e in ("ST0", "ST1"):
            killed = e[2]
            ust.append("T" + killed)
        elif e.startswith("SP:"):
            st = ".".join(ust)
            if runerr is not None:
                return {"join": "failed", "jk": "0", "jph": "OnRunThenOnStop" if e.startswith("SP:err") else "OnRun", "jerr": runerr, "jst": st}
            if e.startswith("SP:err"):
                return {"join": "failed", "jk": killed, "jph": "OnStop", "jerr": e[6:], "jst": st}
            return {"join": "completed", "jk": killed, "jst": st}
    return {"join": "running"}


def m_C05(run):
    f = []
    for r in range(len(run.rounds)):
        for a in range(run.nact_at[r] if r < len(run.nact_at) else run.nact):
            line = run.aline(r, a)
            if not line:
                continue
            exp = spec_join(events(line))
            got = {k: tok(line, k + "=") for k in ("join", "jk", "jph", "jerr", "jst")}
            got = {k: v for k, v in got.items() if v is not None}
            if exp != got:
                f.append("round %d actor %d: JoinHandle reports %s but the hooks that ran imply %s" % (r + 1, a, got, exp))
                return f
    return f


# ------------------------------------------------------------------------------ C06
def m_C06(run):
    f = []
    L = run.last()
    for (r, a, by_hook) in run.kills:
        if a is None or r == 0:
            continue
        before = run.ev(r - 1, a)
        jb = tok(run.aline(r - 1, a), "join=")
        if jb != "running" or "ST0" in before or "ST1" in before:
            continue
        after = run.ev(L, a)
        new = after[len(before):]
        if crashed(after, tok(run.aline(L, a), "join=")):
            continue
        nhe = len(he_of(new))
        if nhe > 1:
            f.append("actor %d started %d handlers after kill() returned (round %d)" % (a, nhe, r + 1))
        if "ST0" in new:
            f.append("actor %d ran on_stop(killed=false) after kill() returned (round %d)" % (a, r + 1))
        join = tok(run.aline(L, a), "join=")
        if join in ("completed", "failed") and tok(run.aline(L, a), "jk=") != "1" and not any(e.startswith("RD:err") for e in new):
            f.append("actor %d ended with killed=false after kill() (round %d)" % (a, r + 1))
        # in-progress hook finished (new events exist) but on_stop(true) did not follow
        if new and "ST1" not in new and join == "running":
            inhook = bool(before) and (before[-1] == "SE" or before[-1].startswith("HE"))
            if not inhook or any(e.startswith("HX") or e.startswith("SX") for e in new):
                f.append("actor %d kept running after kill() although no hook is in progress" % a)
    return f


# ------------------------------------------------------------------------------ C07
def m_C07(run):
    f = []
    L = run.last()
    for a in range(run.nact):
        line = run.aline(L, a)
        evs = events(line)
        join = tok(line, "join=")
        if join == "running" and tok(line, "up=") == "0":
            inhook = bool(evs) and (evs[-1] == "SE" or evs[-1].startswith("HE") or evs[-1] in ("ST0", "ST1"))
            if not inhook:
                f.append("actor %d has no strong reference left, no hook in progress, and is still running" % a)
        # the same judged from the script alone (an actor that keeps a strong reference to itself
        # makes upgrade succeed): the table holds no strong reference to it, every operation has
        # finished (none is queued or in flight holding one), no hook is in progress
        if join == "running" and a in run.drop_rounds and not in_hook(evs) and not run.realtime \
                and all(run.result_round(o)[0] is not None for o in run.ops) \
                and not any(run.res(L, o) == "pending" for o in run.ops):
            f.append("actor %d: every reference of the script to it has been dropped, no operation is in flight, no hook is "
                     "in progress, and it is still running (upgrade %s)" % (a, "succeeds" if tok(line, "up=") == "1" else "fails"))
        # conversely: ended gracefully without cause
        if "ST0" in evs and not any(e.startswith("RD:err") for e in evs):
            st_round = run.first_round_with(a, lambda e: e == "ST0")
            stopped = any(m["kind"] == "stop" and m["target"] in (a, None) for m in run.ops.values())
            up_before = tok(run.aline(st_round - 1, a), "up=") if st_round and st_round > 0 else None
            dropped = a in run.drop_rounds and run.drop_rounds[a] <= st_round
            if not stopped and not dropped and up_before == "1":
                f.append("actor %d ran on_stop(false) in round %d with references alive and no stop()" % (a, st_round + 1))
    # stop() returned Ok while the mailbox was open: the marker is queued, so at the final quiescent
    # point the actor must have entered on_stop (or be inside a hook, or have ended some other way)
    if not run.realtime:
        for o, m in run.ops.items():
            if m["kind"] != "stop" or m["target"] is None or m["hook"]:
                continue
            a = m["target"]
            rr, v = run.result_round(o)
            if rr is None or v != "ok0":
                continue
            then = run.ev(rr, a)
            if tok(run.aline(rr, a), "join=") != "running" or "ST0" in then or "ST1" in then:
                continue
            evs = run.ev(L, a)
            if tok(run.aline(L, a), "join=") == "running" and "ST0" not in evs and "ST1" not in evs and not in_hook(evs):
                f.append("stop() %d returned Ok in round %d but actor %d is idle and still running at the end" % (o, rr + 1, a))
    return f


# ------------------------------------------------------------------------------ C08
def m_C08(run, mon_text=""):
    f = [l for l in mon_text.splitlines() if l.startswith("C08")]
    L = run.last()
    for a in range(run.nact):
        evs = run.ev(L, a)
        if "RD:false" in evs:
            i = evs.index("RD:false")
            if any(e.startswith("RD:") for e in evs[i + 1:]):
                f.append("actor %d polled on_run to completion again after Ok(false)" % a)
        for i, e in enumerate(evs):
            if e.startswith("RD:err"):
                if i + 1 >= len(evs) or evs[i + 1] != "ST0":
                    f.append("actor %d: on_run error not followed by on_stop(false)" % a)
                join = tok(run.aline(L, a), "join=")
                ph = tok(run.aline(L, a), "jph=")
                if join == "completed" or (join == "failed" and ph not in ("OnRun", "OnRunThenOnStop")):
                    f.append("actor %d: on_run error but result is %s/%s" % (a, join, ph))
    return f


# ------------------------------------------------------------------------------ C09
def m_C09(run, mon_text=""):
    f = [l for l in mon_text.splitlines() if l.startswith("C09")]
    # accepted-not-taken <= cap at every round: tells that returned ok and are not yet handled
    for r in range(len(run.rounds)):
        for a in range(min(run.nact, len(run.caps))):
            hs = set(he_of(run.ev(r, a)))
            waiting = 0
            for o, m in run.ops.items():
                if m["target"] == a and m["kind"] in ("tell", "stop") and not m["hook"]:
                    v = run.res(r, o)
                    if v == "ok0" and (o not in hs or m["kind"] == "stop"):
                        # a tell not yet handled, or a stop() that returned Ok on an open mailbox whose
                        # marker has not been taken (taking it enters on_stop at once)
                        join = tok(run.aline(r, a), "join=")
                        if join == "running" and "ST0" not in run.ev(r, a) and "ST1" not in run.ev(r, a):
                            waiting += 1
            if waiting > run.caps[a]:
                f.append("round %d: %d tells/stops accepted and not yet taken by actor %d whose capacity is %d" % (r + 1, waiting, a, run.caps[a]))
                return f
    f += failed_on_live_actor(run)
    return f


def failed_on_live_actor(run):
    """A send fails with Err(Send) only when the mailbox is closed, and the mailbox is closed only
    after the actor has begun to end.  So a tell / ask / stop that returned Err(Send) while its
    target, observed afterwards, is still running and has neither entered on_stop nor crashed,
    failed where it had to wait (full mailbox) or succeed."""
    f = []
    for o, m in run.ops.items():
        a = m["target"]
        if a is None or m["hook"] or m["round"] is None:
            continue
        rr, v = run.result_round(o)
        if v != "send" or rr is None:
            continue
        line = run.aline(rr, a)
        evs = events(line)
        join = tok(line, "join=")
        if join == "running" and "ST0" not in evs and "ST1" not in evs and not crashed(evs, join) \
                and not any(e.startswith("RD:err") or e.endswith("panic") for e in evs):
            f.append("op %d (%s) returned Err(Send) in round %d although actor %d was running and had not begun to end"
                     % (o, m["kind"], rr + 1, a))
    return f


# ------------------------------------------------------------------------------ C10
def m_C10(run):
    f = []
    for o, m in run.ops.items():
        if m["tmo"] is None or m["round"] is None:
            continue
        deadline = m["tick"] + m["tmo"]
        for r in range(m["round"], len(run.rounds)):
            v = run.res(r, o)
            now = run.now_at[r] if r < len(run.now_at) else None
            if v == "timeout" and now is not None and now < deadline:
                f.append("op %d timed out at tick %d, before its deadline %d" % (o, now, deadline))
                break
            if v == "pending" and now is not None and now >= deadline:
                f.append("op %d still pending at tick %d, past its deadline %d" % (o, now, deadline))
                break
    f += masked_by_timeout(run)
    return f


def masked_by_timeout(run):
    """A tell with a zero timeout into a mailbox that is certainly empty and open completes in its
    first poll, so it must return Ok: timeout() polls the operation before the timer.  (Certainly
    empty: every earlier operation on that actor has failed to enter, or has had its handler
    entered; no hook issues operations in the script; the actor is running and not stopping.)"""
    f = []
    if run.realtime or any(m["hook"] for m in run.ops.values()):
        return f
    for o, m in run.ops.items():
        if m["tmo"] != 0 or m["kind"] != "tell" or m["round"] is None or m["target"] is None:
            continue
        r, a = m["round"], m["target"]
        if run.res(r, o) != "timeout" or r == 0:
            continue
        line = run.aline(r - 1, a)
        evs = events(line)
        if tok(line, "join=") != "running" or "ST0" in evs or "ST1" in evs or tok(line, "up=") != "1":
            continue
        if any(k[1] == a for k in run.kills if k[0] < r):
            continue
        handled = set(he_of(evs))
        empty = True
        for o2, m2 in run.ops.items():
            if o2 == o or m2["target"] != a or m2["round"] is None or m2["round"] >= r:
                continue
            v2 = run.res(r - 1, o2)
            if v2 == "send" or o2 in handled:
                continue
            if m2["kind"] == "stop" or v2 is None:
                empty = False
                break
            empty = False
            break
        if empty:
            f.append("tell %d with a zero timeout into the empty mailbox of actor %d returned Timeout in round %d" % (o, a, r + 1))
    return f


# ------------------------------------------------------------------------------ C11
def m_C11(run, mon_text=""):
    f = [l for l in mon_text.splitlines() if l.startswith("C11")]
    ids = {}
    for r in range(len(run.rounds)):
        seen = {}
        for a in range(run.nact):
            line = run.aline(r, a)
            if not line:
                continue
            i = tok(line, "id=")
            if a in ids and ids[a] != i:
                f.append("identity of actor %d changed from %s to %s" % (a, ids[a], i))
            ids[a] = i
            if i in seen:
                f.append("actors %d and %d share id %s" % (seen[i], a, i))
            seen[i] = a
            join = tok(line, "join=")
            alive = tok(line, "alive=")
            evs = events(line)
            if join == "running" and alive == "0" and "ST0" not in evs and "ST1" not in evs and not crashed(evs, join):
                f.append("round %d: is_alive() false on running actor %d" % (r + 1, a))
            if join != "running" and alive == "1":
                f.append("round %d: is_alive() true although actor %d's JoinHandle resolved" % (r + 1, a))
    # every send to an ended actor fails
    for o, m in run.ops.items():
        if m["target"] is None or m["round"] is None or m["round"] == 0 or m["kind"] == "stop":
            continue
        jb = tok(run.aline(m["round"] - 1, m["target"]), "join=")
        _, v = run.result_round(o)
        if jb and jb != "running" and v and v.startswith("ok"):
            f.append("op %d to ended actor %d returned %s" % (o, m["target"], v))
    return f


# ------------------------------------------------------------------------------ C13
def m_C13(run):
    f = []
    L = run.last()
    if L < 0:
        return f
    exp = []
    for o, m in run.ops.items():
        v = run.res(L, o)
        a = m["target"]
        if a is None and m["hook"]:
            continue
        fam = m["kind"]
        if v == "send":
            exp.append("d:%s:m%d:stopped:%s" % (a, o % 4, fam))
        elif v == "timeout":
            exp.append("d:%s:m%d:timeout:%s" % (a, o % 4, fam))
        elif v == "recv":
            exp.append("d:%s:m%d:dropped:%s" % (a, o % 4, fam))
    got = list(run.rounds[L].get("D", []))
    # labels are compared by operation family (blocking_tell ~ tell, blocking_ask ~ ask)
    fam = lambda t: t.replace(":blocking_tell", ":tell").replace(":blocking_ask", ":ask")
    hookops = any(m["hook"] for m in run.ops.values())
    if not hookops and sorted(exp) != sorted(fam(t) for t in got):
        f.append("dead letters recorded %s but the failed operations imply %s" % (sorted(got), sorted(exp)))
    n = tok(run.rounds[L].get("DC", []), "n=")
    if n not in (None, "-") and int(n) != len(got):
        f.append("dead_letter_count()=%s but %d records were logged" % (n, len(got)))
    return f


# ------------------------------------------------------------------------------ C14
def m_C14(run):
    """no undetected ask cycle: at the end, the wait-for graph read through the hook is acyclic"""
    f = []
    L = run.last()
    if L < 0:
        return f
    g = run.rounds[L].get("G", [])
    edges = {}
    for t in g:
        if t.startswith("g:") and ">" in t:
            k, v = t[2:].split(">")
            edges[k] = v
    for start in edges:
        cur, seen = start, set()
        while cur in edges and cur not in seen:
            seen.add(cur)
            cur = edges[cur]
        if cur == start and start in seen:
            f.append("undetected ask cycle through actor id %s at the end of the script: %s" % (start, sorted(edges.items())))
            break
    # the same question asked of the operations themselves: asks made from hooks that are still
    # pending at the end and wait on each other in a circle
    pend = {}
    for o, m in run.ops.items():
        if m.get("hook") and m["kind"] == "ask" and m.get("hook_target") is not None and run.res(L, o) == "pending":
            pend.setdefault(m["by"], set()).add(m["hook_target"])
    for start in pend:
        stack, seen = [start], set()
        while stack:
            cur = stack.pop()
            for nxt in pend.get(cur, ()):
                if nxt == start:
                    f.append("actors wait on each other forever: pending asks %s form a cycle through actor %d and nobody panicked"
                             % (sorted((k, sorted(v)) for k, v in pend.items()), start))
                    return f
                if nxt not in seen:
                    seen.add(nxt)
                    stack.append(nxt)
    return f


# ------------------------------------------------------------------------------ C15
STALE = "[stale-edge-after-reply]"


def m_C15(run):
    f = []
    nr = len(run.rounds)
    seen = set()
    # sequence stamps (b: begin, x: handler exit = reply sent, d: asker resumed, p: refused by the detector)
    stamps = {}
    if nr:
        for t in run.rounds[nr - 1].get("Q", []):
            if "=" in t:
                k, v = t.split("=")
                stamps[k] = int(v)
    for r in range(nr):
        for a in range(run.nact):
            for e in run.ev(r, a):
                if not e.startswith("DLK:") or (a, e) in seen:
                    continue
                seen.add((a, e))
                ids = [int(x) for x in e[4:].split(">") if x]
                if len(ids) < 2 or ids[0] != ids[-1] or ids[0] != a + 1:
                    f.append("round %d: malformed cycle %s reported by actor %d" % (r + 1, e, a))
                    continue
                # when did actor a panic?  at the begin of its last refused ask
                pseq = max([v for k, v in stamps.items() if k.startswith("p") and run.ops.get(int(k[1:]), {}).get("by") == a] or [None])
                if pseq is None:
                    continue    # a self-ask in a hook without stamps: nothing to classify
                # ids[0] -> ids[1] is the ask that was refused; ids[1] -> ... -> ids[0] must be live edges
                for i in range(1, len(ids) - 1):
                    u, v = ids[i] - 1, ids[i + 1] - 1
                    cands = [o for o, m in run.ops.items()
                             if m.get("hook") and m["kind"] == "ask" and m.get("by") == u and m.get("hook_target") == v]
                    live, stale, dead = [], [], []
                    for o in cands:
                        b, x, d = stamps.get("b%d" % o), stamps.get("x%d" % o), stamps.get("d%d" % o)
                        if b is None or b > pseq:
                            continue
                        if d is not None and d < pseq:
                            dead.append(o)
                        elif x is not None and x < pseq:
                            stale.append(o)
                        else:
                            live.append(o)
                    if live:
                        continue
                    if stale:
                        f.append("%s round %d: actor %d panicked with %s but the ask %d (actor %d -> %d) had already been answered"
                                 % (STALE, r + 1, a, e, stale[0], u, v))
                    else:
                        f.append("round %d: actor %d panicked with %s but no in-flight ask from actor %d to actor %d existed at that moment (finished before: %s)"
                                 % (r + 1, a, e, u, v, dead))
        # the wait-for graph at quiescence = the pending asks made from actor context
        g = run.rounds[r].get("G", [])
        if g and g != ["g:-"]:
            edges = sorted(t for t in g if t.startswith("g:"))
            if "g:POISONED" in edges:
                f.append("round %d: the wait-for graph mutex is poisoned" % (r + 1))
                edges = [t for t in edges if t != "g:POISONED"]
            exp = sorted("g:%d>%d" % (m["by"] + 1, m["hook_target"] + 1) for o, m in run.ops.items()
                         if m.get("hook") and m["kind"] == "ask" and m.get("hook_target") is not None and run.res(r, o) == "pending")
            if edges != exp:
                f.append("round %d: wait-for graph at quiescence is %s but the pending asks made from actor context are %s"
                         % (r + 1, edges, exp))
                break
    return f


def m_C12(run):
    """framework-wide state after failures: the graph mutex is not poisoned"""
    f = []
    for r in range(len(run.rounds)):
        if "g:POISONED" in run.rounds[r].get("G", []):
            f.append("round %d: the wait-for graph mutex is poisoned" % (r + 1))
            break
    f += pending_sender_of_failed_actor(run)
    return f


def pending_sender_of_failed_actor(run):
    """'Its pending and future senders get errors': a tell that was still waiting for a mailbox slot
    at a quiescent point (a tell that has its slot returns at once), whose target then ends by a
    panic or a hook error, must not come back Ok - nobody will ever handle it.  (One thread: a waiter
    that is handed a slot runs before anything else happens, so pending at a quiescent point means
    no slot.  Real-time runs are left out: there a late push is possible and harmless.)"""
    f = []
    if run.realtime:
        return f
    L = run.last()
    for o, m in run.ops.items():
        a = m["target"]
        if a is None or m["hook"] or m["kind"] != "tell" or m["round"] is None:
            continue
        rr, v = run.result_round(o)
        if v != "ok0" or rr is None or rr == 0 or run.res(rr - 1, o) != "pending":
            continue
        line = run.aline(rr, a)
        evs, join = events(line), tok(line, "join=")
        if crashed(evs, join) and o not in he_of(run.ev(L, a)):
            f.append("op %d (tell) was waiting for a slot of actor %d, the actor then failed, and the tell returned Ok in round %d "
                     "although its message is never handled" % (o, a, rr + 1))
    return f


# ------------------------------------------------------------------------------ C20
def m_C20(run):
    """message_count never decreases, and whenever no handler is in progress it equals the number of
    handlers entered so far (metrics builds only: mc=- otherwise)."""
    f = []
    for a in range(run.nact):
        prev = None
        for r in range(len(run.rounds)):
            line = run.aline(r, a)
            mc = tok(line, "mc=")
            if mc in (None, "-"):
                continue
            mc = int(mc)
            if prev is not None and mc < prev:
                f.append("round %d: message_count of actor %d went down from %d to %d" % (r + 1, a, prev, mc))
                return f
            prev = mc
            evs = events(line)
            he = len([e for e in evs if e.startswith("HE")])
            hx = len([e for e in evs if e.startswith("HX")])
            if he == hx and mc != he:
                f.append("round %d: actor %d has entered %d handlers, none is in progress, but message_count is %d" % (r + 1, a, he, mc))
                return f
    return f


MONITORS = {
    "C01": m_C01, "C02": m_C02, "C03": m_C03, "C04": m_C04, "C05": m_C05, "C06": m_C06, "C07": m_C07,
    "C08": m_C08, "C09": m_C09, "C10": m_C10, "C11": m_C11, "C12": m_C12, "C13": m_C13, "C14": m_C14, "C15": m_C15, "C20": m_C20,
}


def classify_stale(r, failures):
    """check.py hook: the class of a set of failures, for matching against KNOWN_FINDINGS.txt"""
    if failures and all(isinstance(x, str) and x.startswith(STALE) for x in failures):
        return "stale-edge-after-reply"
    return None
