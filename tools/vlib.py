"""Shared machinery of the checks: build steps (cached by content hash), script runs, acceptance."""
import concurrent.futures
import fcntl
import hashlib
import json
import os
import re
import shutil
import subprocess
import sys
import time

VERIF = os.path.abspath(os.path.join(os.path.dirname(__file__), ".."))
REPO = os.environ.get("VERIF_REPO", "/repo")
CACHE = os.path.join(VERIF, ".cache")
COQ = os.path.join(VERIF, "coq")
NPROC = min(16, os.cpu_count() or 4)
ENV = dict(os.environ, CARGO_NET_OFFLINE="true")

FEATURE_FLAGS = {"dd": "f-dd", "metrics": "f-metrics", "testutils": "f-testutils", "tracing": "f-tracing"}


def log(*a):
    print("[check]", *a, file=sys.stderr, flush=True)


def sh(cmd, cwd=None, timeout=1800, env=None, check=False):
    p = subprocess.run(cmd, cwd=cwd, timeout=timeout, env=env or ENV, capture_output=True, text=True)
    if check and p.returncode != 0:
        raise RuntimeError("command failed: %s\n%s\n%s" % (cmd, p.stdout[-4000:], p.stderr[-4000:]))
    return p


class Lock:
    def __init__(self, name):
        os.makedirs(CACHE, exist_ok=True)
        self.path = os.path.join(CACHE, name + ".lock")

    def __enter__(self):
        self.f = open(self.path, "w")
        fcntl.flock(self.f, fcntl.LOCK_EX)
        return self

    def __exit__(self, *a):
        fcntl.flock(self.f, fcntl.LOCK_UN)
        self.f.close()


def hash_files(paths):
    h = hashlib.sha256()
    for p in sorted(paths):
        h.update(p.encode())
        try:
            with open(p, "rb") as f:
                h.update(f.read())
        except OSError:
            h.update(b"<missing>")
    return h.hexdigest()[:20]


def list_files(root, exts, skip=("target", ".git", ".cache")):
    out = []
    for d, dirs, files in os.walk(root):
        dirs[:] = [x for x in dirs if x not in skip]
        for f in files:
            if f.endswith(exts):
                out.append(os.path.join(d, f))
    return out


def repo_hash():
    files = list_files(os.path.join(REPO, "src"), (".rs",)) + list_files(os.path.join(REPO, "rsactor-derive"), (".rs", ".toml"))
    files += [os.path.join(REPO, "Cargo.toml"), os.path.join(REPO, "Cargo.lock")]
    return hash_files(files)


def harness_hash():
    return hash_files(list_files(os.path.join(VERIF, "harness", "src"), (".rs",)) + [os.path.join(VERIF, "harness", "Cargo.toml")])


# ----------------------------------------------------------------------------- shape + coq
def gen_shape():
    p = sh([sys.executable, os.path.join(VERIF, "tools", "extract_shape.py"), os.path.join(COQ, "Gen", "Shape.v")], check=True)
    return json.loads(p.stdout)


FORBIDDEN = re.compile(r"\b(Admitted|admit|Axiom|Parameter|Conjecture|Unset\s+Guard|bypass_check|type-in-type|impredicative-set|Admit\s+Obligations)\b")


def scan_forbidden():
    bad = []
    for f in list_files(COQ, (".v",)):
        txt = open(f).read()
        # strip comments
        txt2 = re.sub(r"\(\*.*?\*\)", "", txt, flags=re.S)
        for m in FORBIDDEN.finditer(txt2):
            bad.append("%s: %s" % (os.path.relpath(f, VERIF), m.group(0)))
        # Variable/Hypothesis outside sections
        depth = 0
        for line in txt2.splitlines():
            s = line.strip()
            if re.match(r"Section\s+\w+", s):
                depth += 1
            elif re.match(r"End\s+\w+", s) and depth > 0:
                depth -= 1
            elif depth == 0 and re.match(r"(Variables?|Hypothes[ie]s|Context)\b", s):
                bad.append("%s: %s outside a section" % (os.path.relpath(f, VERIF), s[:40]))
    return bad


def coq_make(targets, timeout=1500):
    """Full .vo build of the given targets (never -vos/-vok).  Returns (ok, output)."""
    with Lock("coq"):
        mk = os.path.join(COQ, "Makefile")
        proj = os.path.join(COQ, "_CoqProject")
        if not os.path.exists(mk) or os.path.getmtime(mk) < os.path.getmtime(proj):
            sh(["coq_makefile", "-f", "_CoqProject", "-o", "Makefile"], cwd=COQ, check=True)
        p = sh(["make", "-j%d" % NPROC] + targets, cwd=COQ, timeout=timeout)
        return p.returncode == 0, p.stdout + p.stderr


def coq_props(prop_file):
    """Compile Props/<file>.v directly (its dependencies are up to date) and return
    (ok, output) where output holds the Print Assumptions reports."""
    with Lock("coq"):
        p = sh(["coqc", "-Q", ".", "RS", "-w", "-notation-overridden,-deprecated", prop_file], cwd=COQ, timeout=900)
        return p.returncode == 0, p.stdout + p.stderr


def coqchk(prop_file):
    """Re-check the compiled property file and everything it depends on with Coq's independent
    checker; returns (ok, summary)."""
    mod = "RS." + prop_file[:-2].replace("/", ".")
    p = sh(["coqchk", "-silent", "-o", "-Q", ".", "RS", mod], cwd=COQ, timeout=1800)
    out = p.stdout + p.stderr
    summ = out[out.find("CONTEXT SUMMARY"):] if "CONTEXT SUMMARY" in out else out[-800:]
    need = ["Axioms: <none>", "type-in-type: <none>", "unsafe (co)fixpoints: <none>", "positivity is assumed: <none>"]
    ok = p.returncode == 0 and all(n in re.sub(r"\s+", " ", summ) for n in need)
    return ok, " ".join(summ.split())[:600]


ALLOWED_AXIOMS = set()   # stdlib-only development: expected to stay empty


def parse_assumptions(out):
    """Returns list of (theorem-ish chunk, axioms) for every Print Assumptions block."""
    closed = len(re.findall(r"Closed under the global context", out))
    axioms = []
    for m in re.finditer(r"Axioms:\s*\n(.*?)(?=\n\S|\Z)", out, flags=re.S):
        for line in m.group(1).splitlines():
            mm = re.match(r"\s*([\w.']+)\s*:", line)
            if mm:
                axioms.append(mm.group(1))
    return closed, axioms


def count_obligations(prop_path):
    txt = open(prop_path).read()
    txt = re.sub(r"\(\*.*?\*\)", "", txt, flags=re.S)
    thms = re.findall(r"^\s*(?:Theorem|Lemma|Corollary|Example)\s+([\w']+)", txt, flags=re.M)
    pins = re.findall(r"^\s*Check\s+([\w']+)\s*:", txt, flags=re.M)
    pa = re.findall(r"^\s*Print Assumptions\s+([\w']+)", txt, flags=re.M)
    return thms, pins, pa


# ----------------------------------------------------------------------------- ocaml driver
def build_driver():
    with Lock("ocaml"):
        od = os.path.join(VERIF, "ocaml")
        srcs = [os.path.join(od, f) for f in ("model.ml", "model.mli", "driver.ml")]
        h = hash_files(srcs)
        stamp = os.path.join(CACHE, "driver.stamp")
        if os.path.exists(os.path.join(od, "driver")) and os.path.exists(stamp) and open(stamp).read() == h:
            return
        sh(["ocamlfind", "ocamlopt", "-O2", "-w", "-a", "model.mli", "model.ml", "driver.ml", "-o", "driver"], cwd=od, check=True, timeout=600)
        open(stamp, "w").write(h)


DRIVER = os.path.join(VERIF, "ocaml", "driver")


# ----------------------------------------------------------------------------- harness
def featset_name(feats):
    return "none" if not feats else "+".join(sorted(feats))


def build_harness(feats, bins=("director",)):
    """cargo build of the harness against /repo's working tree for one rsactor feature set."""
    name = featset_name(feats)
    tdir = os.path.join(CACHE, "target", name)
    hd = os.path.join(VERIF, "harness")
    with Lock("cargo-" + name):
        lock_src = os.path.join(REPO, "Cargo.lock")
        lock_dst = os.path.join(hd, "Cargo.lock")
        if not os.path.exists(lock_dst):
            shutil.copy(lock_src, lock_dst)
        env = dict(ENV, CARGO_TARGET_DIR=tdir, RUSTFLAGS="--cfg rsactor_verif")
        cmd = ["cargo", "build", "--offline", "--quiet"]
        for b in bins:
            cmd += ["--bin", b]
        fl = [FEATURE_FLAGS[f] for f in sorted(feats)]
        if fl:
            cmd += ["--features", ",".join(fl)]
        p = sh(cmd, cwd=hd, env=env, timeout=1800)
        if p.returncode != 0:
            # a stale lockfile is the one thing worth a retry
            shutil.copy(lock_src, lock_dst)
            p = sh(cmd, cwd=hd, env=env, timeout=1800)
        if p.returncode != 0:
            raise RuntimeError("harness build failed (%s):\n%s" % (name, p.stderr[-6000:]))
    return {b: os.path.join(tdir, "debug", b) for b in bins}


def prune_cache(max_age_h=3.0, keep=120):
    """The observation cache is keyed by the content of /repo's working tree, so every edited tree
    leaves directories behind (thousands of small files each).  Drop those that have not been used
    for a few hours, and beyond `keep` directories the oldest ones - never a fresh one: another
    check may be filling it right now."""
    d = os.path.join(CACHE, "obs")
    try:
        ents = [(os.path.getmtime(os.path.join(d, e)), e) for e in os.listdir(d)]
    except OSError:
        return
    now = time.time()
    ents.sort(reverse=True)
    for i, (mt, e) in enumerate(ents):
        age_h = (now - mt) / 3600.0
        if age_h > max_age_h or (i >= keep and age_h > 0.5):
            shutil.rmtree(os.path.join(d, e), ignore_errors=True)
            try:
                os.remove(os.path.join(CACHE, "obs-%s.lock" % e))
            except OSError:
                pass


# ----------------------------------------------------------------------------- running scripts
def _run_shard(binary, shard, timeout):
    """Run one shard; if the process dies or hangs, fall back to one script at a time and mark
    the scripts that kill it (the observation file then says CRASH / HANG).  After a few such
    scripts the rest of the shard is not run (SKIPPED): a tree on which the director hangs has
    given its failing inputs, and every further hang only costs its timeout."""
    realtime = any("mode realtime" in open(f).read(300) for f in shard[:1])
    per = 45 if realtime else 15
    try:
        p = sh([binary] + shard, None, min(timeout, 60 + per * len(shard)))
        if p.returncode == 0:
            return
    except subprocess.TimeoutExpired:
        pass
    bad_seen = 0
    for f in shard:
        if os.path.exists(f + ".obs"):
            continue
        if bad_seen >= 3:
            bad = "SKIPPED the director was not run on this script: three earlier scripts of its shard crashed or hung"
        else:
            try:
                p = sh([binary, f], None, per)
                bad = None if p.returncode == 0 else "CRASH the director process died on this script (exit %d)" % p.returncode
            except subprocess.TimeoutExpired:
                bad = "HANG the director did not finish this script within %d s" % per
            if bad:
                bad_seen += 1
        if bad:
            open(f + ".obs", "w").write("R 1\n%s\nE\n" % bad)
            open(f + ".mon", "w").write(bad)


def run_director(binary, files, timeout=900):
    """Run the director on script files, sharded over NPROC processes."""
    for f in files:
        for ext in (".obs", ".mon"):
            if os.path.exists(f + ext):
                os.remove(f + ext)
    shards = [files[i::NPROC] for i in range(NPROC)]
    shards = [s for s in shards if s]
    with concurrent.futures.ThreadPoolExecutor(max_workers=NPROC) as ex:
        futs = [ex.submit(_run_shard, binary, s, timeout) for s in shards]
        for f in futs:
            f.result()


def accept(script, proj, observed=None):
    obs = observed or (script + ".obs")
    try:
        p = sh([DRIVER, "--script", script, "--observed", obs, "--proj", proj], timeout=120)
    except subprocess.TimeoutExpired:
        return None, {}, "model exploration exceeded its time budget (inconclusive)"
    m = re.search(r"ACCEPT rounds=(\d+) states=(\d+) transitions=(\d+) maxcand=(\d+)", p.stdout)
    if p.returncode == 0 and m:
        return True, dict(rounds=int(m.group(1)), states=int(m.group(2)), transitions=int(m.group(3)), maxcand=int(m.group(4))), p.stdout
    return False, {}, p.stdout + p.stderr


def accept_many(scripts, proj):
    with concurrent.futures.ThreadPoolExecutor(max_workers=NPROC) as ex:
        return list(ex.map(lambda s: accept(s, proj), scripts))


# ----------------------------------------------------------------------------- observations
def parse_obs(path):
    """Returns list of rounds; a round is dict key -> list of tokens."""
    rounds, cur = [], None
    for line in open(path):
        w = line.split()
        if not w:
            continue
        if w[0] == "R":
            cur = {}
        elif w[0] == "E":
            rounds.append(cur)
            cur = None
        elif cur is not None:
            cur[w[0]] = w[1:]
    return rounds


def tok(tokens, prefix):
    for t in tokens:
        if t.startswith(prefix):
            return t[len(prefix):]
    return None


def events(tokens):
    return [t[2:] for t in tokens if t.startswith("e:")]
