#!/bin/sh
# MANIFEST.setup_cmd: build everything once, offline, from files on disk.
set -e
cd "$(dirname "$0")/.."
export CARGO_NET_OFFLINE=true
python3 tools/extract_shape.py coq/Gen/Shape.v >/dev/null
cd coq
coq_makefile -f _CoqProject -o Makefile >/dev/null
timeout 3000 make -j16 >/dev/null
cd ..
python3 - <<'PY'
import sys
sys.path.insert(0, "tools")
import vlib
vlib.build_driver()
vlib.build_harness(())
PY
echo setup-ok
